package main

// Front-end mode: the kernel-facing operations of a history are issued through
// fuse.NewSimpleRawFileSystem (FUSE requests built in-process) or through
// NFSv4.0 COMPOUNDs against nfsv4.NewNFS40Program instead of calling the
// Directory interface directly.  The answers are translated back (errno /
// nfsstat4 -> status name, node id / file handle -> object, FUSE offsets and NFS
// cookies -> VirtualReadDir cookies) and then go through exactly the same
// comparison with the model and the same monitor as direct calls: a front end
// that maps a status, an entry or a cookie differently from the direct call
// disagrees with the model that was tied to the direct calls.

import (
	"bytes"
	"encoding/binary"
	"fmt"
	"syscall"

	"github.com/buildbarn/bb-remote-execution/pkg/filesystem/virtual"
	re_fuse "github.com/buildbarn/bb-remote-execution/pkg/filesystem/virtual/fuse"
	re_nfsv4 "github.com/buildbarn/bb-remote-execution/pkg/filesystem/virtual/nfsv4"
	"github.com/buildbarn/bb-storage/pkg/clock"
	"github.com/buildbarn/bb-storage/pkg/filesystem/path"
	"github.com/buildbarn/go-xdr/pkg/protocols/nfsv4"
	"github.com/hanwen/go-fuse/v2/fuse"

	"verifharness/internal/hx"
	"verifharness/internal/nfsx"
)

type frontEnds struct {
	kind string // "fuse" | "nfs"

	rfs        re_fuse.RawFileSystem
	fuseDirs   map[any]uint64 // directory object -> node id known to rfs
	fuseLeaves map[any]uint64

	nfs      nfsv4.Nfs4Program
	nfsHA    *virtual.NFSStatefulHandleAllocator
	verifier nfsv4.Verifier4
}

func inodeOf(p any) uint64 {
	var a virtual.Attributes
	p.(virtual.Node).VirtualGetAttributes(ctx, virtual.AttributesMaskInodeNumber, &a)
	return a.GetInodeNumber()
}

func handleOf(p any) []byte {
	var a virtual.Attributes
	p.(virtual.Node).VirtualGetAttributes(ctx, virtual.AttributesMaskFileHandle, &a)
	return append([]byte(nil), a.GetFileHandle()...)
}

// setupFrontEnds is called when the first root of a front-end history exists.
func (r *runner) setupFrontEnds(root virtual.PrepopulatedDirectory) {
	if r.nfs {
		ha := r.ha.(*virtual.NFSStatefulHandleAllocator)
		pool := re_nfsv4.NewOpenedFilesPool(ha.ResolveHandle)
		ver := nfsv4.Verifier4{4, 0}
		r.fe = &frontEnds{kind: "nfs", nfsHA: ha, verifier: ver,
			nfs: re_nfsv4.NewNFS40Program(root, pool, rng{hx.NewRand(r.seed + 4040)}, ver, [4]byte{0x76, 0x65, 0x72, 0x69},
				clock.SystemClock, nfsx.LeaseTime, nfsx.LeaseTime, path.UNIXFormat, nil)}
		return
	}
	r.fe = &frontEnds{kind: "fuse", fuseDirs: map[any]uint64{any(root): fuse.FUSE_ROOT_ID}, fuseLeaves: map[any]uint64{},
		rfs: re_fuse.NewSimpleRawFileSystem(root, func(virtual.FUSERemovalNotifier) {}, re_fuse.AllowAuthenticator)}
}

func fuseStatus(s fuse.Status) string {
	switch s {
	case fuse.OK:
		return "ok"
	case fuse.Status(syscall.EEXIST):
		return "exist"
	case fuse.EIO:
		return "io"
	case fuse.EISDIR:
		return "isdir"
	case fuse.ENOENT:
		return "noent"
	case fuse.ENOTDIR:
		return "notdir"
	case fuse.Status(syscall.ENOTEMPTY):
		return "notempty"
	case fuse.EPERM:
		return "perm"
	case fuse.Status(syscall.ESTALE):
		return "stale"
	case fuse.EXDEV:
		return "xdev"
	case fuse.Status(syscall.EOPNOTSUPP):
		return "symlink"
	}
	return fmt.Sprintf("errno%d", int(s))
}

func nfsStatus(s nfsv4.Nfsstat4) string {
	switch s {
	case nfsv4.NFS4_OK:
		return "ok"
	case nfsv4.NFS4ERR_EXIST:
		return "exist"
	case nfsv4.NFS4ERR_IO:
		return "io"
	case nfsv4.NFS4ERR_ISDIR:
		return "isdir"
	case nfsv4.NFS4ERR_NOENT:
		return "noent"
	case nfsv4.NFS4ERR_NOTDIR:
		return "notdir"
	case nfsv4.NFS4ERR_NOTEMPTY:
		return "notempty"
	case nfsv4.NFS4ERR_PERM:
		return "perm"
	case nfsv4.NFS4ERR_STALE:
		return "stale"
	case nfsv4.NFS4ERR_XDEV:
		return "xdev"
	case nfsv4.NFS4ERR_SYMLINK:
		return "symlink"
	}
	return fmt.Sprintf("nfsstat%d", int(s))
}

// disagree records that a front end and the directory it serves do not agree.
func (r *runner) disagree(op, what string) implOut {
	r.mismatch("front ends agree with the direct Virtual* calls ("+r.fe.kind+")", op+": "+what, "", "")
	return implOut{status: "front-end-disagrees"}
}

// childObject fetches the object stored under name n in d with a direct,
// read-only call (d has been materialised by the front-end call before).
func childObject(d any, n int) (any, bool, bool) {
	c, err := dirOf(d).LookupChild(comp(n))
	if err != nil {
		return nil, false, false
	}
	cd, cl := c.GetPair()
	if cd != nil {
		return cd, true, true
	}
	return cl, false, true
}

func hdr(node uint64) fuse.InHeader { return fuse.InHeader{NodeId: node} }

// fuseChild: the node a FUSE reply names must be the object that is in the directory now.
func (r *runner) fuseChild(op string, d any, n int, out *fuse.EntryOut) (implOut, bool) {
	obj, isDir, ok := childObject(d, n)
	if !ok {
		return r.disagree(op, "the entry the FUSE reply names is not in the directory"), false
	}
	if out.NodeId != inodeOf(obj) || out.Ino != out.NodeId {
		return r.disagree(op, fmt.Sprintf("FUSE reply names node %d, the entry is inode %d", out.NodeId, inodeOf(obj))), false
	}
	if isDir {
		r.fe.fuseDirs[obj] = out.NodeId
	} else {
		r.fe.fuseLeaves[obj] = out.NodeId
	}
	return implOut{status: "ok", hasChild: true, child: obj, childIsDir: isDir}, true
}

// nfsRun issues a compound and returns its status name and results.
func (r *runner) nfsRun(ops ...nfsv4.NfsArgop4) (string, *nfsv4.Compound4res) {
	res, err := nfsx.Compound(r.fe.nfs, 0, ops...)
	if err != nil {
		return "panic", nil
	}
	return nfsStatus(res.Status), res
}

func (r *runner) nfsObject(op string, res *nfsv4.Compound4res) (implOut, bool) {
	for _, x := range res.Resarray {
		if g, ok := x.(*nfsv4.NfsResop4_OP_GETFH); ok {
			if okRes, ok := g.Opgetfh.(*nfsv4.Getfh4res_NFS4_OK); ok {
				c, s := r.fe.nfsHA.ResolveHandle(bytes.NewReader(okRes.Resok4.Object))
				if s != virtual.StatusOK {
					return r.disagree(op, "the file handle of the reply does not resolve"), false
				}
				if cd, cl := c.GetPair(); cd != nil {
					return implOut{status: "ok", hasChild: true, child: cd, childIsDir: true}, true
				} else {
					return implOut{status: "ok", hasChild: true, child: cl}, true
				}
			}
		}
	}
	return r.disagree(op, "no file handle in the reply"), false
}

// usable: can operations on directory d go through the front end?
func (r *runner) feDir(d any, rd *rdir) (uint64, []byte, bool) {
	if r.fe == nil || r.park != nil {
		return 0, nil, false
	}
	if r.fe.kind == "fuse" {
		node, ok := r.fe.fuseDirs[d]
		return node, nil, ok
	}
	if rd == nil || rd.removed { // the handle of a removed directory no longer resolves
		return 0, nil, false
	}
	return 0, handleOf(d), true
}

func (r *runner) feMkdir(line string, d any, rd *rdir, n int) (implOut, bool) {
	node, fh, ok := r.feDir(d, rd)
	if !ok {
		return implOut{}, false
	}
	r.counts["fe-"+r.fe.kind+"-mkdir"]++
	if r.fe.kind == "fuse" {
		var out fuse.EntryOut
		s := r.fe.rfs.Mkdir(nil, &fuse.MkdirIn{InHeader: hdr(node), Mode: 0o777}, names[n], &out)
		if s != fuse.OK {
			return implOut{status: fuseStatus(s)}, true
		}
		o, _ := r.fuseChild(line, d, n, &out)
		return o, true
	}
	st, res := r.nfsRun(nfsx.PutFH(fh), &nfsv4.NfsArgop4_OP_CREATE{Opcreate: nfsv4.Create4args{Objtype: &nfsv4.Createtype4_NF4DIR{}, Objname: names[n]}}, nfsx.GetFH())
	if st != "ok" {
		return implOut{status: st}, true
	}
	o, ok := r.nfsObject(line, res)
	if ok {
		ci := res.Resarray[1].(*nfsv4.NfsResop4_OP_CREATE).Opcreate.(*nfsv4.Create4res_NFS4_OK).Resok4.Cinfo
		o.ci = [][2]uint64{{ci.Before, ci.After}}
	}
	return o, true
}

func (r *runner) feMknod(line string, d any, rd *rdir, n, k int) (implOut, bool) {
	node, fh, ok := r.feDir(d, rd)
	if !ok || (r.fe.kind == "fuse" && k == 4) { // FUSE Mknod refuses other types before it looks at the directory
		return implOut{}, false
	}
	r.counts["fe-"+r.fe.kind+"-mknod"]++
	r.symlinkSeq++
	target := fmt.Sprintf("t%d", r.symlinkSeq)
	if r.fe.kind == "fuse" {
		var out fuse.EntryOut
		var s fuse.Status
		switch k {
		case 1:
			s = r.fe.rfs.Mknod(nil, &fuse.MknodIn{InHeader: hdr(node), Mode: syscall.S_IFIFO | 0o666}, names[n], &out)
		case 2:
			s = r.fe.rfs.Mknod(nil, &fuse.MknodIn{InHeader: hdr(node), Mode: syscall.S_IFSOCK | 0o666}, names[n], &out)
		default:
			h := hdr(node)
			s = r.fe.rfs.Symlink(nil, &h, target, names[n], &out)
		}
		if s != fuse.OK {
			return implOut{status: fuseStatus(s)}, true
		}
		o, _ := r.fuseChild(line, d, n, &out)
		return o, true
	}
	var ty nfsv4.Createtype4
	switch k {
	case 1:
		ty = &nfsv4.Createtype4_NF4FIFO{}
	case 2:
		ty = &nfsv4.Createtype4_NF4SOCK{}
	case 3:
		ty = &nfsv4.Createtype4_NF4LNK{Linkdata: []byte(target)}
	default:
		ty = &nfsv4.Createtype4_NF4BLK{}
	}
	st, res := r.nfsRun(nfsx.PutFH(fh), &nfsv4.NfsArgop4_OP_CREATE{Opcreate: nfsv4.Create4args{Objtype: ty, Objname: names[n]}}, nfsx.GetFH())
	if st != "ok" {
		return implOut{status: st}, true
	}
	o, ok := r.nfsObject(line, res)
	if ok {
		ci := res.Resarray[1].(*nfsv4.NfsResop4_OP_CREATE).Opcreate.(*nfsv4.Create4res_NFS4_OK).Resok4.Cinfo
		o.ci = [][2]uint64{{ci.Before, ci.After}}
	}
	return o, true
}

// feOpen: FUSE CREATE (always with create attributes; O_EXCL when no existing file may be opened).
func (r *runner) feOpen(line string, d any, rd *rdir, n int, create, existing bool) (implOut, bool) {
	node, _, ok := r.feDir(d, rd)
	if !ok || r.fe.kind != "fuse" || !create {
		return implOut{}, false
	}
	r.counts["fe-fuse-create"]++
	flags := uint32(syscall.O_RDONLY)
	if !existing {
		flags |= syscall.O_EXCL
	}
	var out fuse.CreateOut
	s := r.fe.rfs.Create(nil, &fuse.CreateIn{InHeader: hdr(node), Flags: flags, Mode: 0o644}, names[n], &out)
	if s != fuse.OK {
		return implOut{status: fuseStatus(s)}, true
	}
	o, ok := r.fuseChild(line, d, n, &out.EntryOut)
	if ok {
		r.fe.rfs.Release(nil, &fuse.ReleaseIn{InHeader: hdr(out.NodeId), Flags: uint32(syscall.O_RDONLY)})
	}
	return o, true
}

func (r *runner) feLink(line string, d any, rd *rdir, n int, l any, rl *rleaf) (implOut, bool) {
	node, fh, ok := r.feDir(d, rd)
	if !ok {
		return implOut{}, false
	}
	if r.fe.kind == "fuse" {
		ln, known := r.fe.fuseLeaves[l]
		if !known {
			return implOut{}, false
		}
		r.counts["fe-fuse-link"]++
		var out fuse.EntryOut
		s := r.fe.rfs.Link(nil, &fuse.LinkIn{InHeader: hdr(node), Oldnodeid: ln}, names[n], &out)
		if s != fuse.OK {
			return implOut{status: fuseStatus(s)}, true
		}
		if out.NodeId != ln {
			return r.disagree(line, "FUSE LINK reply names another node"), true
		}
		return implOut{status: "ok"}, true
	}
	if r.ref.nlink(rl) == 0 { // the handle of a fully unlinked file no longer resolves
		return implOut{}, false
	}
	r.counts["fe-nfs-link"]++
	st, res := r.nfsRun(nfsx.PutFH(handleOf(l)), &nfsv4.NfsArgop4_OP_SAVEFH{}, nfsx.PutFH(fh),
		&nfsv4.NfsArgop4_OP_LINK{Oplink: nfsv4.Link4args{Newname: names[n]}})
	if st != "ok" {
		return implOut{status: st}, true
	}
	ci := res.Resarray[3].(*nfsv4.NfsResop4_OP_LINK).Oplink.(*nfsv4.Link4res_NFS4_OK).Resok4.Cinfo
	return implOut{status: "ok", ci: [][2]uint64{{ci.Before, ci.After}}}, true
}

func (r *runner) feLookup(line string, d any, rd *rdir, n int) (implOut, bool) {
	node, fh, ok := r.feDir(d, rd)
	if !ok {
		return implOut{}, false
	}
	if e, ok := rd.ents[r.ref.norm[n]]; r.fe.kind == "nfs" && ok && e.dir != nil && e.dir.removed {
		// a directory tombstoned by RemoveAllChildren(true) while still attached has
		// given up its file handle: NFS clients get a handle that no longer resolves
		return implOut{}, false
	}
	r.counts["fe-"+r.fe.kind+"-lookup"]++
	var o implOut
	if r.fe.kind == "fuse" {
		var out fuse.EntryOut
		h := hdr(node)
		s := r.fe.rfs.Lookup(nil, &h, names[n], &out)
		if s != fuse.OK {
			return implOut{status: fuseStatus(s)}, true
		}
		if o, ok = r.fuseChild(line, d, n, &out); !ok {
			return o, true
		}
		if !o.childIsDir && uint64(out.Nlink) != linkCount(o.child) {
			return r.disagree(line, "FUSE LOOKUP reports another link count than the file"), true
		}
	} else {
		st, res := r.nfsRun(nfsx.PutFH(fh), nfsx.Lookup(names[n]), nfsx.GetFH())
		if st != "ok" {
			return implOut{status: st}, true
		}
		if o, ok = r.nfsObject(line, res); !ok {
			return o, true
		}
	}
	var a uint64
	if o.childIsDir {
		a = changeID(o.child)
	} else {
		a = linkCount(o.child)
	}
	o.aux = &a
	return o, true
}

// fuseList collects one page; "." and ".." are taken without being counted.
type fuseList struct {
	k       int
	entries []fuse.DirEntry
	outs    []*fuse.EntryOut
	dots    int
}

func (l *fuseList) AddDirEntry(e fuse.DirEntry) bool {
	if e.Name == "." || e.Name == ".." {
		l.dots++
		return true
	}
	if len(l.entries) >= l.k {
		return false
	}
	l.entries = append(l.entries, e)
	l.outs = append(l.outs, nil)
	return true
}

func (l *fuseList) AddDirLookupEntry(e fuse.DirEntry) *fuse.EntryOut {
	if e.Name == "." || e.Name == ".." {
		l.dots++
		return &fuse.EntryOut{}
	}
	if len(l.entries) >= l.k {
		return nil
	}
	out := &fuse.EntryOut{}
	l.entries = append(l.entries, e)
	l.outs = append(l.outs, out)
	return out
}

func (r *runner) feReaddir(line string, d any, rd *rdir, c, k int) (implOut, bool) {
	node, fh, ok := r.feDir(d, rd)
	if !ok {
		return implOut{}, false
	}
	o := implOut{status: "ok"}
	if r.fe.kind == "fuse" {
		// offsets 0 and 1 are "." and ".."; cookie c is offset c+2
		off := uint64(c) + 2
		if c == 0 && r.opIndex%3 == 0 {
			off = uint64(r.opIndex % 2)
		}
		l := &fuseList{k: k}
		in := &fuse.ReadIn{InHeader: hdr(node), Offset: off}
		var s fuse.Status
		plus := r.opIndex%2 == 0
		if plus {
			r.counts["fe-fuse-readdirplus"]++
			s = r.fe.rfs.ReadDirPlus(nil, in, l)
		} else {
			r.counts["fe-fuse-readdir"]++
			s = r.fe.rfs.ReadDir(nil, in, l)
		}
		if s != fuse.OK {
			return implOut{status: fuseStatus(s)}, true
		}
		if off < 2 && l.dots != int(2-off) {
			return r.disagree(line, "FUSE listing from the start does not begin with . and .."), true
		}
		for i, e := range l.entries {
			n := nameID(e.Name)
			if n < 0 || e.Off < 2 {
				return r.disagree(line, "FUSE listing has an entry with a bad name or offset"), true
			}
			obj, isDir, ok := childObject(d, n)
			if !ok || inodeOf(obj) != e.Ino || (plus && (l.outs[i].NodeId != e.Ino)) {
				return r.disagree(line, fmt.Sprintf("FUSE listing: entry %s does not name the object in the directory", e.Name)), true
			}
			if isDir != (e.Mode&syscall.S_IFMT == syscall.S_IFDIR) {
				return r.disagree(line, fmt.Sprintf("FUSE listing: entry %s has the wrong file type", e.Name)), true
			}
			if plus {
				if isDir {
					r.fe.fuseDirs[obj] = e.Ino
				} else {
					r.fe.fuseLeaves[obj] = e.Ino
				}
			}
			o.reports = append(o.reports, irep{cookie: e.Off - 2, name: n, child: obj, isDir: isDir})
		}
		return o, true
	}
	r.counts["fe-nfs-readdir"]++
	// every name is at most 3 bytes: 8 bytes of component + 8 bytes of cookie per entry
	args := nfsv4.Readdir4args{Dircount: uint32(16 * k), Maxcount: 1 << 20,
		AttrRequest: []uint32{1<<nfsv4.FATTR4_CHANGE | 1<<nfsv4.FATTR4_FILEID}}
	if c > 0 {
		args.Cookie, args.Cookieverf = uint64(c)+2, r.fe.verifier
	}
	st, res := r.nfsRun(nfsx.PutFH(fh), &nfsv4.NfsArgop4_OP_READDIR{Opreaddir: args})
	if st != "ok" {
		return implOut{status: st}, true
	}
	rr := res.Resarray[1].(*nfsv4.NfsResop4_OP_READDIR).Opreaddir.(*nfsv4.Readdir4res_NFS4_OK).Resok4
	count := 0
	for e := rr.Reply.Entries; e != nil; e = e.Nextentry {
		count++
		n := nameID(e.Name)
		if n < 0 || e.Cookie <= 2 || len(e.Attrs.AttrVals) != 16 {
			return r.disagree(line, "NFS READDIR has an entry with a bad name, cookie or attributes"), true
		}
		obj, isDir, ok := childObject(d, n)
		if !ok || inodeOf(obj) != binary.BigEndian.Uint64(e.Attrs.AttrVals[8:]) {
			return r.disagree(line, fmt.Sprintf("NFS READDIR: entry %s does not name the object in the directory", e.Name)), true
		}
		o.reports = append(o.reports, irep{cookie: e.Cookie - 2, name: n, child: obj, isDir: isDir})
	}
	if rr.Reply.Eof && count == k {
		// eof with a full page is fine; nothing to check
	}
	if !rr.Reply.Eof && count < k {
		return r.disagree(line, "NFS READDIR stopped early without eof"), true
	}
	return o, true
}

func (r *runner) feRename(line string, d any, rd *rdir, n int, d2 any, rd2 *rdir, n2 int) (implOut, bool) {
	node, fh, ok := r.feDir(d, rd)
	node2, fh2, ok2 := r.feDir(d2, rd2)
	if !ok || !ok2 {
		return implOut{}, false
	}
	r.counts["fe-"+r.fe.kind+"-rename"]++
	if r.fe.kind == "fuse" {
		s := r.fe.rfs.Rename(nil, &fuse.RenameIn{InHeader: hdr(node), Newdir: node2}, names[n], names[n2])
		return implOut{status: fuseStatus(s)}, true
	}
	st, res := r.nfsRun(nfsx.PutFH(fh), &nfsv4.NfsArgop4_OP_SAVEFH{}, nfsx.PutFH(fh2),
		&nfsv4.NfsArgop4_OP_RENAME{Oprename: nfsv4.Rename4args{Oldname: names[n], Newname: names[n2]}})
	if st != "ok" {
		return implOut{status: st}, true
	}
	ok4 := res.Resarray[3].(*nfsv4.NfsResop4_OP_RENAME).Oprename.(*nfsv4.Rename4res_NFS4_OK).Resok4
	return implOut{status: "ok", ci: [][2]uint64{{ok4.SourceCinfo.Before, ok4.SourceCinfo.After}, {ok4.TargetCinfo.Before, ok4.TargetCinfo.After}}}, true
}

func (r *runner) feRemove(line string, d any, rd *rdir, n int, rmDir, rmLeaf bool) (implOut, bool) {
	node, fh, ok := r.feDir(d, rd)
	if !ok {
		return implOut{}, false
	}
	if r.fe.kind == "fuse" {
		h := hdr(node)
		switch {
		case rmLeaf && !rmDir:
			r.counts["fe-fuse-unlink"]++
			return implOut{status: fuseStatus(r.fe.rfs.Unlink(nil, &h, names[n]))}, true
		case rmDir && !rmLeaf:
			r.counts["fe-fuse-rmdir"]++
			return implOut{status: fuseStatus(r.fe.rfs.Rmdir(nil, &h, names[n]))}, true
		}
		return implOut{}, false
	}
	if !rmDir || !rmLeaf {
		return implOut{}, false
	}
	r.counts["fe-nfs-remove"]++
	st, res := r.nfsRun(nfsx.PutFH(fh), nfsx.Remove(names[n]))
	if st != "ok" {
		return implOut{status: st}, true
	}
	ci := res.Resarray[1].(*nfsv4.NfsResop4_OP_REMOVE).Opremove.(*nfsv4.Remove4res_NFS4_OK).Resok4.Cinfo
	return implOut{status: "ok", ci: [][2]uint64{{ci.Before, ci.After}}}, true
}
