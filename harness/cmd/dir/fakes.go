package main

import (
	"errors"
	"io"

	"github.com/buildbarn/bb-remote-execution/pkg/filesystem/pool"
	"github.com/buildbarn/bb-remote-execution/pkg/filesystem/virtual"
	"github.com/buildbarn/bb-storage/pkg/filesystem"
	"github.com/buildbarn/bb-storage/pkg/filesystem/path"

	"verifharness/internal/hx"
)

// rng adapts hx.Rand to bb-storage's random generator interfaces (inode
// numbers and file handles only; never compared).
type rng struct{ r *hx.Rand }

func (g rng) Float64() float64     { return float64(g.r.Uint64()>>11) / (1 << 53) }
func (g rng) Int64N(n int64) int64 { return int64(g.r.Uint64() % uint64(n)) }
func (g rng) IntN(n int) int       { return g.r.Intn(n) }
func (g rng) Uint32() uint32       { return uint32(g.r.Uint64()) }
func (g rng) Uint64() uint64       { return g.r.Uint64() }
func (g rng) IsThreadSafe()        {}
func (g rng) Read(p []byte) (int, error) {
	for i := range p {
		p[i] = byte(g.r.Uint64())
	}
	return len(p), nil
}

func (g rng) Shuffle(n int, swap func(i, j int)) {
	for i := n - 1; i > 0; i-- {
		swap(i, g.r.Intn(i+1))
	}
}

// memFile is an in-memory pool file.
type memFile struct{ data []byte }

func (f *memFile) Close() error { return nil }
func (f *memFile) ReadAt(p []byte, off int64) (int, error) {
	if off >= int64(len(f.data)) {
		return 0, io.EOF
	}
	n := copy(p, f.data[off:])
	if n < len(p) {
		return n, io.EOF
	}
	return n, nil
}

func (f *memFile) WriteAt(p []byte, off int64) (int, error) {
	if end := off + int64(len(p)); end > int64(len(f.data)) {
		f.data = append(f.data, make([]byte, end-int64(len(f.data)))...)
	}
	return copy(f.data[off:], p), nil
}
func (f *memFile) Sync() error { return nil }
func (f *memFile) Truncate(size int64) error {
	if size <= int64(len(f.data)) {
		f.data = f.data[:size]
	} else {
		f.data = append(f.data, make([]byte, size-int64(len(f.data)))...)
	}
	return nil
}
func (f *memFile) Len() (int64, error) { return int64(len(f.data)), nil }
func (f *memFile) GetNextRegionOffset(off int64, rt filesystem.RegionType) (int64, error) {
	if off >= int64(len(f.data)) {
		return 0, io.EOF
	}
	if rt == filesystem.Data {
		return off, nil
	}
	return int64(len(f.data)), nil
}

type memPool struct{}

func (memPool) NewFile(holeSource pool.HoleSource, size uint64) (filesystem.FileReadWriter, error) {
	return &memFile{data: make([]byte, size)}, nil
}

type nullLogger struct{}

func (nullLogger) Log(err error) {}

var errInjected = errors.New("injected failure")

// failingFileAllocator fails while *fail is set (models an exhausted pool).
type failingFileAllocator struct {
	base virtual.FileAllocator
	fail *bool
}

func (fa failingFileAllocator) NewFile(holeSource pool.HoleSource, isExecutable bool, size uint64, shareAccess virtual.ShareMask) (virtual.LinkableLeaf, error) {
	if *fa.fail {
		return nil, errInjected
	}
	return fa.base.NewFile(holeSource, isExecutable, size, shareAccess)
}

// statefulSymlinkFactory gives every symlink its own stateful handle, so that
// Link()/Unlink() calls on symlinks are counted by the real handle allocator.
type statefulSymlinkFactory struct {
	base      virtual.SymlinkFactory
	allocator virtual.StatefulHandleAllocator
	fail      *bool
}

func (sf statefulSymlinkFactory) LookupSymlink(target path.Parser) (virtual.LinkableLeaf, error) {
	if *sf.fail {
		return nil, errInjected
	}
	l, err := sf.base.LookupSymlink(target)
	if err != nil {
		return nil, err
	}
	return sf.allocator.New().AsLinkableLeaf(l), nil
}

// fetcher is an InitialContentsFetcher with fixed children that fails while
// *fail is set.
//
// When gate is set, FetchContents first announces itself on entered and then
// waits for the gate: the directory that is being initialised keeps its lock
// for that long (concurrent-listing mode).
type fetcher struct {
	children map[path.Component]virtual.InitialChild
	fail     *bool
	fetched  int
	gate     chan struct{}
	entered  chan struct{}
}

func (f *fetcher) FetchContents(fileReadMonitorFactory virtual.FileReadMonitorFactory) (map[path.Component]virtual.InitialChild, error) {
	if g := f.gate; g != nil {
		close(f.entered)
		<-g
	}
	if *f.fail {
		return nil, errInjected
	}
	f.fetched++
	return f.children, nil
}

func (f *fetcher) VirtualApply(data any) bool { return false }
