package main

import (
	"context"
	"crypto/sha256"
	"encoding/hex"
	"fmt"
	"strconv"

	remoteexecution "github.com/bazelbuild/remote-apis/build/bazel/remote/execution/v2"
	"github.com/buildbarn/bb-remote-execution/pkg/cas"
	"github.com/buildbarn/bb-remote-execution/pkg/filesystem/access"
	"github.com/buildbarn/bb-remote-execution/pkg/filesystem/virtual"
	"github.com/buildbarn/bb-storage/pkg/digest"
	"github.com/buildbarn/bb-storage/pkg/eviction"
	"github.com/buildbarn/bb-storage/pkg/filesystem/path"
	"google.golang.org/grpc/codes"
	"google.golang.org/grpc/status"
	"google.golang.org/protobuf/proto"
)

// ---- part B: one FetchContents call with leaf accounting --------------------

type countingLeaf struct {
	virtual.LinkableLeaf
	unlinks int
}

func (l *countingLeaf) Unlink() {
	l.unlinks++
	l.LinkableLeaf.Unlink()
}

type countingCASFileFactory struct {
	base   virtual.CASFileFactory
	leaves []*countingLeaf
}

func (f *countingCASFileFactory) LookupFile(d digest.Digest, isExecutable bool, readMonitor virtual.FileReadMonitor) virtual.LinkableLeaf {
	l := &countingLeaf{LinkableLeaf: f.base.LookupFile(d, isExecutable, readMonitor)}
	f.leaves = append(f.leaves, l)
	return l
}

type countingSymlinkFactory struct {
	base   virtual.SymlinkFactory
	leaves []*countingLeaf
}

func (f *countingSymlinkFactory) LookupSymlink(target path.Parser) (virtual.LinkableLeaf, error) {
	b, err := f.base.LookupSymlink(target)
	if err != nil {
		return nil, err
	}
	l := &countingLeaf{LinkableLeaf: b}
	f.leaves = append(f.leaves, l)
	return l, nil
}

// execFetch calls FetchContents of a fresh casInitialContentsFetcher for one
// digest. Result: `ok unlinked=n [listing]` or `err:code balanced|leaked ...`;
// `twice` reports a leaf that was unlinked more than once.
func (r *rig) execFetch(hash string, size int64, monitored bool) (out string, twice bool) {
	d, err := r.digestOf(hash, size)
	if err != nil {
		return "bad-op", false
	}
	cf := &countingCASFileFactory{base: virtual.NewStatelessHandleAllocatingCASFileFactory(
		virtual.NewBlobAccessCASFileFactory(r.ctx, r.cas, r.logger), r.ha.New())}
	sf := &countingSymlinkFactory{base: r.symlinks}
	icf := virtual.NewCASInitialContentsFetcher(r.ctx, cas.NewDecomposedDirectoryWalker(r.fetcher, d), cf, sf, r.df)
	if monitored {
		icf = virtual.NewAccessMonitoringInitialContentsFetcher(icf, access.NewBloomFilterComputingUnreadDirectoryMonitor())
	}
	children, ferr := icf.FetchContents(func(name path.Component) virtual.FileReadMonitor { return nil })
	created, unlinked := 0, 0
	for _, l := range append(append([]*countingLeaf(nil), cf.leaves...), sf.leaves...) {
		created++
		unlinked += l.unlinks
		if l.unlinks > 1 {
			twice = true
		}
	}
	if ferr != nil {
		if created == unlinked {
			return errName(ferr) + " balanced", twice
		}
		return fmt.Sprintf("%s leaked created=%d unlinked=%d", errName(ferr), created, unlinked), twice
	}
	rp := &reporter{r: r}
	for name, child := range children {
		dir, leaf := child.GetPair()
		if dir != nil {
			rp.names = append(rp.names, name.String())
			rp.entries = append(rp.entries, tokBytes(name.String())+"=dir")
			continue
		}
		var a virtual.Attributes
		leaf.VirtualGetAttributes(r.ctx, r.mask, &a)
		rp.names = append(rp.names, name.String())
		rp.entries = append(rp.entries, tokBytes(name.String())+"="+r.kindOfLeaf(leaf, &a))
	}
	return fmt.Sprintf("ok unlinked=%d [%s]", unlinked, joinComma(rp.sorted())), twice
}

func joinComma(xs []string) string {
	s := ""
	for i, x := range xs {
		if i > 0 {
			s += ","
		}
		s += x
	}
	return s
}

// refFetch: what the property demands of one fetch (fault-free).
func refFetch(blobs map[string][]byte, hashLen int, hash string, size int64) (result string, ok bool) {
	d := refDecode(blobs, hashLen, hash, size, 0)
	if d.bad != "" {
		return "err:" + d.bad, false
	}
	return d.listing(), true
}

// ---- part C: the caching directory fetcher over a scripted base ---------------

const cacheDigests = 6

type scriptedBase struct {
	next   *remoteexecution.Directory
	fail   bool
	called int
}

func (b *scriptedBase) answer() (*remoteexecution.Directory, error) {
	b.called++
	if b.fail {
		return nil, status.Error(codes.Unavailable, "scripted base failure")
	}
	return b.next, nil
}

func (b *scriptedBase) GetDirectory(ctx context.Context, d digest.Digest) (*remoteexecution.Directory, error) {
	return b.answer()
}

func (b *scriptedBase) GetTreeRootDirectory(ctx context.Context, d digest.Digest) (*remoteexecution.Directory, error) {
	return b.answer()
}

func (b *scriptedBase) GetTreeChildDirectory(ctx context.Context, t, c digest.Digest) (*remoteexecution.Directory, error) {
	return b.answer()
}

type cacheRig struct {
	base    *scriptedBase
	fetcher cas.DirectoryFetcher
	digs    []digest.Digest
	msgDir  []*remoteexecution.Directory // id 100+i: THE Directory with digest i
	msgRoot []*remoteexecution.Directory // id 200+i: root directory of the Tree with digest i
}

func newCacheRig(maxCount int, maxSize int64, evict string) *cacheRig {
	c := &cacheRig{base: &scriptedBase{}}
	df := digest.MustNewFunction("verif", remoteexecution.DigestFunction_SHA256)
	for i := 0; i < cacheDigests; i++ {
		h := sha256.Sum256([]byte(fmt.Sprintf("cache-digest-%d", i)))
		d, err := df.NewDigest(hex.EncodeToString(h[:]), int64(10+i))
		if err != nil {
			panic(err)
		}
		c.digs = append(c.digs, d)
		c.msgDir = append(c.msgDir, &remoteexecution.Directory{Symlinks: []*remoteexecution.SymlinkNode{{Name: fmt.Sprintf("directory-%d", i), Target: "d"}}})
		c.msgRoot = append(c.msgRoot, &remoteexecution.Directory{Symlinks: []*remoteexecution.SymlinkNode{{Name: fmt.Sprintf("tree-root-%d", i), Target: "r"}}})
	}
	var set cas.CachingDirectoryFetcherEvictionSet
	switch evict {
	default:
		set = eviction.NewLRUSet[cas.CachingDirectoryFetcherKey]()
	}
	c.fetcher = cas.NewCachingDirectoryFetcher(c.base, digest.KeyWithoutInstance, maxCount, maxSize, set)
	return c
}

func (c *cacheRig) rootSize(t int) int { return proto.Size(c.msgRoot[t]) }

func (c *cacheRig) idOf(m *remoteexecution.Directory) string {
	for i := range c.msgDir {
		if m == c.msgDir[i] {
			return strconv.Itoa(100 + i)
		}
		if m == c.msgRoot[i] {
			return strconv.Itoa(200 + i)
		}
	}
	return "unknown-object"
}

// get performs one call. base "-" = the base fetcher fails if it is asked.
func (c *cacheRig) get(kind, t, ch int, base string) (out string, expectedID string) {
	if t < 0 || t >= cacheDigests || ch < 0 || ch >= cacheDigests {
		return "bad-op", ""
	}
	c.base.called, c.base.fail, c.base.next = 0, base == "-", nil
	ctx := context.Background()
	var m *remoteexecution.Directory
	var err error
	switch kind {
	case 0:
		c.base.next, expectedID = c.msgDir[ch], strconv.Itoa(100+ch)
		m, err = c.fetcher.GetDirectory(ctx, c.digs[ch])
	case 1:
		c.base.next, expectedID = c.msgRoot[t], strconv.Itoa(200+t)
		m, err = c.fetcher.GetTreeRootDirectory(ctx, c.digs[t])
	case 2:
		c.base.next, expectedID = c.msgDir[ch], strconv.Itoa(100+ch)
		m, err = c.fetcher.GetTreeChildDirectory(ctx, c.digs[t], c.digs[ch])
	default:
		return "bad-op", ""
	}
	if err != nil {
		if c.base.called == 0 {
			return "error-without-asking-base", expectedID
		}
		return "error", expectedID
	}
	if c.base.called == 0 {
		return "hit " + c.idOf(m), expectedID
	}
	return "miss " + c.idOf(m), expectedID
}
