package main

import (
	"fmt"
	"strconv"
	"strings"

	remoteexecution "github.com/bazelbuild/remote-apis/build/bazel/remote/execution/v2"
	"github.com/buildbarn/bb-storage/pkg/digest"

	"verifharness/internal/hx"
)

var validNames = []string{"a", "b", "c", "d", "e", "lib", "x.txt", "Foo", "foo", "\xc3\xbc", "a b", "...", ".hidden", "y", "z9"}
var invalidNames = []string{"", ".", "..", "a/b", "a\x00b", "/"}
var goodTargets = []string{"t", "../x", "/abs/path", "a/b/c", ".", "..", "lib/x.txt"}

type genDir struct {
	hash  string
	size  int64
	depth int
	kind  string // ok | malformed | garbage | missing
}

type genFile struct {
	hash string
	size int64
}

type generator struct {
	rnd     *hx.Rand
	df      digest.Function
	hashLen int
	lines   []string
	dirs    []genDir
	files   []genFile
	blobs   map[string][]byte // generator-side CAS for the reference
	allDigs []string          // tokens of all digests (for fault sets)
}

func (g *generator) sum(b []byte) (string, int64) {
	gen := g.df.NewGenerator(int64(len(b)))
	gen.Write(b)
	d := gen.Sum()
	return d.GetHashString(), d.GetSizeBytes()
}

func (g *generator) addDir(m *remoteexecution.Directory, depth int, kind string, store bool) genDir {
	b := marshalDir(m)
	h, s := g.sum(b)
	d := genDir{hash: h, size: s, depth: depth, kind: kind}
	for _, e := range g.dirs {
		if e.hash == h && e.size == s {
			return e
		}
	}
	if store {
		g.blobs[casKeyOf(h, s)] = b
		g.lines = append(g.lines, dirLine(h, s, m))
	}
	g.dirs = append(g.dirs, d)
	g.allDigs = append(g.allDigs, tokDig(h, s))
	return d
}

func (g *generator) badDigest(good *remoteexecution.Digest) *remoteexecution.Digest {
	switch g.rnd.Intn(7) {
	case 0:
		return nil
	case 1:
		return &remoteexecution.Digest{Hash: good.Hash[:len(good.Hash)-1], SizeBytes: good.SizeBytes}
	case 2:
		return &remoteexecution.Digest{Hash: strings.ToUpper(good.Hash[:1]) + "A" + good.Hash[2:], SizeBytes: good.SizeBytes}
	case 3:
		return &remoteexecution.Digest{Hash: "g" + good.Hash[1:], SizeBytes: good.SizeBytes}
	case 4:
		return &remoteexecution.Digest{Hash: good.Hash, SizeBytes: -1 - int64(g.rnd.Intn(5))}
	case 5:
		return &remoteexecution.Digest{Hash: "", SizeBytes: good.SizeBytes}
	}
	return &remoteexecution.Digest{Hash: good.Hash + "0", SizeBytes: good.SizeBytes}
}

// genDAG fills the CAS: file blobs, then directories bottom-up with sharing.
func (g *generator) genDAG(maxDepth, nDirs int) genDir {
	r := g.rnd
	nb := 2 + r.Intn(5)
	for i := 0; i < nb; i++ {
		n := r.Intn(25)
		if i == 0 {
			n = 0
		}
		b := make([]byte, n)
		for j := range b {
			b[j] = byte(r.Intn(256))
		}
		h, s := g.sum(b)
		g.blobs[casKeyOf(h, s)] = b
		g.files = append(g.files, genFile{h, s})
		g.allDigs = append(g.allDigs, tokDig(h, s))
		g.lines = append(g.lines, "blob "+tokDig(h, s)+" "+tokBytes(string(b)))
	}
	if r.Chance(1, 4) { // a file whose blob is absent
		h, s := g.sum([]byte(fmt.Sprintf("absent-%d", r.Intn(1000))))
		g.files = append(g.files, genFile{h, s})
		g.allDigs = append(g.allDigs, tokDig(h, s))
	}
	g.addDir(&remoteexecution.Directory{}, 0, "ok", true)
	if r.Chance(1, 4) {
		g.addDir(nil, 0, "garbage", true)
	}
	if r.Chance(1, 4) {
		g.addDir(&remoteexecution.Directory{Symlinks: []*remoteexecution.SymlinkNode{{Name: "absent", Target: strconv.Itoa(r.Intn(1000))}}}, 0, "missing", false)
	}
	var last genDir
	for i := 0; i < nDirs; i++ {
		m := &remoteexecution.Directory{}
		names := append([]string(nil), validNames...)
		r2 := newRng(r)
		r2.Shuffle(len(names), func(a, b int) { names[a], names[b] = names[b], names[a] })
		take := func() string { n := names[0]; names = names[1:]; return n }
		depth := 0
		nsub := r.Pick(20, 40, 25, 15)
		for k := 0; k < nsub; k++ {
			var c genDir
			if r.Chance(3, 5) { // prefer deep, recent directories: nesting
				c = g.dirs[len(g.dirs)-1-r.Intn(min(3, len(g.dirs)))]
			} else { // any directory: sharing
				c = g.dirs[r.Intn(len(g.dirs))]
			}
			if c.depth+1 > maxDepth {
				continue
			}
			if c.depth+1 > depth {
				depth = c.depth + 1
			}
			m.Directories = append(m.Directories, &remoteexecution.DirectoryNode{Name: take(), Digest: &remoteexecution.Digest{Hash: c.hash, SizeBytes: c.size}})
		}
		for k, nf := 0, r.Pick(25, 35, 25, 15); k < nf; k++ {
			f := g.files[r.Intn(len(g.files))]
			m.Files = append(m.Files, &remoteexecution.FileNode{Name: take(), Digest: &remoteexecution.Digest{Hash: f.hash, SizeBytes: f.size}, IsExecutable: r.Chance(1, 3)})
		}
		for k, ns := 0, r.Pick(50, 35, 15); k < ns; k++ {
			m.Symlinks = append(m.Symlinks, &remoteexecution.SymlinkNode{Name: take(), Target: goodTargets[r.Intn(len(goodTargets))]})
		}
		kind := "ok"
		if r.Chance(1, 7) {
			kind = "malformed"
			g.malform(m, take)
		}
		last = g.addDir(m, depth, kind, true)
	}
	return last
}

// malform introduces exactly one defect of the kinds the property names.
func (g *generator) malform(m *remoteexecution.Directory, take func() string) {
	r := g.rnd
	f := g.files[r.Intn(len(g.files))]
	goodFile := &remoteexecution.Digest{Hash: f.hash, SizeBytes: f.size}
	d := g.dirs[r.Intn(len(g.dirs))]
	goodDir := &remoteexecution.Digest{Hash: d.hash, SizeBytes: d.size}
	existing := func() (string, bool) {
		var all []string
		for _, e := range m.Directories {
			all = append(all, e.Name)
		}
		for _, e := range m.Files {
			all = append(all, e.Name)
		}
		for _, e := range m.Symlinks {
			all = append(all, e.Name)
		}
		if len(all) == 0 {
			return "", false
		}
		return all[r.Intn(len(all))], true
	}
	list := r.Intn(3)
	add := func(name string) {
		switch list {
		case 0:
			m.Directories = append(m.Directories, &remoteexecution.DirectoryNode{Name: name, Digest: goodDir})
		case 1:
			m.Files = append(m.Files, &remoteexecution.FileNode{Name: name, Digest: goodFile, IsExecutable: r.Chance(1, 2)})
		default:
			m.Symlinks = append(m.Symlinks, &remoteexecution.SymlinkNode{Name: name, Target: "t"})
		}
	}
	switch r.Pick(30, 35, 25, 10) {
	case 0: // invalid name in one of the three lists
		add(invalidNames[r.Intn(len(invalidNames))])
	case 1: // duplicate name, within or across lists
		n, ok := existing()
		if !ok {
			n = take()
			add(n)
			list = r.Intn(3)
		}
		add(n)
	case 2: // bad digest
		if r.Chance(1, 2) {
			m.Directories = append(m.Directories, &remoteexecution.DirectoryNode{Name: take(), Digest: g.badDigest(goodDir)})
		} else {
			m.Files = append(m.Files, &remoteexecution.FileNode{Name: take(), Digest: g.badDigest(goodFile)})
		}
	default: // symlink target that cannot be represented
		m.Symlinks = append(m.Symlinks, &remoteexecution.SymlinkNode{Name: take(), Target: "a\x00b"})
	}
	// the defect is not always the last entry: rotate lists sometimes
	if r.Chance(1, 2) && len(m.Files) > 1 {
		m.Files[0], m.Files[len(m.Files)-1] = m.Files[len(m.Files)-1], m.Files[0]
	}
	if r.Chance(1, 2) && len(m.Symlinks) > 1 {
		m.Symlinks[0], m.Symlinks[len(m.Symlinks)-1] = m.Symlinks[len(m.Symlinks)-1], m.Symlinks[0]
	}
	if r.Chance(1, 2) && len(m.Directories) > 1 {
		m.Directories[0], m.Directories[len(m.Directories)-1] = m.Directories[len(m.Directories)-1], m.Directories[0]
	}
}

func toks(comps []string) []string {
	out := make([]string, len(comps))
	for i, c := range comps {
		out[i] = tokBytes(c)
	}
	return out
}

// pickPath walks the generator-side reference at random and returns the
// components of a parent directory, a final name and the digests met on the way.
func (g *generator) pickPath(root *refNode) (parent []string, name string, target *refNode, digs []string) {
	r := g.rnd
	cur := root
	for {
		if cur.hash != "" {
			digs = append(digs, tokDig(cur.hash, cur.size))
		}
		var names []string
		for k := range cur.children {
			names = append(names, k)
		}
		sortStrings(names)
		if len(names) == 0 || r.Chance(1, 8) {
			// a name that does not exist (or below a directory that cannot be loaded)
			return parent, validNames[r.Intn(len(validNames))], nil, digs
		}
		n := names[r.Intn(len(names))]
		c := cur.children[n]
		if c.kind == "dir" && r.Chance(3, 5) && len(parent) < 9 {
			parent = append(parent, n)
			cur = c
			continue
		}
		if c.kind != "dir" && r.Chance(1, 20) { // through a leaf: ENOTDIR
			return append(parent, n), "a", nil, digs
		}
		if c.hash != "" {
			digs = append(digs, tokDig(c.hash, c.size))
		}
		return parent, n, c, digs
	}
}

func sortStrings(s []string) {
	for i := 1; i < len(s); i++ {
		for j := i; j > 0 && s[j] < s[j-1]; j-- {
			s[j], s[j-1] = s[j-1], s[j]
		}
	}
}

func (g *generator) faults(onPath []string) []string {
	r := g.rnd
	if !r.Chance(1, 7) {
		return nil
	}
	var f []string
	if len(onPath) > 0 && r.Chance(4, 5) {
		f = append(f, onPath[len(onPath)-1-r.Intn(min(2, len(onPath)))])
	}
	for r.Chance(1, 3) && len(g.allDigs) > 0 {
		f = append(f, g.allDigs[r.Intn(len(g.allDigs))])
	}
	return f
}

// walkAll appends operations that explore the whole (sampled) tree.
func (g *generator) walkAll(root *refNode, budget int) {
	type item struct {
		comps []string
		n     *refNode
	}
	queue := []item{{nil, root}}
	for len(queue) > 0 && budget > 0 {
		i := g.rnd.Intn(len(queue)) // any exploration order
		it := queue[i]
		queue = append(queue[:i], queue[i+1:]...)
		g.lines = append(g.lines, opLine("readdir", nil, toks(it.comps)...))
		budget--
		var names []string
		for k := range it.n.children {
			names = append(names, k)
		}
		sortStrings(names)
		for _, k := range names {
			c := it.n.children[k]
			p := append(append([]string(nil), it.comps...), k)
			switch c.kind {
			case "dir":
				queue = append(queue, item{p, c})
			case "file":
				if g.rnd.Chance(1, 2) {
					g.lines = append(g.lines, opLine("read", nil, append([]string{"0", "64"}, toks(p)...)...))
					budget--
				}
			}
		}
	}
}

// genCase produces one history: CAS contents, a merge, exploration in random
// order interleaved with write attempts, local modifications and faults, then a
// second action on a fresh root.
func genCase(rnd *hx.Rand, thorough bool) []string {
	g := &generator{rnd: rnd, blobs: map[string][]byte{}}
	dfName := []string{"sha256", "md5", "sha1", "sha384"}[rnd.Pick(60, 15, 15, 10)]
	g.df = digest.MustNewFunction("verif", digestFunctions[dfName])
	g.hashLen = hashLens[dfName]
	opt := fmt.Sprintf("opt df=%s alloc=%s cache=%d locked=%d", dfName,
		[]string{"fuse", "nfs"}[rnd.Intn(2)], []int{0, 0, 2, 8, 64}[rnd.Intn(5)], rnd.Intn(2))
	g.lines = []string{opt}
	maxDepth := 2 + rnd.Intn(7)
	nDirs := 2 + rnd.Intn(10)
	if thorough {
		nDirs = 2 + rnd.Intn(22)
	}
	var rootDir genDir
	for {
		rootDir = g.genDAG(maxDepth, nDirs)
		if refDecode(g.blobs, g.hashLen, rootDir.hash, rootDir.size, 0).count() <= 1500 {
			break
		}
		*g = generator{rnd: rnd, df: g.df, hashLen: g.hashLen, blobs: map[string][]byte{}, lines: []string{opt}}
		nDirs = max(2, nDirs/2)
	}
	roots := []genDir{rootDir}
	if rnd.Chance(1, 3) {
		roots = append(roots, g.dirs[rnd.Intn(len(g.dirs))])
	}
	ref := &refNode{kind: "dir", children: map[string]*refNode{}}
	emit := func(op string, faults []string, args ...string) {
		g.lines = append(g.lines, opLine(op, faults, args...))
		if len(faults) == 0 {
			refExec(ref, g.blobs, g.hashLen, op, args)
		}
	}
	rootTok := tokDig(rootDir.hash, rootDir.size)
	mergeOp := "merge"
	if rnd.Chance(1, 2) { // this action runs with a file system access monitor
		mergeOp = "mmerge"
	}
	if rnd.Chance(1, 8) {
		emit(mergeOp, []string{rootTok}, rootTok) // fails, nothing merged
	}
	emit(mergeOp, nil, rootTok)
	n := 15 + rnd.Intn(40)
	raceAt := -1
	if rnd.Chance(1, 2) {
		raceAt = rnd.Intn(4)
	}
	for i := 0; i < n; i++ {
		if i == raceAt {
			g.race3(ref)
		}
		parent, name, target, digs := g.pickPath(ref)
		full := toks(append(append([]string(nil), parent...), name))
		f := g.faults(digs)
		kind := ""
		if target != nil {
			kind = target.kind
		}
		switch {
		case rnd.Chance(1, 40):
			g.lines = append(g.lines, "newroot")
			ref = &refNode{kind: "dir", children: map[string]*refNode{}}
			rt := roots[rnd.Intn(len(roots))]
			emit(mergeOp, nil, tokDig(rt.hash, rt.size))
		case rnd.Chance(1, 30):
			rt := g.dirs[rnd.Intn(len(g.dirs))]
			emit(mergeOp, f, tokDig(rt.hash, rt.size))
		case rnd.Chance(1, 25):
			d := g.dirs[rnd.Intn(len(g.dirs))]
			t := tokDig(d.hash, d.size)
			var ff []string
			if rnd.Chance(1, 5) {
				ff = []string{t}
			}
			g.lines = append(g.lines, opLine([]string{"fetch", "mfetch"}[rnd.Intn(2)], ff, t))
		case rnd.Chance(1, 8):
			// rename / link between two random places; often onto an existing entry
			parent2, name2, _, digs2 := g.pickPath(ref)
			if rnd.Chance(1, 3) {
				name2 = validNames[rnd.Intn(len(validNames))]
			}
			two := append(append([]string{strconv.Itoa(len(parent) + 1)}, full...), toks(append(append([]string(nil), parent2...), name2))...)
			ff := g.faults(append(digs, digs2...))
			if rnd.Chance(3, 4) {
				emit("rename", ff, two...)
			} else {
				emit("link", ff, two...)
			}
		case kind == "file" && rnd.Chance(1, 6):
			// the usual way an action replaces an input: write a new file, rename it over
			tmp := "tmp" + strconv.Itoa(rnd.Intn(3))
			emit("create", nil, toks(append(append([]string(nil), parent...), tmp))...)
			emit("rename", f, append([]string{strconv.Itoa(len(parent) + 1)}, append(toks(append(append([]string(nil), parent...), tmp)), full...)...)...)
			emit("lookup", nil, full...)
		case (kind == "dir" || kind == "file") && rnd.Chance(1, 10):
			g.lines = append(g.lines, opLine("digests", f, full...))
		case kind == "dir" && rnd.Chance(1, 2):
			emit("readdir", f, full...)
		case kind == "file" && rnd.Chance(2, 3):
			switch rnd.Pick(25, 15, 15, 15, 15, 15) {
			case 0:
				emit("read", f, append([]string{strconv.Itoa(rnd.Intn(6)), strconv.Itoa(rnd.Intn(40))}, full...)...)
			case 1:
				emit("openw", f, full...)
			case 2:
				emit("opentrunc", f, full...)
			case 3:
				emit("setsize", f, full...)
			case 4:
				emit("alloc", f, full...)
			default:
				emit("write", f, full...)
			}
		default:
			switch rnd.Pick(30, 14, 14, 12, 6, 4, 4, 4, 4, 8) {
			case 0:
				emit("lookup", f, full...)
			case 1:
				emit("readdir", f, toks(parent)...)
			case 2:
				emit("remove", f, full...)
			case 3:
				emit("create", f, full...)
			case 4:
				emit("mkdir", f, full...)
			case 5:
				emit("openw", f, full...)
			case 6:
				emit("setsize", f, full...)
			case 7:
				emit("write", f, full...)
			case 8:
				emit("alloc", f, full...)
			default:
				emit("read", f, append([]string{"0", "32"}, full...)...)
			}
		}
	}
	// everything that is left, in random order; then what another action sees
	g.walkAll(ref, 25)
	g.lines = append(g.lines, "newroot")
	fresh := &refNode{kind: "dir", children: map[string]*refNode{}}
	g.lines = append(g.lines, opLine("merge", nil, rootTok))
	refExec(fresh, g.blobs, g.hashLen, "merge", []string{rootTok})
	if rnd.Chance(1, 3) { // several explorers at once, each in its own order
		g.lines = append(g.lines, fmt.Sprintf("cwalk %d %d", 2+rnd.Intn(4), rnd.Intn(1000)))
	}
	g.walkAll(fresh, 40)
	return g.lines
}

// genCacheCase produces a history of calls to the caching directory fetcher.
func genCacheCase(rnd *hx.Rand) []string {
	cr := newCacheRig(1, 1, "")
	maxCount := []int{0, 1, 2, 3, 5, 100}[rnd.Intn(6)]
	maxSize := []int{0, 15, 40, 100, 100000}[rnd.Intn(5)]
	lines := []string{"opt part=cache", fmt.Sprintf("cinit %d %d", maxCount, maxSize)}
	n := 10 + rnd.Intn(60)
	keys := 2 + rnd.Intn(cacheDigests-1)
	for i := 0; i < n; i++ {
		k := rnd.Pick(45, 40, 15)
		t, c := rnd.Intn(keys), rnd.Intn(keys)
		if rnd.Chance(1, 2) {
			t = c // the interesting case: same digest asked as Directory and as Tree
		}
		base, size := "-", 0
		switch k {
		case 0, 2:
			size = 10 + c
			if !rnd.Chance(1, 5) {
				base = strconv.Itoa(100 + c)
			}
		case 1:
			size = cr.rootSize(t)
			if !rnd.Chance(1, 5) {
				base = strconv.Itoa(200 + t)
			}
		}
		lines = append(lines, fmt.Sprintf("cget %d %d %d %s %d", k, t, c, base, size))
	}
	return lines
}

// genNaiveCase: the eager build directory on a real file system, two or three
// actions sharing one hard-link cache.
func genNaiveCase(rnd *hx.Rand) []string {
	g := &generator{rnd: rnd, blobs: map[string][]byte{}}
	dfName := []string{"sha256", "md5"}[rnd.Intn(2)]
	g.df = digest.MustNewFunction("verif", digestFunctions[dfName])
	g.hashLen = hashLens[dfName]
	hardlink := rnd.Pick(1, 3)
	g.lines = []string{fmt.Sprintf("opt part=naive df=%s cache=%d hardlink=%d hlmax=%d hlsize=%d", dfName, []int{0, 8}[rnd.Intn(2)], hardlink,
		[]int{1, 3, 1000}[rnd.Intn(3)], []int{30, 100, 1 << 20}[rnd.Intn(3)])}
	root := g.genDAG(2+rnd.Intn(4), 2+rnd.Intn(7))
	for i, n := 0, 2+rnd.Intn(4); i < n; i++ {
		d := root
		if rnd.Chance(1, 4) {
			d = g.dirs[rnd.Intn(len(g.dirs))]
		}
		g.lines = append(g.lines, strings.Join(append([]string{"nmerge", tokDig(d.hash, d.size)}, g.genNaiveFaults(d)...), " "))
		// between two actions: the cache directory is cleaned up behind the worker's back,
		// entries are replaced by directories, the storage loses blobs
		for k := rnd.Intn(4); k > 0 && hardlink == 1; k-- {
			f := g.files[rnd.Intn(len(g.files))]
			x := strconv.Itoa(rnd.Intn(2))
			switch rnd.Pick(70, 10, 20) {
			case 0:
				g.lines = append(g.lines, "hrm "+tokDig(f.hash, f.size)+" "+x)
			case 1:
				g.lines = append(g.lines, "hmkdir "+tokDig(f.hash, f.size)+" "+x)
			default:
				g.lines = append(g.lines, "casmiss "+tokDig(f.hash, f.size)+" "+strconv.Itoa(rnd.Intn(2)))
			}
		}
		if hardlink == 1 && rnd.Chance(1, 3) { // a cleaner empties the whole cache
			for _, f := range g.files {
				g.lines = append(g.lines, "hrm "+tokDig(f.hash, f.size)+" 0", "hrm "+tokDig(f.hash, f.size)+" 1")
			}
		}
	}
	return g.lines
}

// genHardlinkCase: single GetFile calls of the hard-linking fetcher, compared with
// the model of its bookkeeping.
func genHardlinkCase(rnd *hx.Rand) []string {
	g := &generator{rnd: rnd, blobs: map[string][]byte{}}
	g.df = digest.MustNewFunction("verif", digestFunctions["sha256"])
	g.hashLen = 64
	g.lines = []string{fmt.Sprintf("opt part=hardlink df=sha256 hlmax=%d hlsize=%d", []int{0, 1, 2, 3, 1000}[rnd.Intn(5)], []int{0, 20, 45, 100000}[rnd.Intn(4)])}
	for i, n := 0, 3+rnd.Intn(4); i < n; i++ {
		b := make([]byte, rnd.Intn(25))
		for j := range b {
			b[j] = byte(rnd.Intn(256))
		}
		h, s := g.sum(b)
		g.files = append(g.files, genFile{h, s})
		g.lines = append(g.lines, "blob "+tokDig(h, s)+" "+tokBytes(string(b)))
	}
	var fetched []string
	for i, n := 0, 15+rnd.Intn(40); i < n; i++ {
		f := g.files[rnd.Intn(len(g.files))]
		arg := tokDig(f.hash, f.size) + " " + strconv.Itoa(rnd.Intn(2))
		switch {
		case len(fetched) > 0 && rnd.Chance(1, 5):
			g.lines = append(g.lines, "hrm "+fetched[rnd.Intn(len(fetched))])
		case len(fetched) > 0 && rnd.Chance(1, 15):
			g.lines = append(g.lines, "hmkdir "+fetched[rnd.Intn(len(fetched))])
		case rnd.Chance(1, 8):
			g.lines = append(g.lines, "casmiss "+tokDig(f.hash, f.size)+" "+strconv.Itoa(rnd.Intn(2)))
		default:
			if len(fetched) > 0 && rnd.Chance(1, 3) {
				arg = fetched[rnd.Intn(len(fetched))]
			}
			g.lines = append(g.lines, "hget "+arg)
			fetched = append(fetched, arg)
		}
	}
	return g.lines
}

// genRaceCase (VERIF_RACE=1, binary built with -race): many goroutines list one
// freshly merged tree at the same time, several times over.
func genRaceCase(rnd *hx.Rand) []string {
	g := &generator{rnd: rnd, blobs: map[string][]byte{}}
	g.df = digest.MustNewFunction("verif", digestFunctions["sha256"])
	g.hashLen = 64
	g.lines = []string{fmt.Sprintf("opt df=sha256 alloc=%s cache=%d locked=%d", []string{"fuse", "nfs"}[rnd.Intn(2)], []int{0, 2, 64}[rnd.Intn(3)], rnd.Intn(2))}
	root := g.genDAG(2+rnd.Intn(7), 4+rnd.Intn(14))
	tok := tokDig(root.hash, root.size)
	for i := 0; i < 3; i++ {
		if i > 0 {
			g.lines = append(g.lines, "newroot")
		}
		g.lines = append(g.lines, opLine([]string{"merge", "mmerge"}[rnd.Intn(2)], nil, tok), fmt.Sprintf("cwalk 8 %d", rnd.Intn(1000)))
	}
	return g.lines
}

// race3 emits the three-party scenario in a directory that has two different CAS
// directories as children: a lookup of D is parked on D's slow first load while
// D is renamed away and E is renamed to D.
func (g *generator) race3(root *refNode) {
	r := g.rnd
	var p []string
	cur := root
	for depth := 0; depth < 6; depth++ {
		var dirs []string
		for k, c := range cur.children {
			if c.kind == "dir" && c.hash != "" {
				dirs = append(dirs, k)
			}
		}
		sortStrings(dirs)
		var pairs [][2]string
		for _, a := range dirs {
			for _, b := range dirs {
				ca, cb := cur.children[a], cur.children[b]
				if a != b && !(ca.hash == cb.hash && ca.size == cb.size) {
					pairs = append(pairs, [2]string{a, b})
				}
			}
		}
		if len(pairs) > 0 && (r.Chance(2, 3) || depth == 5) {
			pr := pairs[r.Intn(len(pairs))]
			t := ""
			for _, c := range []string{"orig", "D.orig", "z0", "moved"} {
				if _, ok := cur.children[c]; !ok {
					t = c
					break
				}
			}
			if t == "" {
				return
			}
			g.lines = append(g.lines, strings.Join(append([]string{"race3", tokBytes(pr[0]), tokBytes(pr[1]), tokBytes(t)}, toks(p)...), " "))
			pathD := toks(append(append([]string(nil), p...), pr[0]))
			two := func(a, b string) []string {
				return append([]string{strconv.Itoa(len(p) + 1)}, append(toks(append(append([]string(nil), p...), a)), toks(append(append([]string(nil), p...), b))...)...)
			}
			refExec(root, g.blobs, g.hashLen, "readdir", pathD)
			refExec(root, g.blobs, g.hashLen, "rename", two(pr[0], t))
			refExec(root, g.blobs, g.hashLen, "rename", two(pr[1], pr[0]))
			return
		}
		// descend into a loadable directory
		var down []string
		for _, k := range dirs {
			if cur.children[k].bad == "" {
				down = append(down, k)
			}
		}
		if len(down) == 0 {
			return
		}
		k := down[r.Intn(len(down))]
		p = append(p, k)
		cur = cur.children[k]
	}
}
