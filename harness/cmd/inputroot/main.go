// Command inputroot ties Model/InputRoot.lean to the lazily populated, CAS backed
// input root of bb-remote-execution and decides C17 on the implementation's own
// traces: the real virtualBuildDirectory.MergeDirectoryContents over the real
// in-memory directory, CAS initial contents fetcher and CAS file factories, a fake
// Content Addressable Storage with fault injection, exploration through the
// virtual.Directory interface; one FetchContents call with leaf accounting; the
// caching directory fetcher over a scripted base fetcher.
package main

import (
	"fmt"
	"os"
	"strings"

	"verifharness/internal/hx"
)

const rule = "random Directory DAGs (shared subtrees, depth <= 8, empty directories, 4 digest functions; one in seven directories malformed: invalid name, duplicate within/across the three lists, bad digest, unusable symlink target; garbage and absent blobs) merged with the real MergeDirectoryContents and explored in random order through virtual.Directory, interleaved with every kind of write attempt on CAS files, local remove/create/mkdir, VirtualRename/VirtualLink between random places (rename of a fresh local file over a CAS file, of never explored directories, onto existing entries), ApplyGetContainingDigests queries, further merges and storage faults; every second case merges with the real Bloom filter access monitor (NewAccessMonitoringInitialContentsFetcher); then the same digest merged into a fresh root; in about a fifth of the cases a three-party interleaving is forced deterministically (T1 keeps a lazily loaded directory locked behind a suspended GetDirectory, T2's lookup of it with change ID attributes drops the parent lock and waits, the name is re-bound by two renames, storage resumes: the lookup must return the directory now under the name); in a third of the cases 2-5 goroutines list every directory of the fresh root concurrently, each in its own order; separate histories drive the caching directory fetcher (same digest as Directory and as Tree root, small capacities, base failures) the real hard-linking file fetcher (single GetFile calls into temporary directories, cache entries deleted / replaced by directories behind its back, CAS misses, small file and byte limits; compared with the model of its bookkeeping after every call) and (monitor only) sequences of MergeDirectoryContents of the eager naiveBuildDirectory on temporary directories sharing one hard-link cache, with the same faults between actions, judged by: error, or on-disk tree = requested tree; each such merge is repeated into a fresh directory with 0-2 injected failing calls (storage read of a Directory/file blob by digest; Mkdir/EnterDirectory/Symlink/OpenAppend/Chtimes by path, through a wrapper around the real directory handles) and compared with Model/NaiveDir.lean (drv_naivedir): ok/error, the error class and the listing of the tree left behind whenever no download failed, plus the monitor: OK => no issued call failed, tree = requested tree, nothing outside the build directory changed. Non-trivial = (>= 3 lazily fetched directories, a merge succeeded, >= 1 write attempt on a CAS file was refused, and a fault was hit or a directory that cannot be loaded was accessed or a local modification succeeded) or (cache history with >= 1 hit and >= 1 miss) or (naive history with >= 1 successful materialisation); distinct = hash of the history"

func nontrivial(o outcome) bool {
	f := o.flags
	if f["cache-hit"] > 0 && f["cache-miss"] > 0 {
		return true
	}
	if f["naive-merge-ok"] > 0 || f["concurrent-walk"] >= 3 || (f["hardlink-getfile-ok"] >= 3 && f["cache-dir-fault"] > 0) {
		return true
	}
	return f["dir-fetches"] >= 3 && f["merge-ok"] > 0 && f["cas-file-write-refused"] > 0 &&
		(f["fault-hit"] > 0 || f["bad-directory-accessed"] > 0 || f["local-modification"] > 0 || f["merge-rejected"] > 0 || f["race3-lookup-parked"] > 0)
}

func main() {
	o := hx.ParseFlags()
	res := hx.NewResult("inputroot", o, rule)
	drv, err := hx.StartDriver("inputroot")
	if err != nil {
		fmt.Fprintln(os.Stderr, "cannot start model driver:", err)
		os.Exit(3)
	}
	defer drv.Close()

	report := func(lines []string, out outcome) {
		fails := func(cand []string) bool {
			if len(cand) == 0 || cand[0] != lines[0] { // the options line stays
				return false
			}
			r := execute(cand, drv, o.Seed)
			if r.invalid {
				return false
			}
			if out.monitor != "" {
				return r.monitor != ""
			}
			return r.mismatch != ""
		}
		min := hx.Shrink(lines, fails)
		r := execute(min, drv, o.Seed)
		if !r.failed() { // flaky shrink: keep the original
			min, r = lines, out
		}
		f := hx.Finding{Property: "C17", History: min}
		if r.monitor != "" {
			f.Kind, f.What, f.Name = "violation", r.monitor, "C17 monitor: explored tree = tree named by the digest, malformed => error, CAS files immutable, CAS unchanged, cache answers per key"
		} else {
			f.Kind, f.What = "mismatch", r.mismatch
			f.Name = "correspondence Model/InputRoot.lean <-> cas_initial_contents_fetcher.go / in_memory_prepopulated_directory.go (getContents) / blob_access_cas_file_factory.go / caching_directory_fetcher.go (theorems C17.lazy_equals_eager, malformed_is_error, cas_files_immutable, cache_keys_separate)"
			f.Expected, f.Actual = r.expected, r.actual
		}
		f.Sig = hx.Sig("C17", "inputroot", strings.Join(min, ";"))
		res.Report(f)
	}

	if o.Replay != "" {
		f, err := hx.LoadReplay(o.Replay)
		if err != nil {
			fmt.Fprintln(os.Stderr, err)
			os.Exit(3)
		}
		out := execute(f.History, drv, o.Seed)
		res.Evaluations = out.steps
		res.TracesVsImpl = 1
		if out.failed() {
			report(f.History, out)
		}
		res.ModelLines = drv.Lines + naiveModelLines()
		res.Write(o)
		return
	}

	cases := 1200 * o.Scale
	if o.Tier == "thorough" {
		cases = 6000 * o.Scale
	}
	rnd := hx.NewRand(o.Seed)
	for i := 0; i < cases && len(res.Findings) < 3; i++ {
		var lines []string
		if os.Getenv("VERIF_RACE") == "1" {
			// concurrency only; meant for a binary built with `go build -race`
			lines = genRaceCase(rnd)
		} else if i%6 == 5 {
			lines = genCacheCase(rnd)
		} else if i%30 == 7 || i%30 == 22 {
			lines = genNaiveCase(rnd)
		} else if i%15 == 4 {
			lines = genHardlinkCase(rnd)
		} else {
			lines = genCase(rnd, o.Tier == "thorough")
		}
		out := execute(lines, drv, o.Seed+uint64(i))
		res.Evaluations += out.steps
		res.TracesVsImpl++
		for k, v := range out.flags {
			res.Histogram[k] += v
		}
		if out.invalid {
			res.Count("invalid-history")
		}
		res.History(lines, nontrivial(out))
		if out.failed() {
			report(lines, out)
		}
	}
	res.ModelLines = drv.Lines + naiveModelLines()
	res.Write(o)
}
