package main

import (
	"fmt"
	"strconv"
	"strings"

	remoteexecution "github.com/bazelbuild/remote-apis/build/bazel/remote/execution/v2"

	"verifharness/internal/hx"
)

type outcome struct {
	monitor  string // property violated on the implementation's own trace
	mismatch string // model and implementation disagree
	expected string
	actual   string
	steps    int
	flags    map[string]int
	invalid  bool // history not executable (malformed lines after shrinking)
}

func (o *outcome) failed() bool { return o.monitor != "" || o.mismatch != "" }

// execute runs a history (lines) on the real code, on the monitor's eager
// reference and — when drv != nil — on the Lean model, comparing after each line.
func execute(lines []string, drv *hx.Driver, seed uint64) (res outcome) {
	res.flags = map[string]int{}
	var r *rig
	var cr *cacheRig
	var nr *naiveRig
	var ref *refNode
	opts := map[string]string{}
	expectedBlobs := map[string]string{}
	var naiveStore []casLine // the store as told to the model of the eager directory (naive_model.go)
	freshRef := func() *refNode { return &refNode{kind: "dir", children: map[string]*refNode{}} }

	ask := func(line, actual string) bool {
		if drv == nil {
			return true
		}
		exp, err := drv.Ask(line)
		if err != nil {
			exp = "driver-error " + err.Error()
		}
		if exp != actual {
			res.mismatch = "model and implementation disagree on: " + abbreviate(line)
			res.expected, res.actual = exp, actual
			return false
		}
		return true
	}
	tell := func(line string) bool {
		if drv == nil {
			return true
		}
		out, err := drv.Ask(line)
		if err != nil || out != "ok" {
			res.invalid = true
			return false
		}
		return true
	}
	var needNaive func() bool
	needRig := func() bool {
		if r != nil {
			return true
		}
		var err error
		r, err = newRig(opts, seed)
		if err != nil {
			res.invalid = true
			return false
		}
		ref = freshRef()
		return tell("cfg " + strconv.Itoa(r.hashLen))
	}
	needNaive = func() bool {
		if nr != nil {
			return true
		}
		maxFiles, maxSize := 1000, int64(1<<20)
		if opts["hlmax"] != "" {
			maxFiles, _ = strconv.Atoi(opts["hlmax"])
		}
		if opts["hlsize"] != "" {
			n, _ := strconv.Atoi(opts["hlsize"])
			maxSize = int64(n)
		}
		var err error
		nr, err = newNaiveRig(r, opts["hardlink"] == "1" || opts["part"] == "hardlink", maxFiles, maxSize)
		if err != nil {
			res.invalid = true
			return false
		}
		if opts["part"] == "hardlink" {
			return tell(fmt.Sprintf("hinit %d %d", maxFiles, maxSize))
		}
		return true
	}
	defer func() {
		if nr != nil {
			nr.close()
		}
	}()
	defer func() {
		if p := recover(); p != nil {
			res.monitor = fmt.Sprintf("panic outside an operation: %v", p)
		}
	}()

	for _, line := range lines {
		w := strings.Fields(line)
		if len(w) == 0 {
			continue
		}
		switch w[0] {
		case "opt":
			if r != nil {
				continue
			}
			for _, kv := range w[1:] {
				if i := strings.IndexByte(kv, '='); i > 0 {
					opts[kv[:i]] = kv[i+1:]
				}
			}
			continue
		case "cfg":
			continue // derived from opt df; sent by needRig
		case "cinit":
			if len(w) != 3 {
				continue
			}
			a, e1 := strconv.Atoi(w[1])
			b, e2 := strconv.Atoi(w[2])
			if e1 != nil || e2 != nil {
				continue
			}
			cr = newCacheRig(a, int64(b), opts["evict"])
			if !tell(line) {
				return
			}
			continue
		case "cget":
			if cr == nil || len(w) != 6 {
				continue
			}
			k, e1 := strconv.Atoi(w[1])
			t, e2 := strconv.Atoi(w[2])
			c, e3 := strconv.Atoi(w[3])
			if e1 != nil || e2 != nil || e3 != nil {
				continue
			}
			res.steps++
			out, want := cr.get(k, t, c, w[4])
			res.flags["cache-"+strings.Fields(out)[0]]++
			// monitor: an answer is the object scripted for this kind of call and key,
			// an error only comes from the base fetcher
			switch {
			case out == "error":
				if w[4] != "-" {
					res.monitor = fmt.Sprintf("caching fetcher returned an error although the base fetcher would have answered: %s", line)
				}
			case strings.HasPrefix(out, "hit "), strings.HasPrefix(out, "miss "):
				if got := strings.Fields(out)[1]; got != want {
					res.monitor = fmt.Sprintf("caching fetcher answered %s with object %s, the object for this call is %s (100+i: Directory with digest i, 200+i: root of Tree with digest i)", line, got, want)
				}
			default:
				res.monitor = fmt.Sprintf("caching fetcher: %s on %s", out, line)
			}
			if res.monitor != "" {
				return
			}
			if !ask(line, out) {
				return
			}
			continue
		}
		if !needRig() {
			return
		}
		switch w[0] {
		case "dir":
			hash, size, m, err := parseDirLine(w)
			if err != nil {
				continue
			}
			b := marshalDir(m)
			g := r.df.NewGenerator(int64(len(b)))
			g.Write(b)
			if d := g.Sum(); d.GetHashString() != hash || d.GetSizeBytes() != size {
				continue // not content addressed: not a CAS
			}
			r.cas.blobs[casKeyOf(hash, size)] = b
			expectedBlobs[casKeyOf(hash, size)] = string(b)
			naiveStore = append(naiveStore, casLine{casKeyOf(hash, size), line})
			if !tell(line) {
				return
			}
		case "blob":
			if len(w) != 3 {
				continue
			}
			hash, size, ok1 := untokDig(w[1])
			data, ok2 := untokBytes(w[2])
			if !ok1 || !ok2 || int64(len(data)) != size {
				continue
			}
			g := r.df.NewGenerator(size)
			g.Write([]byte(data))
			if d := g.Sum(); d.GetHashString() != hash {
				continue
			}
			r.cas.blobs[casKeyOf(hash, size)] = []byte(data)
			expectedBlobs[casKeyOf(hash, size)] = data
			naiveStore = append(naiveStore, casLine{casKeyOf(hash, size), line})
			if !tell(line) {
				return
			}
		case "nmerge": // nmerge <dig> <fault>*: eager merge on a real directory; with drv also against Model/NaiveDir.lean under the faults
			if len(w) < 2 {
				continue
			}
			h, sz, ok := untokDig(w[1])
			if !ok || !refDigestOK(&remoteexecution.Digest{Hash: h, SizeBytes: sz}, r.hashLen) {
				continue
			}
			if !needNaive() {
				return
			}
			for k := range r.cas.failing {
				delete(r.cas.failing, k)
			}
			res.steps++
			out, complaint := nr.merge(r, h, sz)
			res.flags["naive-merge-"+out]++
			if complaint != "" {
				res.monitor = abbreviate(line) + ": " + complaint
				return
			}
			if r.cas.puts > 0 || !sameBlobs(r.cas.blobs, expectedBlobs) {
				res.monitor = abbreviate(line) + " changed the Content Addressable Storage"
				return
			}
			if drv != nil {
				res.steps++
				nv := r.naiveModelCompare(naiveStore, h, sz, w[2:], res.flags)
				if nv.invalid {
					res.invalid = true
					return
				}
				if nv.monitor != "" {
					res.monitor = abbreviate(line) + ": " + nv.monitor
					return
				}
				if nv.mismatch != "" {
					res.mismatch, res.expected, res.actual = nv.mismatch, nv.expected, nv.actual
					return
				}
				if r.cas.puts > 0 || !sameBlobs(r.cas.blobs, expectedBlobs) {
					res.monitor = abbreviate(line) + " (with faults) changed the Content Addressable Storage"
					return
				}
			}
		case "casmiss": // casmiss <dig> <0|1>: the storage loses / regains a blob
			if len(w) != 3 {
				continue
			}
			if h, sz, ok := untokDig(w[1]); ok {
				if w[2] == "1" {
					r.cas.missing[casKeyOf(h, sz)] = true
				} else {
					delete(r.cas.missing, casKeyOf(h, sz))
				}
			}
		case "hget", "hrm", "hmkdir": // <dig> <exec>: the hard-linking file fetcher and its cache directory
			if len(w) != 3 || (w[2] != "0" && w[2] != "1") {
				continue
			}
			h, sz, ok := untokDig(w[1])
			if !ok || !refDigestOK(&remoteexecution.Digest{Hash: h, SizeBytes: sz}, r.hashLen) {
				continue
			}
			if _, have := r.cas.blobs[casKeyOf(h, sz)]; !have {
				continue
			}
			if !needNaive() {
				return
			}
			if nr.cacheDir == nil {
				continue
			}
			name, _ := nr.cacheName(r, h, sz, w[2] == "1")
			id := nr.keyIDs[name]
			modelled := opts["part"] == "hardlink"
			if w[0] != "hget" {
				nr.cacheFault(name, w[0] == "hmkdir")
				res.flags["cache-dir-fault"]++
				if modelled && !tell(fmt.Sprintf("%s %d", w[0], id)) {
					return
				}
				continue
			}
			res.steps++
			out, complaint := nr.getFile(r, h, sz, w[2] == "1")
			listing, c2 := nr.cacheListing(r)
			res.flags["hardlink-getfile-"+out]++
			if complaint == "" {
				complaint = c2
			}
			if complaint != "" {
				res.monitor = abbreviate(line) + ": " + complaint
				return
			}
			casHas := "1"
			if r.cas.missing[casKeyOf(h, sz)] {
				casHas = "0"
			}
			if modelled && !ask(fmt.Sprintf("hget %d %d %s", id, sz, casHas), out+" ["+listing+"]") {
				return
			}
		case "race3": // race3 <D> <E> <T> p... : lookup parked on a lazily loaded directory while it is replaced
			if len(w) < 4 {
				continue
			}
			names, ok1 := decodeComps(w[1:4])
			pp, ok2 := decodeComps(w[4:])
			if !ok1 || !ok2 {
				continue
			}
			valid := names[0] != names[1]
			for _, c := range append(append([]string(nil), names...), pp...) {
				valid = valid && refValidName(c)
			}
			if !valid {
				continue
			}
			parent, st := ref.walk(pp)
			if st != "" {
				continue
			}
			nd, okd := parent.children[names[0]]
			ne, oke := parent.children[names[1]]
			_, okt := parent.children[names[2]]
			if !okd || !oke || okt || nd.kind != "dir" || ne.kind != "dir" || nd.hash == "" || (nd.hash == ne.hash && nd.size == ne.size) {
				continue
			}
			for k := range r.cas.failing {
				delete(r.cas.failing, k)
			}
			r.injected, r.cas.injected = 0, 0
			rr := r.race3(pp, names[0], names[1], names[2], casKeyOf(nd.hash, nd.size))
			if rr.stuck != "" {
				res.flags["race3-not-driven"]++
				res.invalid = true
				return
			}
			res.steps += 5
			res.flags["race3"]++
			if rr.parked {
				res.flags["race3-lookup-parked"]++
			}
			pathD := toks(append(append([]string(nil), pp...), names[0]))
			two := func(a, b string) []string {
				return append([]string{strconv.Itoa(len(pp) + 1)}, append(toks(append(append([]string(nil), pp...), a)), toks(append(append([]string(nil), pp...), b))...)...)
			}
			// sequential equivalent: T1, T3's two renames, T2, then listing what T2 got
			seq := []struct {
				op   string
				args []string
				got  string
			}{
				{"readdir", pathD, rr.t1},
				{"rename", two(names[0], names[2]), rr.rn1},
				{"rename", two(names[1], names[0]), rr.rn2},
				{"lookup", pathD, rr.t2},
				{"readdir", pathD, rr.t2Listing},
			}
			for i, q := range seq {
				want := refExec(ref, r.cas.blobs, r.hashLen, q.op, q.args)
				if strings.HasPrefix(q.got, "panic") {
					res.monitor = fmt.Sprintf("%s: %s", abbreviate(line), q.got)
				} else if i == 3 && rr.stale {
					res.monitor = fmt.Sprintf("%s: a lookup that completed after the name was re-bound returned a directory that is no longer under that name (a detached one); its listing is %s, the directory under the name lists %s", abbreviate(line), clip(rr.t2Listing), clip(refExec(ref, r.cas.blobs, r.hashLen, "readdir", pathD)))
				} else if q.got != want {
					res.monitor = fmt.Sprintf("%s: step %d (%s) returned %q; the tree named by the root digest (with the local modifications so far) demands %q", abbreviate(line), i+1, q.op, clip(q.got), clip(want))
				}
				if res.monitor != "" {
					return
				}
			}
			for _, q := range seq {
				if !ask(opLine(q.op, nil, q.args...), q.got) {
					return
				}
			}
		case "cwalk":
			if len(w) != 3 {
				continue
			}
			threads, e1 := strconv.Atoi(w[1])
			wseed, e2 := strconv.Atoi(w[2])
			if e1 != nil || e2 != nil || threads < 1 || threads > 8 {
				continue
			}
			for k := range r.cas.failing {
				delete(r.cas.failing, k)
			}
			paths := refDirPaths(ref, 60)
			answers, dis := r.concurrentWalk(paths, threads, uint64(wseed))
			res.steps += len(paths) * threads
			res.flags["concurrent-walk"]++
			if dis != "" {
				res.monitor = dis
				return
			}
			for i, p := range paths {
				want := refExec(ref, r.cas.blobs, r.hashLen, "readdir", toks(p))
				if answers[i] != want {
					res.monitor = fmt.Sprintf("concurrent exploration: readdir %q returned %q; the tree named by the root digest demands %q", strings.Join(p, "/"), answers[i], want)
					return
				}
			}
			// the model explores the same directories one after the other
			for i, p := range paths {
				if !ask(opLine("readdir", nil, toks(p)...), answers[i]) {
					return
				}
			}
		case "newroot":
			r.newRoot()
			ref = freshRef()
			if !tell(line) {
				return
			}
		default:
			op, faults, args, ok := splitOp(w)
			if !ok || !validOp(op, args) {
				continue
			}
			if op == "digests" && isLocalFile(ref, args) {
				continue // a file of the action itself would be hashed: not the subject here
			}
			if op == "rename" && sameObject(ref, args, opts["alloc"] == "nfs") {
				continue // two hard links of one leaf object: not modelled (C13)
			}
			if op == "merge" || op == "mmerge" || op == "fetch" || op == "mfetch" { // a digest of another digest function is not executable
				if h, s, _ := untokDig(args[0]); !refDigestOK(&remoteexecution.Digest{Hash: h, SizeBytes: s}, r.hashLen) {
					continue
				}
			}
			res.steps++
			for k := range r.cas.failing {
				delete(r.cas.failing, k)
			}
			for _, f := range faults {
				if h, s, ok := untokDig(f); ok {
					r.cas.failing[casKeyOf(h, s)] = true
				}
			}
			r.injected, r.cas.injected = 0, 0
			callsBefore := r.dirCalls
			var out string
			twice := false
			func() {
				defer func() {
					if p := recover(); p != nil {
						out = fmt.Sprintf("panic: %v", p)
					}
				}()
				if op == "fetch" || op == "mfetch" {
					h, s, _ := untokDig(args[0])
					out, twice = r.execFetch(h, s, op == "mfetch")
				} else {
					out = r.exec(op, args)
				}
			}()
			hit := r.injected+r.cas.injected > 0
			res.flags["op-"+op]++
			res.flags["dir-fetches"] += r.dirCalls - callsBefore
			if hit {
				res.flags["fault-hit"]++
			}
			// ---- monitor (implementation trace against the eager reference) ----
			switch {
			case strings.HasPrefix(out, "panic"):
				res.monitor = fmt.Sprintf("%s: %s", abbreviate(line), out)
			case op == "fetch" || op == "mfetch":
				h, s, _ := untokDig(args[0])
				want, good := refFetch(r.cas.blobs, r.hashLen, h, s)
				f := strings.SplitN(out, " ", 3)
				if twice {
					res.monitor = "a leaf was unlinked more than once by a failing FetchContents: " + out
				} else if len(f) < 2 {
					res.monitor = "FetchContents: " + out
				} else if hit {
					if out != "err:fault balanced" {
						res.monitor = fmt.Sprintf("FetchContents under a storage fault gave %q (want err:fault with every created leaf unlinked)", out)
					}
				} else if good {
					if out != "ok unlinked=0 "+want {
						res.monitor = fmt.Sprintf("FetchContents of a well-formed directory gave %q, the directory is %s", out, want)
					}
					res.flags["fetch-ok"]++
				} else {
					if out != want+" balanced" {
						res.monitor = fmt.Sprintf("FetchContents of a directory that cannot be loaded (%s) gave %q: must be that error with every created leaf unlinked again", want, out)
					}
					res.flags["fetch-bad"]++
				}
			case op == "digests" && (strings.HasPrefix(out, "{") || strings.HasPrefix(out, "err:")):
				// internal interface: whether it is answered depends on the directory having
				// been initialised (compared with the model); what is answered must be right
				cs, _ := decodeComps(args)
				var target *refNode
				if d, st := ref.walk(cs[:len(cs)-1]); st == "" {
					target = d.children[cs[len(cs)-1]]
				}
				if target == nil || target.kind == "sym" || target.kind == "local" {
					res.monitor = fmt.Sprintf("%s answered %s for a node that has no digests", abbreviate(line), clip(out))
					break
				}
				seen := map[string]bool{}
				good := true
				if target.kind == "file" {
					seen[casKeyOf(target.hash, target.size)] = true
				} else {
					good = refClosure(r.cas.blobs, r.hashLen, target.hash, target.size, seen)
				}
				keys := make([]string, 0, len(seen))
				for k := range seen {
					i := strings.LastIndexByte(k, '-')
					keys = append(keys, k[:i]+":"+k[i+1:])
				}
				sortStrings(keys)
				want := "{" + strings.Join(keys, ",") + "}"
				switch {
				case hit:
					if out != "err:fault" {
						res.monitor = fmt.Sprintf("%s hit a storage fault but returned %s", abbreviate(line), clip(out))
					}
				case good && !sameDigestSet(out, want):
					res.monitor = fmt.Sprintf("%s returned %s, the digests below it are %s", abbreviate(line), clip(out), clip(want))
				case !good && !strings.HasPrefix(out, "err:"):
					res.monitor = fmt.Sprintf("%s returned %s although a Directory below it cannot be loaded", abbreviate(line), clip(out))
				}
				res.flags["containing-digests-answered"]++
			case hit:
				want := "EIO"
				if op == "merge" || op == "mmerge" {
					want = "err:fault"
				}
				if out != want {
					res.monitor = fmt.Sprintf("%s hit an injected storage fault but returned %q (want %s)", abbreviate(line), out, want)
				}
			case op == "digests":
				// unhandled / ENOENT / ...: only compared with the model
			default:
				overCAS := op == "rename" && isCASFile(ref, args[1:][mustAtoi(args[0]):])
				lazyDir := op == "rename" && r.isUntouchedDir(ref, args)
				want := refExec(ref, r.cas.blobs, r.hashLen, op, args)
				if out != want {
					res.monitor = fmt.Sprintf("%s returned %q; the tree named by the root digest (with the local modifications so far) demands %q", abbreviate(line), out, want)
				}
				switch {
				case (op == "merge" || op == "mmerge") && out == "ok":
					res.flags["merge-ok"]++
					if op == "mmerge" {
						res.flags["merge-with-access-monitor"]++
					}
				case (op == "merge" || op == "mmerge") && strings.HasPrefix(out, "err:"):
					res.flags["merge-rejected"]++
				case op == "rename" && out == "ok":
					res.flags["local-modification"]++
					res.flags["rename-ok"]++
					if overCAS {
						res.flags["rename-over-cas-file"]++
					}
					if lazyDir {
						res.flags["rename-of-unloaded-directory"]++
					}
				case op == "link" && out == "ok":
					res.flags["local-modification"]++
					res.flags["link-ok"]++
				case out == "EIO":
					res.flags["bad-directory-accessed"]++
				case (op == "openw" || op == "opentrunc" || op == "setsize") && out == "EACCES",
					op == "alloc" && out == "EWRONGTYPE" && isCASFile(ref, args), op == "write" && out == "unreachable" && isCASFile(ref, args):
					res.flags["cas-file-write-refused"]++
				case (op == "remove" || op == "create" || op == "mkdir") && out == "ok":
					res.flags["local-modification"]++
				case op == "read" && strings.HasPrefix(out, "data:"):
					res.flags["file-read"]++
				}
			}
			if res.monitor == "" && (r.cas.puts > 0 || !sameBlobs(r.cas.blobs, expectedBlobs)) {
				res.monitor = fmt.Sprintf("%s changed the Content Addressable Storage (%d Put calls)", abbreviate(line), r.cas.puts)
			}
			if res.monitor != "" {
				return
			}
			if !ask(line, out) {
				return
			}
		}
	}
	return
}

func sameBlobs(have map[string][]byte, want map[string]string) bool {
	if len(have) != len(want) {
		return false
	}
	for k, v := range want {
		if b, ok := have[k]; !ok || string(b) != v {
			return false
		}
	}
	return true
}

func isCASFile(ref *refNode, args []string) bool {
	cs, ok := decodeComps(args)
	if !ok || len(cs) == 0 {
		return false
	}
	d, st := ref.walk(cs[:len(cs)-1])
	if st != "" {
		return false
	}
	c, ok := d.children[cs[len(cs)-1]]
	return ok && c.kind == "file"
}

func validOp(op string, args []string) bool {
	switch op {
	case "rename", "link":
		p1, x1, p2, x2, ok := splitTwoPaths(args)
		if !ok {
			return false
		}
		for _, c := range append(append([]string{x1, x2}, p1...), p2...) {
			if !refValidName(c) {
				return false
			}
		}
		if op == "rename" { // moving a directory below itself: not modelled (TODO in the Go code)
			old := append(append([]string(nil), p1...), x1)
			if len(p2) >= len(old) {
				inside := true
				for i := range old {
					inside = inside && p2[i] == old[i]
				}
				if inside {
					return false
				}
			}
		}
		return true
	case "merge", "mmerge", "fetch", "mfetch":
		if len(args) != 1 {
			return false
		}
		_, _, ok := untokDig(args[0])
		return ok
	case "readdir":
		cs, ok := decodeComps(args)
		for _, c := range cs {
			ok = ok && refValidName(c)
		}
		return ok
	case "read":
		if len(args) < 3 {
			return false
		}
		if _, err := strconv.Atoi(args[0]); err != nil {
			return false
		}
		if n, err := strconv.Atoi(args[1]); err != nil || n < 0 || n > 1<<16 {
			return false
		}
		args = args[2:]
		fallthrough
	case "lookup", "digests", "openw", "opentrunc", "setsize", "alloc", "write", "remove", "create", "mkdir":
		cs, ok := decodeComps(args)
		if !ok || len(cs) == 0 {
			return false
		}
		for _, c := range cs {
			if !refValidName(c) {
				return false
			}
		}
		return true
	}
	return false
}

func abbreviate(line string) string {
	w := strings.Fields(line)
	for i, t := range w {
		if len(t) > 40 {
			w[i] = t[:18] + ".." + t[len(t)-8:]
		} else if s, ok := untokBytes(t); ok && i > 0 && printable(s) {
			w[i] = strconv.Quote(s)
		}
	}
	return strings.Join(w, " ")
}

func printable(s string) bool {
	for _, c := range s {
		if c < 32 || c == 127 {
			return false
		}
	}
	return true
}

// refDirPaths lists the directory paths of the reference breadth first (sorted
// names), not descending below directories that cannot be loaded.
func refDirPaths(root *refNode, limit int) [][]string {
	type item struct {
		p []string
		n *refNode
	}
	out := [][]string{}
	queue := []item{{nil, root}}
	for len(queue) > 0 && len(out) < limit {
		it := queue[0]
		queue = queue[1:]
		out = append(out, it.p)
		if it.n.bad != "" {
			continue
		}
		names := make([]string, 0, len(it.n.children))
		for k := range it.n.children {
			names = append(names, k)
		}
		sortStrings(names)
		for _, k := range names {
			if c := it.n.children[k]; c.kind == "dir" {
				queue = append(queue, item{append(append([]string(nil), it.p...), k), c})
			}
		}
	}
	return out
}

func mustAtoi(s string) int {
	n, _ := strconv.Atoi(s)
	return n
}

// isUntouchedDir: the old entry of a rename is a CAS directory (the harness cannot
// see whether it has been loaded; counted for the histogram only).
func (r *rig) isUntouchedDir(ref *refNode, args []string) bool {
	p1, x1, _, _, ok := splitTwoPaths(args)
	if !ok {
		return false
	}
	d, st := ref.walk(p1)
	if st != "" {
		return false
	}
	c, ok := d.children[x1]
	return ok && c.kind == "dir" && c.hash != ""
}

func isLocalFile(ref *refNode, args []string) bool {
	cs, ok := decodeComps(args)
	if !ok || len(cs) == 0 {
		return false
	}
	d, st := ref.walk(cs[:len(cs)-1])
	if st != "" {
		return false
	}
	c, ok := d.children[cs[len(cs)-1]]
	return ok && c.kind == "local"
}

// sameDigestSet compares two rendered digest sets ("{h:s,...}") as sets; sizes are
// compared numerically by both sides' sort, so only the membership matters here.
func sameDigestSet(a, b string) bool {
	split := func(s string) map[string]bool {
		m := map[string]bool{}
		for _, x := range strings.Split(strings.Trim(s, "{}"), ",") {
			if x != "" {
				m[x] = true
			}
		}
		return m
	}
	ma, mb := split(a), split(b)
	if len(ma) != len(mb) {
		return false
	}
	for k := range ma {
		if !mb[k] {
			return false
		}
	}
	return true
}
