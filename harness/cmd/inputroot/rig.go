package main

import (
	"context"
	"errors"
	"fmt"
	"sort"
	"strconv"
	"strings"
	"sync"
	"sync/atomic"
	"syscall"
	"time"

	remoteexecution "github.com/bazelbuild/remote-apis/build/bazel/remote/execution/v2"
	"github.com/buildbarn/bb-remote-execution/pkg/builder"
	"github.com/buildbarn/bb-remote-execution/pkg/cas"
	"github.com/buildbarn/bb-remote-execution/pkg/filesystem/access"
	"github.com/buildbarn/bb-remote-execution/pkg/filesystem/pool"
	"github.com/buildbarn/bb-remote-execution/pkg/filesystem/virtual"
	"github.com/buildbarn/bb-storage/pkg/clock"
	"github.com/buildbarn/bb-storage/pkg/digest"
	"github.com/buildbarn/bb-storage/pkg/eviction"
	"github.com/buildbarn/bb-storage/pkg/filesystem"
	"github.com/buildbarn/bb-storage/pkg/filesystem/path"
	"github.com/buildbarn/bb-storage/pkg/util"
	"google.golang.org/grpc/codes"
	"google.golang.org/grpc/status"

	"verifharness/internal/hx"
)

var digestFunctions = map[string]remoteexecution.DigestFunction_Value{
	"md5":    remoteexecution.DigestFunction_MD5,
	"sha1":   remoteexecution.DigestFunction_SHA1,
	"sha256": remoteexecution.DigestFunction_SHA256,
	"sha384": remoteexecution.DigestFunction_SHA384,
}

var hashLens = map[string]int{"md5": 32, "sha1": 40, "sha256": 64, "sha384": 96}

// faultFetcher sits on top of the directory fetcher stack and fails
// GetDirectory for the digests of the current operation's fault set.
type faultFetcher struct {
	mu       sync.Mutex
	base     cas.DirectoryFetcher
	failing  map[string]bool
	injected *int
	calls    *int
	// gate: the next GetDirectory of gateKey is suspended (a slow storage): it
	// announces itself on entered and continues when resume is closed
	gateKey string
	entered chan struct{}
	resume  chan struct{}
}

// signallingNormalizer is the case sensitive normalizer; when armed it reports
// the next name it normalizes (directory operations normalize names while holding
// the directory lock, which gives a synchronisation point without sleeping).
type signallingNormalizer struct {
	armed  atomic.Bool
	called chan string
}

func (n *signallingNormalizer) Normalize(c path.Component) virtual.NormalizedComponent {
	if n.armed.CompareAndSwap(true, false) {
		n.called <- c.String()
	}
	return virtual.CaseSensitiveComponentNormalizer.Normalize(c)
}

func (f *faultFetcher) GetDirectory(ctx context.Context, d digest.Digest) (*remoteexecution.Directory, error) {
	f.mu.Lock()
	*f.calls++
	if f.gateKey != "" && f.gateKey == casKey(d) {
		f.gateKey = ""
		entered, resume := f.entered, f.resume
		f.mu.Unlock()
		entered <- struct{}{}
		<-resume
		f.mu.Lock()
	}
	if f.failing[casKey(d)] {
		*f.injected++
		f.mu.Unlock()
		return nil, status.Error(codes.Unavailable, "injected directory fetch fault")
	}
	f.mu.Unlock()
	return f.base.GetDirectory(ctx, d)
}

func (f *faultFetcher) GetTreeRootDirectory(ctx context.Context, d digest.Digest) (*remoteexecution.Directory, error) {
	return f.base.GetTreeRootDirectory(ctx, d)
}

func (f *faultFetcher) GetTreeChildDirectory(ctx context.Context, t, c digest.Digest) (*remoteexecution.Directory, error) {
	return f.base.GetTreeChildDirectory(ctx, t, c)
}

// rig is the implementation under test for one case: the real in-memory
// directory, the real CAS initial contents fetcher and CAS file factories behind
// the real virtualBuildDirectory.MergeDirectoryContents.
type rig struct {
	ctx      context.Context
	opts     map[string]string
	dfName   string
	df       digest.Function
	hashLen  int
	cas      *fakeCAS
	logger   *collectingLogger
	fetcher  *faultFetcher
	injected int
	dirCalls int
	seed     uint64
	ha       virtual.StatefulHandleAllocator
	symlinks virtual.SymlinkFactory
	setter   virtual.DefaultAttributesSetter
	root     virtual.PrepopulatedDirectory
	bd       builder.BuildDirectory
	mask     virtual.AttributesMask
	norm     *signallingNormalizer
	monitor  *access.BloomFilterComputingUnreadDirectoryMonitor
}

func newRig(opts map[string]string, seed uint64) (*rig, error) {
	r := &rig{ctx: context.Background(), opts: opts, cas: newFakeCAS(), logger: &collectingLogger{}, seed: seed}
	r.dfName = opts["df"]
	if r.dfName == "" {
		r.dfName = "sha256"
	}
	fn, ok := digestFunctions[r.dfName]
	if !ok {
		return nil, fmt.Errorf("unknown digest function %q", r.dfName)
	}
	r.df = digest.MustNewFunction("verif", fn)
	r.hashLen = hashLens[r.dfName]
	var base cas.DirectoryFetcher = cas.NewBlobAccessDirectoryFetcher(r.cas, 1<<20, 0)
	if n, _ := strconv.Atoi(opts["cache"]); n > 0 {
		base = cas.NewCachingDirectoryFetcher(base, digest.KeyWithoutInstance, n, int64(n)*200,
			eviction.NewLRUSet[cas.CachingDirectoryFetcherKey]())
	}
	r.fetcher = &faultFetcher{base: base, failing: r.cas.failing, injected: &r.injected, calls: &r.dirCalls}
	r.mask = virtual.AttributesMaskFileType | virtual.AttributesMaskPermissions | virtual.AttributesMaskSizeBytes | virtual.AttributesMaskSymlinkTarget
	if opts["locked"] == "1" {
		r.mask |= virtual.AttributesMaskChangeID
	}
	r.newRoot()
	return r, nil
}

// newRoot builds a fresh build directory the way cmd/bb_worker does.
func (r *rig) newRoot() {
	g := newRng(hx.NewRand(r.seed + 77))
	if r.opts["alloc"] == "nfs" {
		r.ha = virtual.NewNFSHandleAllocator(g)
	} else {
		r.ha = virtual.NewFUSEHandleAllocator(g)
	}
	r.norm = &signallingNormalizer{called: make(chan string, 1)}
	r.setter = func(requested virtual.AttributesMask, attributes *virtual.Attributes) {}
	r.symlinks = virtual.NewHandleAllocatingSymlinkFactory(
		virtual.NewBaseSymlinkFactory(r.setter), r.ha.New(), path.LocalFormat)
	characterDevices := virtual.NewHandleAllocatingCharacterDeviceFactory(virtual.BaseCharacterDeviceFactory, r.ha.New())
	r.root = virtual.NewInMemoryPrepopulatedDirectory(
		virtual.NewHandleAllocatingFileAllocator(
			virtual.NewPoolBackedFileAllocator(pool.EmptyFilePool, util.DefaultErrorLogger, r.setter, virtual.NoNamedAttributesFactory),
			r.ha),
		virtual.NewErrorSymlinkFactory(status.Error(codes.PermissionDenied, "Symlink outside build directory")),
		r.logger, r.ha, sort.Sort, func(string) bool { return false }, clock.SystemClock,
		r.norm, r.setter, virtual.NoNamedAttributesFactory)
	r.bd = builder.NewVirtualBuildDirectory(r.root, r.fetcher, r.cas, r.symlinks, characterDevices, r.ha, r.setter, clock.SystemClock)
	r.bd.InstallHooks(memPool{}, r.logger)
}

func (r *rig) digestOf(hash string, size int64) (digest.Digest, error) {
	return r.df.NewDigest(hash, size)
}

func statusName(s virtual.Status) string {
	switch s {
	case virtual.StatusOK:
		return "ok"
	case virtual.StatusErrAccess:
		return "EACCES"
	case virtual.StatusErrExist:
		return "EEXIST"
	case virtual.StatusErrInval:
		return "EINVAL"
	case virtual.StatusErrIO:
		return "EIO"
	case virtual.StatusErrIsDir:
		return "EISDIR"
	case virtual.StatusErrNoEnt:
		return "ENOENT"
	case virtual.StatusErrNotDir:
		return "ENOTDIR"
	case virtual.StatusErrNotEmpty:
		return "ENOTEMPTY"
	case virtual.StatusErrSymlink:
		return "ESYMLINK"
	case virtual.StatusErrWrongType:
		return "EWRONGTYPE"
	case virtual.StatusErrPerm:
		return "EPERM"
	case virtual.StatusErrROFS:
		return "EROFS"
	case virtual.StatusErrStale:
		return "ESTALE"
	case virtual.StatusErrNXIO:
		return "ENXIO"
	}
	return fmt.Sprintf("status-%d", int(s))
}

func errName(err error) string {
	if err == nil {
		return "ok"
	}
	if errors.Is(err, syscall.EEXIST) {
		return "EEXIST"
	}
	if errors.Is(err, syscall.ENOENT) {
		return "ENOENT"
	}
	switch status.Code(err) {
	case codes.InvalidArgument:
		return "err:inval"
	case codes.NotFound:
		return "err:notfound"
	}
	return "err:fault"
}

func targetString(p path.Parser) string {
	b, sw := path.EmptyBuilder.Join(path.VoidScopeWalker)
	if err := path.Resolve(p, sw); err != nil {
		return "<unresolvable>"
	}
	return b.GetUNIXString()
}

// kindOfLeaf describes a leaf from what the virtual file system shows.
func (r *rig) kindOfLeaf(leaf virtual.Leaf, a *virtual.Attributes) string {
	switch a.GetFileType() {
	case filesystem.FileTypeSymlink:
		t, ok := a.GetSymlinkTarget()
		if !ok {
			return "sym:<no target>"
		}
		return "sym:" + tokBytes(targetString(t))
	case filesystem.FileTypeRegularFile:
		perm, _ := a.GetPermissions()
		if perm&virtual.PermissionsWrite != 0 {
			return "local"
		}
		p := virtual.ApplyGetContainingDigests{Context: r.ctx}
		if !leaf.VirtualApply(&p) || p.Err != nil {
			return "file:<no digest>"
		}
		items := p.ContainingDigests.Items()
		if len(items) != 1 {
			return "file:<digest count>"
		}
		size, _ := a.GetSizeBytes()
		x := 0
		if perm&virtual.PermissionsExecute != 0 {
			x = 1
		}
		if int64(size) != items[0].GetSizeBytes() {
			return fmt.Sprintf("file:%s:size-attribute-%d-differs-from-digest-%d", items[0].GetHashString(), size, items[0].GetSizeBytes())
		}
		return fmt.Sprintf("file:%s:%d:%d", items[0].GetHashString(), size, x)
	}
	return fmt.Sprintf("filetype-%d", int(a.GetFileType()))
}

type reporter struct {
	r       *rig
	entries []string
	names   []string
}

func (rp *reporter) ReportEntry(nextCookie uint64, name path.Component, child virtual.DirectoryChild, a *virtual.Attributes) bool {
	d, leaf := child.GetPair()
	k := "dir"
	if d == nil {
		k = rp.r.kindOfLeaf(leaf, a)
	}
	rp.names = append(rp.names, name.String())
	rp.entries = append(rp.entries, tokBytes(name.String())+"="+k)
	return true
}

// walkTo follows comps with VirtualLookup from the root.
func (r *rig) walkTo(comps []string) (virtual.Directory, string) {
	var cur virtual.Directory = r.root
	for _, c := range comps {
		comp, ok := path.NewComponent(c)
		if !ok {
			return nil, "bad-name"
		}
		var a virtual.Attributes
		child, s := cur.VirtualLookup(r.ctx, comp, r.mask, &a)
		if s != virtual.StatusOK {
			return nil, statusName(s)
		}
		d, _ := child.GetPair()
		if d == nil {
			return nil, "ENOTDIR"
		}
		cur = d
	}
	return cur, ""
}

func decodeComps(ts []string) ([]string, bool) {
	out := make([]string, len(ts))
	for i, t := range ts {
		s, ok := untokBytes(t)
		if !ok {
			return nil, false
		}
		out[i] = s
	}
	return out, true
}

// exec runs one operation on the implementation and renders its observable
// result. Panics are caught by the caller.
func (r *rig) exec(op string, args []string) string {
	switch op {
	case "merge", "mmerge":
		h, s, ok := untokDig(args[0])
		if !ok {
			return "bad-op"
		}
		d, err := r.digestOf(h, s)
		if err != nil {
			return "bad-op"
		}
		if op == "mmerge" { // with the real Bloom filter computing access monitor
			r.monitor = access.NewBloomFilterComputingUnreadDirectoryMonitor()
			return errName(r.bd.MergeDirectoryContents(r.ctx, r.logger, d, r.monitor))
		}
		return errName(r.bd.MergeDirectoryContents(r.ctx, r.logger, d, nil))
	case "rename", "link":
		p1, x1, p2, x2, ok := splitTwoPaths(args)
		if !ok {
			return "bad-op"
		}
		n1, ok1 := path.NewComponent(x1)
		n2, ok2 := path.NewComponent(x2)
		if !ok1 || !ok2 {
			return "bad-name"
		}
		d1, st := r.walkTo(p1)
		if st != "" {
			return st
		}
		if op == "link" {
			var a virtual.Attributes
			child, s := d1.VirtualLookup(r.ctx, n1, r.mask, &a)
			if s != virtual.StatusOK {
				return statusName(s)
			}
			dir, leaf := child.GetPair()
			if dir != nil {
				return "EISDIR"
			}
			d2, st := r.walkTo(p2)
			if st != "" {
				return st
			}
			var out virtual.Attributes
			_, s = d2.VirtualLink(r.ctx, n2, leaf, r.mask, &out)
			return statusName(s)
		}
		d2, st := r.walkTo(p2)
		if st != "" {
			return st
		}
		_, _, s := d1.VirtualRename(r.ctx, n1, d2, n2)
		return statusName(s)
	case "readdir":
		cs, ok := decodeComps(args)
		if !ok {
			return "bad-op"
		}
		d, st := r.walkTo(cs)
		if st != "" {
			return st
		}
		rp := &reporter{r: r}
		if s := d.VirtualReadDir(r.ctx, 0, r.mask, rp); s != virtual.StatusOK {
			return statusName(s)
		}
		return "[" + strings.Join(rp.sorted(), ",") + "]"
	}
	var off, length int
	if op == "read" {
		if len(args) < 3 {
			return "bad-op"
		}
		var e1, e2 error
		off, e1 = strconv.Atoi(args[0])
		length, e2 = strconv.Atoi(args[1])
		if e1 != nil || e2 != nil {
			return "bad-op"
		}
		args = args[2:]
	}
	cs, ok := decodeComps(args)
	if !ok || len(cs) == 0 {
		return "bad-op"
	}
	name, okn := path.NewComponent(cs[len(cs)-1])
	if !okn {
		return "bad-name"
	}
	d, st := r.walkTo(cs[:len(cs)-1])
	if st != "" {
		return st
	}
	var a virtual.Attributes
	switch op {
	case "lookup":
		child, s := d.VirtualLookup(r.ctx, name, r.mask, &a)
		if s != virtual.StatusOK {
			return statusName(s)
		}
		if dir, leaf := child.GetPair(); dir == nil {
			return r.kindOfLeaf(leaf, &a)
		}
		return "dir"
	case "digests": // ApplyGetContainingDigests on the node as it is (internal interface)
		child, s := d.VirtualLookup(r.ctx, name, r.mask, &a)
		if s != virtual.StatusOK {
			return statusName(s)
		}
		p := virtual.ApplyGetContainingDigests{Context: r.ctx}
		if !child.GetNode().VirtualApply(&p) {
			return "unhandled"
		}
		if p.Err != nil {
			return errName(p.Err)
		}
		items := p.ContainingDigests.Items()
		parts := make([]string, len(items))
		sort.Slice(items, func(i, j int) bool {
			if items[i].GetHashString() != items[j].GetHashString() {
				return items[i].GetHashString() < items[j].GetHashString()
			}
			return items[i].GetSizeBytes() < items[j].GetSizeBytes()
		})
		for i, it := range items {
			parts[i] = fmt.Sprintf("%s:%d", it.GetHashString(), it.GetSizeBytes())
		}
		return "{" + strings.Join(parts, ",") + "}"
	case "remove":
		_, s := d.VirtualRemove(r.ctx, name, true, true)
		return statusName(s)
	case "mkdir":
		_, _, s := d.VirtualMkdir(r.ctx, name, (&virtual.Attributes{}).SetPermissions(virtual.PermissionsRead|virtual.PermissionsWrite|virtual.PermissionsExecute), r.mask, &a)
		return statusName(s)
	case "create":
		leaf, _, _, s := d.VirtualOpenChild(r.ctx, name, virtual.ShareMaskWrite,
			(&virtual.Attributes{}).SetPermissions(virtual.PermissionsRead|virtual.PermissionsWrite), nil, r.mask, &a)
		if s == virtual.StatusOK {
			leaf.VirtualClose(virtual.ShareMaskWrite)
		}
		return statusName(s)
	case "openw", "opentrunc", "read":
		type variant struct {
			share virtual.ShareMask
			trunc bool
		}
		var variants []variant
		switch op {
		case "openw": // every share mask that contains the write bit
			variants = []variant{{virtual.ShareMaskWrite, false}, {virtual.ShareMaskRead | virtual.ShareMaskWrite, false}}
		case "opentrunc": // O_TRUNC with every share mask
			variants = []variant{{virtual.ShareMaskRead, true}, {virtual.ShareMaskWrite, true}, {virtual.ShareMaskRead | virtual.ShareMaskWrite, true}}
		case "read":
			variants = []variant{{virtual.ShareMaskRead, false}}
		}
		results := make([]string, len(variants))
		for i, v := range variants {
			var av virtual.Attributes
			leaf, _, _, s := d.VirtualOpenChild(r.ctx, name, v.share, nil, &virtual.OpenExistingOptions{Truncate: v.trunc}, r.mask, &av)
			results[i] = statusName(s)
			if s != virtual.StatusOK {
				continue
			}
			if op == "read" {
				if perm, _ := av.GetPermissions(); perm&virtual.PermissionsWrite != 0 {
					results[i] = "localdata"
				} else {
					buf := make([]byte, length)
					n, _, rs := leaf.VirtualRead(r.ctx, buf, uint64(off))
					if rs != virtual.StatusOK {
						results[i] = statusName(rs)
					} else {
						results[i] = "data:" + tokBytes(string(buf[:n]))
					}
				}
			}
			leaf.VirtualClose(v.share)
		}
		return combine(results)
	}
	// setsize, alloc, write act on the node itself.
	child, s := d.VirtualLookup(r.ctx, name, r.mask, &a)
	if s != virtual.StatusOK {
		return statusName(s)
	}
	dir, leaf := child.GetPair()
	// a size change alone, to another size, and together with a chmod / mtime change
	sizeChanges := []*virtual.Attributes{
		(&virtual.Attributes{}).SetSizeBytes(3),
		(&virtual.Attributes{}).SetSizeBytes(0),
		(&virtual.Attributes{}).SetSizeBytes(3).SetPermissions(virtual.PermissionsRead | virtual.PermissionsWrite | virtual.PermissionsExecute),
		(&virtual.Attributes{}).SetSizeBytes(64).SetPermissions(virtual.PermissionsRead),
	}
	if dir != nil {
		if op == "setsize" {
			results := make([]string, len(sizeChanges))
			for i, in := range sizeChanges {
				var out virtual.Attributes
				results[i] = statusName(dir.VirtualSetAttributes(r.ctx, in, r.mask, &out))
			}
			return combine(results)
		}
		return "EISDIR"
	}
	switch op {
	case "setsize":
		results := make([]string, len(sizeChanges))
		for i, in := range sizeChanges {
			var out virtual.Attributes
			results[i] = statusName(leaf.VirtualSetAttributes(r.ctx, in, r.mask, &out))
		}
		return combine(results)
	case "alloc":
		return combine([]string{statusName(leaf.VirtualAllocate(r.ctx, 0, 16)), statusName(leaf.VirtualAllocate(r.ctx, 100, 1))})
	case "write":
		return writeDirect(r.ctx, leaf)
	}
	return "bad-op"
}

// combine: all variants of one kind of attempt must be answered alike.
func combine(results []string) string {
	for _, x := range results[1:] {
		if x != results[0] {
			return "variants-differ:" + strings.Join(results, "/")
		}
	}
	return results[0]
}

// writeDirect calls VirtualWrite without a preceding successful open for
// writing. Read-only leaves panic ("should have been intercepted"), which is
// reported as `unreachable`; what matters is that it never reports success.
func writeDirect(ctx context.Context, leaf virtual.Leaf) (out string) {
	defer func() {
		if p := recover(); p != nil {
			out = "unreachable"
		}
	}()
	n, s := leaf.VirtualWrite(ctx, []byte("verif"), 0)
	if s == virtual.StatusOK && n > 0 {
		return "ok"
	}
	if s == virtual.StatusOK {
		return "ok-0-bytes"
	}
	return statusName(s)
}

func (rp *reporter) sorted() []string {
	type pair struct{ name, entry string }
	ps := make([]pair, 0, len(rp.names))
	for _, en := range rp.entries {
		// entry = tok(name)=kind
		i := strings.IndexByte(en, '=')
		n, _ := untokBytes(en[:i])
		ps = append(ps, pair{n, en})
	}
	sort.Slice(ps, func(i, j int) bool { return ps[i].name < ps[j].name })
	out := make([]string, len(ps))
	for i, p := range ps {
		out[i] = p.entry
	}
	return out
}

// concurrentWalk lets `threads` goroutines list every given directory path, each
// in its own random order, on the same tree at the same time. Returns per path
// the common answer, or a description of a disagreement.
func (r *rig) concurrentWalk(paths [][]string, threads int, seed uint64) (answers []string, disagreement string) {
	results := make([][]string, threads)
	var wg sync.WaitGroup
	for t := 0; t < threads; t++ {
		order := make([]int, len(paths))
		for i := range order {
			order[i] = i
		}
		rnd := hx.NewRand(seed*31 + uint64(t))
		for i := len(order) - 1; i > 0; i-- {
			j := rnd.Intn(i + 1)
			order[i], order[j] = order[j], order[i]
		}
		results[t] = make([]string, len(paths))
		wg.Add(1)
		go func(t int) {
			defer wg.Done()
			for _, i := range order {
				func() {
					defer func() {
						if p := recover(); p != nil {
							results[t][i] = fmt.Sprintf("panic: %v", p)
						}
					}()
					results[t][i] = r.exec("readdir", toks(paths[i]))
				}()
			}
		}(t)
	}
	wg.Wait()
	answers = results[0]
	for t := 1; t < threads; t++ {
		for i := range paths {
			if results[t][i] != answers[i] && disagreement == "" {
				disagreement = fmt.Sprintf("concurrent explorations of one tree disagree on readdir %q: %q vs %q", strings.Join(paths[i], "/"), answers[i], results[t][i])
			}
		}
	}
	return answers, disagreement
}

// race3Result is what the three-party scenario observed.
type race3Result struct {
	t1, rn1, rn2, t2 string // outputs of: readdir p/D, rename D->T, rename E->D, lookup p/D
	t2Listing        string // listing of the directory object T2's lookup returned
	parked           bool   // T2 really had to drop the parent lock and wait
	stale            bool   // T2 got a directory object that is not the one under the name
	stuck            string // the scenario could not be driven (not a finding)
}

var race3Timeout = hx.ScaledTimeout(20 * time.Second)

// race3 drives the interleaving: T1 keeps the lazily loaded directory D of
// directory p locked (its GetDirectory is suspended), T2 looks D up from p with
// attributes that need D's lock (drops p's lock inside LockPile.Lock and waits),
// the caller renames D away and E in, then storage resumes.
func (r *rig) race3(p []string, nameD, nameE, nameT string, digestKeyD string) (res race3Result) {
	pdir, st := r.walkTo(p)
	if st != "" {
		res.stuck = "cannot walk to the parent: " + st
		return
	}
	compD := path.MustNewComponent(nameD)
	var a virtual.Attributes
	child, s := pdir.VirtualLookup(r.ctx, compD, virtual.AttributesMaskFileType, &a)
	oldD, _ := child.GetPair()
	if s != virtual.StatusOK || oldD == nil {
		res.stuck = "D is not a directory"
		return
	}
	f := r.fetcher
	f.mu.Lock()
	f.gateKey, f.entered, f.resume = digestKeyD, make(chan struct{}, 1), make(chan struct{})
	entered, resume := f.entered, f.resume
	f.mu.Unlock()
	released := false
	release := func() {
		if !released {
			released = true
			close(resume)
		}
	}
	defer func() {
		release()
		f.mu.Lock()
		f.gateKey = ""
		f.mu.Unlock()
	}()

	// T1: first exploration of D
	t1Done := make(chan string, 1)
	go func() {
		defer func() {
			if x := recover(); x != nil {
				t1Done <- fmt.Sprintf("panic: %v", x)
			}
		}()
		t1Done <- r.exec("readdir", toks(append(append([]string(nil), p...), nameD)))
	}()
	select {
	case <-entered:
		res.parked = true
	case out := <-t1Done: // D had been loaded before: nothing to park on
		res.t1 = out
	case <-time.After(race3Timeout):
		res.stuck = "T1 neither finished nor reached the storage"
		return
	}

	type lookupResult struct {
		child virtual.DirectoryChild
		s     virtual.Status
		panic string
	}
	t2Done := make(chan lookupResult, 1)
	startT2 := func() {
		go func() {
			var lr lookupResult
			defer func() {
				if x := recover(); x != nil {
					lr.panic = fmt.Sprintf("panic: %v", x)
				}
				t2Done <- lr
			}()
			var out virtual.Attributes
			lr.child, lr.s = pdir.VirtualLookup(r.ctx, compD, r.mask|virtual.AttributesMaskChangeID|virtual.AttributesMaskLastDataModificationTime, &out)
		}()
	}
	if res.parked {
		// T2 enters p (signalled while it holds p's lock); a probe that needs p's
		// lock returns only after T2 dropped it, i.e. T2 waits for D's lock
		r.norm.armed.Store(true)
		startT2()
		select {
		case <-r.norm.called:
		case <-time.After(race3Timeout):
			res.stuck = "T2 did not enter the parent directory"
			return
		}
		probe := make(chan struct{})
		go func() {
			var out virtual.Attributes
			pdir.VirtualGetAttributes(r.ctx, virtual.AttributesMaskChangeID, &out)
			close(probe)
		}()
		select {
		case <-probe:
		case <-time.After(race3Timeout):
			res.stuck = "T2 did not release the parent directory"
			return
		}
	}
	// T3: mv D T && mv E D
	two := func(a, b string) []string {
		return append([]string{strconv.Itoa(len(p) + 1)}, append(toks(append(append([]string(nil), p...), a)), toks(append(append([]string(nil), p...), b))...)...)
	}
	res.rn1 = r.exec("rename", two(nameD, nameT))
	res.rn2 = r.exec("rename", two(nameE, nameD))
	release()
	if res.parked {
		select {
		case res.t1 = <-t1Done:
		case <-time.After(race3Timeout):
			res.stuck = "T1 did not finish"
			return
		}
	} else {
		startT2()
	}
	var lr lookupResult
	select {
	case lr = <-t2Done:
	case <-time.After(race3Timeout):
		res.stuck = "T2 did not finish"
		return
	}
	if lr.panic != "" {
		res.t2 = lr.panic
		return
	}
	if lr.s != virtual.StatusOK {
		res.t2 = statusName(lr.s)
		return
	}
	t2Dir, _ := lr.child.GetPair()
	if t2Dir == nil {
		res.t2 = "leaf"
		return
	}
	res.t2 = "dir"
	// what is under the name now?
	var fa virtual.Attributes
	fresh, fs := pdir.VirtualLookup(r.ctx, compD, virtual.AttributesMaskFileType, &fa)
	freshDir, _ := fresh.GetPair()
	if fs != virtual.StatusOK || freshDir != t2Dir {
		res.stale = true
	}
	rp := &reporter{r: r}
	if s := t2Dir.VirtualReadDir(r.ctx, 0, r.mask, rp); s != virtual.StatusOK {
		res.t2Listing = statusName(s)
	} else {
		res.t2Listing = "[" + strings.Join(rp.sorted(), ",") + "]"
	}
	return
}
