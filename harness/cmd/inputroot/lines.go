package main

import (
	"encoding/hex"
	"fmt"
	"strconv"
	"strings"

	remoteexecution "github.com/bazelbuild/remote-apis/build/bazel/remote/execution/v2"
	"github.com/buildbarn/bb-storage/pkg/digest"
	"google.golang.org/protobuf/proto"
)

// Wire tokens shared with lean/BbRe/Drivers/InputRoot.lean.

func tokBytes(s string) string { return "x" + hex.EncodeToString([]byte(s)) }

func untokBytes(t string) (string, bool) {
	if !strings.HasPrefix(t, "x") {
		return "", false
	}
	b, err := hex.DecodeString(t[1:])
	if err != nil {
		return "", false
	}
	return string(b), true
}

// tokDig encodes a well-formed digest: hash string (as bytes) and size.
func tokDig(hash string, size int64) string { return tokBytes(hash) + "/" + strconv.FormatInt(size, 10) }

func tokDigest(d digest.Digest) string { return tokDig(d.GetHashString(), d.GetSizeBytes()) }

func untokDig(t string) (string, int64, bool) {
	parts := strings.Split(t, "/")
	if len(parts) != 2 {
		return "", 0, false
	}
	h, ok := untokBytes(parts[0])
	if !ok {
		return "", 0, false
	}
	n, err := strconv.ParseInt(parts[1], 10, 64)
	if err != nil {
		return "", 0, false
	}
	return h, n, true
}

func tokRaw(d *remoteexecution.Digest) string {
	if d == nil {
		return "-"
	}
	return tokBytes(d.Hash) + "/" + strconv.FormatInt(d.SizeBytes, 10)
}

func untokRaw(t string) (*remoteexecution.Digest, bool) {
	if t == "-" {
		return nil, true
	}
	h, n, ok := untokDig(t)
	if !ok {
		return nil, false
	}
	return &remoteexecution.Digest{Hash: h, SizeBytes: n}, true
}

var garbageBlob = []byte{0xff, 0xff, 0xff, 0xff}

// dirLine renders a Directory message (or garbage) stored under a digest.
func dirLine(hash string, size int64, m *remoteexecution.Directory) string {
	if m == nil {
		return "dir " + tokDig(hash, size) + " garbage"
	}
	w := []string{"dir", tokDig(hash, size), strconv.Itoa(len(m.Directories)), strconv.Itoa(len(m.Files)), strconv.Itoa(len(m.Symlinks))}
	for _, e := range m.Directories {
		w = append(w, tokBytes(e.Name), tokRaw(e.Digest))
	}
	for _, e := range m.Files {
		x := "0"
		if e.IsExecutable {
			x = "1"
		}
		w = append(w, tokBytes(e.Name), tokRaw(e.Digest), x)
	}
	for _, e := range m.Symlinks {
		w = append(w, tokBytes(e.Name), tokBytes(e.Target))
	}
	return strings.Join(w, " ")
}

// parseDirLine is the inverse of dirLine (used when a history is replayed).
func parseDirLine(w []string) (hash string, size int64, m *remoteexecution.Directory, err error) {
	bad := fmt.Errorf("malformed dir line")
	if len(w) < 3 {
		return "", 0, nil, bad
	}
	hash, size, ok := untokDig(w[1])
	if !ok {
		return "", 0, nil, bad
	}
	if len(w) == 3 && w[2] == "garbage" {
		return hash, size, nil, nil
	}
	if len(w) < 5 {
		return "", 0, nil, bad
	}
	nd, e1 := strconv.Atoi(w[2])
	nf, e2 := strconv.Atoi(w[3])
	ns, e3 := strconv.Atoi(w[4])
	if e1 != nil || e2 != nil || e3 != nil || len(w) != 5+2*nd+3*nf+2*ns {
		return "", 0, nil, bad
	}
	m = &remoteexecution.Directory{}
	i := 5
	for k := 0; k < nd; k++ {
		n, ok1 := untokBytes(w[i])
		d, ok2 := untokRaw(w[i+1])
		if !ok1 || !ok2 {
			return "", 0, nil, bad
		}
		m.Directories = append(m.Directories, &remoteexecution.DirectoryNode{Name: n, Digest: d})
		i += 2
	}
	for k := 0; k < nf; k++ {
		n, ok1 := untokBytes(w[i])
		d, ok2 := untokRaw(w[i+1])
		if !ok1 || !ok2 || (w[i+2] != "0" && w[i+2] != "1") {
			return "", 0, nil, bad
		}
		m.Files = append(m.Files, &remoteexecution.FileNode{Name: n, Digest: d, IsExecutable: w[i+2] == "1"})
		i += 3
	}
	for k := 0; k < ns; k++ {
		n, ok1 := untokBytes(w[i])
		t, ok2 := untokBytes(w[i+1])
		if !ok1 || !ok2 {
			return "", 0, nil, bad
		}
		m.Symlinks = append(m.Symlinks, &remoteexecution.SymlinkNode{Name: n, Target: t})
		i += 2
	}
	return hash, size, m, nil
}

func marshalDir(m *remoteexecution.Directory) []byte {
	if m == nil {
		return garbageBlob
	}
	b, err := proto.MarshalOptions{Deterministic: true}.Marshal(m)
	if err != nil {
		panic(err)
	}
	return b
}

// opLine renders `<op> <nF> <digests> <args>`.
func opLine(op string, faults []string, args ...string) string {
	w := []string{op, strconv.Itoa(len(faults))}
	w = append(w, faults...)
	w = append(w, args...)
	return strings.Join(w, " ")
}

// splitOp is the inverse of opLine.
func splitOp(w []string) (op string, faults []string, args []string, ok bool) {
	if len(w) < 2 {
		return "", nil, nil, false
	}
	n, err := strconv.Atoi(w[1])
	if err != nil || n < 0 || len(w) < 2+n {
		return "", nil, nil, false
	}
	return w[0], w[2 : 2+n], w[2+n:], true
}
