package main

import (
	"context"
	"fmt"
	"os"
	"path/filepath"
	"sort"
	"strings"
	"sync"
	"time"

	remoteexecution "github.com/bazelbuild/remote-apis/build/bazel/remote/execution/v2"
	"github.com/buildbarn/bb-remote-execution/pkg/builder"
	"github.com/buildbarn/bb-remote-execution/pkg/cas"
	"github.com/buildbarn/bb-storage/pkg/filesystem"
	"github.com/buildbarn/bb-storage/pkg/filesystem/path"
	"golang.org/x/sync/semaphore"
	"google.golang.org/grpc/codes"
	"google.golang.org/grpc/status"
	"google.golang.org/protobuf/proto"

	"verifharness/internal/hx"
)

// Part D': the eager naiveBuildDirectory against Model/NaiveDir.lean (driver
// drv_naivedir). One MergeDirectoryContents of the REAL naive_build_directory.go
// + blob_access_file_fetcher.go + bb-storage local directory into a fresh
// temporary directory, with at most a few injected faults: storage reads by
// digest (fakeCAS.failing) and file system calls by (kind, path) through a
// wrapper around the real directory handles. The model gets the same store and
// the same oracle; compared: ok/error class and the canonical listing of the
// resulting tree whenever the model says it is determined.

type casLine struct {
	key  string
	line string
}

var (
	naiveDrv     *hx.Driver
	naiveDrvErr  error
	naiveDrvOnce sync.Once
)

func naiveDriver() (*hx.Driver, error) {
	naiveDrvOnce.Do(func() { naiveDrv, naiveDrvErr = hx.StartDriver("naivedir") })
	return naiveDrv, naiveDrvErr
}

// naiveModelLines: lines the naive driver has answered (for the result file).
func naiveModelLines() int {
	if naiveDrv == nil {
		return 0
	}
	return naiveDrv.Lines
}

type fsFaults struct {
	mu    sync.Mutex
	want  map[string]bool // "kind:comp,comp"
	fired int
}

func (f *fsFaults) hit(kind string, p []string) bool {
	f.mu.Lock()
	defer f.mu.Unlock()
	if f.want[kind+":"+strings.Join(toks(p), ",")] {
		f.fired++
		return true
	}
	return false
}

var errInjectedFS = status.Error(codes.Internal, "injected file system fault")

// faultDir wraps a real directory handle; path = components below the build directory.
type faultDir struct {
	filesystem.DirectoryCloser
	p []string
	f *fsFaults
}

func (d *faultDir) sub(name path.Component) []string {
	return append(append([]string(nil), d.p...), name.String())
}

func (d *faultDir) Mkdir(name path.Component, perm os.FileMode) error {
	if d.f.hit("mkdir", d.sub(name)) {
		return errInjectedFS
	}
	return d.DirectoryCloser.Mkdir(name, perm)
}

func (d *faultDir) EnterDirectory(name path.Component) (filesystem.DirectoryCloser, error) {
	if d.f.hit("enter", d.sub(name)) {
		return nil, errInjectedFS
	}
	c, err := d.DirectoryCloser.EnterDirectory(name)
	if err != nil {
		return nil, err
	}
	return &faultDir{DirectoryCloser: c, p: d.sub(name), f: d.f}, nil
}

func (d *faultDir) Symlink(oldName path.Parser, newName path.Component) error {
	// the target is resolved before the system call is made
	_, sw := path.EmptyBuilder.Join(path.VoidScopeWalker)
	if err := path.Resolve(oldName, sw); err != nil {
		return err
	}
	if d.f.hit("symlink", d.sub(newName)) {
		return errInjectedFS
	}
	return d.DirectoryCloser.Symlink(oldName, newName)
}

func (d *faultDir) OpenAppend(name path.Component, creationMode filesystem.CreationMode) (filesystem.FileAppender, error) {
	if d.f.hit("create", d.sub(name)) {
		return nil, errInjectedFS
	}
	return d.DirectoryCloser.OpenAppend(name, creationMode)
}

func (d *faultDir) Chtimes(name path.Component, atime, mtime time.Time) error {
	if d.f.hit("chtimes", d.sub(name)) {
		return errInjectedFS
	}
	return d.DirectoryCloser.Chtimes(name, atime, mtime)
}

// recordingFileFetcher notes whether a download failed (then the reported code is timing dependent).
type recordingFileFetcher struct {
	cas.FileFetcher
	mu     sync.Mutex
	failed int
}

func errClass(err error) string {
	switch status.Code(err) {
	case codes.InvalidArgument:
		return "inval"
	case codes.NotFound:
		return "notfound"
	case codes.Unavailable:
		return "fault"
	case codes.Internal, codes.Unknown:
		return "fs"
	case codes.Canceled:
		return "canceled"
	}
	return "other-" + status.Code(err).String()
}

// modelListing renders what is on disk like Drivers/NaiveDir.lean renders a tree:
// entries sorted by name bytes, files by the digest of their contents.
func (r *rig) modelListing(dir string) (string, error) {
	entries, err := os.ReadDir(dir)
	if err != nil {
		return "", err
	}
	names := make([]string, 0, len(entries))
	for _, e := range entries {
		names = append(names, e.Name())
	}
	sort.Strings(names)
	parts := make([]string, 0, len(names))
	for _, name := range names {
		p := filepath.Join(dir, name)
		info, err := os.Lstat(p)
		if err != nil {
			return "", err
		}
		switch {
		case info.Mode()&os.ModeSymlink != 0:
			t, err := os.Readlink(p)
			if err != nil {
				return "", err
			}
			parts = append(parts, tokBytes(name)+"=sym:"+tokBytes(t))
		case info.IsDir():
			sub, err := r.modelListing(p)
			if err != nil {
				return "", err
			}
			parts = append(parts, tokBytes(name)+"=dir"+sub)
		case info.Mode().IsRegular():
			b, err := os.ReadFile(p)
			if err != nil {
				return "", err
			}
			g := r.df.NewGenerator(int64(len(b)))
			g.Write(b)
			d := g.Sum()
			x := 0
			if info.Mode()&0o111 != 0 {
				x = 1
			}
			s := fmt.Sprintf("%s=file:%s:%d:%d", tokBytes(name), d.GetHashString(), d.GetSizeBytes(), x)
			if info.Mode()&0o222 != 0 {
				s += ":writable"
			}
			parts = append(parts, s)
		default:
			parts = append(parts, tokBytes(name)+"=other")
		}
	}
	return "[" + strings.Join(parts, ",") + "]", nil
}

type naiveVerdict struct {
	monitor  string
	mismatch string
	expected string
	actual   string
	invalid  bool
}

func validFaultTok(t string) bool {
	i := strings.IndexByte(t, ':')
	if i <= 0 {
		return false
	}
	switch t[:i] {
	case "cas":
		_, _, ok := untokDig(t[i+1:])
		return ok
	case "mkdir", "enter", "symlink", "create", "chtimes":
		for _, c := range strings.Split(t[i+1:], ",") {
			if _, ok := untokBytes(c); !ok {
				return false
			}
		}
		return true
	}
	return false
}

// naiveModelCompare runs one faulted eager merge of the real code and of the model.
func (r *rig) naiveModelCompare(store []casLine, hash string, size int64, faults []string, flags map[string]int) (v naiveVerdict) {
	d, err := r.digestOf(hash, size)
	if err != nil {
		v.invalid = true
		return
	}
	for _, t := range faults {
		if !validFaultTok(t) {
			v.invalid = true
			return
		}
	}
	base, err := os.MkdirTemp("", "c17-nm-")
	if err != nil {
		v.invalid = true
		return
	}
	defer os.RemoveAll(base)
	dir := filepath.Join(base, "build")
	if os.Mkdir(dir, 0o777) != nil || os.WriteFile(filepath.Join(base, "sentinel"), []byte("outside"), 0o644) != nil ||
		os.Mkdir(filepath.Join(base, "sibling"), 0o777) != nil {
		v.invalid = true
		return
	}
	ld, err := filesystem.NewLocalDirectory(path.LocalFormat.NewParser(dir))
	if err != nil {
		v.invalid = true
		return
	}
	ff := &fsFaults{want: map[string]bool{}}
	for k := range r.cas.failing {
		delete(r.cas.failing, k)
	}
	for _, t := range faults {
		if strings.HasPrefix(t, "cas:") {
			h, sz, _ := untokDig(t[4:])
			r.cas.failing[casKeyOf(h, sz)] = true
		} else {
			ff.want[t] = true
		}
	}
	r.cas.injected = 0
	// no directory cache, no hard-link cache: what the model describes
	dirFetcher := cas.NewBlobAccessDirectoryFetcher(r.cas, 1<<20, 0)
	fileFetcher := cas.NewBlobAccessFileFetcher(r.cas)
	bd := builder.NewNaiveBuildDirectory(&faultDir{DirectoryCloser: ld, f: ff}, dirFetcher, fileFetcher, semaphore.NewWeighted(3), r.cas)
	var merr error
	func() {
		defer func() {
			if p := recover(); p != nil {
				v.monitor = fmt.Sprintf("naive merge panicked: %v", p)
			}
		}()
		merr = bd.MergeDirectoryContents(context.Background(), r.logger, d, nil)
		bd.Close()
	}()
	injected := ff.fired + r.cas.injected
	for k := range r.cas.failing {
		delete(r.cas.failing, k)
	}
	if v.monitor != "" {
		return
	}
	got, lerr := r.modelListing(dir)
	if lerr != nil {
		v.monitor = "cannot read back the materialised tree: " + lerr.Error()
		return
	}

	// ---- monitor (independent of the model) ----
	avail := map[string][]byte{}
	for k, b := range r.cas.blobs {
		if !r.cas.missing[k] {
			avail[k] = b
		}
	}
	if merr == nil {
		flags["naive-model-ok"]++
		if injected > 0 {
			v.monitor = fmt.Sprintf("naive merge returned OK although %d of the calls it issued failed (%s)", injected, strings.Join(faults, " "))
			return
		}
		want, loadable := refTree(refDecode(avail, r.hashLen, hash, size, 0), avail)
		if !loadable {
			v.monitor = "naive merge of a tree with a malformed or absent directory/file returned OK"
			return
		}
		full, derr := diskTree(dir)
		if derr != nil || full != want {
			v.monitor = fmt.Sprintf("naive merge returned OK but the materialised tree differs from the tree named by the digest: on disk %s, requested %s", clip(full), clip(want))
			return
		}
	} else {
		flags["naive-model-err"]++
		if injected > 0 {
			flags["naive-model-fault-hit"]++
		}
		if _, loadable := refTree(refDecode(avail, r.hashLen, hash, size, 0), avail); loadable && injected == 0 {
			v.monitor = fmt.Sprintf("naive merge of a well-formed, complete tree failed without any fault: %v", merr)
			return
		}
	}
	// nothing outside the build directory changed
	outside, _ := os.ReadDir(base)
	sent, _ := os.ReadFile(filepath.Join(base, "sentinel"))
	sib, _ := os.ReadDir(filepath.Join(base, "sibling"))
	if len(outside) != 3 || string(sent) != "outside" || len(sib) != 0 {
		v.monitor = "naive merge changed something outside the build directory"
		return
	}

	// ---- model ----
	drv, derr := naiveDriver()
	if derr != nil {
		v.mismatch, v.expected, v.actual = "cannot start drv_naivedir", "driver", derr.Error()
		return
	}
	tell := func(line string) bool {
		out, err := drv.Ask(line)
		if err != nil || out != "ok" {
			v.invalid = true
			return false
		}
		return true
	}
	if !tell(fmt.Sprintf("cfg %d", r.hashLen)) {
		return
	}
	// The real storage has one name space: a blob stored as a file is also what GetDirectory of
	// its digest decodes (the empty blob is the empty Directory), and a Directory blob is also a
	// file. The model keeps two tables, so each blob is told in both roles.
	hasDir, hasBlob := map[string]bool{}, map[string]bool{}
	for _, l := range store {
		if strings.HasPrefix(l.line, "dir ") {
			hasDir[l.key] = true
		} else {
			hasBlob[l.key] = true
		}
	}
	for _, l := range store {
		if r.cas.missing[l.key] {
			continue
		}
		if !tell(l.line) {
			return
		}
		w := strings.Fields(l.line)
		h, sz, ok := untokDig(w[1])
		b, have := r.cas.blobs[l.key]
		if !ok || !have {
			continue
		}
		if w[0] == "blob" && !hasDir[l.key] {
			hasDir[l.key] = true
			var m remoteexecution.Directory
			if proto.Unmarshal(b, &m) == nil {
				if !tell(dirLine(h, sz, &m)) {
					return
				}
			} else if !tell(dirLine(h, sz, nil)) {
				return
			}
		}
		if w[0] == "dir" && !hasBlob[l.key] {
			hasBlob[l.key] = true
			if !tell("blob " + tokDig(h, sz) + " " + tokBytes(string(b))) {
				return
			}
		}
	}
	line := strings.Join(append([]string{"nmerge", tokDig(hash, size)}, faults...), " ")
	exp, aerr := drv.Ask(line)
	if aerr != nil {
		exp = "driver-error " + aerr.Error()
	}
	var actual string
	switch {
	case merr == nil:
		actual = "ok " + got
	case exp == "err:*":
		actual = "err:*" // only "error" is determined
		flags["naive-model-err-download"]++
	case strings.HasPrefix(exp, "err:* "):
		// a download failed: the tree left behind is nondeterministic but lies within the model's
		flags["naive-model-err-download"]++
		within, perr := listingWithin(got, exp[len("err:* "):])
		if perr != nil || within != "" {
			flags["naive-model-err-download-tree"]++
			actual = "err:* " + got + " (not within the model's tree: " + within + ")"
		} else {
			flags["naive-model-err-download-tree"]++
			actual = exp
		}
	default:
		actual = "err:" + errClass(merr) + " " + got
	}
	if exp != actual {
		v.mismatch = "model and implementation disagree on: " + abbreviate(line)
		v.expected, v.actual = exp, actual
	}
	return
}

// naiveFaultCandidates: every call the eager merge of this tree issues, as fault tokens.
func naiveFaultCandidates(n *refNode, p []string, out *[]string) {
	if n.hash != "" {
		*out = append(*out, "cas:"+tokDig(n.hash, n.size))
	}
	names := make([]string, 0, len(n.children))
	for k := range n.children {
		names = append(names, k)
	}
	sort.Strings(names)
	for _, k := range names {
		c := n.children[k]
		q := strings.Join(toks(append(append([]string(nil), p...), k)), ",")
		switch c.kind {
		case "dir":
			*out = append(*out, "mkdir:"+q, "enter:"+q)
			naiveFaultCandidates(c, append(append([]string(nil), p...), k), out)
		case "file":
			*out = append(*out, "create:"+q, "chtimes:"+q, "cas:"+tokDig(c.hash, c.size))
		case "sym":
			*out = append(*out, "symlink:"+q)
		}
	}
}

// genNaiveFaults picks the oracle of one faulted merge: none, one or two failing calls.
func (g *generator) genNaiveFaults(d genDir) []string {
	var cands []string
	naiveFaultCandidates(refDecode(g.blobs, g.hashLen, d.hash, d.size, 0), nil, &cands)
	n := g.rnd.Pick(25, 60, 15)
	var out []string
	for i := 0; i < n && len(cands) > 0; i++ {
		out = append(out, cands[g.rnd.Intn(len(cands))])
	}
	if g.rnd.Chance(1, 12) { // a call that is never issued
		out = append(out, "mkdir:"+tokBytes("never")+","+tokBytes("issued"))
	}
	return out
}

// ---- listings as trees (for "the real tree lies within the model's") ----

type lnode struct {
	kind     string // dir | file | sym | other
	children map[string]*lnode
}

// parseListing parses `[name=dir[...],name=file:...,name=sym:...]`.
func parseListing(s string, i int) (*lnode, int, error) {
	bad := fmt.Errorf("malformed listing")
	if i >= len(s) || s[i] != '[' {
		return nil, i, bad
	}
	i++
	n := &lnode{kind: "dir", children: map[string]*lnode{}}
	if i < len(s) && s[i] == ']' {
		return n, i + 1, nil
	}
	for {
		j := strings.IndexByte(s[i:], '=')
		if j < 0 {
			return nil, i, bad
		}
		name := s[i : i+j]
		i += j + 1
		switch {
		case strings.HasPrefix(s[i:], "dir["):
			c, k, err := parseListing(s, i+3)
			if err != nil {
				return nil, k, err
			}
			n.children[name] = c
			i = k
		default:
			k := i
			for k < len(s) && s[k] != ',' && s[k] != ']' {
				k++
			}
			kind := "other"
			if strings.HasPrefix(s[i:k], "file:") {
				kind = "file"
			} else if strings.HasPrefix(s[i:k], "sym:") {
				kind = "sym"
			}
			n.children[name] = &lnode{kind: kind}
			i = k
		}
		if i >= len(s) {
			return nil, i, bad
		}
		if s[i] == ']' {
			return n, i + 1, nil
		}
		if s[i] != ',' {
			return nil, i, bad
		}
		i++
	}
}

func lnodeWithin(a, b *lnode, p string) string {
	for name, ca := range a.children {
		cb, ok := b.children[name]
		if !ok {
			return p + "/" + name + " exists"
		}
		if ca.kind != cb.kind {
			return p + "/" + name + " is a " + ca.kind
		}
		if ca.kind == "dir" {
			if w := lnodeWithin(ca, cb, p+"/"+name); w != "" {
				return w
			}
		}
	}
	return ""
}

// listingWithin: "" if every entry of listing a is an entry of the same kind of listing b.
func listingWithin(a, b string) (string, error) {
	ta, _, err := parseListing(a, 0)
	if err != nil {
		return "", err
	}
	tb, _, err := parseListing(b, 0)
	if err != nil {
		return "", err
	}
	return lnodeWithin(ta, tb, ""), nil
}
