package main

import (
	"context"
	"fmt"
	"os"
	"path/filepath"
	"sort"
	"strings"

	"github.com/buildbarn/bb-remote-execution/pkg/builder"
	"github.com/buildbarn/bb-remote-execution/pkg/cas"
	"github.com/buildbarn/bb-storage/pkg/digest"
	"github.com/buildbarn/bb-storage/pkg/eviction"
	"github.com/buildbarn/bb-storage/pkg/filesystem"
	"github.com/buildbarn/bb-storage/pkg/filesystem/path"
	"golang.org/x/sync/semaphore"
)

// Part D (monitor only, no model): the eager naiveBuildDirectory on a real
// temporary directory, optionally behind the hard-linking file fetcher.

type naiveRig struct {
	base     string
	cacheDir filesystem.DirectoryCloser
	fetcher  cas.FileFetcher
	n        int
	maxFiles int
	maxSize  int64
	keyIDs   map[string]int    // cache file name -> id used towards the model
	keyBlob  map[string]string // cache file name -> CAS key of its contents
	dirFault map[string]bool   // cache entries currently replaced by a directory
}

func newNaiveRig(r *rig, hardlink bool, maxFiles int, maxSize int64) (*naiveRig, error) {
	base, err := os.MkdirTemp("", "c17-naive-")
	if err != nil {
		return nil, err
	}
	nr := &naiveRig{base: base, fetcher: cas.NewBlobAccessFileFetcher(r.cas), keyIDs: map[string]int{}, keyBlob: map[string]string{}, dirFault: map[string]bool{}}
	if hardlink {
		if err := os.Mkdir(filepath.Join(base, "cache"), 0o777); err != nil {
			return nil, err
		}
		nr.cacheDir, err = filesystem.NewLocalDirectory(path.LocalFormat.NewParser(filepath.Join(base, "cache")))
		if err != nil {
			return nil, err
		}
		nr.maxFiles, nr.maxSize = maxFiles, maxSize
		nr.fetcher = cas.NewHardlinkingFileFetcher(nr.fetcher, nr.cacheDir, maxFiles, maxSize, eviction.NewLRUSet[string]())
	}
	return nr, nil
}

func (nr *naiveRig) close() {
	if nr.cacheDir != nil {
		nr.cacheDir.Close()
	}
	os.RemoveAll(nr.base)
}

// diskTree renders what is on disk below dir like refTree renders the reference.
func diskTree(dir string) (string, error) {
	entries, err := os.ReadDir(dir)
	if err != nil {
		return "", err
	}
	parts := []string{}
	for _, e := range entries {
		p := filepath.Join(dir, e.Name())
		info, err := os.Lstat(p)
		if err != nil {
			return "", err
		}
		switch {
		case info.Mode()&os.ModeSymlink != 0:
			t, err := os.Readlink(p)
			if err != nil {
				return "", err
			}
			parts = append(parts, tokBytes(e.Name())+"=sym:"+tokBytes(t))
		case info.IsDir():
			sub, err := diskTree(p)
			if err != nil {
				return "", err
			}
			parts = append(parts, tokBytes(e.Name())+"=dir"+sub)
		case info.Mode().IsRegular():
			b, err := os.ReadFile(p)
			if err != nil {
				return "", err
			}
			x := 0
			if info.Mode()&0o111 != 0 {
				x = 1
			}
			w := 0
			if info.Mode()&0o222 != 0 {
				w = 1
			}
			parts = append(parts, fmt.Sprintf("%s=file:%s:x%d:w%d", tokBytes(e.Name()), tokBytes(string(b)), x, w))
		default:
			parts = append(parts, tokBytes(e.Name())+"=other")
		}
	}
	sort.Strings(parts)
	return "[" + strings.Join(parts, ",") + "]", nil
}

// refTree renders the reference in the same form; ok=false if some directory or
// file blob below cannot be loaded (an eager merge must then fail).
func refTree(n *refNode, blobs map[string][]byte) (string, bool) {
	if n.bad != "" {
		return "", false
	}
	parts := []string{}
	for name, c := range n.children {
		switch c.kind {
		case "dir":
			sub, ok := refTree(c, blobs)
			if !ok {
				return "", false
			}
			parts = append(parts, tokBytes(name)+"=dir"+sub)
		case "sym":
			parts = append(parts, tokBytes(name)+"=sym:"+tokBytes(c.target))
		case "file":
			b, ok := blobs[casKeyOf(c.hash, c.size)]
			if !ok {
				return "", false
			}
			x := 0
			if c.exec {
				x = 1
			}
			parts = append(parts, fmt.Sprintf("%s=file:%s:x%d:w0", tokBytes(name), tokBytes(string(b)), x))
		}
	}
	sort.Strings(parts)
	return "[" + strings.Join(parts, ",") + "]", true
}

// merge materialises a digest into a fresh sub-directory with the real
// naiveBuildDirectory and reports what the monitor has to say about it.
func (nr *naiveRig) merge(r *rig, hash string, size int64) (out, complaint string) {
	d, err := r.digestOf(hash, size)
	if err != nil {
		return "bad-op", ""
	}
	nr.n++
	dir := filepath.Join(nr.base, fmt.Sprintf("build%d", nr.n))
	if err := os.Mkdir(dir, 0o777); err != nil {
		return "bad-op", ""
	}
	ld, err := filesystem.NewLocalDirectory(path.LocalFormat.NewParser(dir))
	if err != nil {
		return "bad-op", ""
	}
	bd := builder.NewNaiveBuildDirectory(ld, r.fetcher, nr.fetcher, semaphore.NewWeighted(4), r.cas)
	merr := bd.MergeDirectoryContents(context.Background(), r.logger, d, nil)
	bd.Close()
	avail := r.cas.blobs
	if len(r.cas.missing) > 0 {
		avail = map[string][]byte{}
		for k, v := range r.cas.blobs {
			if !r.cas.missing[k] {
				avail[k] = v
			}
		}
	}
	// the requested tree is decoded from the storage as the client uploaded it
	want, loadable := refTree(refDecode(r.cas.blobs, r.hashLen, hash, size, 0), r.cas.blobs)
	_, loadableNow := refTree(refDecode(avail, r.hashLen, hash, size, 0), avail)
	if merr != nil {
		if loadableNow && len(nr.dirFault) == 0 {
			return "err", fmt.Sprintf("naive merge of a well-formed, complete tree failed: %v", merr)
		}
		return "err", ""
	}
	if !loadable {
		return "ok", "naive merge of a tree with a malformed or absent directory/file succeeded"
	}
	_ = loadableNow // files lost by the storage may legitimately come from the hard-link cache
	got, err := diskTree(dir)
	if err != nil {
		return "ok", "cannot read back the materialised tree: " + err.Error()
	}
	if got != want {
		return "ok", fmt.Sprintf("materialised tree differs from the tree named by the digest: on disk %s, requested %s", clip(got), clip(want))
	}
	return "ok", ""
}

func clip(s string) string {
	if len(s) > 600 {
		return s[:600] + "..."
	}
	return s
}

// cacheName is the name the hard-linking fetcher uses in its cache directory.
func (nr *naiveRig) cacheName(r *rig, hash string, size int64, exec bool) (string, bool) {
	d, err := r.digestOf(hash, size)
	if err != nil {
		return "", false
	}
	k := d.GetKey(digest.KeyWithoutInstance)
	if exec {
		k += "+x"
	} else {
		k += "-x"
	}
	if _, ok := nr.keyIDs[k]; !ok {
		nr.keyIDs[k] = len(nr.keyIDs) + 1
		nr.keyBlob[k] = casKeyOf(hash, size)
	}
	return k, true
}

// cacheFault: what a cleaner or an administrator does to the cache directory.
func (nr *naiveRig) cacheFault(name string, mkdir bool) {
	p := filepath.Join(nr.base, "cache", name)
	os.RemoveAll(p)
	delete(nr.dirFault, name)
	if mkdir {
		os.Mkdir(p, 0o777)
		nr.dirFault[name] = true
	}
}

// cacheListing renders the cache directory like the model renders `disk`, and
// checks the limits on what is really there.
func (nr *naiveRig) cacheListing(r *rig) (listing string, complaint string) {
	entries, err := os.ReadDir(filepath.Join(nr.base, "cache"))
	if err != nil {
		return "unreadable", ""
	}
	type item struct {
		id int
		s  string
	}
	var items []item
	files, bytes := 0, int64(0)
	for _, e := range entries {
		id, known := nr.keyIDs[e.Name()]
		if !known {
			items = append(items, item{1 << 30, "?" + e.Name()})
			continue
		}
		if e.IsDir() {
			items = append(items, item{id, fmt.Sprintf("%d:d", id)})
			continue
		}
		b, _ := os.ReadFile(filepath.Join(nr.base, "cache", e.Name()))
		files++
		bytes += int64(len(b))
		if string(b) == string(r.cas.blobs[nr.keyBlob[e.Name()]]) {
			items = append(items, item{id, fmt.Sprintf("%d:f%d", id, id)})
		} else {
			items = append(items, item{id, fmt.Sprintf("%d:f-other-contents", id)})
			complaint = "the cache file " + e.Name() + " does not have the contents of its digest"
		}
	}
	sort.Slice(items, func(i, j int) bool { return items[i].id < items[j].id })
	parts := make([]string, len(items))
	for i, it := range items {
		parts[i] = it.s
	}
	limit := nr.maxFiles
	if limit < 1 {
		limit = 1
	}
	if complaint == "" && (files > limit || (bytes > nr.maxSize && files > 1)) {
		complaint = fmt.Sprintf("the hard-link cache holds %d files / %d bytes, its limits are %d files / %d bytes", files, bytes, nr.maxFiles, nr.maxSize)
	}
	return strings.Join(parts, ","), complaint
}

// getFile calls the real hard-linking fetcher for one file into a fresh directory.
func (nr *naiveRig) getFile(r *rig, hash string, size int64, exec bool) (out string, complaint string) {
	d, err := r.digestOf(hash, size)
	if err != nil {
		return "bad-op", ""
	}
	nr.n++
	dir := filepath.Join(nr.base, fmt.Sprintf("target%d", nr.n))
	if err := os.Mkdir(dir, 0o777); err != nil {
		return "bad-op", ""
	}
	defer os.RemoveAll(dir)
	ld, err := filesystem.NewLocalDirectory(path.LocalFormat.NewParser(dir))
	if err != nil {
		return "bad-op", ""
	}
	defer ld.Close()
	gerr := nr.fetcher.GetFile(context.Background(), d, ld, path.MustNewComponent("f"), exec)
	if gerr != nil {
		return "err", ""
	}
	info, serr := os.Lstat(filepath.Join(dir, "f"))
	if serr != nil {
		return "ok-but-missing", "GetFile returned nil but did not create the file"
	}
	b, _ := os.ReadFile(filepath.Join(dir, "f"))
	if !info.Mode().IsRegular() || string(b) != string(r.cas.blobs[casKeyOf(hash, size)]) {
		return "ok-with-other-contents", "GetFile returned nil but the file does not have the contents of the digest"
	}
	if (info.Mode()&0o111 != 0) != exec {
		return "ok-with-wrong-mode", fmt.Sprintf("GetFile returned nil but the executable bit is wrong (mode %v, requested executable=%v)", info.Mode(), exec)
	}
	return "ok", ""
}
