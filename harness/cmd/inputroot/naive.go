package main

import (
	"context"
	"fmt"
	"os"
	"path/filepath"
	"sort"
	"strings"

	"github.com/buildbarn/bb-remote-execution/pkg/builder"
	"github.com/buildbarn/bb-remote-execution/pkg/cas"
	"github.com/buildbarn/bb-storage/pkg/eviction"
	"github.com/buildbarn/bb-storage/pkg/filesystem"
	"github.com/buildbarn/bb-storage/pkg/filesystem/path"
	"golang.org/x/sync/semaphore"
)

// Part D (monitor only, no model): the eager naiveBuildDirectory on a real
// temporary directory, optionally behind the hard-linking file fetcher.

type naiveRig struct {
	base     string
	cacheDir filesystem.DirectoryCloser
	fetcher  cas.FileFetcher
	n        int
}

func newNaiveRig(r *rig, hardlink bool, maxFiles int) (*naiveRig, error) {
	base, err := os.MkdirTemp("", "c17-naive-")
	if err != nil {
		return nil, err
	}
	nr := &naiveRig{base: base, fetcher: cas.NewBlobAccessFileFetcher(r.cas)}
	if hardlink {
		if err := os.Mkdir(filepath.Join(base, "cache"), 0o777); err != nil {
			return nil, err
		}
		nr.cacheDir, err = filesystem.NewLocalDirectory(path.LocalFormat.NewParser(filepath.Join(base, "cache")))
		if err != nil {
			return nil, err
		}
		nr.fetcher = cas.NewHardlinkingFileFetcher(nr.fetcher, nr.cacheDir, maxFiles, 1<<20, eviction.NewLRUSet[string]())
	}
	return nr, nil
}

func (nr *naiveRig) close() {
	if nr.cacheDir != nil {
		nr.cacheDir.Close()
	}
	os.RemoveAll(nr.base)
}

// diskTree renders what is on disk below dir like refTree renders the reference.
func diskTree(dir string) (string, error) {
	entries, err := os.ReadDir(dir)
	if err != nil {
		return "", err
	}
	parts := []string{}
	for _, e := range entries {
		p := filepath.Join(dir, e.Name())
		info, err := os.Lstat(p)
		if err != nil {
			return "", err
		}
		switch {
		case info.Mode()&os.ModeSymlink != 0:
			t, err := os.Readlink(p)
			if err != nil {
				return "", err
			}
			parts = append(parts, tokBytes(e.Name())+"=sym:"+tokBytes(t))
		case info.IsDir():
			sub, err := diskTree(p)
			if err != nil {
				return "", err
			}
			parts = append(parts, tokBytes(e.Name())+"=dir"+sub)
		case info.Mode().IsRegular():
			b, err := os.ReadFile(p)
			if err != nil {
				return "", err
			}
			x := 0
			if info.Mode()&0o111 != 0 {
				x = 1
			}
			w := 0
			if info.Mode()&0o222 != 0 {
				w = 1
			}
			parts = append(parts, fmt.Sprintf("%s=file:%s:x%d:w%d", tokBytes(e.Name()), tokBytes(string(b)), x, w))
		default:
			parts = append(parts, tokBytes(e.Name())+"=other")
		}
	}
	sort.Strings(parts)
	return "[" + strings.Join(parts, ",") + "]", nil
}

// refTree renders the reference in the same form; ok=false if some directory or
// file blob below cannot be loaded (an eager merge must then fail).
func refTree(n *refNode, blobs map[string][]byte) (string, bool) {
	if n.bad != "" {
		return "", false
	}
	parts := []string{}
	for name, c := range n.children {
		switch c.kind {
		case "dir":
			sub, ok := refTree(c, blobs)
			if !ok {
				return "", false
			}
			parts = append(parts, tokBytes(name)+"=dir"+sub)
		case "sym":
			parts = append(parts, tokBytes(name)+"=sym:"+tokBytes(c.target))
		case "file":
			b, ok := blobs[casKeyOf(c.hash, c.size)]
			if !ok {
				return "", false
			}
			x := 0
			if c.exec {
				x = 1
			}
			parts = append(parts, fmt.Sprintf("%s=file:%s:x%d:w0", tokBytes(name), tokBytes(string(b)), x))
		}
	}
	sort.Strings(parts)
	return "[" + strings.Join(parts, ",") + "]", true
}

// merge materialises a digest into a fresh sub-directory with the real
// naiveBuildDirectory and reports what the monitor has to say about it.
func (nr *naiveRig) merge(r *rig, hash string, size int64) (out, complaint string) {
	d, err := r.digestOf(hash, size)
	if err != nil {
		return "bad-op", ""
	}
	nr.n++
	dir := filepath.Join(nr.base, fmt.Sprintf("build%d", nr.n))
	if err := os.Mkdir(dir, 0o777); err != nil {
		return "bad-op", ""
	}
	ld, err := filesystem.NewLocalDirectory(path.LocalFormat.NewParser(dir))
	if err != nil {
		return "bad-op", ""
	}
	bd := builder.NewNaiveBuildDirectory(ld, r.fetcher, nr.fetcher, semaphore.NewWeighted(4), r.cas)
	merr := bd.MergeDirectoryContents(context.Background(), r.logger, d, nil)
	bd.Close()
	want, loadable := refTree(refDecode(r.cas.blobs, r.hashLen, hash, size, 0), r.cas.blobs)
	if merr != nil {
		if loadable {
			return "err", fmt.Sprintf("naive merge of a well-formed, complete tree failed: %v", merr)
		}
		return "err", ""
	}
	if !loadable {
		return "ok", "naive merge of a tree with a malformed or absent directory/file succeeded"
	}
	got, err := diskTree(dir)
	if err != nil {
		return "ok", "cannot read back the materialised tree: " + err.Error()
	}
	if got != want {
		return "ok", fmt.Sprintf("materialised tree differs from the tree named by the digest: on disk %s, requested %s", clip(got), clip(want))
	}
	return "ok", ""
}

func clip(s string) string {
	if len(s) > 600 {
		return s[:600] + "..."
	}
	return s
}
