package main

import (
	"context"
	"io"
	"sync"

	remoteexecution "github.com/bazelbuild/remote-apis/build/bazel/remote/execution/v2"
	"github.com/buildbarn/bb-remote-execution/pkg/filesystem/pool"
	"github.com/buildbarn/bb-storage/pkg/blobstore/buffer"
	"github.com/buildbarn/bb-storage/pkg/blobstore/slicing"
	"github.com/buildbarn/bb-storage/pkg/digest"
	"github.com/buildbarn/bb-storage/pkg/filesystem"
	"google.golang.org/grpc/codes"
	"google.golang.org/grpc/status"

	"verifharness/internal/hx"
)

// rng adapts hx.Rand to bb-storage's random generator interfaces (inode
// numbers and file handles only; never compared).
type rng struct {
	r  *hx.Rand
	mu *sync.Mutex
}

func newRng(r *hx.Rand) rng { return rng{r: r, mu: &sync.Mutex{}} }

func (g rng) u64() uint64 {
	g.mu.Lock()
	defer g.mu.Unlock()
	return g.r.Uint64()
}

func (g rng) Float64() float64     { return float64(g.u64()>>11) / (1 << 53) }
func (g rng) Int64N(n int64) int64 { return int64(g.u64() % uint64(n)) }
func (g rng) IntN(n int) int       { return int(g.u64() % uint64(n)) }
func (g rng) Uint32() uint32       { return uint32(g.u64()) }
func (g rng) Uint64() uint64       { return g.u64() }
func (g rng) IsThreadSafe()        {}
func (g rng) Read(p []byte) (int, error) {
	for i := range p {
		p[i] = byte(g.u64())
	}
	return len(p), nil
}

func (g rng) Shuffle(n int, swap func(i, j int)) {
	for i := n - 1; i > 0; i-- {
		swap(i, g.IntN(i+1))
	}
}

// memFile / memPool: in-memory file pool for the files an action creates itself.
type memFile struct{ data []byte }

func (f *memFile) Close() error { return nil }
func (f *memFile) ReadAt(p []byte, off int64) (int, error) {
	if off >= int64(len(f.data)) {
		return 0, io.EOF
	}
	n := copy(p, f.data[off:])
	if n < len(p) {
		return n, io.EOF
	}
	return n, nil
}

func (f *memFile) WriteAt(p []byte, off int64) (int, error) {
	if end := off + int64(len(p)); end > int64(len(f.data)) {
		f.data = append(f.data, make([]byte, end-int64(len(f.data)))...)
	}
	return copy(f.data[off:], p), nil
}
func (f *memFile) Sync() error { return nil }
func (f *memFile) Truncate(size int64) error {
	if size <= int64(len(f.data)) {
		f.data = f.data[:size]
	} else {
		f.data = append(f.data, make([]byte, size-int64(len(f.data)))...)
	}
	return nil
}
func (f *memFile) Len() (int64, error) { return int64(len(f.data)), nil }
func (f *memFile) GetNextRegionOffset(off int64, rt filesystem.RegionType) (int64, error) {
	if off >= int64(len(f.data)) {
		return 0, io.EOF
	}
	if rt == filesystem.Data {
		return off, nil
	}
	return int64(len(f.data)), nil
}

type memPool struct{}

func (memPool) NewFile(holeSource pool.HoleSource, size uint64) (filesystem.FileReadWriter, error) {
	return &memFile{data: make([]byte, size)}, nil
}

type collectingLogger struct {
	mu   sync.Mutex
	errs int
}

func (l *collectingLogger) Log(err error) {
	l.mu.Lock()
	l.errs++
	l.mu.Unlock()
}

// fakeCAS is the Content Addressable Storage of a case: Directory blobs and file
// blobs by digest key. It counts reads, refuses nothing on Put but records it
// (any Put during a case is a finding), and fails Get for the digests in
// `failing` (fault injection, set per operation).
type fakeCAS struct {
	mu    sync.Mutex
	blobs    map[string][]byte // key: casKeyOf(hash, size)
	failing  map[string]bool
	missing  map[string]bool // blobs the storage has lost (CAS miss)
	injected int
	gets     int
	puts     int
}

func newFakeCAS() *fakeCAS {
	return &fakeCAS{blobs: map[string][]byte{}, failing: map[string]bool{}, missing: map[string]bool{}}
}

func casKey(d digest.Digest) string { return casKeyOf(d.GetHashString(), d.GetSizeBytes()) }

func (c *fakeCAS) Get(ctx context.Context, d digest.Digest) buffer.Buffer {
	c.mu.Lock()
	defer c.mu.Unlock()
	c.gets++
	k := casKey(d)
	if c.failing[k] {
		c.injected++
		return buffer.NewBufferFromError(status.Error(codes.Unavailable, "injected storage fault"))
	}
	b, ok := c.blobs[k]
	if !ok || c.missing[k] {
		return buffer.NewBufferFromError(status.Error(codes.NotFound, "blob not found"))
	}
	return buffer.NewCASBufferFromByteSlice(d, append([]byte(nil), b...), buffer.BackendProvided(buffer.Irreparable(d)))
}

func (c *fakeCAS) GetFromComposite(ctx context.Context, parentDigest, childDigest digest.Digest, slicer slicing.BlobSlicer) buffer.Buffer {
	return buffer.NewBufferFromError(status.Error(codes.Unimplemented, "no composite objects in this CAS"))
}

func (c *fakeCAS) Put(ctx context.Context, d digest.Digest, b buffer.Buffer) error {
	c.mu.Lock()
	defer c.mu.Unlock()
	c.puts++
	data, err := b.ToByteSlice(1 << 20)
	if err != nil {
		return err
	}
	c.blobs[casKey(d)] = data
	return nil
}

func (c *fakeCAS) FindMissing(ctx context.Context, digests digest.Set) (digest.Set, error) {
	sb := digest.NewSetBuilder(0)
	for _, d := range digests.Items() {
		if _, ok := c.blobs[casKey(d)]; !ok {
			sb.Add(d)
		}
	}
	return sb.Build(), nil
}

func (c *fakeCAS) GetCapabilities(ctx context.Context, instanceName digest.InstanceName) (*remoteexecution.ServerCapabilities, error) {
	return &remoteexecution.ServerCapabilities{}, nil
}

func (c *fakeCAS) snapshot() map[string]string {
	m := make(map[string]string, len(c.blobs))
	for k, v := range c.blobs {
		m[k] = string(v)
	}
	return m
}
