package main

import (
	"fmt"
	"sort"
	"strings"

	remoteexecution "github.com/bazelbuild/remote-apis/build/bazel/remote/execution/v2"
	"google.golang.org/protobuf/proto"
)

// The monitor's reference: the tree a root digest names, decoded eagerly and
// independently (own unmarshalling, own validity rules) from the blobs in the
// fake CAS, with the local modifications of the history applied to it. It
// knows nothing about laziness and nothing about the Lean model.

type refNode struct {
	kind     string // dir | file | sym | local
	hash     string
	size     int64
	exec     bool
	target   string
	children map[string]*refNode
	bad      string // dir that cannot be loaded: inval | notfound
}

func refValidName(n string) bool {
	return n != "" && n != "." && n != ".." && !strings.ContainsAny(n, "/\x00")
}

func refDigestOK(d *remoteexecution.Digest, hashLen int) bool {
	if d == nil || len(d.Hash) != hashLen || d.SizeBytes < 0 {
		return false
	}
	for i := 0; i < len(d.Hash); i++ {
		c := d.Hash[i]
		if !(c >= '0' && c <= '9') && !(c >= 'a' && c <= 'f') {
			return false
		}
	}
	return true
}

func casKeyOf(hash string, size int64) string { return fmt.Sprintf("%s-%d", hash, size) }

// refDecode decodes the directory stored under (hash, size), recursively.
func refDecode(blobs map[string][]byte, hashLen int, hash string, size int64, depth int) *refNode {
	n := &refNode{kind: "dir", hash: hash, size: size}
	if depth > 40 {
		n.bad = "inval"
		return n
	}
	b, ok := blobs[casKeyOf(hash, size)]
	if !ok {
		n.bad = "notfound"
		return n
	}
	var m remoteexecution.Directory
	if err := proto.Unmarshal(b, &m); err != nil {
		n.bad = "inval"
		return n
	}
	seen := map[string]bool{}
	okName := func(s string) bool {
		if !refValidName(s) || seen[s] {
			return false
		}
		seen[s] = true
		return true
	}
	for _, e := range m.Directories {
		if !okName(e.Name) || !refDigestOK(e.Digest, hashLen) {
			n.bad = "inval"
			return n
		}
	}
	for _, e := range m.Files {
		if !okName(e.Name) || !refDigestOK(e.Digest, hashLen) {
			n.bad = "inval"
			return n
		}
	}
	for _, e := range m.Symlinks {
		if !okName(e.Name) || strings.Contains(e.Target, "\x00") {
			n.bad = "inval"
			return n
		}
	}
	n.children = map[string]*refNode{}
	for _, e := range m.Directories {
		n.children[e.Name] = refDecode(blobs, hashLen, e.Digest.Hash, e.Digest.SizeBytes, depth+1)
	}
	for _, e := range m.Files {
		n.children[e.Name] = &refNode{kind: "file", hash: e.Digest.Hash, size: e.Digest.SizeBytes, exec: e.IsExecutable}
	}
	for _, e := range m.Symlinks {
		n.children[e.Name] = &refNode{kind: "sym", target: e.Target}
	}
	return n
}

func (n *refNode) count() int {
	c := 1
	for _, ch := range n.children {
		c += ch.count()
	}
	return c
}

func (n *refNode) kindString() string {
	switch n.kind {
	case "file":
		x := 0
		if n.exec {
			x = 1
		}
		return fmt.Sprintf("file:%s:%d:%d", n.hash, n.size, x)
	case "sym":
		return "sym:" + tokBytes(n.target)
	case "local":
		return "local"
	}
	return "dir"
}

func (n *refNode) listing() string {
	names := make([]string, 0, len(n.children))
	for k := range n.children {
		names = append(names, k)
	}
	sort.Strings(names)
	parts := make([]string, len(names))
	for i, k := range names {
		parts[i] = tokBytes(k) + "=" + n.children[k].kindString()
	}
	return "[" + strings.Join(parts, ",") + "]"
}

// walk follows comps through directories; returns the directory reached or an
// error status.
func (n *refNode) walk(comps []string) (*refNode, string) {
	cur := n
	for _, c := range comps {
		if cur.kind != "dir" {
			return nil, "ENOTDIR"
		}
		if cur.bad != "" {
			return nil, "EIO"
		}
		next, ok := cur.children[c]
		if !ok {
			return nil, "ENOENT"
		}
		cur = next
	}
	if cur.kind != "dir" {
		return nil, "ENOTDIR"
	}
	if cur.bad != "" {
		return nil, "EIO"
	}
	return cur, ""
}

// reach: the directory at comps can be walked to (every directory above it can be
// loaded, it exists and is a directory); it need not be loadable itself.
func (n *refNode) reach(comps []string) string {
	if len(comps) == 0 {
		return ""
	}
	d, st := n.walk(comps[:len(comps)-1])
	if st != "" {
		return st
	}
	c, ok := d.children[comps[len(comps)-1]]
	if !ok {
		return "ENOENT"
	}
	if c.kind != "dir" {
		return "ENOTDIR"
	}
	return ""
}

// refExec gives the output the property demands for a fault-free operation and
// applies its effect.
func refExec(root *refNode, blobs map[string][]byte, hashLen int, op string, args []string) string {
	comps := func(ts []string) ([]string, bool) {
		out := make([]string, len(ts))
		for i, t := range ts {
			s, ok := untokBytes(t)
			if !ok {
				return nil, false
			}
			out[i] = s
		}
		return out, true
	}
	switch op {
	case "rename", "link":
		p1, x1, p2, x2, ok := splitTwoPaths(args)
		if !ok {
			return "bad-op"
		}
		if op == "rename" {
			// the caller walks to both directories first; only then VirtualRename
			// loads the old and the new directory
			if st := root.reach(p1); st != "" {
				return st
			}
			if st := root.reach(p2); st != "" {
				return st
			}
		}
		d1, st := root.walk(p1)
		if st != "" {
			return st
		}
		if op == "link" {
			v, ok := d1.children[x1]
			if !ok {
				return "ENOENT"
			}
			if v.kind == "dir" {
				return "EISDIR"
			}
			d2, st := root.walk(p2)
			if st != "" {
				return st
			}
			if _, ok := d2.children[x2]; ok {
				return "EEXIST"
			}
			d2.children[x2] = v
			return "ok"
		}
		d2, st := root.walk(p2)
		if st != "" {
			return st
		}
		nw, nok := d2.children[x2]
		od, ook := d1.children[x1]
		if !ook {
			return "ENOENT"
		}
		if nok {
			if nw.kind == "dir" {
				if od.kind != "dir" {
					return "EISDIR"
				}
				if nw == od {
					return "ok"
				}
				if nw.bad != "" {
					return "EIO"
				}
				if len(nw.children) > 0 {
					return "ENOTEMPTY"
				}
			} else {
				if od.kind == "dir" {
					return "ENOTDIR"
				}
				if nw == od {
					return "ok"
				}
			}
		}
		delete(d1.children, x1)
		d2.children[x2] = od
		return "ok"
	case "merge", "mmerge":
		h, s, ok := untokDig(args[0])
		if !ok {
			return "bad-op"
		}
		d := refDecode(blobs, hashLen, h, s, 0)
		if d.bad != "" {
			return "err:" + d.bad
		}
		for k := range d.children {
			if _, ok := root.children[k]; ok {
				return "EEXIST"
			}
		}
		for k, v := range d.children {
			root.children[k] = v
		}
		return "ok"
	case "readdir":
		cs, ok := comps(args)
		if !ok {
			return "bad-op"
		}
		d, st := root.walk(cs)
		if st != "" {
			return st
		}
		return d.listing()
	}
	var off, length int
	if op == "read" {
		if len(args) < 3 {
			return "bad-op"
		}
		if _, err := fmt.Sscanf(args[0]+" "+args[1], "%d %d", &off, &length); err != nil {
			return "bad-op"
		}
		args = args[2:]
	}
	cs, ok := comps(args)
	if !ok || len(cs) == 0 {
		return "bad-op"
	}
	name := cs[len(cs)-1]
	d, st := root.walk(cs[:len(cs)-1])
	if st != "" {
		return st
	}
	child, exists := d.children[name]
	switch op {
	case "lookup":
		if !exists {
			return "ENOENT"
		}
		return child.kindString()
	case "create", "mkdir":
		if exists {
			return "EEXIST"
		}
		if op == "create" {
			d.children[name] = &refNode{kind: "local"}
		} else {
			d.children[name] = &refNode{kind: "dir", children: map[string]*refNode{}}
		}
		return "ok"
	case "remove":
		if !exists {
			return "ENOENT"
		}
		if child.kind == "dir" {
			if child.bad != "" {
				return "EIO"
			}
			if len(child.children) > 0 {
				return "ENOTEMPTY"
			}
		}
		delete(d.children, name)
		return "ok"
	}
	if !exists {
		return "ENOENT"
	}
	switch child.kind {
	case "file":
		switch op {
		case "openw", "opentrunc", "setsize":
			return "EACCES"
		case "alloc":
			return "EWRONGTYPE"
		case "write":
			return "unreachable"
		case "read":
			if length == 0 || int64(off) >= child.size {
				return "data:x" // empty range: the storage is not contacted
			}
			b, ok := blobs[casKeyOf(child.hash, child.size)]
			if !ok {
				return "EIO"
			}
			if int64(len(b)) > child.size {
				b = b[:child.size]
			}
			if off > len(b) {
				off = len(b)
			}
			b = b[off:]
			if length < len(b) {
				b = b[:length]
			}
			return "data:" + tokBytes(string(b))
		}
	case "sym":
		switch op {
		case "openw", "opentrunc", "read":
			return "ESYMLINK"
		case "setsize":
			return "EINVAL"
		case "alloc":
			return "EWRONGTYPE"
		case "write":
			return "unreachable"
		}
	case "local":
		if op == "read" {
			return "localdata"
		}
		return "ok"
	case "dir":
		if op == "setsize" {
			return "EINVAL"
		}
		return "EISDIR"
	}
	return "bad-op"
}

// splitTwoPaths decodes `<n1> comps...`: the first n1 components are the
// old/source path (directory components + name), the rest the new path.
func splitTwoPaths(args []string) (p1 []string, x1 string, p2 []string, x2 string, ok bool) {
	if len(args) < 3 {
		return nil, "", nil, "", false
	}
	n1 := 0
	if _, err := fmt.Sscanf(args[0], "%d", &n1); err != nil || n1 < 1 || n1 >= len(args)-1+1 || len(args)-1-n1 < 1 {
		return nil, "", nil, "", false
	}
	cs, okc := decodeComps(args[1:])
	if !okc {
		return nil, "", nil, "", false
	}
	a, b := cs[:n1], cs[n1:]
	return a[:len(a)-1], a[len(a)-1], b[:len(b)-1], b[len(b)-1], true
}

// sameObject reports whether old and new entry of a rename are two hard links of
// one leaf object (not modelled: the Go code makes that a no-op).
func sameObject(root *refNode, args []string, dedup bool) bool {
	p1, x1, p2, x2, ok := splitTwoPaths(args)
	if !ok {
		return false
	}
	d1, st1 := root.walk(p1)
	d2, st2 := root.walk(p2)
	if st1 != "" || st2 != "" {
		return false
	}
	a, ok1 := d1.children[x1]
	b, ok2 := d2.children[x2]
	if !ok1 || !ok2 || a.kind == "dir" || (d1 == d2 && x1 == x2) {
		return false
	}
	if a == b {
		return true
	}
	// The NFS handle allocator deduplicates stateless leaves: CAS files with the same
	// digest and executable bit, and symlinks with the same target, are one object
	// (one inode), so renaming one over the other is the POSIX no-op as well.
	if dedup {
		if a.kind == "file" && b.kind == "file" {
			return a.hash == b.hash && a.size == b.size && a.exec == b.exec
		}
		if a.kind == "sym" && b.kind == "sym" {
			return a.target == b.target
		}
	}
	return false
}

// refClosure: the digests a directory digest transitively refers to (Directory
// objects and files), looking at digests only as the gatherer does; ok=false if
// some Directory below is absent, not a Directory or carries a malformed digest.
func refClosure(blobs map[string][]byte, hashLen int, hash string, size int64, seen map[string]bool) bool {
	k := casKeyOf(hash, size)
	if seen[k] {
		return true
	}
	seen[k] = true
	b, ok := blobs[k]
	if !ok {
		return false
	}
	var m remoteexecution.Directory
	if err := proto.Unmarshal(b, &m); err != nil {
		return false
	}
	for _, e := range m.Directories {
		if !refDigestOK(e.Digest, hashLen) || !refClosure(blobs, hashLen, e.Digest.Hash, e.Digest.SizeBytes, seen) {
			return false
		}
	}
	for _, e := range m.Files {
		if !refDigestOK(e.Digest, hashLen) {
			return false
		}
		seen[casKeyOf(e.Digest.Hash, e.Digest.SizeBytes)] = true
	}
	return true
}
