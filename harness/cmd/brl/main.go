// Command brl ties Model/BRL.lean to pkg/filesystem/virtual/byte_range_lock_set.go
// and decides C20 (lock table part) on the implementation's own traces with a
// per-byte oracle.
package main

import (
	"fmt"
	"os"
	"sort"
	"strings"

	"github.com/buildbarn/bb-remote-execution/pkg/filesystem/virtual"

	"verifharness/internal/hx"
)

const maxU = ^uint64(0)

var special = []uint64{0, 1, 2, 5, 9, 10, 11, 20, 1 << 63, maxU - 1, maxU}

type op struct {
	kind  string // lock (test, then set when no conflict), unlock, test, set (unconditional; same owner only)
	start uint64
	stop  uint64
	owner int
	ty    int
}

func (o op) String() string {
	return fmt.Sprintf("%s %d %d %d %d", o.kind, o.start, o.stop, o.owner, o.ty)
}

func parseOp(s string) (op, error) {
	var o op
	_, err := fmt.Sscanf(s, "%s %d %d %d %d", &o.kind, &o.start, &o.stop, &o.owner, &o.ty)
	return o, err
}

func showLock(l *virtual.ByteRangeLock[int]) string {
	return fmt.Sprintf("%d:%d:%d:%d", l.Start, l.End, l.Owner, int(l.Type))
}

func showList(ls []virtual.ByteRangeLock[int]) string {
	parts := make([]string, len(ls))
	for i := range ls {
		parts[i] = showLock(&ls[i])
	}
	return "[" + strings.Join(parts, ",") + "]"
}

// spec is the per-byte reference: cells between consecutive boundaries, per
// owner the type held on that cell (0 = none).
type spec struct {
	bounds []uint64
	held   map[int][]int
}

func newSpec(ops []op) *spec {
	m := map[uint64]bool{}
	for _, o := range ops {
		m[o.start] = true
		m[o.stop] = true
	}
	s := &spec{held: map[int][]int{}}
	for b := range m {
		s.bounds = append(s.bounds, b)
	}
	sort.Slice(s.bounds, func(i, j int) bool { return s.bounds[i] < s.bounds[j] })
	return s
}

func (s *spec) cells(start, stop uint64) (int, int) {
	i := sort.Search(len(s.bounds), func(i int) bool { return s.bounds[i] >= start })
	j := sort.Search(len(s.bounds), func(i int) bool { return s.bounds[i] >= stop })
	return i, j
}

func (s *spec) row(owner int) []int {
	r, ok := s.held[owner]
	if !ok {
		r = make([]int, len(s.bounds))
		s.held[owner] = r
	}
	return r
}

func (s *spec) set(o op) {
	i, j := s.cells(o.start, o.stop)
	r := s.row(o.owner)
	for c := i; c < j; c++ {
		r[c] = o.ty
	}
}

func (s *spec) conflict(o op) bool {
	i, j := s.cells(o.start, o.stop)
	for owner, r := range s.held {
		if owner == o.owner {
			continue
		}
		for c := i; c < j; c++ {
			if r[c] != 0 && (r[c] == 1 || o.ty == 1) {
				return true
			}
		}
	}
	return false
}

// abs computes the per-cell view of an implementation dump; error if one owner
// holds a cell twice or a range is empty/misaligned.  (List order and
// whether adjacent same-type entries are merged are representation, not
// property: they are compared with the model, not judged by the monitor.)
func (s *spec) abs(ls []virtual.ByteRangeLock[int]) (map[int][]int, string) {
	out := map[int][]int{}
	for _, l := range ls {
		if l.Start >= l.End {
			return nil, fmt.Sprintf("empty range %s", showLock(&l))
		}
		if l.Type != virtual.ByteRangeLockTypeLockedExclusive && l.Type != virtual.ByteRangeLockTypeLockedShared {
			return nil, "entry with unlocked type"
		}
		i, j := s.cells(l.Start, l.End)
		if i >= len(s.bounds) || s.bounds[i] != l.Start || j >= len(s.bounds) || s.bounds[j] != l.End {
			return nil, fmt.Sprintf("range %s not on request boundaries", showLock(&l))
		}
		r, ok := out[l.Owner]
		if !ok {
			r = make([]int, len(s.bounds))
			out[l.Owner] = r
		}
		for c := i; c < j; c++ {
			if r[c] != 0 {
				return nil, fmt.Sprintf("owner %d holds byte %d twice", l.Owner, s.bounds[c])
			}
			r[c] = int(l.Type)
		}
	}
	return out, ""
}

func (s *spec) equal(a map[int][]int) string {
	owners := map[int]bool{}
	for o := range a {
		owners[o] = true
	}
	for o := range s.held {
		owners[o] = true
	}
	for o := range owners {
		ra, rs := a[o], s.held[o]
		for c := range s.bounds {
			va, vs := 0, 0
			if ra != nil {
				va = ra[c]
			}
			if rs != nil {
				vs = rs[c]
			}
			if va != vs {
				return fmt.Sprintf("owner %d byte %d: table has type %d, per-byte reference has %d", o, s.bounds[c], va, vs)
			}
		}
	}
	return ""
}

func (s *spec) exclusion() string {
	for c := range s.bounds {
		excl, any := 0, 0
		for _, r := range s.held {
			if r[c] == 1 {
				excl++
			}
			if r[c] != 0 {
				any++
			}
		}
		if excl > 0 && any > 1 {
			return fmt.Sprintf("byte %d held exclusively and by another owner", s.bounds[c])
		}
	}
	return ""
}

type outcome struct {
	monitor  string // non-empty: property violated on the implementation trace
	mismatch string // non-empty: model and implementation disagree
	expected string
	actual   string
	flags    map[string]bool
	steps    int
}

// run executes a history on the real lock set (and on the model when drv != nil).
func run(ops []op, drv *hx.Driver) (res outcome) {
	res.flags = map[string]bool{}
	defer func() {
		if r := recover(); r != nil {
			res.monitor = fmt.Sprintf("panic in ByteRangeLockSet: %v", r)
		}
	}()
	var ls virtual.ByteRangeLockSet[int]
	ls.Initialize()
	sp := newSpec(ops)
	if drv != nil {
		if _, err := drv.Ask("reset"); err != nil {
			res.mismatch = err.Error()
			return
		}
	}
	ask := func(line, actual string) bool {
		if drv == nil {
			return true
		}
		exp, err := drv.Ask(line)
		if err != nil {
			exp = "driver-error " + err.Error()
		}
		if exp != actual {
			res.mismatch = "BRL correspondence: " + line
			res.expected, res.actual = exp, actual
			return false
		}
		return true
	}
	for _, o := range ops {
		res.steps++
		l := virtual.ByteRangeLock[int]{Start: o.start, End: o.stop, Owner: o.owner, Type: virtual.ByteRangeLockType(o.ty)}
		doSet := false
		switch o.kind {
		case "test", "lock":
			c := ls.Test(&l)
			actual := "none"
			if c != nil {
				actual = showLock(c)
				res.flags["conflict"] = true
			}
			want := sp.conflict(o)
			if want != (c != nil) {
				res.monitor = fmt.Sprintf("Test(%v): table says conflict=%v, per-byte reference says %v", o, c != nil, want)
				return
			}
			if c != nil {
				// the reported lock must be one that is really held and really conflicts
				if c.Owner == o.owner || !(c.Start < o.stop && c.End > o.start) || !(c.Type == virtual.ByteRangeLockTypeLockedExclusive || o.ty == 1) {
					res.monitor = fmt.Sprintf("Test(%v) reported non-conflicting lock %s", o, showLock(c))
					return
				}
				i, j := sp.cells(c.Start, c.End)
				r := sp.row(c.Owner)
				for k := i; k < j; k++ {
					if r[k] != int(c.Type) {
						res.monitor = fmt.Sprintf("Test(%v) reported lock %s that is not held", o, showLock(c))
						return
					}
				}
			}
			if !ask(fmt.Sprintf("test %d %d %d %d", o.start, o.stop, o.owner, o.ty), actual) {
				return
			}
			doSet = o.kind == "lock" && c == nil
		case "unlock", "set":
			doSet = true
		}
		if doSet {
			before := len(ls.VerifDump())
			delta := ls.Set(&l)
			dump := ls.VerifDump()
			sp.set(o)
			if delta != len(dump)-before {
				res.monitor = fmt.Sprintf("Set(%v) returned delta %d but entry count changed by %d", o, delta, len(dump)-before)
				return
			}
			switch {
			case delta >= 2:
				res.flags["split"] = true
			case delta < 0:
				res.flags["merge"] = true
			}
			a, bad := sp.abs(dump)
			if bad == "" {
				bad = sp.equal(a)
			}
			if bad == "" {
				bad = sp.exclusion()
			}
			if bad != "" {
				res.monitor = fmt.Sprintf("after Set(%v): %s; table=%s", o, bad, showList(dump))
				return
			}
			if !ask(fmt.Sprintf("set %d %d %d %d", o.start, o.stop, o.owner, o.ty), fmt.Sprintf("%d %s", delta, showList(dump))) {
				return
			}
		}
	}
	return
}

func gen(r *hx.Rand, n int) []op {
	owners := 1 + r.Intn(5)
	// boundary pool of this history: special values plus a few random ones
	pool := append([]uint64(nil), special...)
	for i := 0; i < 4; i++ {
		if r.Chance(1, 2) {
			pool = append(pool, r.Uint64())
		} else {
			pool = append(pool, uint64(r.Intn(40)))
		}
	}
	if r.Chance(1, 2) { // small dense pool: many overlaps, adjacency and nesting
		pool = []uint64{0, 1, 2, 3, 4, 5, 6, 7, 8, maxU - 1, maxU}
	}
	ops := make([]op, 0, n)
	for len(ops) < n {
		a, b := pool[r.Intn(len(pool))], pool[r.Intn(len(pool))]
		if a == b {
			continue
		}
		if a > b {
			a, b = b, a
		}
		o := op{start: a, stop: b, owner: 100 + r.Intn(owners)}
		switch r.Pick(55, 20, 20, 5) {
		case 0:
			o.kind, o.ty = "lock", 1+r.Intn(2)
		case 1:
			o.kind, o.ty = "unlock", 0
		case 2:
			o.kind, o.ty = "test", 1+r.Intn(2)
		case 3: // unlock everything of one owner, as UnlockAll does
			o.kind, o.ty, o.start, o.stop = "unlock", 0, 0, maxU
		}
		ops = append(ops, o)
	}
	return ops
}

func strs(ops []op) []string {
	out := make([]string, len(ops))
	for i, o := range ops {
		out[i] = o.String()
	}
	return out
}

func parseAll(lines []string) []op {
	var ops []op
	for _, l := range lines {
		if o, err := parseOp(l); err == nil {
			ops = append(ops, o)
		}
	}
	return ops
}

func main() {
	o := hx.ParseFlags()
	res := hx.NewResult("brl", o, "random lock(test-then-set)/unlock/test histories over boundary-heavy offsets (0,1,2,5,9,10,11,20,2^63,2^64-2,2^64-1, random), 1-5 owners; non-trivial = the history contains at least one split (delta>=2), one merge/absorb (delta<0) and one conflicting test; distinct = hash of the op list")
	drv, err := hx.StartDriver("brl")
	if err != nil {
		fmt.Fprintln(os.Stderr, "cannot start model driver:", err)
		os.Exit(3)
	}
	defer drv.Close()

	// search: after a model/implementation disagreement keep going with the per-byte
	// oracle alone (same history, then random continuations) to find a history on which
	// the implementation itself violates the property.
	search := func(ops []op, seed uint64) ([]op, bool) {
		if r := run(ops, nil); r.monitor != "" {
			return ops, true
		}
		for try := 0; try < 200; try++ {
			rng := hx.NewRand(seed*7919 + uint64(try))
			ext := append(append([]op(nil), ops...), gen(rng, 40+rng.Intn(160))...)
			// keep the owners of the prefix so that the continuation interacts with it
			for i := len(ops); i < len(ext); i++ {
				ext[i].owner = 100 + rng.Intn(5)
			}
			if r := run(ext, nil); r.monitor != "" {
				return ext, true
			}
		}
		return nil, false
	}

	report := func(ops []op, out outcome) {
		if out.monitor == "" && out.mismatch != "" {
			if ext, ok := search(ops, o.Seed); ok {
				res.Count("mismatch-turned-into-failing-input")
				ops, out = ext, run(ext, nil)
			}
		}
		fails := func(cand []string) bool {
			if out.monitor != "" {
				return run(parseAll(cand), nil).monitor != ""
			}
			return run(parseAll(cand), drv).mismatch != ""
		}
		min := hx.Shrink(strs(ops), fails)
		r := run(parseAll(min), drv)
		if out.monitor != "" {
			r = run(parseAll(min), nil)
		}
		f := hx.Finding{Property: "C20", History: min}
		if r.monitor != "" {
			f.Kind, f.What, f.Name = "violation", r.monitor, "C20 per-byte oracle on ByteRangeLockSet"
		} else {
			f.Kind, f.What, f.Name = "mismatch", r.mismatch, "correspondence Model/BRL.lean <-> byte_range_lock_set.go (theorems C20.set_pointwise, C20.test_exact)"
			f.Expected, f.Actual = r.expected, r.actual
		}
		f.Sig = hx.Sig("C20", "brl", strings.Join(min, ";"))
		res.Report(f)
	}

	if o.Replay != "" {
		f, err := hx.LoadReplay(o.Replay)
		if err != nil {
			fmt.Fprintln(os.Stderr, err)
			os.Exit(3)
		}
		ops := parseAll(f.History)
		out := run(ops, drv)
		res.Evaluations = out.steps
		if out.monitor != "" || out.mismatch != "" {
			report(ops, out)
		}
		res.ModelLines = drv.Lines
		res.Write(o)
		return
	}

	histories := 1500 * o.Scale
	if o.Tier == "thorough" {
		histories = 20000 * o.Scale
	}
	rng := hx.NewRand(o.Seed)
	for h := 0; h < histories && len(res.Findings) == 0; h++ {
		n := 5 + rng.Intn(120)
		if rng.Chance(1, 10) {
			n = 200
		}
		ops := gen(rng, n)
		out := run(ops, drv)
		res.Evaluations += out.steps
		res.TracesVsImpl++
		for k := range out.flags {
			res.Count("history-with-" + k)
		}
		for _, x := range ops {
			res.Count("op-" + x.kind)
		}
		res.History(strs(ops), out.flags["split"] && out.flags["merge"] && out.flags["conflict"])
		if out.monitor != "" || out.mismatch != "" {
			report(ops, out)
		}
	}
	res.ModelLines = drv.Lines
	res.Write(o)
}
