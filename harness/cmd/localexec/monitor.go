package localexec

// The monitor: the decidable form of property C10, judged on what the real
// code did (error values, the real directory, the ActionResult, the blobs in
// the fake CAS).  Nothing here looks at the Lean model.

import (
	"fmt"
	"sort"
	"strings"

	remoteexecution "github.com/bazelbuild/remote-apis/build/bazel/remote/execution/v2"

	"google.golang.org/grpc/codes"
	"google.golang.org/grpc/status"
	"google.golang.org/protobuf/encoding/protowire"
	"google.golang.org/protobuf/proto"
)

// evalPath is the reference meaning of a relative UNIX path applied to a
// location inside the input root: split at '/', "" and "." stay, ".." goes up.
// ok=false: absolute, contains NUL, or goes above the root.
func evalPath(stack []string, p string) ([]string, bool) {
	if strings.ContainsRune(p, 0) || strings.HasPrefix(p, "/") {
		return nil, false
	}
	out := append([]string(nil), stack...)
	for _, c := range strings.Split(p, "/") {
		switch c {
		case "", ".":
		case "..":
			if len(out) == 0 {
				return nil, false
			}
			out = out[:len(out)-1]
		default:
			out = append(out, c)
		}
	}
	return out, true
}

type decl struct {
	s   string
	loc []string
}

// declared evaluates the working directory and every output path; ok=false if
// any of them must be rejected.
func declared(wd string, paths []string) ([]decl, bool) {
	base, ok := evalPath(nil, wd)
	if !ok {
		return nil, false
	}
	var ds []decl
	for _, p := range paths {
		loc, ok := evalPath(base, p)
		if !ok {
			return nil, false
		}
		ds = append(ds, decl{s: p, loc: loc})
	}
	return ds, true
}

func properPrefixes(ds []decl) map[string][]string {
	out := map[string][]string{}
	for _, d := range ds {
		for i := 1; i < len(d.loc); i++ {
			out[strings.Join(d.loc[:i], "/")] = d.loc[:i]
		}
	}
	return out
}

// conflicting reports whether t0 has a non-directory where a parent directory of
// a declared output has to be.
func conflicting(t0 *node, ds []decl) bool {
	for _, loc := range properPrefixes(ds) {
		for i := 1; i <= len(loc); i++ {
			if n := t0.walk(loc[:i]); n != nil && n.kind != 'd' {
				return true
			}
		}
	}
	return false
}

// checkMkParents: after CreateParentDirectories nothing of the old tree changed,
// only directories at proper prefixes of declared locations were added, and -
// unless the input root had a non-directory in the way - the call succeeded and
// every such prefix is a directory.
func checkMkParents(t0, real *node, ds []decl, err error) string {
	allowed := properPrefixes(ds)
	var walk func(a, b *node, at []string) string
	walk = func(a, b *node, at []string) string {
		// a: before (may be nil = newly created region), b: after
		where := strings.Join(at, "/")
		if a != nil {
			if a.kind != b.kind {
				return fmt.Sprintf("%q changed kind %c -> %c", where, a.kind, b.kind)
			}
			switch a.kind {
			case 'f':
				if a.exec != b.exec || a.content != b.content {
					return fmt.Sprintf("file %q was modified", where)
				}
			case 'l':
				if !targetsEquivalent(a.target, b.target) {
					return fmt.Sprintf("symlink %q was modified", where)
				}
			}
		} else {
			if b.kind != 'd' {
				return fmt.Sprintf("a non-directory appeared at %q", where)
			}
			if _, ok := allowed[where]; !ok {
				return fmt.Sprintf("directory %q was created although it is not a parent of a declared output", where)
			}
		}
		if b.kind != 'd' {
			return ""
		}
		if a != nil {
			for _, k := range a.names() {
				if b.entries[k] == nil {
					return fmt.Sprintf("%q disappeared", strings.Join(append(append([]string(nil), at...), k), "/"))
				}
			}
		}
		for _, k := range b.names() {
			var ac *node
			if a != nil {
				ac = a.entries[k]
			}
			if v := walk(ac, b.entries[k], append(append([]string(nil), at...), k)); v != "" {
				return v
			}
		}
		return ""
	}
	if v := walk(t0, real, nil); v != "" {
		return "CreateParentDirectories: " + v
	}
	if !conflicting(t0, ds) {
		if err != nil {
			return fmt.Sprintf("CreateParentDirectories failed on an input root without conflicting files: %v", err)
		}
		for where, loc := range allowed {
			if n := real.walk(loc); n == nil || n.kind != 'd' {
				return fmt.Sprintf("parent directory %q of a declared output does not exist before the command runs", where)
			}
		}
	}
	return ""
}

// splitTarget is the reference meaning of a symlink target: absolute?, the
// components with "" and "." dropped (".." kept, as the target is not resolved).
func splitTarget(t string) (bool, []string) {
	var cs []string
	for _, c := range strings.Split(t, "/") {
		if c != "" && c != "." {
			cs = append(cs, c)
		}
	}
	return strings.HasPrefix(t, "/"), cs
}

func targetNormal(t string) bool {
	if t == "" || strings.Contains(t, "//") || strings.Contains(t, "/./") || strings.HasPrefix(t, "./") ||
		strings.HasSuffix(t, "/.") || (strings.HasSuffix(t, "/") && t != "/") || t == "." {
		return false
	}
	return true
}

// targetsEquivalent: identical, or (for targets that are not in normal form)
// denoting the same components.
func targetsEquivalent(actual, reported string) bool {
	if actual == reported {
		return true
	}
	if targetNormal(actual) {
		return false
	}
	a1, c1 := splitTarget(actual)
	a2, c2 := splitTarget(reported)
	return a1 == a2 && strings.Join(c1, "/") == strings.Join(c2, "/")
}

// decodedTree is the result of the independent Tree decoder.
type decodedTree struct {
	raw  [][]byte // root first
	keys []string
	dirs []*remoteexecution.Directory
	pos  map[string]int
}

// decodeTree parses a Tree blob at the wire level: the first field must be the
// root (field 1), all others children (field 2).
func decodeTree(data []byte) (*decodedTree, string) {
	t := &decodedTree{pos: map[string]int{}}
	first := true
	for len(data) > 0 {
		num, typ, n := protowire.ConsumeTag(data)
		if n < 0 || typ != protowire.BytesType {
			return nil, "Tree blob is not a sequence of length-delimited fields"
		}
		data = data[n:]
		b, n := protowire.ConsumeBytes(data)
		if n < 0 {
			return nil, "Tree blob is truncated"
		}
		data = data[n:]
		if first {
			if num != 1 {
				return nil, fmt.Sprintf("Tree does not start with the root directory (first field is %d)", num)
			}
		} else if num != 2 {
			return nil, fmt.Sprintf("Tree has field %d after the root", num)
		}
		first = false
		var d remoteexecution.Directory
		if err := proto.Unmarshal(b, &d); err != nil {
			return nil, "Tree contains an undecodable Directory"
		}
		key := blobKey(b)
		if _, dup := t.pos[key]; dup {
			return nil, fmt.Sprintf("directory %s occurs more than once in the Tree", key[:12])
		}
		t.pos[key] = len(t.raw)
		t.raw = append(t.raw, b)
		t.keys = append(t.keys, key)
		t.dirs = append(t.dirs, &d)
	}
	if first {
		return nil, "Tree has no root"
	}
	for i, d := range t.dirs {
		for _, c := range d.Directories {
			j, ok := t.pos[protoKey(c.Digest)]
			if !ok {
				return nil, fmt.Sprintf("directory %q is referenced but not present in the Tree", c.Name)
			}
			if j <= i {
				return nil, fmt.Sprintf("child directory %q (position %d) does not come after its parent (position %d)", c.Name, j, i)
			}
		}
	}
	return t, ""
}

// matches compares the decoded directory at index i with the actual directory n.
// lax (a fault was injected AND UploadOutputs returned an error): files whose
// upload fails, symlinks whose Readlink fails and directories that cannot be
// entered/listed may be missing from the message.  Without an error the Tree
// must describe the directory completely, at every depth.
func (t *decodedTree) matches(i int, n *node, where string, lax bool) string {
	d := t.dirs[i]
	seen := map[string]bool{}
	for _, f := range d.Files {
		c := n.entries[f.Name]
		if c == nil || c.kind != 'f' || seen[f.Name] {
			return fmt.Sprintf("Tree lists file %q in %q which is not a file there", f.Name, where)
		}
		seen[f.Name] = true
		if protoKey(f.Digest) != blobKey(fileContent(c.content)) {
			return fmt.Sprintf("Tree has a wrong digest for file %q in %q", f.Name, where)
		}
		if f.IsExecutable != c.exec {
			return fmt.Sprintf("Tree has a wrong executable bit for file %q in %q", f.Name, where)
		}
	}
	for _, s := range d.Symlinks {
		c := n.entries[s.Name]
		if c == nil || c.kind != 'l' || seen[s.Name] {
			return fmt.Sprintf("Tree lists symlink %q in %q which is not a symlink there", s.Name, where)
		}
		seen[s.Name] = true
		if !targetsEquivalent(c.target, s.Target) {
			return fmt.Sprintf("Tree has target %q for symlink %q in %q, actual target %q", s.Target, s.Name, where, c.target)
		}
	}
	for _, sd := range d.Directories {
		c := n.entries[sd.Name]
		if c == nil || c.kind != 'd' || seen[sd.Name] {
			return fmt.Sprintf("Tree lists directory %q in %q which is not a directory there", sd.Name, where)
		}
		seen[sd.Name] = true
		if v := t.matches(t.pos[protoKey(sd.Digest)], c, where+"/"+sd.Name, lax); v != "" {
			return v
		}
	}
	for _, k := range n.names() {
		c := n.entries[k]
		if seen[k] || c.kind == 's' {
			continue // REv2 cannot express special files; they are left out
		}
		if lax && ((c.kind == 'f' && c.content%10 == 9) || (c.kind == 'd' && !c.readable) ||
			(c.kind == 'l' && c.target == readlinkFailTarget)) {
			continue
		}
		return fmt.Sprintf("%q in output directory %q is missing from the Tree", k, where)
	}
	return ""
}

type uploadObs struct {
	ar  *remoteexecution.ActionResult
	err error
}

// checkUpload judges the ActionResult against the actual tree t1.
func checkUpload(ds []decl, t1 *node, o uploadObs, cas *fakeCAS, faults bool) string {
	count := map[string]int{}
	loc := map[string][]string{}
	for _, d := range ds {
		count[d.s]++
		loc[d.s] = d.loc
	}
	listed := map[string]int{}
	kindOf := func(s string) (*node, bool) {
		if count[s] == 0 {
			return nil, false
		}
		return t1.walk(loc[s]), true
	}
	for _, f := range o.ar.OutputFiles {
		n, ok := kindOf(f.Path)
		if !ok {
			return fmt.Sprintf("output file listed under path %q which was not declared", f.Path)
		}
		if n == nil || n.kind != 'f' {
			return fmt.Sprintf("output file listed for %q, but no regular file exists there", f.Path)
		}
		if protoKey(f.Digest) != blobKey(fileContent(n.content)) {
			return fmt.Sprintf("output file %q is listed with a wrong content digest", f.Path)
		}
		if f.IsExecutable != n.exec {
			return fmt.Sprintf("output file %q is listed with executable=%v, actual %v", f.Path, f.IsExecutable, n.exec)
		}
		if _, ok := cas.get(f.Digest); !ok {
			return fmt.Sprintf("contents of listed output file %q were not stored", f.Path)
		}
		listed[f.Path]++
	}
	for _, s := range o.ar.OutputSymlinks {
		n, ok := kindOf(s.Path)
		if !ok {
			return fmt.Sprintf("output symlink listed under path %q which was not declared", s.Path)
		}
		if n == nil || n.kind != 'l' {
			return fmt.Sprintf("output symlink listed for %q, but no symlink exists there", s.Path)
		}
		if !targetsEquivalent(n.target, s.Target) {
			return fmt.Sprintf("output symlink %q is listed with target %q, actual %q", s.Path, s.Target, n.target)
		}
		listed[s.Path]++
	}
	for _, d := range o.ar.OutputDirectories {
		n, ok := kindOf(d.Path)
		if !ok {
			return fmt.Sprintf("output directory listed under path %q which was not declared", d.Path)
		}
		if n == nil || n.kind != 'd' {
			return fmt.Sprintf("output directory listed for %q, but no directory exists there", d.Path)
		}
		blob, ok := cas.get(d.TreeDigest)
		if !ok {
			return fmt.Sprintf("Tree of listed output directory %q was not stored", d.Path)
		}
		t, bad := decodeTree(blob)
		if bad != "" {
			return fmt.Sprintf("output directory %q: %s", d.Path, bad)
		}
		// errors do not lie, also below the root of an output directory: an
		// entry may only be missing from the Tree when a fault was injected
		// AND UploadOutputs reported an error
		if v := t.matches(0, n, d.Path, faults && o.err != nil); v != "" {
			if faults && o.err == nil {
				v += " although UploadOutputs reported no error"
			}
			return v
		}
		if d.RootDirectoryDigest != nil {
			if protoKey(d.RootDirectoryDigest) != t.keys[0] {
				return fmt.Sprintf("root_directory_digest of %q is not the digest of the Tree's root", d.Path)
			}
			for i, k := range t.keys {
				if b, ok := cas.blobs[k]; !ok || string(b) != string(t.raw[i]) {
					return fmt.Sprintf("output directory %q has a root_directory_digest but not all Directory messages were stored", d.Path)
				}
			}
		}
		listed[d.Path]++
	}
	// Completeness: every declared string whose location exists is listed once per declaration.
	special := false
	brokenParent := false
	for s, c := range count {
		n := t1.walk(loc[s])
		switch {
		case n == nil:
			if listed[s] != 0 {
				return fmt.Sprintf("declared path %q does not exist but is listed", s)
			}
			for i := 1; i < len(loc[s]); i++ {
				if p := t1.walk(loc[s][:i]); p != nil && p.kind != 'd' {
					brokenParent = true
				}
			}
		case n.kind == 's':
			special = true
			if listed[s] != 0 {
				return fmt.Sprintf("declared path %q is a special file but is listed", s)
			}
		default:
			if listed[s] == c {
				continue
			}
			if faults && listed[s] == 0 && o.err != nil {
				continue // an upload may have failed; the error says so
			}
			return fmt.Sprintf("declared path %q exists (%c) and is declared %d time(s) but listed %d time(s) (error: %v)", s, n.kind, c, listed[s], o.err)
		}
	}
	if special && o.err == nil {
		return "a declared output is a special file, but UploadOutputs reported no error"
	}
	if special && !faults && !brokenParent && status.Code(o.err) != codes.InvalidArgument {
		return fmt.Sprintf("a declared output is a special file, but the error code is %v", status.Code(o.err))
	}
	if !special && !brokenParent && !faults && o.err != nil {
		return fmt.Sprintf("UploadOutputs failed although every declared output could be reported: %v", o.err)
	}
	if len(cas.badKeys) > 0 {
		return "CAS: " + cas.badKeys[0]
	}
	return ""
}

// ---- canonical form of an ActionResult (compared with the model's output) ----

func showDir(d *remoteexecution.Directory, resolve func(*remoteexecution.Digest) *remoteexecution.Directory, ids map[string]int, depth int) string {
	if d == nil || depth > 64 {
		return "?"
	}
	var parts []string
	for _, f := range d.Files {
		id := "?"
		if v, ok := ids[protoKey(f.Digest)]; ok {
			id = fmt.Sprint(v)
		}
		parts = append(parts, fmt.Sprintf("F%s.%s.%s", hexs(f.Name), id, b01(f.IsExecutable)))
	}
	for _, c := range d.Directories {
		parts = append(parts, fmt.Sprintf("D%s=%s", hexs(c.Name), showDir(resolve(c.Digest), resolve, ids, depth+1)))
	}
	for _, s := range d.Symlinks {
		parts = append(parts, fmt.Sprintf("L%s.%s", hexs(s.Name), hexs(s.Target)))
	}
	return "(" + strings.Join(parts, ",") + ")"
}

func showSorted(l []string) string {
	sort.Strings(l)
	return "[" + strings.Join(l, " ") + "]"
}

func canonResult(o uploadObs, cas *fakeCAS, ids map[string]int) string {
	var fs, ss, dsl []string
	for _, f := range o.ar.OutputFiles {
		id := "?"
		if v, ok := ids[protoKey(f.Digest)]; ok {
			id = fmt.Sprint(v)
		}
		fs = append(fs, fmt.Sprintf("%s:%s:%s", hexs(f.Path), id, b01(f.IsExecutable)))
	}
	for _, s := range o.ar.OutputSymlinks {
		ss = append(ss, fmt.Sprintf("%s:%s", hexs(s.Path), hexs(s.Target)))
	}
	for _, d := range o.ar.OutputDirectories {
		entry := hexs(d.Path) + ":"
		blob, ok := cas.get(d.TreeDigest)
		if !ok {
			dsl = append(dsl, entry+"notstored")
			continue
		}
		rootRaw, childrenRaw, ok := splitTree(blob)
		if !ok {
			dsl = append(dsl, entry+"undecodable")
			continue
		}
		byKey := map[string]*remoteexecution.Directory{}
		parse := func(b []byte) *remoteexecution.Directory {
			var x remoteexecution.Directory
			if proto.Unmarshal(b, &x) != nil {
				return nil
			}
			byKey[blobKey(b)] = &x
			return &x
		}
		var rootDir *remoteexecution.Directory
		if rootRaw != nil {
			rootDir = parse(rootRaw)
		}
		var children []*remoteexecution.Directory
		for _, b := range childrenRaw {
			children = append(children, parse(b))
		}
		resolve := func(dg *remoteexecution.Digest) *remoteexecution.Directory { return byKey[protoKey(dg)] }
		root := "none"
		if rootDir != nil {
			root = showDir(rootDir, resolve, ids, 0)
		}
		rd := "norootdigest"
		if d.RootDirectoryDigest != nil {
			rd = showDir(resolve(d.RootDirectoryDigest), resolve, ids, 0)
		}
		var kids []string
		for _, c := range children {
			kids = append(kids, showDir(c, resolve, ids, 0))
		}
		sort.Strings(kids)
		n := len(children)
		if rootRaw != nil {
			n++
		}
		dsl = append(dsl, fmt.Sprintf("%s%s:%s:%d:%s", entry, root, rd, n, strings.Join(kids, ";")))
	}
	st := "ok"
	if o.err != nil {
		st = "err"
	}
	return st + " F " + showSorted(fs) + " S " + showSorted(ss) + " D " + showSorted(dsl)
}

// splitTree splits a Tree blob into the raw root (first field 1) and the raw
// children (fields 2, in order) without insisting on their order.
func splitTree(data []byte) (root []byte, children [][]byte, ok bool) {
	for len(data) > 0 {
		num, typ, n := protowire.ConsumeTag(data)
		if n < 0 || typ != protowire.BytesType {
			return nil, nil, false
		}
		data = data[n:]
		b, n := protowire.ConsumeBytes(data)
		if n < 0 {
			return nil, nil, false
		}
		data = data[n:]
		switch {
		case num == 1 && root == nil:
			root = b
			if root == nil {
				root = []byte{}
			}
		case num == 2:
			children = append(children, b)
		default:
			return nil, nil, false
		}
	}
	return root, children, true
}
