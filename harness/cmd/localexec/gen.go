package localexec

import (
	"fmt"
	"strings"

	"verifharness/internal/hx"
)

// tcase is one generated history: a command (working directory, output paths,
// directory format), the input root before CreateParentDirectories, and the
// tree the "action" left behind, uploaded with or without injected faults.
type tcase struct {
	backend     string // virtual | naive
	upDirs      bool
	wd          string
	paths       []string
	t0          *node
	force       bool
	faults      bool
	enterFaults bool // with faults: unreadable directories fail on enter instead of on ReadDir where that is equivalent
	t1          *node
}

func (c *tcase) lines() []string {
	newLine := []string{"new", b01(c.upDirs), hexs(c.wd)}
	for _, p := range c.paths {
		newLine = append(newLine, hexs(p))
	}
	return []string{
		"backend " + c.backend,
		strings.Join(newLine, " "),
		"mkparents " + c.t0.String(),
		"upload " + b01(c.force) + " " + c.faultMode() + " " + c.t1.String(),
	}
}

func (c *tcase) faultMode() string {
	switch {
	case c.faults && c.enterFaults:
		return "2"
	case c.faults:
		return "1"
	}
	return "0"
}

func parseCase(lines []string) (*tcase, error) {
	c := &tcase{backend: "virtual", t0: newDir(), t1: newDir()}
	seenNew := false
	for _, l := range lines {
		ws := strings.Fields(l)
		if len(ws) == 0 {
			continue
		}
		switch ws[0] {
		case "backend":
			if len(ws) > 1 {
				c.backend = ws[1]
			}
		case "new":
			if len(ws) < 3 {
				return nil, fmt.Errorf("bad new line")
			}
			seenNew = true
			c.upDirs = ws[1] == "1"
			var err error
			if c.wd, err = unhx(ws[2]); err != nil {
				return nil, err
			}
			c.paths = nil
			for _, w := range ws[3:] {
				p, err := unhx(w)
				if err != nil {
					return nil, err
				}
				c.paths = append(c.paths, p)
			}
		case "mkparents":
			t, rest, err := parseTree(ws[1:])
			if err != nil || len(rest) != 0 || t.kind != 'd' {
				return nil, fmt.Errorf("bad mkparents line")
			}
			c.t0 = t
		case "upload":
			if len(ws) < 4 {
				return nil, fmt.Errorf("bad upload line")
			}
			c.force, c.faults, c.enterFaults = ws[1] == "1", ws[2] == "1" || ws[2] == "2", ws[2] == "2"
			t, rest, err := parseTree(ws[3:])
			if err != nil || len(rest) != 0 || t.kind != 'd' {
				return nil, fmt.Errorf("bad upload line")
			}
			c.t1 = t
		}
	}
	if !seenNew {
		return nil, fmt.Errorf("history has no new line")
	}
	return c, nil
}

var vocabulary = []string{"a", "b", "c", "d", "e", "x", "y", "out", "...", ".a", "a.b", "bin", "lib", "é", "a b", "o-1", "zz"}

var symlinkTargets = []string{"a", "../b", "/abs/path", "a//b", "./a", "a/", ".", "/", "a/./b/..", "...", "../../x/y", "/a/../b", "x/", "a/b/c", "..", "//a", "a/.", "./", "é/y"}

type generator struct {
	r    *hx.Rand
	pool []*node // subtrees that get reused (identical subdirectories)
}

func (g *generator) name() string { return vocabulary[g.r.Intn(len(vocabulary))] }

func (g *generator) smallName() string { return vocabulary[g.r.Intn(6)] }

func (g *generator) contentID(faults bool) int {
	id := g.r.Intn(12)
	if id%10 == 9 {
		id++
	}
	if g.r.Chance(1, 8) {
		id = 100 + g.r.Intn(1000)
		if id%10 == 9 {
			id++
		}
	}
	if faults && g.r.Chance(1, 6) {
		id = 9 + 10*g.r.Intn(5)
	}
	return id
}

func (g *generator) leaf(faults bool) *node {
	if faults && g.r.Chance(1, 12) {
		return &node{kind: 'l', target: readlinkFailTarget}
	}
	switch g.r.Pick(60, 25, 15) {
	case 0:
		return &node{kind: 'f', exec: g.r.Chance(1, 3), content: g.contentID(faults)}
	case 1:
		return &node{kind: 'l', target: symlinkTargets[g.r.Intn(len(symlinkTargets))]}
	}
	return &node{kind: 's'}
}

// subtree generates a produced directory: deep, wide, with reused identical
// subdirectories, symlinks, special files and empty directories.
func (g *generator) subtree(depth int, budget *int, faults bool) *node {
	d := newDir()
	if faults && g.r.Chance(1, 14) {
		d.readable = false
	}
	if depth <= 0 || *budget <= 0 {
		return d
	}
	width := g.r.Intn(5)
	switch g.r.Pick(6, 2, 2) {
	case 1:
		width = 6 + g.r.Intn(8) // wide
	case 2:
		width = 1 // deep chains
	}
	for i := 0; i < width && *budget > 0; i++ {
		name := g.name()
		if faults && g.r.Chance(1, 12) {
			name = putFailMarker
		}
		if _, dup := d.entries[name]; dup {
			continue
		}
		*budget--
		switch {
		case g.r.Chance(2, 5):
			if len(g.pool) > 0 && g.r.Chance(1, 2) {
				d.entries[name] = g.pool[g.r.Intn(len(g.pool))].clone()
			} else {
				c := g.subtree(depth-1, budget, faults)
				d.entries[name] = c
				if len(g.pool) < 6 {
					g.pool = append(g.pool, c.clone())
				}
			}
		default:
			d.entries[name] = g.leaf(faults)
		}
	}
	return d
}

// noisy re-renders a list of components with meaning-preserving noise.
func (g *generator) noisy(comps []string, heavy bool) string {
	var parts []string
	if g.r.Chance(1, 5) {
		parts = append(parts, ".")
	}
	for _, c := range comps {
		if heavy && g.r.Chance(1, 6) {
			parts = append(parts, g.smallName(), "..")
		}
		if heavy && g.r.Chance(1, 8) {
			parts = append(parts, ".")
		}
		if heavy && len(parts) > 0 && g.r.Chance(1, 10) {
			parts = append(parts, "") // double slash
		}
		parts = append(parts, c)
	}
	s := strings.Join(parts, "/")
	if s == "" {
		return []string{"", ".", "./", ".//.", ""}[g.r.Intn(5)]
	}
	switch g.r.Pick(12, 2, 2, 1) {
	case 1:
		s += "/"
	case 2:
		s += "/."
	case 3:
		s += "//"
	}
	return s
}

// relTo renders target location loc as a path relative to base.
func (g *generator) relTo(base, loc []string, heavy bool) string {
	i := 0
	if g.r.Chance(4, 5) {
		for i < len(base) && i < len(loc) && base[i] == loc[i] {
			i++
		}
	}
	var comps []string
	for j := i; j < len(base); j++ {
		comps = append(comps, "..")
	}
	comps = append(comps, loc[i:]...)
	return g.noisy(comps, heavy)
}

func (g *generator) invalidPath(base []string) string {
	switch g.r.Pick(3, 2, 1, 2) {
	case 0:
		return strings.Repeat("../", len(base)+1+g.r.Intn(2)) + g.smallName()
	case 1:
		return "/" + g.smallName()
	case 2:
		return g.smallName() + "\x00" + g.smallName()
	}
	return g.smallName() + "/../" + strings.Repeat("../", len(base)) + ".."
}

func (g *generator) gen(tier string) *tcase {
	r := g.r
	g.pool = nil
	c := &tcase{backend: "virtual", upDirs: r.Chance(1, 2), force: r.Chance(1, 5), faults: r.Chance(1, 4)}
	c.enterFaults = c.faults && r.Chance(1, 2)
	// half of the fault-injection cases scatter faults all over the tree, the other
	// half inject exactly one fault below (or at) a declared output, so that it is
	// the only possible reason for an error
	scatter := c.faults && r.Chance(1, 2)

	// input root
	budget := 6
	c.t0 = newDir()
	if r.Chance(2, 3) {
		c.t0 = g.subtree(2, &budget, false)
	}

	// working directory
	var base []string
	for d := r.Pick(4, 3, 2, 1); d > 0; d-- {
		base = append(base, g.smallName())
	}
	c.wd = g.noisy(base, true)
	if len(base) == 0 && r.Chance(1, 2) {
		c.wd = ""
	}
	if r.Chance(1, 25) {
		c.wd = g.invalidPath(nil)
	}

	// output paths
	n := r.Intn(9)
	if r.Chance(1, 6) {
		n = 9 + r.Intn(4)
	}
	var locs [][]string
	for i := 0; i < n; i++ {
		var loc []string
		switch {
		case len(locs) > 0 && r.Chance(1, 5): // exact duplicate string
			c.paths = append(c.paths, c.paths[r.Intn(len(c.paths))])
			continue
		case len(locs) > 0 && r.Chance(1, 4): // alias of an earlier location
			loc = locs[r.Intn(len(locs))]
		case len(locs) > 0 && r.Chance(1, 3): // nested below / sibling of an earlier location
			prev := locs[r.Intn(len(locs))]
			k := r.Intn(len(prev) + 1)
			loc = append(append([]string(nil), prev[:k]...), g.smallName())
			if r.Chance(1, 3) {
				loc = append(loc, g.name())
			}
		case r.Chance(1, 12): // the input root itself
			loc = nil
		default:
			depth := 1 + r.Pick(5, 4, 2, 1, 1)
			if r.Chance(3, 4) {
				loc = append(loc, base...)
			}
			for len(loc) < depth {
				loc = append(loc, g.name())
			}
		}
		if len(loc) > 6 {
			loc = loc[:6]
		}
		locs = append(locs, loc)
		c.paths = append(c.paths, g.relTo(base, loc, r.Chance(1, 2)))
	}
	if len(c.paths) > 0 && r.Chance(1, 20) {
		c.paths[r.Intn(len(c.paths))] = g.invalidPath(base)
	}

	// the tree after the action: parents as CreateParentDirectories leaves them, then outputs
	c.t1 = c.t0.clone()
	ds, ok := declared(c.wd, c.paths)
	if !ok {
		return c
	}
	for _, loc := range properPrefixes(ds) {
		cur := c.t1
		for _, k := range loc {
			nx := cur.entries[k]
			if nx == nil {
				nx = newDir()
				cur.entries[k] = nx
			}
			if nx.kind != 'd' {
				break
			}
			cur = nx
		}
	}
	isPrefix := func(loc []string) bool {
		for _, d := range ds {
			if len(d.loc) > len(loc) && strings.Join(d.loc[:len(loc)], "/") == strings.Join(loc, "/") {
				return true
			}
		}
		return false
	}
	done := map[string]bool{}
	nodeBudget := 40
	if tier == "thorough" {
		nodeBudget = 160
	}
	for _, d := range ds {
		key := strings.Join(d.loc, "/")
		if done[key] {
			continue
		}
		done[key] = true
		if len(d.loc) == 0 {
			continue // the root: whatever ends up in t1
		}
		parent := c.t1.walk(d.loc[:len(d.loc)-1])
		if parent == nil || parent.kind != 'd' {
			continue
		}
		last := d.loc[len(d.loc)-1]
		choice := r.Pick(15, 30, 32, 13, 10)
		if isPrefix(d.loc) && r.Chance(5, 6) {
			if parent.entries[last] != nil && parent.entries[last].kind == 'd' {
				continue // keep the parents of nested outputs
			}
			choice = 2
		}
		switch choice {
		case 0: // missing
			if r.Chance(1, 2) {
				delete(parent.entries, last)
			}
		case 1:
			parent.entries[last] = &node{kind: 'f', exec: r.Chance(1, 2), content: g.contentID(scatter)}
		case 2:
			b := nodeBudget / 2
			sub := g.subtree(1+r.Intn(5), &b, scatter)
			if old := parent.entries[last]; old != nil && old.kind == 'd' {
				for k, v := range old.entries { // keep what nested declarations put there
					sub.entries[k] = v
				}
			}
			parent.entries[last] = sub
		case 3:
			parent.entries[last] = &node{kind: 'l', target: symlinkTargets[r.Intn(len(symlinkTargets))]}
			if scatter && r.Chance(1, 5) {
				parent.entries[last].target = readlinkFailTarget
			}
		default:
			parent.entries[last] = &node{kind: 's'}
		}
	}
	// occasionally the action destroys a parent directory
	if len(ds) > 0 && r.Chance(1, 15) {
		d := ds[r.Intn(len(ds))]
		if len(d.loc) >= 2 {
			k := 1 + r.Intn(len(d.loc)-1)
			if p := c.t1.walk(d.loc[:k-1]); p != nil && p.kind == 'd' {
				switch r.Intn(3) {
				case 0:
					delete(p.entries, d.loc[k-1])
				case 1:
					p.entries[d.loc[k-1]] = &node{kind: 'f', content: 1}
				default:
					p.entries[d.loc[k-1]] = &node{kind: 'l', target: "."}
				}
			}
		}
	}
	if !c.faults {
		clearFaults(c.t1)
	}
	if c.faults && !scatter {
		// one fault: a file whose upload fails, a symlink whose Readlink fails or a
		// directory that cannot be entered/listed, preferably nested inside an output directory
		var nested, top []*node
		var collect func(n *node, into *[]*node)
		collect = func(n *node, into *[]*node) {
			for _, k := range n.names() {
				e := n.entries[k]
				if e.kind != 's' {
					*into = append(*into, e)
				}
				if e.kind == 'd' {
					collect(e, into)
				}
			}
		}
		seen := map[string]bool{}
		for _, d := range ds {
			key := strings.Join(d.loc, "/")
			if seen[key] {
				continue
			}
			seen[key] = true
			if n := c.t1.walk(d.loc); n != nil && n.kind != 's' {
				if len(d.loc) > 0 {
					top = append(top, n)
				}
				if n.kind == 'd' {
					collect(n, &nested)
				}
			}
		}
		pool := nested
		if len(pool) == 0 || r.Chance(1, 5) {
			pool = append(pool, top...)
		}
		if len(pool) > 0 {
			switch n := pool[r.Intn(len(pool))]; n.kind {
			case 'f':
				n.content = 9 + 10*r.Intn(5)
			case 'l':
				n.target = readlinkFailTarget
			case 'd':
				n.readable = false
			}
		}
	}
	return c
}

func clearFaults(n *node) {
	n.readable = true
	for _, e := range n.entries {
		if e.kind == 'd' {
			clearFaults(e)
		}
	}
}
