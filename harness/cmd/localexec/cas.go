package localexec

import (
	"bytes"
	"context"
	"crypto/sha256"
	"encoding/hex"
	"fmt"
	"sync"
	"time"

	remoteexecution "github.com/bazelbuild/remote-apis/build/bazel/remote/execution/v2"
	"github.com/buildbarn/bb-storage/pkg/blobstore"
	"github.com/buildbarn/bb-storage/pkg/blobstore/buffer"
	"github.com/buildbarn/bb-storage/pkg/blobstore/slicing"
	"github.com/buildbarn/bb-storage/pkg/digest"

	"google.golang.org/grpc/codes"
	"google.golang.org/grpc/status"
	"google.golang.org/protobuf/proto"
)

// fakeCAS captures every blob that is written.  It recomputes the digest of
// what it receives with crypto/sha256 (independently of bb-storage's digest
// generator) and remembers any blob stored under a wrong key.  In failing mode
// it rejects blobs that contain the marker "PUTFAIL".
type fakeCAS struct {
	lock     sync.Mutex
	blobs    map[string][]byte // "hash-size" -> data
	failing  bool
	puts     int
	rejected int
	badKeys  []string
	latency  map[string]time.Duration // blob key -> how long a Get takes (virtual time)
	putLog   []string                 // keys in the order they were stored
	gets     int
}

var _ blobstore.BlobAccess = (*fakeCAS)(nil)

func newFakeCAS(failing bool) *fakeCAS {
	return &fakeCAS{blobs: map[string][]byte{}, failing: failing, latency: map[string]time.Duration{}}
}

func blobKey(data []byte) string {
	h := sha256.Sum256(data)
	return fmt.Sprintf("%s-%d", hex.EncodeToString(h[:]), len(data))
}

func protoKey(d *remoteexecution.Digest) string {
	if d == nil {
		return "nil"
	}
	return fmt.Sprintf("%s-%d", d.Hash, d.SizeBytes)
}

func (c *fakeCAS) GetCapabilities(ctx context.Context, instanceName digest.InstanceName) (*remoteexecution.ServerCapabilities, error) {
	return &remoteexecution.ServerCapabilities{CacheCapabilities: &remoteexecution.CacheCapabilities{}}, nil
}

func (c *fakeCAS) Get(ctx context.Context, d digest.Digest) buffer.Buffer {
	c.lock.Lock()
	lat := c.latency[protoKey(d.GetProto())]
	c.gets++
	c.lock.Unlock()
	if lat > 0 {
		time.Sleep(lat) // inside a synctest bubble: virtual time
	}
	c.lock.Lock()
	defer c.lock.Unlock()
	if data, ok := c.blobs[protoKey(d.GetProto())]; ok {
		return buffer.NewValidatedBufferFromByteSlice(data)
	}
	return buffer.NewBufferFromError(status.Error(codes.NotFound, "blob not found"))
}

func (c *fakeCAS) GetFromComposite(ctx context.Context, parentDigest, childDigest digest.Digest, slicer slicing.BlobSlicer) buffer.Buffer {
	return buffer.NewBufferFromError(status.Error(codes.Unimplemented, "not supported by the fake CAS"))
}

func (c *fakeCAS) Put(ctx context.Context, d digest.Digest, b buffer.Buffer) error {
	data, err := b.ToByteSlice(1 << 30)
	if err != nil {
		return err
	}
	c.lock.Lock()
	defer c.lock.Unlock()
	c.puts++
	if c.failing && bytes.Contains(data, []byte(putFailMarker)) {
		c.rejected++
		return status.Error(codes.Unavailable, "fake CAS rejects this blob")
	}
	key := protoKey(d.GetProto())
	if want := blobKey(data); want != key {
		c.badKeys = append(c.badKeys, fmt.Sprintf("blob with sha256 key %s was stored under %s", want, key))
	}
	c.blobs[key] = append([]byte(nil), data...)
	c.putLog = append(c.putLog, key)
	return nil
}

// put stores a blob directly (harness side: inputs, commands).
func (c *fakeCAS) put(data []byte) *remoteexecution.Digest {
	h := sha256.Sum256(data)
	d := &remoteexecution.Digest{Hash: hex.EncodeToString(h[:]), SizeBytes: int64(len(data))}
	c.lock.Lock()
	c.blobs[protoKey(d)] = append([]byte(nil), data...)
	c.lock.Unlock()
	return d
}

func (c *fakeCAS) has(d *remoteexecution.Digest) bool {
	_, ok := c.get(d)
	return ok
}

// fakeAC is the Action Cache: it records every ActionResult written, and runs
// a hook at the instant of the write (completeness is judged at that instant).
type fakeAC struct {
	fakeCAS
	results map[string]*remoteexecution.ActionResult
	onPut   func(actionKey string, ar *remoteexecution.ActionResult)
}

func newFakeAC() *fakeAC {
	return &fakeAC{fakeCAS: fakeCAS{blobs: map[string][]byte{}}, results: map[string]*remoteexecution.ActionResult{}}
}

func (c *fakeAC) Put(ctx context.Context, d digest.Digest, b buffer.Buffer) error {
	data, err := b.ToByteSlice(1 << 30)
	if err != nil {
		return err
	}
	var ar remoteexecution.ActionResult
	if err := proto.Unmarshal(data, &ar); err != nil {
		return err
	}
	key := protoKey(d.GetProto())
	c.lock.Lock()
	c.results[key] = &ar
	hook := c.onPut
	c.lock.Unlock()
	if hook != nil {
		hook(key, &ar)
	}
	return nil
}

func (c *fakeCAS) FindMissing(ctx context.Context, digests digest.Set) (digest.Set, error) {
	c.lock.Lock()
	defer c.lock.Unlock()
	sb := digest.NewSetBuilder(0)
	for _, d := range digests.Items() {
		if _, ok := c.blobs[protoKey(d.GetProto())]; !ok {
			sb.Add(d)
		}
	}
	return sb.Build(), nil
}

func (c *fakeCAS) get(d *remoteexecution.Digest) ([]byte, bool) {
	c.lock.Lock()
	defer c.lock.Unlock()
	data, ok := c.blobs[protoKey(d)]
	return data, ok
}
