// Package localexec is the end-to-end worker tie (C09, C10, C11, C12): the real
// LocalBuildExecutor stack driven by a scripted fake runner inside a synctest bubble.
package localexec
