package localexec

import (
	"context"
	"fmt"
	"os"
	"sort"
	"syscall"

	remoteexecution "github.com/bazelbuild/remote-apis/build/bazel/remote/execution/v2"
	"github.com/buildbarn/bb-remote-execution/pkg/builder"
	"github.com/buildbarn/bb-remote-execution/pkg/filesystem/pool"
	"github.com/buildbarn/bb-remote-execution/pkg/filesystem/virtual"
	"github.com/buildbarn/bb-storage/pkg/blobstore"
	"github.com/buildbarn/bb-storage/pkg/clock"
	"github.com/buildbarn/bb-storage/pkg/digest"
	"github.com/buildbarn/bb-storage/pkg/filesystem"
	"github.com/buildbarn/bb-storage/pkg/filesystem/path"
	"github.com/buildbarn/bb-storage/pkg/random"
	"github.com/buildbarn/bb-storage/pkg/util"

	"golang.org/x/sync/semaphore"
	"golang.org/x/sys/unix"
	"google.golang.org/grpc/codes"
	"google.golang.org/grpc/status"
)

var digestFunction = digest.MustNewFunction("verif", remoteexecution.DigestFunction_SHA256)

// memBlockDevice backs the real BlockDeviceBackedFilePool with memory.
type memBlockDevice struct{ data []byte }

func (d *memBlockDevice) ReadAt(p []byte, off int64) (int, error) {
	return copy(p, d.data[off:]), nil
}

func (d *memBlockDevice) WriteAt(p []byte, off int64) (int, error) {
	return copy(d.data[off:], p), nil
}
func (d *memBlockDevice) Sync() error  { return nil }
func (d *memBlockDevice) Close() error { return nil }

type quietLogger struct{ errs []error }

func (l *quietLogger) Log(err error) { l.errs = append(l.errs, err) }

// buildVirtual materialises tree t in a real InMemoryPrepopulatedDirectory
// wrapped in the real virtualBuildDirectory, the way bb_worker wires them
// (pool-backed files, base symlinks, NFS-style handle allocator), and fills it
// through the directory's own Virtual* entry points - the calls a build action
// makes through FUSE/NFS.
func buildVirtual(t *node, cas blobstore.BlobAccess) (builder.BuildDirectory, func(), error) {
	handleAllocator := virtual.NewNFSHandleAllocator(random.NewFastSingleThreadedGenerator())
	defaultAttributesSetter := func(requested virtual.AttributesMask, attributes *virtual.Attributes) {}
	logger := &quietLogger{}
	root := virtual.NewInMemoryPrepopulatedDirectory(
		virtual.NewHandleAllocatingFileAllocator(
			virtual.NewPoolBackedFileAllocator(pool.EmptyFilePool, logger, defaultAttributesSetter, virtual.NoNamedAttributesFactory),
			handleAllocator),
		virtual.NewErrorSymlinkFactory(status.Error(codes.PermissionDenied, "Symlink outside build directory")),
		logger,
		handleAllocator,
		sort.Sort,
		func(string) bool { return false },
		clock.SystemClock,
		virtual.CaseSensitiveComponentNormalizer,
		defaultAttributesSetter,
		virtual.NoNamedAttributesFactory,
	)
	symlinkFactory := virtual.NewHandleAllocatingSymlinkFactory(
		virtual.NewBaseSymlinkFactory(defaultAttributesSetter),
		handleAllocator.New(),
		path.LocalFormat,
	)
	characterDeviceFactory := virtual.NewHandleAllocatingCharacterDeviceFactory(
		virtual.BaseCharacterDeviceFactory,
		handleAllocator.New(),
	)
	bd := builder.NewVirtualBuildDirectory(root, nil, cas, symlinkFactory, characterDeviceFactory, handleAllocator, defaultAttributesSetter, clock.SystemClock)
	const sectorSize, sectors = 512, 2048
	filePool := pool.NewBlockDeviceBackedFilePool(
		&memBlockDevice{data: make([]byte, sectorSize*sectors)},
		pool.NewBitmapSectorAllocator(sectors),
		sectorSize)
	bd.InstallHooks(filePool, logger)
	if err := populateVirtual(root, t); err != nil {
		return nil, nil, err
	}
	return bd, func() { root.RemoveAllChildren(true) }, nil
}

func populateVirtual(d virtual.PrepopulatedDirectory, t *node) error {
	ctx := context.Background()
	for _, name := range t.names() {
		c := t.entries[name]
		comp, ok := path.NewComponent(name)
		if !ok {
			return fmt.Errorf("invalid component %q", name)
		}
		var attrs virtual.Attributes
		switch c.kind {
		case 'd':
			if _, _, s := d.VirtualMkdir(ctx, comp, (&virtual.Attributes{}).SetPermissions(virtual.PermissionsRead|virtual.PermissionsWrite|virtual.PermissionsExecute), 0, &attrs); s != virtual.StatusOK {
				return fmt.Errorf("VirtualMkdir %q: status %v", name, s)
			}
			child, err := d.LookupChild(comp)
			if err != nil {
				return err
			}
			cd, _ := child.GetPair()
			if cd == nil {
				return fmt.Errorf("%q is not a directory after mkdir", name)
			}
			if err := populateVirtual(cd, c); err != nil {
				return err
			}
		case 'f':
			perm := virtual.PermissionsRead | virtual.PermissionsWrite
			if c.exec {
				perm |= virtual.PermissionsExecute
			}
			leaf, _, _, s := d.VirtualOpenChild(ctx, comp, virtual.ShareMaskWrite, (&virtual.Attributes{}).SetPermissions(perm), nil, 0, &attrs)
			if s != virtual.StatusOK {
				return fmt.Errorf("VirtualOpenChild %q: status %v", name, s)
			}
			data := fileContent(c.content)
			for off := 0; off < len(data); {
				n, s := leaf.VirtualWrite(ctx, data[off:], uint64(off))
				if s != virtual.StatusOK || n == 0 {
					return fmt.Errorf("VirtualWrite %q: status %v", name, s)
				}
				off += n
			}
			leaf.VirtualClose(virtual.ShareMaskWrite)
		case 'l':
			ca := (&virtual.Attributes{}).SetFileType(filesystem.FileTypeSymlink).SetSymlinkTarget(path.UNIXFormat.NewParser(c.target))
			if _, _, s := d.VirtualMknod(ctx, comp, ca, 0, &attrs); s != virtual.StatusOK {
				return fmt.Errorf("VirtualMknod symlink %q: status %v", name, s)
			}
		default:
			ca := (&virtual.Attributes{}).SetFileType(filesystem.FileTypeFIFO).SetPermissions(virtual.PermissionsRead | virtual.PermissionsWrite)
			if _, _, s := d.VirtualMknod(ctx, comp, ca, 0, &attrs); s != virtual.StatusOK {
				return fmt.Errorf("VirtualMknod fifo %q: status %v", name, s)
			}
		}
	}
	return nil
}

// buildNaive materialises tree t in a temporary directory of the host file
// system and wraps it in the real naiveBuildDirectory.
func buildNaive(t *node, cas blobstore.BlobAccess) (builder.BuildDirectory, func(), error) {
	tmp, err := os.MkdirTemp("", "c10-naive-")
	if err != nil {
		return nil, nil, err
	}
	cleanup := func() { os.RemoveAll(tmp) }
	if err := populateNaive(tmp, t); err != nil {
		cleanup()
		return nil, nil, err
	}
	d, err := filesystem.NewLocalDirectory(path.LocalFormat.NewParser(tmp))
	if err != nil {
		cleanup()
		return nil, nil, err
	}
	bd := builder.NewNaiveBuildDirectory(d, nil, nil, semaphore.NewWeighted(1), cas)
	return bd, func() { bd.Close(); cleanup() }, nil
}

func populateNaive(dir string, t *node) error {
	for _, name := range t.names() {
		c := t.entries[name]
		p := dir + "/" + name
		switch c.kind {
		case 'd':
			if err := os.Mkdir(p, 0o777); err != nil {
				return err
			}
			if err := populateNaive(p, c); err != nil {
				return err
			}
		case 'f':
			mode := os.FileMode(0o644)
			if c.exec {
				mode = 0o755
			}
			if err := os.WriteFile(p, fileContent(c.content), mode); err != nil {
				return err
			}
			if err := os.Chmod(p, mode); err != nil {
				return err
			}
		case 'l':
			if err := os.Symlink(c.target, p); err != nil {
				return err
			}
		default:
			if err := unix.Mkfifo(p, 0o644); err != nil {
				return err
			}
		}
	}
	return nil
}

// readBack reads a real build directory into a tree, through the same
// interface the uploader uses, plus a scratch CAS to identify file contents.
func readBack(d builder.BuildDirectory, ids map[string]int) (*node, error) {
	out := newDir()
	infos, err := d.ReadDir()
	if err != nil {
		return nil, err
	}
	for _, info := range infos {
		name := info.Name()
		switch info.Type() {
		case filesystem.FileTypeDirectory:
			cd, err := d.EnterBuildDirectory(name)
			if err != nil {
				return nil, err
			}
			c, err := readBack(cd, ids)
			cd.Close()
			if err != nil {
				return nil, err
			}
			out.entries[name.String()] = c
		case filesystem.FileTypeRegularFile:
			dg, err := d.UploadFile(context.Background(), name, digestFunction, nil)
			if err != nil {
				return nil, err
			}
			id, ok := ids[protoKey(dg.GetProto())]
			if !ok {
				id = -1
			}
			out.entries[name.String()] = &node{kind: 'f', exec: info.IsExecutable(), content: id}
		case filesystem.FileTypeSymlink:
			parser, err := d.Readlink(name)
			if err != nil {
				return nil, err
			}
			b, sw := path.EmptyBuilder.Join(path.VoidScopeWalker)
			if err := path.Resolve(parser, sw); err != nil {
				return nil, err
			}
			out.entries[name.String()] = &node{kind: 'l', target: b.GetUNIXString()}
		default:
			out.entries[name.String()] = &node{kind: 's'}
		}
	}
	return out, nil
}

// faultyDir injects file-system faults below the root of the upload: directories
// the tree marks unreadable fail on ReadDir - or, in enterFaults mode and when no
// declared output lies strictly below them (then both have the same observable
// effect: error saved, directory left out), already when they are entered - and
// Readlink fails for symlinks whose target is readlinkFailTarget.
type faultyDir struct {
	builder.UploadableDirectory
	n    *node
	at   string // location, "/"-joined
	conf *faultConfig
}

type faultConfig struct {
	enterFaults bool
	parents     map[string]bool // proper prefixes of declared locations
}

func (d faultyDir) EnterUploadableDirectory(name path.Component) (builder.UploadableDirectory, error) {
	child, err := d.UploadableDirectory.EnterUploadableDirectory(name)
	if err != nil {
		return nil, err
	}
	var cn *node
	if d.n != nil && d.n.kind == 'd' {
		cn = d.n.entries[name.String()]
	}
	at := name.String()
	if d.at != "" {
		at = d.at + "/" + at
	}
	if cn != nil && cn.kind == 'd' && !cn.readable && d.conf.enterFaults && !d.conf.parents[at] {
		child.Close()
		return nil, syscall.EIO
	}
	return faultyDir{UploadableDirectory: child, n: cn, at: at, conf: d.conf}, nil
}

func (d faultyDir) Readlink(name path.Component) (path.Parser, error) {
	if d.n != nil && d.n.kind == 'd' {
		if cn := d.n.entries[name.String()]; cn != nil && cn.kind == 'l' && cn.target == readlinkFailTarget {
			return nil, syscall.EIO
		}
	}
	return d.UploadableDirectory.Readlink(name)
}

func (d faultyDir) ReadDir() ([]filesystem.FileInfo, error) {
	if d.n != nil && d.n.kind == 'd' && !d.n.readable && !(d.conf.enterFaults && d.at != "" && !d.conf.parents[d.at]) {
		return nil, syscall.EIO
	}
	return d.UploadableDirectory.ReadDir()
}

var _ util.ErrorLogger = (*quietLogger)(nil)
