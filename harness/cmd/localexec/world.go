package localexec

import (
	"context"
	"fmt"
	"net/url"
	"sort"
	"strings"
	"sync"
	"sync/atomic"
	"time"

	remoteexecution "github.com/bazelbuild/remote-apis/build/bazel/remote/execution/v2"
	re_blobstore "github.com/buildbarn/bb-remote-execution/pkg/blobstore"
	"github.com/buildbarn/bb-remote-execution/pkg/builder"
	"github.com/buildbarn/bb-remote-execution/pkg/cas"
	"github.com/buildbarn/bb-remote-execution/pkg/cleaner"
	re_clock "github.com/buildbarn/bb-remote-execution/pkg/clock"
	"github.com/buildbarn/bb-remote-execution/pkg/filesystem/pool"
	"github.com/buildbarn/bb-remote-execution/pkg/filesystem/virtual"
	"github.com/buildbarn/bb-remote-execution/pkg/proto/remoteworker"
	runner_pb "github.com/buildbarn/bb-remote-execution/pkg/proto/runner"
	"github.com/buildbarn/bb-storage/pkg/clock"
	"github.com/buildbarn/bb-storage/pkg/digest"
	"github.com/buildbarn/bb-storage/pkg/filesystem"
	"github.com/buildbarn/bb-storage/pkg/filesystem/path"
	"github.com/buildbarn/bb-storage/pkg/random"

	"golang.org/x/sync/semaphore"
	"google.golang.org/grpc"
	"google.golang.org/grpc/codes"
	"google.golang.org/grpc/status"
	"google.golang.org/protobuf/proto"
	"google.golang.org/protobuf/types/known/durationpb"
	"google.golang.org/protobuf/types/known/emptypb"
)

const (
	ms               = time.Millisecond
	timeoutThreshold = 1 * ms
)

// step is one thing the scripted runner does.
type step struct {
	kind string        // run | read | rm | put | wput
	dur  time.Duration // run: how long; wput: how long the writing descriptor outlives the command
	path []string      // relative to the input root
	n    *node         // put: what to create at path
}

func (s step) String(thread int) string {
	switch s.kind {
	case "run":
		return fmt.Sprintf("step %d run %d", thread, s.dur/ms)
	case "read":
		return fmt.Sprintf("step %d read %s", thread, hexs(strings.Join(s.path, "/")))
	case "rm":
		return fmt.Sprintf("step %d rm %s", thread, hexs(strings.Join(s.path, "/")))
	case "wput":
		return fmt.Sprintf("step %d wput %s %d %s", thread, hexs(strings.Join(s.path, "/")), s.dur/ms, s.n.String())
	}
	return fmt.Sprintf("step %d put %s %s", thread, hexs(strings.Join(s.path, "/")), s.n.String())
}

// action is one Execute request together with the script of its runner.
type action struct {
	thread     int
	tag        int // what distinguishes the commands of otherwise equal actions (default: the thread)
	timeout    time.Duration
	doNotCache bool
	upDirs     bool
	wd         string
	paths      []string
	input      *node // the input root (directories, CAS-backed files, symlinks)
	steps      []step
	exit       int32
	failCode   codes.Code // the runner itself fails with this gRPC code (0: it does not)
	stdoutID   int        // content ids (fileContent); 0 = empty
	stderrID   int
	noCommand  bool // the Command blob is missing from the CAS
}

type scenario struct {
	threads       int
	maxSuspension time.Duration
	batchSize     int
	force         bool
	faults        bool          // the CAS rejects blobs containing PUTFAIL
	uploadDelay   time.Duration // maximumWritableFileUploadDelay of the executors
	consumerDelay time.Duration // how long the receiver of execution state updates is busy with each update
	barrier       bool          // the threads start their n-th action together
	actions       []*action
}

const defaultUploadDelay = 10 * time.Second

// inputLatency: how long the CAS takes to deliver the content of an input file.
func inputLatency(id int) time.Duration { return time.Duration(id%4) * 10 * ms }

// ---- observations ------------------------------------------------------------------

type runObs struct {
	invoked        bool
	buildDir       string   // name of the per-action build directory
	buildDirNames  []string // what the build directory contained when the runner started
	tmpEmpty       bool
	logsEmpty      bool
	rootSnapshot   *node // input root as the runner found it
	overlapSameDir bool
	start, end     time.Duration // since scenario start
	unsuspended    time.Duration // measured by the runner itself
	completed      int           // steps completed
	killed         bool
	env            map[string]string
	args           []string
	wdSeen         string
	lingering      int    // writing descriptors that outlived the command
	lingerErr      string // a lingering writer could not finish its file
	ctxErr         error  // why the runner's context was done
}

// updateObs: an execution state update, at the instant the receiver accepted it.
type updateObs struct {
	kind string // fetching | running | uploading | other
	at   time.Duration
}

type actionObs struct {
	a          *action
	run        runObs
	response   *remoteexecution.ExecuteResponse
	digestKey  string
	goneAfter  bool   // the build directory no longer exists right after Execute returned
	acAtReturn bool   // the AC had an entry for the action when Execute returned
	panic      string // non-empty: Execute panicked
	updates    []updateObs
	begin, end time.Duration // of the Execute call
	getFailed  bool          // GetBuildDirectory returned an error
	getCode    codes.Code
}

type event struct {
	what string // get-start get-done get-failed close-start close-done clean
	held int    // fully acquired and not yet closing build directories at that instant
	// get-done, get-failed, close-start: the directory and the action it is for
	name       string
	doNotCache bool
	digest16   string
}

// ---- the world: one worker, as cmd/bb_worker wires it --------------------------------

type world struct {
	sc      *scenario
	cas     *fakeCAS
	ac      *fakeAC
	root    virtual.PrepopulatedDirectory
	lock    sync.Mutex
	events  []event
	held    int
	running map[string]int // build directory name -> runners currently inside
	t0      time.Time
	acViol  string
	ids     map[string]int
	bg      sync.WaitGroup // lingering writers still at work
}

type countingCreator struct {
	base builder.BuildDirectoryCreator
	w    *world
	cur  *actionObs // the action the thread of this creator is executing
}

type countedDirectory struct {
	builder.BuildDirectory
	w    *world
	name string
}

func (w *world) log(what string) {
	w.events = append(w.events, event{what: what, held: w.held})
}

func (c *countingCreator) GetBuildDirectory(ctx context.Context, d *digest.Digest) (builder.BuildDirectory, *path.Trace, error) {
	c.w.lock.Lock()
	c.w.log("get-start")
	c.w.lock.Unlock()
	bd, p, err := c.base.GetBuildDirectory(ctx, d)
	c.w.lock.Lock()
	defer c.w.lock.Unlock()
	var dnc bool
	var d16 string
	if c.cur != nil {
		dnc = c.cur.a.doNotCache
		if len(c.cur.digestKey) >= 16 {
			d16 = c.cur.digestKey[:16]
		}
	}
	if err != nil {
		c.w.log("get-failed")
		c.w.events[len(c.w.events)-1].doNotCache, c.w.events[len(c.w.events)-1].digest16 = dnc, d16
		if c.cur != nil {
			c.cur.getFailed, c.cur.getCode = true, status.Code(err)
		}
		return nil, nil, err
	}
	c.w.held++
	c.w.log("get-done")
	e := &c.w.events[len(c.w.events)-1]
	e.name, e.doNotCache, e.digest16 = p.GetUNIXString(), dnc, d16
	return &countedDirectory{BuildDirectory: bd, w: c.w, name: e.name}, p, nil
}

func (d *countedDirectory) Close() error {
	d.w.lock.Lock()
	d.w.held--
	d.w.log("close-start")
	d.w.events[len(d.w.events)-1].name = d.name
	d.w.lock.Unlock()
	err := d.BuildDirectory.Close()
	d.w.lock.Lock()
	d.w.log("close-done")
	d.w.lock.Unlock()
	return err
}

type thread struct {
	executor builder.BuildExecutor
	creator  *countingCreator
	sclock   *re_clock.SuspendableClock
	runner   *fakeRunner
}

func newWorld(sc *scenario) (*world, []*thread) {
	w := &world{sc: sc, cas: newFakeCAS(sc.faults), ac: newFakeAC(), running: map[string]int{}, t0: time.Now(), ids: map[string]int{}}
	handleAllocator := virtual.NewNFSHandleAllocator(random.NewFastSingleThreadedGenerator())
	rootAttributesSetter := func(requested virtual.AttributesMask, attributes *virtual.Attributes) {}
	logger := &quietLogger{}
	w.root = virtual.NewInMemoryPrepopulatedDirectory(
		virtual.NewHandleAllocatingFileAllocator(
			virtual.NewPoolBackedFileAllocator(pool.EmptyFilePool, logger, rootAttributesSetter, virtual.NoNamedAttributesFactory),
			handleAllocator),
		virtual.NewErrorSymlinkFactory(status.Error(codes.PermissionDenied, "Symlink outside build directory")),
		logger, handleAllocator, sort.Sort, func(string) bool { return false }, clock.SystemClock,
		virtual.CaseSensitiveComponentNormalizer, rootAttributesSetter, virtual.NoNamedAttributesFactory)
	idle := cleaner.NewIdleInvoker(func(ctx context.Context) error {
		w.lock.Lock()
		w.log("clean")
		w.lock.Unlock()
		if err := w.root.RemoveAllChildren(false); err != nil {
			return status.Error(codes.Internal, "Failed to clean virtual build directory")
		}
		return nil
	})
	var nextParallelActionID atomic.Uint64
	defaultAttributesSetter := func(requested virtual.AttributesMask, attributes *virtual.Attributes) {
		attributes.SetOwnerUserID(1000)
		attributes.SetOwnerGroupID(1000)
	}
	symlinkFactory := virtual.NewHandleAllocatingSymlinkFactory(
		virtual.NewBaseSymlinkFactory(defaultAttributesSetter), handleAllocator.New(), path.LocalFormat)
	characterDeviceFactory := virtual.NewHandleAllocatingCharacterDeviceFactory(
		virtual.BaseCharacterDeviceFactory, handleAllocator.New())
	directoryFetcher := cas.NewBlobAccessDirectoryFetcher(w.cas, 1<<20, 1<<20)
	browserURL, _ := url.Parse("http://browser/")
	putSemaphore := semaphore.NewWeighted(2)
	w.ac.onPut = w.judgeCachedResult

	var threads []*thread
	for i := 0; i < sc.threads; i++ {
		writer, flusher := re_blobstore.NewBatchedStoreBlobAccess(w.cas, digest.KeyWithoutInstance, sc.batchSize, putSemaphore)
		sclock := re_clock.NewSuspendableClock(clock.SystemClock, sc.maxSuspension, timeoutThreshold)
		bd := builder.NewVirtualBuildDirectory(
			w.root,
			cas.NewSuspendingDirectoryFetcher(directoryFetcher, sclock),
			re_blobstore.NewSuspendingBlobAccess(writer, sclock),
			symlinkFactory, characterDeviceFactory, handleAllocator, defaultAttributesSetter, clock.SystemClock)
		creator := &countingCreator{w: w, base: builder.NewSharedBuildDirectoryCreator(
			builder.NewCleanBuildDirectoryCreator(builder.NewRootBuildDirectoryCreator(bd), idle),
			&nextParallelActionID)}
		r := &fakeRunner{w: w, sclock: sclock}
		uploadDelay := sc.uploadDelay
		if uploadDelay == 0 {
			uploadDelay = defaultUploadDelay
		}
		local := builder.NewLocalBuildExecutor(writer, creator, r, sclock, uploadDelay, nil, 1<<20,
			map[string]string{"PATH": "/bin", "WORKER": "1"}, sc.force)
		executor := builder.NewCachingBuildExecutor(
			builder.NewStorageFlushingBuildExecutor(local, flusher),
			w.cas, w.ac, browserURL)
		threads = append(threads, &thread{executor: executor, creator: creator, sclock: sclock, runner: r})
	}
	return w, threads
}

// ---- preparing an action ---------------------------------------------------------------

// putInput stores the Directory messages and file contents of an input root.
func (w *world) putInput(n *node) *remoteexecution.Digest {
	var d remoteexecution.Directory
	for _, k := range n.names() {
		c := n.entries[k]
		switch c.kind {
		case 'd':
			d.Directories = append(d.Directories, &remoteexecution.DirectoryNode{Name: k, Digest: w.putInput(c)})
		case 'f':
			dg := w.cas.put(fileContent(c.content))
			w.cas.lock.Lock()
			w.cas.latency[protoKey(dg)] = inputLatency(c.content)
			w.cas.lock.Unlock()
			d.Files = append(d.Files, &remoteexecution.FileNode{Name: k, Digest: dg, IsExecutable: c.exec})
		case 'l':
			d.Symlinks = append(d.Symlinks, &remoteexecution.SymlinkNode{Name: k, Target: c.target})
		}
	}
	b, _ := proto.Marshal(&d)
	return w.cas.put(b)
}

func (w *world) request(a *action) (*remoteworker.DesiredState_Executing, *remoteexecution.Digest) {
	format := remoteexecution.Command_TREE_ONLY
	if a.upDirs {
		format = remoteexecution.Command_TREE_AND_DIRECTORY
	}
	cmd := &remoteexecution.Command{
		Arguments:             []string{"scripted", fmt.Sprint(a.tag)},
		EnvironmentVariables:  []*remoteexecution.Command_EnvironmentVariable{{Name: "ACTION", Value: fmt.Sprint(a.tag)}},
		WorkingDirectory:      a.wd,
		OutputPaths:           a.paths,
		OutputDirectoryFormat: format,
	}
	cb, _ := proto.Marshal(cmd)
	var cmdDigest *remoteexecution.Digest
	if a.noCommand {
		cmdDigest = &remoteexecution.Digest{Hash: blobKey(cb)[:64], SizeBytes: int64(len(cb))}
	} else {
		cmdDigest = w.cas.put(cb)
	}
	act := &remoteexecution.Action{
		CommandDigest:   cmdDigest,
		InputRootDigest: w.putInput(a.input),
		Timeout:         durationpb.New(a.timeout),
		DoNotCache:      a.doNotCache,
	}
	ab, _ := proto.Marshal(act)
	actionDigest := w.cas.put(ab)
	return &remoteworker.DesiredState_Executing{ActionDigest: actionDigest, Action: act}, actionDigest
}

// ---- the scripted runner ------------------------------------------------------------------

type fakeRunner struct {
	w      *world
	sclock *re_clock.SuspendableClock
	a      *action
	obs    *runObs
}

var _ runner_pb.RunnerClient = (*fakeRunner)(nil)

func (r *fakeRunner) CheckReadiness(ctx context.Context, in *runner_pb.CheckReadinessRequest, opts ...grpc.CallOption) (*emptypb.Empty, error) {
	return &emptypb.Empty{}, nil
}

func (w *world) lookupDir(p string) (virtual.PrepopulatedDirectory, error) {
	d := w.root
	if p == "" || p == "." {
		return d, nil
	}
	for _, c := range strings.Split(p, "/") {
		comp, ok := path.NewComponent(c)
		if !ok {
			return nil, fmt.Errorf("bad component %q", c)
		}
		child, err := d.LookupChild(comp)
		if err != nil {
			return nil, err
		}
		nd, _ := child.GetPair()
		if nd == nil {
			return nil, fmt.Errorf("%q is not a directory", c)
		}
		d = nd
	}
	return d, nil
}

// snapshot reads the structure of a directory: kinds, executable bits, symlink
// targets (file contents are not read: content -1).
func snapshot(d virtual.PrepopulatedDirectory) *node {
	out := newDir()
	dirs, leaves, err := d.LookupAllChildren()
	if err != nil {
		return out
	}
	for _, e := range dirs {
		out.entries[e.Name.String()] = snapshot(e.Child)
	}
	for _, e := range leaves {
		info := virtual.GetFileInfo(e.Name, e.Child)
		switch info.Type() {
		case filesystem.FileTypeRegularFile:
			out.entries[e.Name.String()] = &node{kind: 'f', exec: info.IsExecutable(), content: -1}
		case filesystem.FileTypeSymlink:
			var attrs virtual.Attributes
			e.Child.VirtualGetAttributes(context.Background(), virtual.AttributesMaskSymlinkTarget, &attrs)
			target := "?"
			if p, ok := attrs.GetSymlinkTarget(); ok {
				b, sw := path.EmptyBuilder.Join(path.VoidScopeWalker)
				if path.Resolve(p, sw) == nil {
					target = b.GetUNIXString()
				}
			}
			out.entries[e.Name.String()] = &node{kind: 'l', target: target}
		default:
			out.entries[e.Name.String()] = &node{kind: 's'}
		}
	}
	return out
}

func writeFile(d virtual.PrepopulatedDirectory, name string, data []byte) error {
	ctx := context.Background()
	comp, ok := path.NewComponent(name)
	if !ok {
		return fmt.Errorf("bad name")
	}
	var attrs virtual.Attributes
	leaf, _, _, s := d.VirtualOpenChild(ctx, comp, virtual.ShareMaskWrite,
		(&virtual.Attributes{}).SetPermissions(virtual.PermissionsRead|virtual.PermissionsWrite), nil, 0, &attrs)
	if s != virtual.StatusOK {
		return fmt.Errorf("VirtualOpenChild %q: %v", name, s)
	}
	for off := 0; off < len(data); {
		n, s := leaf.VirtualWrite(ctx, data[off:], uint64(off))
		if s != virtual.StatusOK || n == 0 {
			return fmt.Errorf("VirtualWrite %q: %v", name, s)
		}
		off += n
	}
	leaf.VirtualClose(virtual.ShareMaskWrite)
	return nil
}

// applyStep performs an rm/put step on a tree (the runner's shadow of what it did,
// and the monitor's reference): rm of something absent and put where the parent is
// missing or the name is taken do nothing.
func applyStep(root *node, s step) bool {
	if len(s.path) == 0 {
		return false
	}
	parent := root.walk(s.path[:len(s.path)-1])
	if parent == nil || parent.kind != 'd' {
		return false
	}
	name := s.path[len(s.path)-1]
	switch s.kind {
	case "rm":
		if parent.entries[name] == nil {
			return false
		}
		delete(parent.entries, name)
		return true
	case "put", "wput":
		if parent.entries[name] != nil {
			return false
		}
		parent.entries[name] = s.n.clone()
		if s.kind == "wput" {
			parent.entries[name].lingerMs = int(s.dur / ms)
		}
		return true
	}
	return false
}

// lingeringWriter is a descriptor opened for writing on a file the command
// created, through which only the first half of the contents was written so
// far.  The rest is written and the descriptor closed `after` the command has
// exited (page cache writeback, a child that was not reaped yet).
type lingeringWriter struct {
	leaf  virtual.Leaf
	tail  []byte
	off   uint64
	after time.Duration
}

func (lw *lingeringWriter) finish() (problem string) {
	defer func() {
		if r := recover(); r != nil {
			problem = fmt.Sprintf("lingering writer panicked: %v", r)
		}
	}()
	defer lw.leaf.VirtualClose(virtual.ShareMaskWrite)
	for off := 0; off < len(lw.tail); {
		n, s := lw.leaf.VirtualWrite(context.Background(), lw.tail[off:], lw.off+uint64(off))
		if s != virtual.StatusOK || n == 0 {
			return fmt.Sprintf("lingering writer: VirtualWrite failed with status %v", s)
		}
		off += n
	}
	return ""
}

func (r *fakeRunner) Run(ctx context.Context, in *runner_pb.RunRequest, opts ...grpc.CallOption) (*runner_pb.RunResponse, error) {
	w, a, o := r.w, r.a, r.obs
	o.invoked = true
	o.start = time.Since(w.t0)
	o.env = in.EnvironmentVariables
	o.args = in.Arguments
	o.wdSeen = in.WorkingDirectory
	var writers []*lingeringWriter
	defer func() {
		o.end = time.Since(w.t0)
		// descriptors the command left open: a killed command loses them at once,
		// otherwise each is closed `after` the exit, having written the rest
		for _, lw := range writers {
			if o.killed || lw.after <= 0 {
				if p := lw.finish(); p != "" && o.lingerErr == "" {
					o.lingerErr = p
				}
				continue
			}
			o.lingering++
			w.bg.Add(1)
			go func(lw *lingeringWriter) {
				defer w.bg.Done()
				time.Sleep(lw.after)
				p := lw.finish()
				w.lock.Lock()
				if p != "" && o.lingerErr == "" {
					o.lingerErr = p
				}
				w.lock.Unlock()
			}(lw)
		}
	}()

	// what the build directory looks like on entry
	parts := strings.Split(in.InputRootDirectory, "/")
	o.buildDir = strings.Join(parts[:len(parts)-1], "/")
	w.lock.Lock()
	w.running[o.buildDir]++
	if w.running[o.buildDir] > 1 {
		o.overlapSameDir = true
	}
	w.lock.Unlock()
	defer func() {
		w.lock.Lock()
		w.running[o.buildDir]--
		w.lock.Unlock()
	}()
	bd, err := w.lookupDir(o.buildDir)
	if err != nil {
		return nil, status.Errorf(codes.Internal, "runner cannot find the build directory: %v", err)
	}
	top := snapshot(bd)
	o.buildDirNames = top.names()
	if t := top.entries["tmp"]; t != nil {
		o.tmpEmpty = t.kind == 'd' && len(t.entries) == 0
	}
	if t := top.entries["server_logs"]; t != nil {
		o.logsEmpty = t.kind == 'd' && len(t.entries) == 0
	}
	rootDir, err := w.lookupDir(in.InputRootDirectory)
	if err != nil {
		return nil, status.Errorf(codes.Internal, "runner cannot find the input root: %v", err)
	}
	o.rootSnapshot = snapshot(rootDir)

	done := func() bool {
		select {
		case <-ctx.Done():
			return true
		default:
			return false
		}
	}
	killed := func() (*runner_pb.RunResponse, error) {
		o.killed = true
		o.ctxErr = ctx.Err()
		return nil, status.FromContextError(ctx.Err()).Err()
	}
	for _, s := range a.steps {
		if done() {
			return killed()
		}
		switch s.kind {
		case "run":
			begin := time.Now()
			select {
			case <-time.After(s.dur):
				o.unsuspended += time.Since(begin)
			case <-ctx.Done():
				o.unsuspended += time.Since(begin)
				return killed()
			}
		case "read":
			// read an input file through the file system: the content comes from
			// the CAS, which takes inputLatency; the worker suspends its clock meanwhile
			if d, err := w.lookupDir(strings.Join(append(strings.Split(in.InputRootDirectory, "/"), s.path[:len(s.path)-1]...), "/")); err == nil {
				if comp, ok := path.NewComponent(s.path[len(s.path)-1]); ok {
					if child, err := d.LookupChild(comp); err == nil {
						if _, leaf := child.GetPair(); leaf != nil {
							var attrs virtual.Attributes
							if leaf.VirtualOpenSelf(context.Background(), virtual.ShareMaskRead, &virtual.OpenExistingOptions{}, 0, &attrs) == virtual.StatusOK {
								buf := make([]byte, 4096)
								leaf.VirtualRead(context.Background(), buf, 0)
								leaf.VirtualClose(virtual.ShareMaskRead)
							}
						}
					}
				}
			}
		case "rm":
			if d, err := w.lookupDir(strings.Join(append(strings.Split(in.InputRootDirectory, "/"), s.path[:len(s.path)-1]...), "/")); err == nil {
				if comp, ok := path.NewComponent(s.path[len(s.path)-1]); ok {
					d.RemoveAll(comp)
				}
			}
		case "put":
			if d, err := w.lookupDir(strings.Join(append(strings.Split(in.InputRootDirectory, "/"), s.path[:len(s.path)-1]...), "/")); err == nil {
				if comp, ok := path.NewComponent(s.path[len(s.path)-1]); ok {
					if _, err := d.LookupChild(comp); err != nil {
						wrapper := newDir()
						wrapper.entries[s.path[len(s.path)-1]] = s.n
						if err := populateVirtual(d, wrapper); err != nil {
							return nil, status.Errorf(codes.Internal, "runner cannot create %v: %v", s.path, err)
						}
					}
				}
			}
		case "wput":
			if d, err := w.lookupDir(strings.Join(append(strings.Split(in.InputRootDirectory, "/"), s.path[:len(s.path)-1]...), "/")); err == nil {
				if comp, ok := path.NewComponent(s.path[len(s.path)-1]); ok {
					if _, err := d.LookupChild(comp); err != nil {
						perm := virtual.PermissionsRead | virtual.PermissionsWrite
						if s.n.exec {
							perm |= virtual.PermissionsExecute
						}
						var attrs virtual.Attributes
						leaf, _, _, st := d.VirtualOpenChild(context.Background(), comp, virtual.ShareMaskWrite, (&virtual.Attributes{}).SetPermissions(perm), nil, 0, &attrs)
						if st != virtual.StatusOK {
							return nil, status.Errorf(codes.Internal, "runner cannot create %v: status %v", s.path, st)
						}
						data := fileContent(s.n.content)
						half := len(data) / 2
						lw := &lingeringWriter{leaf: leaf, tail: data[half:], off: uint64(half), after: s.dur}
						writers = append(writers, lw)
						for off := 0; off < half; {
							n, st := leaf.VirtualWrite(context.Background(), data[off:half], uint64(off))
							if st != virtual.StatusOK || n == 0 {
								return nil, status.Errorf(codes.Internal, "runner cannot write %v: status %v", s.path, st)
							}
							off += n
						}
					}
				}
			}
		}
		o.completed++
	}
	if done() {
		return killed()
	}
	// a real runner always creates stdout and stderr
	if err := writeFile(bd, "stdout", fileContent(a.stdoutID)); err != nil {
		return nil, status.Errorf(codes.Internal, "runner cannot write stdout: %v", err)
	}
	if err := writeFile(bd, "stderr", fileContent(a.stderrID)); err != nil {
		return nil, status.Errorf(codes.Internal, "runner cannot write stderr: %v", err)
	}
	if a.failCode != codes.OK {
		return nil, status.Error(a.failCode, "scripted runner failure")
	}
	return &runner_pb.RunResponse{ExitCode: int64(a.exit)}, nil
}

// judgeCachedResult runs at the instant an ActionResult is written into the
// Action Cache: everything it references must be in the CAS already.
func (w *world) judgeCachedResult(actionKey string, ar *remoteexecution.ActionResult) {
	if v := w.referencesPresent(ar); v != "" && w.acViol == "" {
		w.acViol = "ActionResult written to the Action Cache while " + v
	}
}

func (w *world) referencesPresent(ar *remoteexecution.ActionResult) string {
	for _, f := range ar.OutputFiles {
		if !w.cas.has(f.Digest) {
			return fmt.Sprintf("the contents of output file %q are not in the CAS", f.Path)
		}
	}
	for _, d := range ar.OutputDirectories {
		blob, ok := w.cas.get(d.TreeDigest)
		if !ok {
			return fmt.Sprintf("the Tree of output directory %q is not in the CAS", d.Path)
		}
		var tree remoteexecution.Tree
		if proto.Unmarshal(blob, &tree) == nil {
			for _, dir := range append([]*remoteexecution.Directory{tree.Root}, tree.Children...) {
				if dir == nil {
					continue
				}
				for _, f := range dir.Files {
					if !w.cas.has(f.Digest) {
						return fmt.Sprintf("file %q inside output directory %q is not in the CAS", f.Name, d.Path)
					}
				}
			}
		}
	}
	if ar.StdoutDigest != nil && !w.cas.has(ar.StdoutDigest) {
		return "stdout is not in the CAS"
	}
	if ar.StderrDigest != nil && !w.cas.has(ar.StderrDigest) {
		return "stderr is not in the CAS"
	}
	return ""
}
