package localexec

import (
	"encoding/hex"
	"fmt"
	"sort"
	"strconv"
	"strings"
)

// node is the harness's own picture of a file-system tree (what the "action"
// left behind).  It is the input of both the real code (materialised in a
// build directory) and the Lean model (serialised on the op line).
type node struct {
	kind     byte // 'd' directory, 'f' regular file, 'l' symlink, 's' special (FIFO)
	readable bool // directories: false = ReadDir is made to fail (fault injection)
	exec     bool
	content  int // files: content id (see fileContent)
	target   string
	entries  map[string]*node
	// shadow trees only: how long after the command's exit the descriptor this file was
	// written through is closed, in ms (0: the file was closed when it was created)
	lingerMs int
}

func newDir() *node { return &node{kind: 'd', readable: true, entries: map[string]*node{}} }

func (n *node) clone() *node {
	c := *n
	if n.entries != nil {
		c.entries = map[string]*node{}
		for k, v := range n.entries {
			c.entries[k] = v.clone()
		}
	}
	return &c
}

func (n *node) names() []string {
	ks := make([]string, 0, len(n.entries))
	for k := range n.entries {
		ks = append(ks, k)
	}
	sort.Strings(ks)
	return ks
}

func (n *node) count() int {
	c := 1
	for _, e := range n.entries {
		c += e.count()
	}
	return c
}

func hexs(s string) string {
	if s == "" {
		return "-"
	}
	return hex.EncodeToString([]byte(s))
}

func unhx(s string) (string, error) {
	if s == "-" {
		return "", nil
	}
	b, err := hex.DecodeString(s)
	return string(b), err
}

func b01(b bool) string {
	if b {
		return "1"
	}
	return "0"
}

// tokens serialises a tree in the prefix format understood by drv_outputs
// (entries sorted by name, which is also the canonical form printed by the model).
func (n *node) tokens(out *[]string) {
	switch n.kind {
	case 'd':
		*out = append(*out, "d", b01(n.readable), strconv.Itoa(len(n.entries)))
		for _, k := range n.names() {
			*out = append(*out, hexs(k))
			n.entries[k].tokens(out)
		}
	case 'f':
		*out = append(*out, "f", b01(n.exec), strconv.Itoa(n.content))
	case 'l':
		*out = append(*out, "l", hexs(n.target))
	default:
		*out = append(*out, "s")
	}
}

func (n *node) String() string {
	var t []string
	n.tokens(&t)
	return strings.Join(t, " ")
}

func parseTree(ws []string) (*node, []string, error) {
	if len(ws) == 0 {
		return nil, nil, fmt.Errorf("truncated tree")
	}
	switch ws[0] {
	case "d":
		if len(ws) < 3 {
			return nil, nil, fmt.Errorf("truncated dir")
		}
		cnt, err := strconv.Atoi(ws[2])
		if err != nil {
			return nil, nil, err
		}
		n := newDir()
		n.readable = ws[1] == "1"
		rest := ws[3:]
		for i := 0; i < cnt; i++ {
			if len(rest) == 0 {
				return nil, nil, fmt.Errorf("truncated entries")
			}
			name, err := unhx(rest[0])
			if err != nil {
				return nil, nil, err
			}
			var c *node
			c, rest, err = parseTree(rest[1:])
			if err != nil {
				return nil, nil, err
			}
			n.entries[name] = c
		}
		return n, rest, nil
	case "f":
		if len(ws) < 3 {
			return nil, nil, fmt.Errorf("truncated file")
		}
		c, err := strconv.Atoi(ws[2])
		if err != nil {
			return nil, nil, err
		}
		return &node{kind: 'f', exec: ws[1] == "1", content: c}, ws[3:], nil
	case "l":
		if len(ws) < 2 {
			return nil, nil, fmt.Errorf("truncated symlink")
		}
		t, err := unhx(ws[1])
		if err != nil {
			return nil, nil, err
		}
		return &node{kind: 'l', target: t}, ws[2:], nil
	case "s":
		return &node{kind: 's'}, ws[1:], nil
	}
	return nil, nil, fmt.Errorf("bad tree token %q", ws[0])
}

// walk follows loc from the directory n without following symlinks (lstat
// semantics).  nil = does not exist (or a parent is not a directory).
func (n *node) walk(loc []string) *node {
	cur := n
	for _, c := range loc {
		if cur == nil || cur.kind != 'd' {
			return nil
		}
		cur = cur.entries[c]
	}
	return cur
}

// fileContent is the byte content behind a content id.  Id 0 is the empty file;
// ids that are 9 mod 10 carry the marker the fake CAS rejects in failing mode.
func fileContent(id int) []byte {
	if id == 0 {
		return nil
	}
	if id%10 == 9 {
		return []byte(fmt.Sprintf("PUTFAIL-content-%d", id))
	}
	return []byte(strings.Repeat(fmt.Sprintf("data-%d;", id), 1+id%37))
}

const putFailMarker = "PUTFAIL"

// readlinkFailTarget: with fault injection on, Readlink fails for symlinks with this target.
const readlinkFailTarget = "RLFAIL"
