package localexec

// End-to-end worker tie.  One scenario = one worker (1-3 threads wired like
// cmd/bb_worker: shared virtual build directory with IdleInvoker-driven cleaning,
// Shared(Clean(Root)) directory creators, per thread a SuspendableClock, a
// BatchedStoreBlobAccess, LocalBuildExecutor wrapped in StorageFlushing and
// Caching executors) executing scripted actions concurrently inside a synctest
// bubble (the base clock is the bubble's virtual time).  All judgements are
// monitors on the implementation alone; in addition the ActionResult of every
// action whose runner ran is compared with the Lean Outputs model, and every
// instant observed of the call (state updates accepted by a receiver that may be
// slow, runner started/returned, Execute returned; build directories handed out
// and closed) with the Lean model of Execute's control flow (Model/ExecFlow.lean).
//
// Scenario parameters beyond the actions: maximumWritableFileUploadDelay (20 ms so
// that commands outlast it, or 10 s), the time the receiver of execution state
// updates is busy per update (the channel is unbuffered), whether the threads
// start their n-th actions together.  Scripts can write an output through a
// descriptor that is closed a few ms after the command's exit (step wput), and
// the threads can be given identical do_not_cache actions at the same time
// ("thread:tag" on the action line: the tag is what makes commands differ).

import (
	"context"
	"fmt"
	"os"
	"sort"
	"strconv"
	"strings"
	"sync"
	"testing"
	"testing/synctest"
	"time"

	remoteexecution "github.com/bazelbuild/remote-apis/build/bazel/remote/execution/v2"
	"github.com/buildbarn/bb-remote-execution/pkg/filesystem/pool"
	"github.com/buildbarn/bb-remote-execution/pkg/proto/remoteworker"
	"github.com/buildbarn/bb-storage/pkg/filesystem/path"

	"google.golang.org/grpc/codes"
	"google.golang.org/grpc/status"

	"verifharness/internal/hx"
)

// ---- serialisation ---------------------------------------------------------------------------

func (sc *scenario) lines() []string {
	world := fmt.Sprintf("world %d %d %d %s %s", sc.threads, sc.maxSuspension/ms, sc.batchSize, b01(sc.force), b01(sc.faults))
	if sc.uploadDelay != 0 || sc.consumerDelay != 0 || sc.barrier {
		world += fmt.Sprintf(" %d %d %s", sc.uploadDelay/ms, sc.consumerDelay/ms, b01(sc.barrier))
	}
	out := []string{world}
	for _, a := range sc.actions {
		who := fmt.Sprint(a.thread)
		if a.tag != a.thread {
			who = fmt.Sprintf("%d:%d", a.thread, a.tag)
		}
		l := []string{"action", who, fmt.Sprint(int64(a.timeout / ms)), b01(a.doNotCache), b01(a.upDirs), b01(a.noCommand),
			fmt.Sprint(a.exit), fmt.Sprint(int(a.failCode)), fmt.Sprint(a.stdoutID), fmt.Sprint(a.stderrID), hexs(a.wd)}
		for _, p := range a.paths {
			l = append(l, hexs(p))
		}
		out = append(out, strings.Join(l, " "))
		out = append(out, fmt.Sprintf("input %d %s", a.thread, a.input.String()))
		for _, s := range a.steps {
			out = append(out, s.String(a.thread))
		}
	}
	return out
}

func parseScenario(lines []string) (*scenario, error) {
	sc := &scenario{threads: 1, batchSize: 3}
	last := map[int]*action{}
	atoi := func(s string) int { v, _ := strconv.Atoi(s); return v }
	for _, l := range lines {
		ws := strings.Fields(l)
		if len(ws) == 0 {
			continue
		}
		switch ws[0] {
		case "world":
			if len(ws) < 6 {
				return nil, fmt.Errorf("bad world line")
			}
			sc.threads, sc.maxSuspension, sc.batchSize = atoi(ws[1]), time.Duration(atoi(ws[2]))*ms, atoi(ws[3])
			sc.force, sc.faults = ws[4] == "1", ws[5] == "1"
			if len(ws) >= 9 {
				sc.uploadDelay, sc.consumerDelay, sc.barrier = time.Duration(atoi(ws[6]))*ms, time.Duration(atoi(ws[7]))*ms, ws[8] == "1"
			}
		case "action":
			if len(ws) < 11 {
				return nil, fmt.Errorf("bad action line")
			}
			who := strings.SplitN(ws[1], ":", 2)
			a := &action{thread: atoi(who[0]), tag: atoi(who[len(who)-1]), timeout: time.Duration(atoi(ws[2])) * ms, doNotCache: ws[3] == "1", upDirs: ws[4] == "1",
				noCommand: ws[5] == "1", exit: int32(atoi(ws[6])), failCode: codes.Code(atoi(ws[7])), stdoutID: atoi(ws[8]), stderrID: atoi(ws[9]), input: newDir()}
			var err error
			if a.wd, err = unhx(ws[10]); err != nil {
				return nil, err
			}
			for _, w := range ws[11:] {
				p, err := unhx(w)
				if err != nil {
					return nil, err
				}
				a.paths = append(a.paths, p)
			}
			sc.actions = append(sc.actions, a)
			last[a.thread] = a
		case "input", "step":
			if len(ws) < 3 || last[atoi(ws[1])] == nil {
				continue // its action was removed by the shrinker
			}
			a := last[atoi(ws[1])]
			if ws[0] == "input" {
				t, rest, err := parseTree(ws[2:])
				if err != nil || len(rest) != 0 || t.kind != 'd' {
					return nil, fmt.Errorf("bad input line")
				}
				a.input = t
				continue
			}
			if len(ws) < 4 {
				return nil, fmt.Errorf("bad step line")
			}
			s := step{kind: ws[2]}
			switch s.kind {
			case "run":
				s.dur = time.Duration(atoi(ws[3])) * ms
			case "wput":
				p, err := unhx(ws[3])
				if err != nil || p == "" || len(ws) < 6 {
					return nil, fmt.Errorf("bad wput step")
				}
				s.path = strings.Split(p, "/")
				s.dur = time.Duration(atoi(ws[4])) * ms
				t, rest, err := parseTree(ws[5:])
				if err != nil || len(rest) != 0 || t.kind != 'f' {
					return nil, fmt.Errorf("bad wput step")
				}
				s.n = t
			default:
				p, err := unhx(ws[3])
				if err != nil || p == "" {
					return nil, fmt.Errorf("bad step path")
				}
				s.path = strings.Split(p, "/")
				if s.kind == "put" {
					t, rest, err := parseTree(ws[4:])
					if err != nil || len(rest) != 0 {
						return nil, fmt.Errorf("bad put step")
					}
					s.n = t
				}
			}
			a.steps = append(a.steps, s)
		}
	}
	if sc.threads < 1 {
		sc.threads = 1
	}
	for _, a := range sc.actions {
		if a.thread >= sc.threads {
			sc.threads = a.thread + 1
		}
	}
	return sc, nil
}

// ---- generation ---------------------------------------------------------------------------

// sanitize makes a generated tree expressible as an REv2 input root / fault free.
func sanitize(n *node, input, keepFaults bool) *node {
	out := newDir()
	for k, e := range n.entries {
		name := k
		if !keepFaults && name == putFailMarker {
			name = "pf"
		}
		switch e.kind {
		case 'd':
			out.entries[name] = sanitize(e, input, keepFaults)
		case 'f':
			c := *e
			if (!keepFaults || input) && c.content%10 == 9 {
				c.content++
			}
			out.entries[name] = &c
		case 'l':
			c := *e
			if c.target == readlinkFailTarget || c.target == "" {
				c.target = "rl"
			}
			out.entries[name] = &c
		default:
			if !input {
				out.entries[name] = &node{kind: 's'}
			}
		}
	}
	return out
}

// refParents: the input root plus a directory at every proper prefix of a declared location.
func refParents(t0 *node, ds []decl) *node {
	t := t0.clone()
	for _, loc := range properPrefixes(ds) {
		cur := t
		for _, k := range loc {
			nx := cur.entries[k]
			if nx == nil {
				nx = newDir()
				cur.entries[k] = nx
			}
			if nx.kind != 'd' {
				break
			}
			cur = nx
		}
	}
	return t
}

func sameLeaf(a, b *node) bool {
	return a.kind == b.kind && a.exec == b.exec && a.content == b.content && a.target == b.target
}

// diff yields the rm/put steps that turn base into target.
func diff(base, target *node, at []string, out *[]step) {
	names := map[string]bool{}
	for k := range base.entries {
		names[k] = true
	}
	for k := range target.entries {
		names[k] = true
	}
	var ks []string
	for k := range names {
		ks = append(ks, k)
	}
	sort.Strings(ks)
	for _, k := range ks {
		b, t := base.entries[k], target.entries[k]
		p := append(append([]string(nil), at...), k)
		switch {
		case t == nil:
			*out = append(*out, step{kind: "rm", path: p})
		case b == nil:
			*out = append(*out, step{kind: "put", path: p, n: t.clone()})
		case b.kind == 'd' && t.kind == 'd':
			diff(b, t, p, out)
		case b.kind != 'd' && sameLeaf(b, t):
		default:
			*out = append(*out, step{kind: "rm", path: p}, step{kind: "put", path: p, n: t.clone()})
		}
	}
}

func unchangedFiles(base, target *node, at []string, out *[][]string) {
	for _, k := range base.names() {
		b, t := base.entries[k], target.entries[k]
		if t == nil {
			continue
		}
		p := append(append([]string(nil), at...), k)
		if b.kind == 'f' && sameLeaf(b, t) && b.content != 0 {
			*out = append(*out, p)
		} else if b.kind == 'd' && t.kind == 'd' {
			unchangedFiles(b, t, p, out)
		}
	}
}

func genScenario(g *generator, tier string) *scenario {
	r := g.r
	sc := &scenario{
		threads:       1 + r.Pick(5, 3, 2),
		maxSuspension: []time.Duration{0, 30 * ms, 100 * ms}[r.Intn(3)],
		batchSize:     1 + r.Intn(6),
		force:         r.Chance(1, 6),
		faults:        r.Chance(1, 8),
	}
	// how long UploadFile may wait for files still opened for writing: short enough for
	// commands to outlast it, or the 10 s every earlier history used
	if r.Chance(1, 2) {
		sc.uploadDelay = 20 * ms
	}
	// a receiver of execution state updates that is busy for a while with every update
	if r.Chance(1, 2) {
		sc.consumerDelay = []time.Duration{5 * ms, 20 * ms, 40 * ms}[r.Intn(3)]
	}
	sc.barrier = r.Chance(1, 3)
	perThread := 1 + r.Pick(3, 1)
	for round := 0; round < perThread; round++ {
		// identical do_not_cache actions on all threads at once (the scheduler never
		// deduplicates those; identical cacheable actions are never in flight together)
		twins := sc.threads > 1 && r.Chance(1, 4)
		var first *action
		for th := 0; th < sc.threads; th++ {
			if twins && first != nil {
				a := *first
				a.thread = th
				sc.actions = append(sc.actions, &a)
				continue
			}
			if !twins && !sc.faults && round > 0 && r.Chance(1, 8) {
				// the same action once more on the same thread: its directory name is free again
				for i := len(sc.actions) - 1; i >= 0; i-- {
					if sc.actions[i].thread == th {
						a := *sc.actions[i]
						sc.actions = append(sc.actions, &a)
						break
					}
				}
				continue
			}
			c := g.gen(tier)
			a := &action{
				thread:     th,
				tag:        th,
				timeout:    []time.Duration{35 * ms, 75 * ms, 105 * ms, 1005 * ms, 1005 * ms}[r.Intn(5)],
				doNotCache: r.Chance(1, 4),
				upDirs:     c.upDirs,
				wd:         c.wd,
				paths:      c.paths,
				input:      sanitize(c.t0, true, false),
				noCommand:  r.Chance(1, 40),
			}
			if r.Chance(1, 5) {
				a.exit = int32(1 + r.Intn(3))
			}
			if r.Chance(1, 15) {
				a.failCode = []codes.Code{codes.Internal, codes.Unavailable, codes.ResourceExhausted}[r.Intn(3)]
			}
			if r.Chance(1, 2) {
				a.stdoutID = 1 + r.Intn(8)
			}
			if r.Chance(1, 3) {
				a.stderrID = 1 + r.Intn(8)
			}
			if ds, ok := declared(a.wd, a.paths); ok {
				base := refParents(a.input, ds)
				target := sanitize(c.t1, false, sc.faults)
				// the input of t1 was c.t0 with specials; whatever c.t1 kept of them is re-created by put steps
				var fsSteps []step
				diff(base, target, nil, &fsSteps)
				// some files are written through a descriptor that is closed only after the
				// command has exited, always within the time the worker waits for such files
				for i := range fsSteps {
					if s := &fsSteps[i]; s.kind == "put" && s.n.kind == 'f' && r.Chance(1, 3) {
						s.kind = "wput"
						if sc.uploadDelay != 0 {
							s.dur = time.Duration(r.Intn(3)) * 5 * ms
						} else {
							s.dur = []time.Duration{0, 5 * ms, 50 * ms, 400 * ms}[r.Intn(4)]
						}
					}
				}
				var readable [][]string
				unchangedFiles(base, target, nil, &readable)
				// interleave time-consuming steps
				nTime := r.Pick(2, 3, 3, 2)
				var timed []step
				for i := 0; i < nTime; i++ {
					if len(readable) > 0 && r.Chance(2, 5) {
						timed = append(timed, step{kind: "read", path: readable[r.Intn(len(readable))]})
					} else {
						timed = append(timed, step{kind: "run", dur: time.Duration(1+r.Intn(4)) * 10 * ms})
					}
				}
				for len(timed) > 0 || len(fsSteps) > 0 {
					if len(fsSteps) == 0 || (len(timed) > 0 && r.Chance(1, 3)) {
						a.steps = append(a.steps, timed[0])
						timed = timed[1:]
					} else {
						a.steps = append(a.steps, fsSteps[0])
						fsSteps = fsSteps[1:]
					}
				}
			}
			if twins {
				a.doNotCache = true
				first = a
			}
			sc.actions = append(sc.actions, a)
		}
	}
	return sc
}

// ---- execution ------------------------------------------------------------------------------

// askedProp is the property the run is for (-prop); a monitor failure of that
// property takes precedence over failures of the others when a history has both.
var askedProp string

// flowDrv is the driver of Model/ExecFlow.lean (control flow of Execute, directory names).
var flowDrv *hx.Driver

type outcome struct {
	mismatchProp string // property whose model part disagrees (default C10)
	monitor      string
	byProp       map[string]string // first monitor failure per property
	mismatch     string
	expected     string
	actual       string
	flags        map[string]bool
	steps        int
	obs          []*actionObs
	events       []event
}

// execute runs the scenario in a synctest bubble and returns the observations.
func execute(t *testing.T, sc *scenario) (obs []*actionObs, w *world, crashed string) {
	synctest.Test(t, func(t *testing.T) {
		var threads []*thread
		w, threads = newWorld(sc)
		filePool := pool.NewBlockDeviceBackedFilePool(&memBlockDevice{data: make([]byte, 512*4096)}, pool.NewBitmapSectorAllocator(4096), 512)
		byThread := map[int][]*action{}
		for _, a := range sc.actions {
			byThread[a.thread] = append(byThread[a.thread], a)
		}
		var wg sync.WaitGroup
		var lock sync.Mutex
		// barrier: the threads that still have an n-th action start it together
		rounds := 0
		for _, l := range byThread {
			if len(l) > rounds {
				rounds = len(l)
			}
		}
		arrived := make([]int, rounds)
		expected := make([]int, rounds)
		gates := make([]chan struct{}, rounds)
		for i := range gates {
			gates[i] = make(chan struct{})
			for _, l := range byThread {
				if len(l) > i {
					expected[i]++
				}
			}
		}
		for th := 0; th < sc.threads; th++ {
			wg.Add(1)
			go func(th int) {
				defer wg.Done()
				for round, a := range byThread[th] {
					if sc.barrier {
						lock.Lock()
						arrived[round]++
						if arrived[round] == expected[round] {
							close(gates[round])
						}
						lock.Unlock()
						<-gates[round]
					}
					o := &actionObs{a: a}
					func() {
						defer func() {
							if r := recover(); r != nil {
								o.panic = fmt.Sprint(r)
							}
						}()
						req, dg := w.request(a)
						o.digestKey = protoKey(dg)
						threads[th].runner.a, threads[th].runner.obs = a, &o.run
						threads[th].creator.cur = o
						// execution state updates go through an unbuffered channel (as in every
						// wrapper of cmd/bb_worker) to a receiver that is busy for consumerDelay
						// with each update (forwarding it to the scheduler)
						updates := make(chan *remoteworker.CurrentState_Executing)
						consumed := make(chan struct{})
						go func() {
							defer close(consumed)
							for u := range updates {
								kind := "other"
								switch u.ExecutionState.(type) {
								case *remoteworker.CurrentState_Executing_FetchingInputs:
									kind = "fetching"
								case *remoteworker.CurrentState_Executing_Running:
									kind = "running"
								case *remoteworker.CurrentState_Executing_UploadingOutputs:
									kind = "uploading"
								}
								o.updates = append(o.updates, updateObs{kind: kind, at: time.Since(w.t0)})
								if sc.consumerDelay > 0 {
									time.Sleep(sc.consumerDelay)
								}
							}
						}()
						defer func() {
							close(updates)
							<-consumed
						}()
						o.begin = time.Since(w.t0)
						o.response = threads[th].executor.Execute(context.Background(), filePool, nil, digestFunction, req, updates)
						o.end = time.Since(w.t0)
						// the per-action build directory must be gone as soon as Execute has returned
						o.goneAfter = true
						if o.run.buildDir != "" {
							if comp, ok := path.NewComponent(o.run.buildDir); ok {
								if _, err := w.root.LookupChild(comp); err == nil {
									o.goneAfter = false
								}
							}
						}
						w.ac.lock.Lock()
						_, o.acAtReturn = w.ac.results[o.digestKey]
						w.ac.lock.Unlock()
					}()
					lock.Lock()
					obs = append(obs, o)
					lock.Unlock()
				}
			}(th)
		}
		wg.Wait()
		w.bg.Wait()
		synctest.Wait()
	})
	return
}

// simulate is the reference timeline of a script: when is the runner killed, how
// many steps complete, how long did it run unsuspended.
func simulate(a *action, maxSuspension time.Duration) (completed int, killed bool, unsuspended time.Duration) {
	var t, u time.Duration
	limit := a.timeout + maxSuspension
	for _, s := range a.steps {
		if t > limit {
			return completed, true, u
		}
		switch s.kind {
		case "run":
			k := a.timeout - u
			if limit-t < k {
				k = limit - t
			}
			if k < s.dur {
				return completed, true, u + k
			}
			u += s.dur
			t += s.dur
		case "read":
			if n := a.input.walk(s.path); n != nil && n.kind == 'f' {
				t += inputLatency(n.content)
			}
		}
		completed++
	}
	return completed, t > limit, u
}

func structureEqual(a, b *node, at string) string {
	if a.kind != b.kind {
		return fmt.Sprintf("%q is %c, expected %c", at, b.kind, a.kind)
	}
	switch a.kind {
	case 'f':
		if a.exec != b.exec {
			return fmt.Sprintf("file %q has executable=%v", at, b.exec)
		}
	case 'l':
		if !targetsEquivalent(a.target, b.target) {
			return fmt.Sprintf("symlink %q has target %q", at, b.target)
		}
	case 'd':
		for _, k := range a.names() {
			if b.entries[k] == nil {
				return fmt.Sprintf("%q is missing", at+"/"+k)
			}
			if v := structureEqual(a.entries[k], b.entries[k], at+"/"+k); v != "" {
				return v
			}
		}
		for _, k := range b.names() {
			if a.entries[k] == nil {
				return fmt.Sprintf("unexpected %q", at+"/"+k)
			}
		}
	}
	return ""
}

// judge applies all monitors to the observations of one scenario.
func judge(sc *scenario, obs []*actionObs, w *world, drv *hx.Driver, out *outcome) {
	bad := func(prop, format string, args ...any) {
		msg := prop + ": " + fmt.Sprintf(format, args...)
		if out.byProp == nil {
			out.byProp = map[string]string{}
		}
		if out.byProp[prop] == "" {
			out.byProp[prop] = msg
		}
		if out.monitor == "" || (prop == askedProp && out.monitor[:3] != askedProp) {
			out.monitor = msg
		}
	}
	for _, o := range obs {
		a := o.a
		out.steps++
		if o.panic != "" {
			bad("C10", "Execute panicked: %s", o.panic)
			return
		}
		resp := o.response
		if resp == nil || resp.Result == nil {
			bad("C09", "Execute returned no result")
			return
		}
		code := codes.Code(0)
		if resp.Status != nil {
			code = codes.Code(resp.Status.Code)
		}
		ds, valid := declared(a.wd, a.paths)
		conflict := valid && conflicting(a.input, ds)

		// ---- C12: isolation -------------------------------------------------------
		if o.getFailed {
			// no directory operation, cleaner or context fails in these histories
			bad("C12", "the action was not given a build directory of its own: GetBuildDirectory failed with %v although nothing was made to fail (do_not_cache=%v, %d thread(s))", o.getCode, a.doNotCache, sc.threads)
		}
		if !o.goneAfter {
			bad("C12", "the build directory %q still exists after Execute returned", o.run.buildDir)
		}
		if o.run.invoked {
			want := []string{"root", "server_logs", "tmp"}
			if strings.Join(o.run.buildDirNames, ",") != strings.Join(want, ",") {
				bad("C12", "the build directory handed to the runner contains %v instead of %v", o.run.buildDirNames, want)
			}
			if !o.run.tmpEmpty || !o.run.logsEmpty {
				bad("C12", "tmp or server_logs is not an empty directory when the runner starts")
			}
			if o.run.overlapSameDir {
				bad("C12", "two concurrently running actions were given the same build directory %q", o.run.buildDir)
			}
		}
		if !valid || a.noCommand {
			if o.run.invoked {
				bad("C10", "the runner was invoked although the command is missing or its paths leave the input root")
			}
			if code == codes.OK {
				bad("C10", "an unusable command did not make the action fail")
			}
			if !valid && !a.noCommand && code != codes.InvalidArgument {
				bad("C10", "escaping path rejected with code %v instead of INVALID_ARGUMENT", code)
			}
		} else if !conflict && !o.run.invoked {
			prop := "C10"
			if strings.Contains(resp.Status.GetMessage(), "build environment") || strings.Contains(resp.Status.GetMessage(), "build directory") {
				prop = "C12" // the action could not get a build directory of its own
			}
			bad(prop, "the runner was not invoked for a valid action (status %v: %s)", code, resp.Status.GetMessage())
		}
		if !o.run.invoked {
			if o.acAtReturn {
				bad("C09", "a result was cached for an action that never ran")
			}
			out.flags["not-run"] = true
			continue
		}
		out.flags["ran"] = true

		// ---- C10 (before the command): the input root plus parent directories ------
		base := refParents(a.input, ds)
		if !conflict {
			if v := structureEqual(base, o.run.rootSnapshot, ""); v != "" {
				bad("C10", "input root handed to the runner: %s", v)
			}
		}
		if o.run.wdSeen != a.wd || len(o.run.args) != 2 || o.run.env["ACTION"] != fmt.Sprint(a.tag) || o.run.env["PATH"] != "/bin" {
			bad("C10", "the runner did not get the command's arguments/working directory/environment")
		}

		// ---- C11: timeouts --------------------------------------------------------
		// the property text on the runner's own account: when its context ended with
		// DEADLINE_EXCEEDED it had run (not counting stalls beyond the maximum
		// compensation) for the whole timeout, whatever else the worker was waiting for
		if o.run.killed {
			wall := o.run.end - o.run.start
			charged := o.run.unsuspended
			if stalled := wall - o.run.unsuspended; stalled > sc.maxSuspension {
				charged += stalled - sc.maxSuspension
			}
			if charged < a.timeout {
				bad("C11", "the command was cancelled (%v) after it had run for %v (%v wall clock, maximum compensation %v) of its timeout %v; the receiver of state updates takes %v per update",
					o.run.ctxErr, o.run.unsuspended, wall, sc.maxSuspension, a.timeout, sc.consumerDelay)
			}
		}
		if sc.consumerDelay > 0 {
			out.flags["slow-consumer"] = true
		}
		if o.run.lingering > 0 {
			out.flags["lingering-writer"] = true
			if sc.uploadDelay != 0 && o.run.end-o.run.start > sc.uploadDelay {
				out.flags["lingering-writer-after-long-command"] = true
			}
		}
		wantCompleted, wantKilled, wantU := simulate(a, sc.maxSuspension)
		if o.run.killed != wantKilled {
			bad("C11", "timeout %v, maximum suspension %v: the runner's context was done=%v, but the script exceeds its unsuspended budget=%v (ran unsuspended %v, %d steps)",
				a.timeout, sc.maxSuspension, o.run.killed, wantKilled, o.run.unsuspended, o.run.completed)
		} else if o.run.completed != wantCompleted || o.run.unsuspended != wantU {
			bad("C11", "the runner was stopped after %d steps / %v unsuspended, the reference timeline says %d steps / %v", o.run.completed, o.run.unsuspended, wantCompleted, wantU)
		}
		if wantKilled {
			out.flags["timeout"] = true
			if code != codes.DeadlineExceeded {
				bad("C11", "the action exceeded its timeout but the status is %v", code)
			}
		} else if code == codes.DeadlineExceeded {
			bad("C11", "DEADLINE_EXCEEDED reported although the unsuspended run time %v stays below the timeout %v", o.run.unsuspended, a.timeout)
		}
		ved := resp.Result.ExecutionMetadata.GetVirtualExecutionDuration()
		if ved == nil {
			bad("C11", "virtual_execution_duration is not set")
		} else if ved.AsDuration() != o.run.unsuspended {
			bad("C11", "virtual_execution_duration is %v, the runner ran unsuspended for %v (wall %v)", ved.AsDuration(), o.run.unsuspended, o.run.end-o.run.start)
		}
		if o.run.end-o.run.start > o.run.unsuspended {
			out.flags["suspended"] = true
		}

		// ---- what the runner produced ---------------------------------------------
		final := base.clone()
		for _, s := range a.steps[:o.run.completed] {
			applyStep(final, s)
		}
		runnerFailed := wantKilled || a.failCode != codes.OK
		w.cas.lock.Lock()
		rejected := w.cas.rejected
		w.cas.lock.Unlock()
		ar := resp.Result
		if !runnerFailed && ar.ExitCode != a.exit {
			bad("C10", "exit code %d reported, the runner returned %d", ar.ExitCode, a.exit)
		}
		if runnerFailed && code == codes.OK {
			bad("C09", "the runner failed but the action is reported as successful")
		}

		// ---- C09: completeness ----------------------------------------------------
		if code == codes.OK {
			if v := w.referencesPresent(ar); v != "" {
				bad("C09", "successful response returned while %s", v)
			}
		}
		cached := o.acAtReturn
		if cached && (code != codes.OK || ar.ExitCode != 0 || a.doNotCache) {
			bad("C09", "result cached although status=%v exit=%d do_not_cache=%v", code, ar.ExitCode, a.doNotCache)
		}
		if !cached && code == codes.OK && ar.ExitCode == 0 && !a.doNotCache {
			bad("C09", "successful cacheable result was not written to the Action Cache")
		}
		if cached {
			out.flags["cached"] = true
		}
		if conflict {
			out.flags["input-conflict"] = true
			continue // the input root has a file where an output's parent directory has to be
		}
		if sc.faults && rejected > 0 {
			// at least one CAS write of this worker failed; with concurrent threads we
			// cannot attribute it, so only the completeness rules above apply
			out.flags["cas-fault"] = true
			continue
		}

		// ---- C10: the ActionResult lists exactly what the runner produced -----------
		var upErr error
		if code != codes.OK && !runnerFailed {
			upErr = status.Error(code, resp.Status.GetMessage())
		}
		if v := checkUploadE2E(ds, final, uploadObs{ar: ar, err: upErr}, w.cas, code, runnerFailed); v != "" {
			bad("C10", "%s", v)
		}
		if !runnerFailed {
			for name, id := range map[string]int{"stdout": a.stdoutID, "stderr": a.stderrID} {
				dg := ar.StdoutDigest
				if name == "stderr" {
					dg = ar.StderrDigest
				}
				switch {
				case id == 0 && dg != nil:
					bad("C10", "%s is empty but a digest is reported", name)
				case id != 0 && dg == nil:
					bad("C10", "%s was written but no digest is reported", name)
				case id != 0 && protoKey(dg) != blobKey(fileContent(id)):
					bad("C10", "the %s digest is not the digest of what the runner wrote to %s", name, name)
				}
			}
		}
		if len(ar.OutputDirectories) > 0 {
			out.flags["directories"] = true
		}

		// ---- correspondence with the Lean Outputs model ------------------------------
		if drv != nil && out.monitor == "" && out.mismatch == "" {
			ask := func(line, actual, what string) bool {
				exp, err := drv.Ask(line)
				if err != nil {
					exp = "driver-error " + err.Error()
				}
				if exp != actual {
					out.mismatch, out.expected, out.actual = what, exp, actual
					return false
				}
				return true
			}
			newLine := []string{"new", b01(a.upDirs), hexs(a.wd)}
			for _, p := range a.paths {
				newLine = append(newLine, hexs(p))
			}
			ids := map[string]int{}
			collectIDs(final, ids)
			collectIDs(a.input, ids)
			canonErr := upErr
			if runnerFailed && hasSpecialOrBroken(ds, final) {
				canonErr = fmt.Errorf("hidden behind the runner's failure")
			}
			if ask(strings.Join(newLine, " "), "ok", "localexec: NewOutputHierarchy vs Model/Outputs.lean") && !conflict {
				if ask("mkparents "+a.input.String(), "ok "+base.String(), "localexec: CreateParentDirectories vs Model/Outputs.lean") {
					ask("upload "+b01(sc.force)+" 0 "+final.String(), canonResult(uploadObs{ar: ar, err: canonErr}, w.cas, ids),
						"localexec: UploadOutputs inside Execute vs Model/Outputs.lean (theorems C10.exact_listing, C10.tree_wellformed)")
				}
			}
		}

		// ---- correspondence with the Lean model of Execute's control flow -------------
		if flowDrv != nil && out.monitor == "" && out.mismatch == "" {
			flowTie(sc, o, ds, final, code, out)
		}
	}

	// ---- C12: cleaning only at idle transitions, nothing left behind ------------------
	if _, leaves, err := w.root.LookupAllChildren(); err == nil {
		dirs, _, _ := w.root.LookupAllChildren()
		if len(dirs)+len(leaves) != 0 {
			bad("C12", "the shared build directory is not empty after all actions have finished")
		}
	}
	cleans, lastClean, lastCloseStart, firstGetDone := 0, -1, -1, -1
	for i, e := range w.events {
		switch e.what {
		case "clean":
			cleans++
			lastClean = i
			if e.held != 0 {
				bad("C12", "the cleaner ran while %d build directories were in use", e.held)
			}
		case "get-done":
			if firstGetDone < 0 {
				firstGetDone = i
				if cleans == 0 {
					bad("C12", "the first build directory was handed out without cleaning first")
				}
			}
		case "close-start":
			lastCloseStart = i
		}
	}
	if lastCloseStart >= 0 && lastClean < lastCloseStart {
		bad("C12", "the worker went idle (last build directory closed) without the cleaner being called")
	}
	if w.held != 0 {
		bad("C12", "%d build directories were never closed", w.held)
	}
	if flowDrv != nil && out.monitor == "" && out.mismatch == "" {
		dirTie(w, out)
	}
	if w.acViol != "" {
		bad("C09", "%s", w.acViol)
	}
	if len(w.cas.badKeys) > 0 {
		bad("C09", "CAS: %s", w.cas.badKeys[0])
	}
	out.events = w.events
}

func collectIDs(n *node, ids map[string]int) {
	if n.kind == 'f' {
		ids[blobKey(fileContent(n.content))] = n.content
	}
	for _, e := range n.entries {
		collectIDs(e, ids)
	}
}

func hasSpecialOrBroken(ds []decl, t *node) bool {
	for _, d := range ds {
		n := t.walk(d.loc)
		if n != nil && n.kind == 's' {
			return true
		}
		if n == nil {
			for i := 1; i < len(d.loc); i++ {
				if p := t.walk(d.loc[:i]); p != nil && p.kind != 'd' {
					return true
				}
			}
		}
	}
	return false
}

// checkUploadE2E adapts the C10 monitor of the outputs harness to a whole Execute:
// when the runner itself failed (killed, gRPC failure) the status is an error
// for that reason, which says nothing about the upload.
func checkUploadE2E(ds []decl, final *node, o uploadObs, cas *fakeCAS, code codes.Code, runnerFailed bool) string {
	if runnerFailed {
		// the listing must still be exact; whether the upload had an error is hidden
		// behind the runner's error: re-use the monitor with "an error occurred" iff one is due
		if hasSpecialOrBroken(ds, final) {
			o.err = status.Error(codes.InvalidArgument, "hidden behind the runner's failure")
			return checkUploadLenientCode(ds, final, o, cas)
		}
		o.err = nil
	}
	return checkUpload(ds, final, o, cas, false)
}

func checkUploadLenientCode(ds []decl, final *node, o uploadObs, cas *fakeCAS) string {
	v := checkUpload(ds, final, o, cas, false)
	if strings.Contains(v, "but the error code is") {
		return ""
	}
	return v
}

func run(t *testing.T, sc *scenario, drv *hx.Driver) (out outcome) {
	out.flags = map[string]bool{}
	obs, w, _ := execute(t, sc)
	if w == nil {
		out.monitor = "C12: the scenario could not be executed"
		return
	}
	out.obs = obs
	judge(sc, obs, w, drv, &out)
	if sc.threads > 1 {
		out.flags["concurrent"] = true
	}
	return
}

func shrinkScenario(t *testing.T, sc *scenario, fails func(*scenario) bool) *scenario {
	cur := sc
	try := func(lines []string) bool {
		cand, err := parseScenario(lines)
		if err != nil || len(cand.actions) == 0 {
			return false
		}
		if fails(cand) {
			cur = cand
			return true
		}
		return false
	}
	// drop whole actions
	for i := 0; i < len(cur.actions); {
		cand := *cur
		cand.actions = append(append([]*action(nil), cur.actions[:i]...), cur.actions[i+1:]...)
		if len(cand.actions) > 0 && try(cand.lines()) {
			continue
		}
		i++
	}
	// drop steps and output paths
	for round := 0; round < 3; round++ {
		progress := false
		lines := cur.lines()
		for i := len(lines) - 1; i >= 1; i-- {
			if !strings.HasPrefix(lines[i], "step ") {
				continue
			}
			cand := append(append([]string(nil), lines[:i]...), lines[i+1:]...)
			if try(cand) {
				lines = cur.lines()
				progress = true
				if i > len(lines) {
					i = len(lines)
				}
			}
		}
		for ai := range cur.actions {
			for pi := 0; pi < len(cur.actions[ai].paths); {
				cand, _ := parseScenario(cur.lines())
				a := cand.actions[ai]
				a.paths = append(append([]string(nil), a.paths[:pi]...), a.paths[pi+1:]...)
				if try(cand.lines()) {
					progress = true
				} else {
					pi++
				}
			}
		}
		if !progress {
			break
		}
	}
	return cur
}

func TestHarness(t *testing.T) {
	o := hx.ParseFlags()
	askedProp = o.Prop
	res := hx.NewResult("localexec", o, "one history = one worker (1-3 threads wired like cmd/bb_worker: shared in-memory build directory cleaned through the real IdleInvoker, Shared(Clean(Root)) build directory creators, per thread the real SuspendableClock over virtual time, BatchedStoreBlobAccess, LocalBuildExecutor inside StorageFlushing and Caching executors, fake CAS/AC) executing 1-6 scripted actions (commands from the C10 path grammar, CAS-backed input roots with read latencies that suspend the clock, runner scripts that create/remove outputs, write outputs through a descriptor closed shortly after the command's exit, run for a while, read inputs, write stdout/stderr, exit non-zero, fail, or outlive their timeout; execution state updates through an unbuffered channel to a receiver busy 0-40 ms per update; writable-file upload delay 20 ms or 10 s; identical do_not_cache actions on all threads at once); every executed action is compared with Model/Outputs.lean and Model/ExecFlow.lean; non-trivial = at least one runner ran, one action was suspended while reading inputs, and either a timeout fired or two threads ran concurrently; distinct = hash of the scenario lines")
	drv, err := hx.StartDriver("outputs")
	if err != nil {
		fmt.Fprintln(os.Stderr, "cannot start model driver:", err)
		os.Exit(3)
	}
	defer drv.Close()
	if flowDrv, err = hx.StartDriver("execflow"); err != nil {
		fmt.Fprintln(os.Stderr, "cannot start model driver:", err)
		os.Exit(3)
	}
	defer flowDrv.Close()

	report := func(sc *scenario, out outcome) {
		fails := func(cand *scenario) bool {
			// twice: a candidate that only fails when two events of one virtual instant
			// happen in a particular order is not a replay
			for i := 0; i < 2; i++ {
				r := run(t, cand, drv)
				if out.monitor != "" {
					if r.monitor == "" || r.monitor[:3] != out.monitor[:3] {
						return false
					}
				} else if r.mismatch == "" || r.monitor != "" {
					return false
				}
			}
			return true
		}
		min := shrinkScenario(t, sc, fails)
		r := run(t, min, drv)
		if r.monitor == "" && r.mismatch == "" { // not reproducible after shrinking: report the original
			min, r = sc, out
		}
		prop := "C10"
		if r.mismatchProp != "" {
			prop = r.mismatchProp
		}
		f := hx.Finding{History: min.lines()}
		if r.monitor != "" {
			prop = r.monitor[:3]
			f.Kind, f.What, f.Name = "violation", r.monitor, "end-to-end monitor on the real LocalBuildExecutor stack"
		} else {
			f.Kind, f.What, f.Name = "mismatch", r.mismatch, r.mismatch
			f.Expected, f.Actual = r.expected, r.actual
		}
		// a failure of another property than the one asked for keeps its own property:
		// ./check files it as a broken correspondence of the shared harness, never as a
		// violation of the property it was asked about
		f.Property = prop
		f.Sig = hx.Sig(prop, "localexec", strings.Join(min.lines(), ";"))
		res.Report(f)
	}

	if o.Replay != "" {
		f, err := hx.LoadReplay(o.Replay)
		if err != nil {
			fmt.Fprintln(os.Stderr, err)
			os.Exit(3)
		}
		sc, err := parseScenario(f.History)
		if err != nil {
			fmt.Fprintln(os.Stderr, err)
			os.Exit(3)
		}
		out := run(t, sc, drv)
		res.Evaluations = out.steps
		if out.monitor != "" || out.mismatch != "" {
			report(sc, out)
		}
		res.ModelLines = drv.Lines + flowDrv.Lines
		res.Write(o)
		return
	}

	cases := 1200 * o.Scale
	if o.Tier == "thorough" {
		cases = 4000 * o.Scale
	}
	g := &generator{r: hx.NewRand(o.Seed)}
	// The search goes on until a monitor of the asked property fails (a violation with a
	// replay).  A disagreement with a model, or a failure of another property's monitor,
	// is reported once (shrinking is expensive) and the search continues: it may well be
	// the first symptom of a change for which a failing input of this property exists.
	violations, mismatches, others := 0, 0, 0
	for i := 0; i < cases && violations == 0; i++ {
		sc := genScenario(g, "quick")
		out := run(t, sc, drv)
		res.Evaluations += out.steps
		res.TracesVsImpl++
		for k := range out.flags {
			res.Count("history-with-" + k)
		}
		res.Count(fmt.Sprintf("threads-%d", sc.threads))
		res.History(sc.lines(), out.flags["ran"] && out.flags["suspended"] && (out.flags["timeout"] || out.flags["concurrent"]))
		switch {
		case out.monitor != "" && (o.Prop == "" || out.monitor[:3] == o.Prop):
			report(sc, out)
			violations++
		case out.monitor != "":
			if others < 2 {
				report(sc, out)
			}
			others++
		case out.mismatch != "":
			if mismatches < 1 {
				report(sc, out)
			}
			mismatches++
		}
	}
	if mismatches > 1 {
		res.Count(fmt.Sprintf("further-histories-disagreeing-with-a-model-%d", mismatches-1))
	}
	res.ModelLines = drv.Lines + flowDrv.Lines
	res.Write(o)
}

var _ = remoteexecution.Command_TREE_ONLY

// ---- Model/ExecFlow.lean ------------------------------------------------------------------------

// lingersUnder collects, once per file, the lingering descriptors of the regular
// files the executor uploads: everything at or below a declared location.
func lingersUnder(ds []decl, final *node) []int {
	seen := map[*node]bool{}
	var out []int
	var walk func(n *node)
	walk = func(n *node) {
		if n == nil || seen[n] {
			return
		}
		seen[n] = true
		switch n.kind {
		case 'f':
			if n.lingerMs > 0 {
				out = append(out, n.lingerMs)
			}
		case 'd':
			for _, k := range n.names() {
				walk(n.entries[k])
			}
		}
	}
	for _, d := range ds {
		walk(final.walk(d.loc))
	}
	return out
}

// flowTie compares every instant the harness observed of one Execute call with
// Model/ExecFlow.lean: when the three state updates were accepted, when the
// runner was started and when it returned, whether and after how much run time
// it was cancelled, the virtual execution duration, and when Execute returned
// (which is when the last lingering writer the upload has to wait for is done).
func flowTie(sc *scenario, o *actionObs, ds []decl, final *node, code codes.Code, out *outcome) {
	a := o.a
	uploadDelay := sc.uploadDelay
	if uploadDelay == 0 {
		uploadDelay = defaultUploadDelay
	}
	line := []string{"flow", fmt.Sprint(int64(a.timeout / ms)), fmt.Sprint(int64(sc.maxSuspension / ms)), fmt.Sprint(int64(uploadDelay / ms)), fmt.Sprint(int64(sc.consumerDelay / ms)), "0"}
	for _, s := range a.steps {
		switch s.kind {
		case "run":
			line = append(line, fmt.Sprintf("r%d", s.dur/ms))
		case "read":
			lat := time.Duration(0)
			if n := a.input.walk(s.path); n != nil && n.kind == 'f' {
				lat = inputLatency(n.content)
			}
			line = append(line, fmt.Sprintf("s%d", lat/ms))
		default:
			line = append(line, "s0")
		}
	}
	var lingers []int
	if !o.run.killed {
		lingers = lingersUnder(ds, final)
	}
	complete := "-"
	if len(lingers) > 0 {
		complete = strings.Repeat("1", len(lingers)) // the C10 monitor found every digest correct
	}
	for _, l := range lingers {
		line = append(line, fmt.Sprintf("l%d", l))
	}
	exp, err := flowDrv.Ask(strings.Join(line, " "))
	if err != nil {
		exp = "driver-error " + err.Error()
	}
	acc := map[string]time.Duration{"fetching": -ms, "running": -ms, "uploading": -ms}
	for _, u := range o.updates {
		if v, ok := acc[u.kind]; ok && v < 0 {
			acc[u.kind] = u.at - o.begin
		}
	}
	ved := -ms
	if d := o.response.GetResult().GetExecutionMetadata().GetVirtualExecutionDuration(); d != nil {
		ved = d.AsDuration()
	}
	runStart, runEnd := o.run.start-o.begin, o.run.end-o.begin
	// model fields: acceptFetching acceptRunning budgetStart killed unsusp wall completed runEnd acceptUploading delayStart complete finish
	// budgetStart is observed as the start of the runner together with unsusp = virtual
	// execution duration; delayStart as the acceptance of the update that precedes it
	e := strings.Fields(exp)
	var expected, actual string
	if len(e) != 12 {
		expected, actual = exp, "a trace"
	} else {
		expected = fmt.Sprintf("fetching=%s running=%s start=%s killed=%s unsuspended=%s virtual=%s wall=%s completed=%s end=%s uploading=%s delay-from=%s complete=%s return=%s",
			e[0], e[1], e[2], e[3], e[4], e[4], e[5], e[6], e[7], e[8], e[9], e[10], e[11])
		actual = fmt.Sprintf("fetching=%d running=%d start=%d killed=%s unsuspended=%d virtual=%d wall=%d completed=%d end=%d uploading=%d delay-from=%d complete=%s return=%d",
			acc["fetching"]/ms, acc["running"]/ms, runStart/ms, b01(o.run.killed), o.run.unsuspended/ms, ved/ms, (o.run.end-o.run.start)/ms, o.run.completed,
			runEnd/ms, acc["uploading"]/ms, acc["uploading"]/ms, complete, (o.end-o.begin)/ms)
	}
	if expected != actual {
		out.mismatch = "localexec: timeline of Execute vs Model/ExecFlow.lean (theorems C11Flow.within_budget_never_cancelled, C11Flow.budget_starts_when_running_is_accepted, C10Flow.writers_closing_within_the_delay_are_waited_for)"
		out.expected, out.actual = expected, actual
		out.mismatchProp = "C11"
		if len(e) == 12 {
			ef, af := strings.Fields(expected), strings.Fields(actual)
			same := true
			for i := 0; i < 9 && i < len(ef) && i < len(af); i++ {
				same = same && ef[i] == af[i]
			}
			if same {
				out.mismatchProp = "C10" // the run stage agrees: the upload stage differs
			}
		}
	}
}

// dirTie replays the hand-outs and closes of build directories, in the order
// they happened, against Dirs.get / Dirs.finish of Model/ExecFlow.lean.
func dirTie(w *world, out *outcome) {
	ask := func(line string) string {
		r, err := flowDrv.Ask(line)
		if err != nil {
			return "driver-error " + err.Error()
		}
		return r
	}
	fail := func(line, got string) {
		out.mismatch = "localexec: build directory names vs Model/ExecFlow.lean (theorems C12Flow.every_action_gets_a_directory_of_its_own, C12Flow.directory_name)"
		out.expected, out.actual = got, line
		out.mismatchProp = "C12"
	}
	ask("world")
	numbered := 0
	for _, e := range w.events {
		var line string
		switch e.what {
		case "get-done":
			if e.digest16 == "" {
				continue
			}
			line = fmt.Sprintf("get %s %s %s", b01(e.doNotCache), e.digest16, strings.TrimPrefix(e.name, "/"))
			if e.doNotCache {
				numbered++
			}
		case "get-failed":
			if e.digest16 == "" {
				continue
			}
			line = fmt.Sprintf("getfail %s %s", b01(e.doNotCache), e.digest16)
			if e.doNotCache {
				numbered++
			}
		case "close-start":
			line = "done " + strings.TrimPrefix(e.name, "/")
		default:
			continue
		}
		if got := ask(line); got != "ok" {
			fail(line, got)
			return
		}
	}
	if got := ask(fmt.Sprintf("end %d", numbered)); got != "ok" {
		fail(fmt.Sprintf("end %d", numbered), got)
	}
}
