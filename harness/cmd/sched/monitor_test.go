package sched

import (
	"fmt"
	"os"
	"strconv"
	"strings"

	"github.com/buildbarn/bb-remote-execution/pkg/scheduler"
)

// propertyOfInvariant maps a structural invariant evaluated by the verif hook on the
// real data structures to the property whose theorem talks about it.
func propertyOfInvariant(v string) (string, string) {
	switch {
	case strings.Contains(v, "runs a task") || strings.Contains(v, "assigned to a worker") || strings.Contains(v, "queueIndex") ||
		strings.Contains(v, "runs a completed task") || strings.Contains(v, "holds operation") || strings.Contains(v, "still has a worker") || strings.Contains(v, "not QUEUED"):
		return "C01", "C01.inv_reachable (Inv.ptr / Inv.queues evaluated on the real structures)"
	case strings.Contains(v, "wake-up channel"):
		return "C02", "C02.no_lost_wakeup"
	case strings.Contains(v, "deduplication map"):
		return "C03", "C03.dedup_map_exact"
	case strings.Contains(v, "less than its parent") || strings.Contains(v, "queued while") || strings.Contains(v, "parked worker") ||
		strings.Contains(v, "Index") || strings.Contains(v, "workers are parked"):
		return "C04", "C04.heaps_stay_ordered / C04.no_queued_while_parked"
	case strings.Contains(v, "platform queue") || strings.Contains(v, "size class"):
		return "C05", "C05.index_consistent"
	case strings.Contains(v, "learner"):
		return "C07", "C07.learner_linear"
	}
	return "C06", "C06.cleanup_accounting"
}

// tokDigest: result token -> action digest it was reported for (per run)
var tokDigest map[*run]map[string]string

// monitor judges the implementation's own trace and state against the property texts
// (independently of the model).
func (r *run) monitor(events []string, st *scheduler.VerifState, dump string) {
	for _, v := range st.InvariantViolation {
		prop, name := propertyOfInvariant(v)
		if r.onlyProp != "" && prop != r.onlyProp {
			continue // searching for a failing input of one particular property
		}
		r.failf("violation", prop, name, "invariant violated on the real scheduler state: %s", v)
		return
	}
	// index of the dump
	taskOfWorker := map[string]string{}
	taskLine := map[string]map[string]string{}
	for _, item := range strings.Split(dump, "|") {
		f := strings.Fields(item)
		kv := map[string]string{}
		for _, x := range f[2:] {
			if p := strings.SplitN(x, "=", 2); len(p) == 2 {
				kv[p[0]] = p[1]
			}
		}
		switch f[0] {
		case "w":
			taskOfWorker[f[1]] = kv["task"]
		case "t":
			taskLine[f[1]] = kv
		}
	}
	// C02 "the final message carries the ExecuteResponse supplied by the worker that last ran the
	// task": remember for which action digest every result token was reported
	if pf := strings.Fields(r.primary); len(pf) > 2 && pf[0] == "sync" {
		for _, x := range pf[1:] {
			if c := strings.Split(x, ":"); len(c) == 5 && c[0] == "c" {
				if tokDigest[r] == nil {
					tokDigest = map[*run]map[string]string{r: {}} // one run at a time: drop older runs
				}
				tokDigest[r][c[4]] = c[1]
			}
		}
	}
	newRet := map[string]int64{}
	r.segReadAt = map[string]int64{}
	defer func() {
		// state as of the end of this segment, used by the checks of the next one
		for wk, t := range newRet {
			r.syncRet[wk] = t
		}
		r.syncActive = map[string]bool{}
		for wk, cl := range r.w.syncs {
			if _, notYet := r.w.delayed[wk]; !cl.done && !notYet {
				r.syncActive[wk] = true
			}
		}
	}()
	prevTask := map[string]map[string]string{}
	for _, item := range strings.Split(r.last, "|") {
		f := strings.Fields(item)
		if len(f) < 2 || f[0] != "t" {
			continue
		}
		kv := map[string]string{}
		for _, x := range f[2:] {
			if p := strings.SplitN(x, "=", 2); len(p) == 2 {
				kv[p[0]] = p[1]
			}
		}
		for _, o := range strings.Split(kv["ops"], ",") {
			prevTask[o] = kv
		}
	}
	for _, ev := range events {
		f := strings.Fields(ev)
		kv := map[string]string{}
		for _, x := range f[1:] {
			if p := strings.SplitN(x, "=", 2); len(p) == 2 {
				kv[p[0]] = p[1]
			}
		}
		switch f[0] {
		case "msg":
			c, _ := strconv.Atoi(kv["c"])
			m := r.streams[c]
			if m == nil {
				continue
			}
			stage, _ := strconv.Atoi(kv["st"])
			op, _ := strconv.Atoi(kv["op"])
			if m.done {
				r.failf("violation", "C02", "C02.at_most_one_done", "client %d received a message after the one marked done", c)
			}
			if m.op >= 0 && m.op != op {
				r.failf("violation", "C02", "C02.faithful", "client %d received messages of two operations (%d, %d) on one stream", c, m.op, op)
			}
			m.op = op
			if stage < m.lastStage && !(m.lastStage == 3 && stage == 2) {
				r.failf("violation", "C02", "C02.stage_monotone", "client %d saw stage %d after stage %d", c, stage, m.lastStage)
			}
			m.lastStage = stage
			if kv["done"] == "1" && kv["code"] == "14" && kv["tok"] == "0" {
				// UNAVAILABLE made by the scheduler: if the task was executing on a worker, that
				// worker must really have stopped synchronizing for the worker timeout
				if tl := prevTask[strconv.Itoa(op)]; tl != nil && tl["st"] == "3" && tl["w"] != "-" {
					wk := tl["q"] + "/" + tl["w"]
					if r.syncActive[wk] {
						r.failf("violation", timeoutProp(), "C06.worker_timeout / C02.faithful", "task of operation %d failed with UNAVAILABLE although its worker %s was inside a Synchronize call when the segment began", op, wk)
					} else if last, ok := r.syncRet[wk]; ok && r.w.clk.now < last+r.w.cfg.workerTimeout {
						r.failf("violation", timeoutProp(), "C06.worker_timeout / C02.faithful", "task of operation %d failed with UNAVAILABLE at %d although its worker %s last synchronized at %d (worker timeout %d)", op, r.w.clk.now, wk, last, r.w.cfg.workerTimeout)
					}
				}
			}
			if kv["done"] == "1" {
				m.done = true
				r.flags["done"] = true
				if stage != 4 {
					r.failf("violation", "C02", "C02.at_most_one_done", "client %d: final message with stage %d", c, stage)
				}
				if kv["code"] == "1" && kv["tok"] == "0" && !m.cancelled {
					// CANCELED is only produced for a task whose last operation has no waiting
					// clients (operator kills in this harness never use that code)
					lp := "C03"
					if currentProp == "C06" {
						lp = "C06" // "... removed after the no-waiter timeout, cancelling the task if it was the last"
					}
					if currentProp == "C02" {
						lp = "C02" // "... an error the scheduler itself produced for a stated cause": the cause is false
					}
					r.failf("violation", lp, "C03.leaver_harmless / C06.no_waiter_timeout", "client %d is attached to operation %d but was told that the task was cancelled because it no longer has any waiting clients", c, op)
				}
				payload := kv["code"] + "/" + kv["tok"]
				tok, _ := strconv.Atoi(kv["tok"])
				if tok > 0 {
					r.flags["worker-result"] = true
				}
				if tok > 0 && !r.released {
					if dg, ok := tokDigest[r][kv["tok"]]; ok {
						if tl := prevTask[strconv.Itoa(op)]; tl != nil && tl["d"] != "" && tl["d"] != dg {
							r.failf("violation", "C02", "C02.faithful", "operation %d (action digest %s) finished with the result a worker reported for action digest %s", op, tl["d"], dg)
						}
					}
				}
				if prev, ok := r.doneTask[op]; ok && prev != payload {
					r.failf("violation", "C02", "C02.faithful", "operation %d reported two different final results (%s, %s)", op, prev, payload)
				}
				r.doneTask[op] = payload
			}
		case "ret":
			c, _ := strconv.Atoi(kv["c"])
			m := r.streams[c]
			if m == nil {
				continue
			}
			m.returned = true
			if kv["code"] == "0" && !m.done {
				r.failf("violation", "C02", "C02.at_most_one_done", "client %d: call returned OK without a message marked done", c)
			}
			if kv["code"] != "0" && !m.cancelled && m.op >= 0 {
				r.failf("violation", "C02", "C02.eventually_done", "client %d: stream of operation %d ended with code %s although the client did not cancel", c, m.op, kv["code"])
			}
		case "sync":
			// the worker's Synchronize call returned now (recorded after this segment's checks)
			newRet[kv["w"]] = r.w.clk.now
			if os.Getenv("SCHED_DEBUG") != "" {
				fmt.Fprintf(os.Stderr, "DBG sync ev=%q now=%d released=%v just=%v delayed=%v\n", ev, r.w.clk.now, r.released, r.justReleased, r.w.delayed)
			}
			if t, ok := r.w.clk.takeReadAt(kv["w"]); ok {
				newRet[kv["w"]] = t // the scheduler saw the time this call had read before it was suspended
				r.segReadAt[kv["w"]] = t
			}
			if len(f) > 2 && f[2] == "exec" {
				wk := kv["w"]
				r.checkNotDrained(wk, st)
				t := taskOfWorker[wk]
				tl := taskLine[t]
				if r.released {
					// several calls ran in this segment: the task may have been taken away again by a later one
				} else if t == "" || t == "-" || tl == nil {
					r.failf("violation", "C01", "C01.sync_executes_only_assigned", "worker %s was told to execute digest %s but no task is assigned to it", wk, kv["d"])
				} else if tl["d"] != kv["d"] || tl["st"] != "3" {
					r.failf("violation", "C01", "C01.sync_executes_only_assigned / C01.completed_never_restarted", "worker %s was told to execute digest %s but its task has digest %s in stage %s", wk, kv["d"], tl["d"], tl["st"])
				}
			}
		}
	}
	// C06/C07: a worker that vanished while executing: its task must have failed with
	// UNAVAILABLE in this very segment (not silently moved elsewhere), and the analyzer is
	// told "failed" only when a worker reported a result in this segment.
	nowWorkers := map[string]bool{}
	for _, item := range strings.Split(dump, "|") {
		if f := strings.Fields(item); len(f) >= 2 && f[0] == "w" {
			nowWorkers[f[1]] = true
		}
	}
	nowTask := map[string]map[string]string{}
	for _, kv := range taskLine {
		for _, o := range strings.Split(kv["ops"], ",") {
			nowTask[o] = kv
		}
	}
	for _, item := range strings.Split(r.last, "|") {
		f := strings.Fields(item)
		if len(f) < 3 || f[0] != "w" || nowWorkers[f[1]] {
			continue
		}
		t := strings.TrimPrefix(f[2], "task=")
		if t == "-" {
			continue
		}
		if tl := nowTask[t]; tl != nil && !(tl["st"] == "4" && tl["code"] == "14") {
			r.failf("violation", timeoutProp(), "C06.worker_timeout", "worker %s disappeared while executing the task of operation %s, but the task is now in stage %s (code %s) instead of having failed with UNAVAILABLE", f[1], t, tl["st"], tl["code"])
		}
	}
	reportedLate := false
	for _, d := range r.justReleased {
		reportedLate = reportedLate || strings.HasPrefix(d.report, "c:")
	}
	if !strings.Contains(r.primary, " c:") && !reportedLate && !r.released {
		for _, ev := range events {
			if strings.HasPrefix(ev, "an learner") && strings.Contains(ev, " failed ") {
				r.failf("violation", "C07", "C07.learner_linear (terminal call matches what happened)", "the learner was told the action failed (%s) in a segment in which no worker reported a result (%s)", ev, r.primary)
			}
		}
	}
	// C06.retry_limit: count how often each task was handed to the worker that holds it: once
	// by the assignment itself (whether or not that response reached the worker) and once
	// more for every later Synchronize call that was answered with the same task again.
	pf := strings.Fields(r.primary)
	for t, tl := range taskLine {
		if tl["st"] != "3" || tl["w"] == "-" {
			continue
		}
		wk := tl["q"] + "/" + tl["w"]
		completedNow := len(pf) > 7 && pf[0] == "sync" && pf[2]+"/"+pf[3]+"/"+pf[6] == wk && strings.HasPrefix(pf[7], "c:")
		pt := prevTask[t]
		if completedNow && pt != nil && strings.Split(pf[7], ":")[1] != pt["d"] {
			completedNow = false // the worker reported the completion of something else: it is handed its task again
		}
		if pt != nil {
			// the task is named after its lowest operation, which may have gone away
			if old := lowestOpOf(pt["ops"]); old != t {
				r.issues[t], r.issuedTo[t] = r.issues[old], r.issuedTo[old]
			}
		}
		if pt == nil || pt["st"] != "3" || pt["q"]+"/"+pt["w"] != wk || completedNow || r.issuedTo[t] != wk {
			r.issuedTo[t], r.issues[t] = wk, 1
			continue
		}
		for _, ev := range events {
			if f := strings.Fields(ev); len(f) > 2 && f[0] == "sync" && f[1] == "w="+wk && f[2] == "exec" {
				r.issues[t]++
			}
		}
	}
	for _, ev := range events {
		f := strings.Fields(ev)
		if len(f) > 1 && f[0] == "msg" && strings.Contains(ev, "done=1 code=13 tok=0") && len(pf) > 0 && pf[0] == "sync" {
			op := strings.TrimPrefix(f[2], "op=")
			if tl := prevTask[op]; tl != nil && tl["st"] == "3" {
				low := lowestOpOf(tl["ops"])
				// the worker was handed the task once and may re-request it WorkerTaskRetryCount times
				if n := r.issues[low]; n < 1+r.w.cfg.retryCount {
					r.failf("violation", timeoutProp(), "C06.retry_limit / C02.faithful", "the task of operation %s failed with INTERNAL (retry limit) after being handed to its current worker only %d time(s); the limit is %d re-requests", op, n, r.w.cfg.retryCount)
				}
			}
		}
	}
	// C03: a request with do_not_cache set is never merged into another task
	if pf := strings.Fields(r.primary); len(pf) > 5 && pf[0] == "exec" && pf[5] == "1" {
		joined := strings.Join(events, ";")
		if strings.Contains(joined, "an sel abandoned") && strings.Contains(joined, "msg c="+pf[2]+" ") {
			r.failf("violation", "C03", "C03.do_not_cache_never_merged", "Execute of client %s has do_not_cache set but was attached to an existing task instead of getting its own", pf[2])
		}
	}
	// C06/C04: the scheduler's notion of time never runs backwards (deadlines, "least recently
	// served" and stickiness windows are all measured with it) and never runs ahead of the clock
	if r.prevSt != nil && st.Now.Before(r.prevSt.Now) {
		tp := "C06"
		if currentProp == "C04" {
			tp = "C04"
		}
		r.failf("violation", tp, "C06.not_earlier / C04 (time is monotone)", "the scheduler's current time went back from %d to %d", r.prevSt.Now.Unix(), st.Now.Unix())
	}
	if st.Now.Unix() > r.w.clk.now {
		r.failf("violation", "C06", "C06.not_earlier", "the scheduler's current time %d is ahead of the clock %d", st.Now.Unix(), r.w.clk.now)
	}
	// C02/C06: at the end of a segment every listening stream has been told the current stage of its
	// task (a stage change wakes every waiter; only a Send that has not been released may lag behind)
	for c, m := range r.streams {
		cl := r.w.clients[c]
		if cl == nil || cl.done || m.cancelled || m.done || m.op < 0 {
			continue
		}
		if _, sending := r.w.sending[c]; sending {
			continue
		}
		if tl := nowTask[strconv.Itoa(m.op)]; tl != nil && tl["st"] != strconv.Itoa(m.lastStage) {
			r.failf("violation", timeoutProp(), "C06.every_sleeper_wakes / C02.eventually_done", "client %d listens to operation %d and was last told stage %d, but its task is in stage %s and nothing is in flight to the client", c, m.op, m.lastStage, tl["st"])
		}
	}
	// C01: every uncompleted task is in exactly one place that the scheduler can still reach: its size
	// class queue exists, and a queued task's operations sit in that queue's invocation tree
	for i := range st.Tasks {
		t := &st.Tasks[i]
		if t.Stage == 4 {
			continue
		}
		var q *scheduler.VerifSizeClassQueue
		for k := range st.SizeClassQueues {
			if c := &st.SizeClassQueues[k]; c.InstanceNamePrefix == t.InstanceNamePrefix && c.Platform == t.Platform && c.SizeClass == t.SizeClass {
				q = c
			}
		}
		if q == nil {
			r.failf("violation", "C01", "C01.exactly_one_place", "the uncompleted task of operation %d (stage %d) belongs to a size class queue that no longer exists", opIndex(t.Operations[0].Name), t.Stage)
			continue
		}
		if t.Stage == 2 {
			queued := map[string]bool{}
			var walk func(i *scheduler.VerifInvocation)
			walk = func(i *scheduler.VerifInvocation) {
				for _, o := range i.QueuedOperations {
					queued[o] = true
				}
				for k := range i.Children {
					walk(&i.Children[k])
				}
			}
			walk(&q.RootInvocation)
			for _, o := range t.Operations {
				if !queued[o.Name] {
					r.failf("violation", "C01", "C01.exactly_one_place", "operation %d of a QUEUED task is not queued in any invocation of its size class queue", opIndex(o.Name))
				}
			}
		}
	}
	// C05: the terminating mark is kept for as long as the worker stays registered, and a worker that
	// synchronizes within the worker timeout stays registered
	if r.termSeen == nil {
		r.termSeen = map[string]bool{}
	}
	marked := map[string]bool{}
	present := map[string]bool{}
	for i := range st.SizeClassQueues {
		q := &st.SizeClassQueues[i]
		id := r.w.pqIDFor(q.InstanceNamePrefix, q.Platform)
		for _, wk := range q.Workers {
			key := fmt.Sprintf("%d/%d/%s", id, q.SizeClass, parseWorkerID(wk.ID))
			present[key] = true
			if wk.Terminating {
				marked[key] = true
			}
		}
	}
	for key := range r.termSeen {
		if marked[key] {
			continue
		}
		last, known := r.syncRet[key]
		if t, ok := newRet[key]; ok {
			_ = t // the call that returned in this segment re-registered the worker at the earliest at its entry
		}
		stale := !r.syncActive[key] && known && r.w.clk.now >= last+r.w.cfg.workerTimeout
		if stale || !known {
			delete(r.termSeen, key) // removed for not synchronizing (and possibly registered afresh): the mark is gone legitimately
			continue
		}
		how := "is no longer registered"
		if present[key] {
			how = "is registered without the mark"
		}
		r.failf("violation", "C05", "C05.terminating_monotone", "worker %s was marked terminating and last synchronized at %d (worker timeout %d, now %d), but it %s", key, last, r.w.cfg.workerTimeout, r.w.clk.now, how)
		delete(r.termSeen, key)
	}
	for key := range marked {
		r.termSeen[key] = true
	}
	// C05: TerminateWorkers marks every registered worker that matches the pattern, whatever it is doing
	if len(pf) == 4 && pf[0] == "term" && !r.released {
		pat := patternMap(pf[3])
		for i := range st.SizeClassQueues {
			for _, wk := range st.SizeClassQueues[i].Workers {
				if workerMatches(wk.ID, pat) && !wk.Terminating {
					r.failf("violation", "C05", "C05.terminating_monotone", "TerminateWorkers(%s) did not mark the matching worker %s as terminating", pf[3], parseWorkerID(wk.ID))
				}
			}
		}
	}
	// C04: no task stays queued while an undrained worker of its queue is waiting for work
	r.checkIdleWaiting(st)
	// C03: same final result for all operations of one task; at most one live cacheable task per digest
	live := map[string]int{}
	for _, t := range st.Tasks {
		if t.Stage != 4 && !t.DoNotCache {
			live[t.ActionInstanceName+"#"+t.ActionDigestHash]++
		}
		if t.Stage == 4 {
			first := ""
			for _, o := range t.Operations {
				if p, ok := r.doneTask[opIndex(o.Name)]; ok {
					if first == "" {
						first = p
					} else if p != first {
						r.failf("violation", "C03", "C03.same_final", "operations of one task received different final results (%s, %s)", first, p)
					}
				}
			}
		}
	}
	for h, n := range live {
		if n > 1 {
			r.failf("violation", "C03", "C03.dedup_map_exact", "%d uncompleted cacheable tasks exist for action %s", n, h)
		}
	}
	// C07a: every selector obtained so far received exactly one call by the end of its segment
	for id, n := range r.w.an.selCalls {
		if n != 1 {
			r.failf("violation", "C07", "C07.selector_linear", "selector %d received %d calls", id, n)
		}
	}
	if len(r.w.an.selCalls) != r.w.an.selectors {
		r.failf("violation", "C07", "C07.selector_linear", "%d selectors were created but only %d received a call", r.w.an.selectors, len(r.w.an.selCalls))
	}
	for tok, n := range r.w.an.learners {
		if n > 1 {
			r.failf("violation", "C07", "C07.learner_linear", "learner %d received %d terminal calls", tok, n)
		}
	}
	// C07a: a task holds a learner iff it is not completed (also part of the hook invariants)
	_ = fmt.Sprintf
}

// currentProp is the property this run of the shared harness was started for.
var currentProp string

// A task failed with "worker disappeared" although the worker did synchronize in time:
// that breaks C06 (timeouts happen at their deadline, not earlier) and C02 (the error a
// client receives names a cause that did not occur).
func timeoutProp() string {
	if currentProp == "C02" {
		return "C02"
	}
	return "C06"
}

// checkNotDrained (C05): a worker that is handed a NEW task in this segment (taken from the
// queue or handed over while parked; not the re-sending of the task it already runs) must
// not have been drained or terminating: it was terminating before the segment, or it matches
// a drain pattern that was in force both before and after the segment.
func (r *run) checkNotDrained(wk string, after *scheduler.VerifState) {
	before := r.prevSt
	k := strings.Split(wk, "/")
	if before == nil || len(k) != 3 {
		return
	}
	pq, sc := atoi(k[0]), atoi(k[1])
	qb, qa := r.w.findQueue(before, pq, sc), r.w.findQueue(after, pq, sc)
	wb, wa := findWorker(qb, k[2]), findWorker(qa, k[2])
	if wb == nil || wa == nil || wa.CurrentTaskOperation == "" || wb.CurrentTaskOperation == wa.CurrentTaskOperation {
		return
	}
	if tb := findTaskByOp(before, wb.CurrentTaskOperation); tb != nil && wb.CurrentTaskOperation != "" {
		// a task is named after its lowest operation; that one may just have expired
		for _, o := range tb.Operations {
			if o.Name == wa.CurrentTaskOperation {
				return
			}
		}
	}
	// The terminating mark belongs to a worker *registration*: when the worker of the previous segment
	// had not synchronised for so long that it was removed as stale on entry, this Synchronize registered
	// a fresh worker under the same id, which starts unmarked.  Drains are per queue and survive that.
	// (only if the worker really had been silent that long by the harness's own account)
	reRegistered := wb.Cleanup != nil && !wb.Cleanup.After(after.Now)
	if last, ok := r.syncRet[wk]; ok && r.w.clk.now < last+r.w.cfg.workerTimeout {
		reRegistered = false
	}
	why := ""
	if wb.Terminating && !reRegistered {
		why = "was marked as terminating"
	}
	for _, db := range qb.Drains {
		if !workerMatches(wb.ID, db) {
			continue
		}
		for _, da := range qa.Drains {
			if patternString(da) == patternString(db) {
				why = "matches the drain " + patternString(db) + " of its size class queue"
			}
		}
	}
	if why != "" {
		how := "took a task from the queue"
		if wb.Parked {
			how = "was handed a task while blocked in Synchronize"
		}
		r.failf("violation", "C05", "C05.no_task_to_drained_worker", "worker %s %s (operation %d) although it %s", wk, how, opIndex(wa.CurrentTaskOperation), why)
	}
}

func workerMatches(id, pattern map[string]string) bool {
	for k, v := range pattern {
		if id[k] != v {
			return false
		}
	}
	return true
}

func lowestOpOf(ops string) string {
	low := ""
	for _, o := range strings.Split(ops, ",") {
		if low == "" || atoi(o) < atoi(low) {
			low = o
		}
	}
	return low
}

// checkIdleWaiting (C04): at the end of a segment every goroutine is blocked.  A worker
// that is blocked inside Synchronize without a task, is neither terminating nor matched by
// a drain, while operations are queued in its size class queue, should have been given one.
func (r *run) checkIdleWaiting(st *scheduler.VerifState) {
	if r.w.clk.holding() {
		return // woken-up workers have deliberately not run yet
	}
	for i := range st.SizeClassQueues {
		q := &st.SizeClassQueues[i]
		queued := 0
		var count func(i *scheduler.VerifInvocation)
		count = func(i *scheduler.VerifInvocation) {
			queued += len(i.QueuedOperations)
			for k := range i.Children {
				count(&i.Children[k])
			}
		}
		count(&q.RootInvocation)
		if queued == 0 {
			continue
		}
		id := r.w.pqIDFor(q.InstanceNamePrefix, q.Platform)
		for _, wk := range q.Workers {
			key := fmt.Sprintf("%d/%d/%s", id, q.SizeClass, parseWorkerID(wk.ID))
			cl, ok := r.w.syncs[key]
			if !ok || cl.done || wk.CurrentTaskOperation != "" || wk.Terminating {
				continue
			}
			drained := false
			for _, d := range q.Drains {
				drained = drained || workerMatches(wk.ID, d)
			}
			if !drained {
				r.failf("violation", "C04", "C04.no_queued_while_parked", "worker %s is blocked in Synchronize waiting for work and is neither drained nor terminating, yet %d operation(s) are queued in its size class queue", key, queued)
			}
		}
	}
}
