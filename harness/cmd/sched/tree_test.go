package sched

import (
	"fmt"
	"os"
	"sort"
	"strconv"
	"strings"
	"time"

	"github.com/buildbarn/bb-remote-execution/pkg/scheduler"

	"verifharness/internal/hx"
)

// SchedTree correspondence (C04 / C06).  lean/BbRe/Model/SchedTree.lean refines the segment
// model of the scheduler with the invocation tree as state: per size class queue the tree of
// invocation objects (queuedOperations / queuedChildren / idleSynchronizingWorkersChildren as
// sets, executingWorkers, lastOperationStarted/Completion, firstQueuedOperationPriority,
// idleWorkersCount, the idleSynchronizingWorkers list), per worker lastInvocation and
// stickinessStartingTimes.  Every line the harness sends to drv_sched is forwarded (modelTaps)
// to drv_schedtree with the extra environment answers of that layer; the two drivers must give
// the same answer (the tree layer projects onto the Sched model and accepts a hand-out decision
// only if it is in the admissible set it computes from its own tree), and after every segment
// the real tree dumped by the verif hook must equal the model's tree (compared as sets, heap
// order ignored).  treeMonitor additionally judges the real tree on its own (no model): the
// counters of every invocation must be what the tasks and workers of the queue add up to, and a
// queue without operations and workers must consist of its root invocation only.

func init() {
	windowChecks = append(windowChecks, treeWindow)
	modelTaps = append(modelTaps, treeTap)
}

var (
	treeDrv    *hx.Driver
	treeFailed bool              // the driver could not be started: reported once
	treeRun    *run              // the history the tree model currently follows
	treeOff    bool              // the tree model lost track of this history (a finding was raised)
	treeRet    map[string]string // worker -> observed stickinessRetained in the current window
	treeCount  = map[string]int{}
	treeDebug  = os.Getenv("TREE_DEBUG") != ""
)

func treeEnabled() bool {
	return currentProp == "" || currentProp == "C04" || currentProp == "C06"
}

func treeProp() string {
	if currentProp == "C06" {
		return "C06"
	}
	return "C04"
}

func treeStart(r *run) bool {
	if treeDrv != nil {
		return true
	}
	if treeFailed {
		return false
	}
	d, err := hx.StartDriver("schedtree")
	if err != nil {
		treeFailed = true
		r.failf("mismatch", treeProp(), "SchedTree correspondence (driver)", "cannot start drv_schedtree: %v", err)
		return false
	}
	treeDrv = d
	return true
}

// ---- the real tree in the format of the driver's `treedump` ---------------------------------

func pathStr(w *world, keys []string) string {
	if len(keys) == 0 {
		return "-"
	}
	return w.invPath(keys)
}

func natsStr(l []int) string {
	if len(l) == 0 {
		return "-"
	}
	sort.Ints(l)
	parts := make([]string, len(l))
	for i, x := range l {
		parts[i] = strconv.Itoa(x)
	}
	return strings.Join(parts, ",")
}

func (w *world) lastKeyNum(keys []string) int {
	n, _ := strconv.Atoi(w.invPath(keys[len(keys)-1:]))
	return n
}

func treeNodes(w *world, q string, vi *scheduler.VerifInvocation, items *[]string) {
	var ops, qk, ik []int
	for _, name := range vi.QueuedOperations {
		ops = append(ops, opIndex(name))
	}
	for _, k := range vi.QueuedChildren {
		qk = append(qk, w.lastKeyNum(k))
	}
	for _, k := range vi.IdleSynchronizingWorkersChildren {
		ik = append(ik, w.lastKeyNum(k))
	}
	parked := "-"
	if len(vi.IdleSynchronizingWorkers) > 0 {
		// compared as a set: when several Synchronize calls parked at one invocation are woken in one
		// segment, the order in which they dequeue themselves (swap-remove) is the Go scheduler's choice
		parts := make([]string, len(vi.IdleSynchronizingWorkers))
		for i, id := range vi.IdleSynchronizingWorkers {
			parts[i] = parseWorkerID(id)
		}
		sort.Strings(parts)
		parked = strings.Join(parts, ",")
	}
	// firstQueuedOperationPriority of an invocation that is not queued is a leftover that depends on
	// the order of `range t.operations`; it is never read.  The root's is never read either (it has no
	// siblings) and is refreshed by increment/decrementExecutingWorkersCount only, not by enqueue /
	// removeQueuedFromInvocation, so it shows leftovers that depend on the order of cancellations.
	prio := "-"
	if (len(ops) > 0 || len(qk) > 0) && len(vi.Keys) > 0 {
		prio = strconv.Itoa(int(vi.FirstQueuedOperationPriority))
	}
	*items = append(*items, fmt.Sprintf("n %s p=%s ops=%s qk=%s ik=%s prio=%s ex=%d/%d st=%d co=%d idle=%d parked=%s",
		q, pathStr(w, vi.Keys), natsStr(ops), natsStr(qk), natsStr(ik), prio,
		vi.ExecutingWorkersCount, vi.ExecutingOperationsCount, unixOrZero(vi.LastOperationStarted), unixOrZero(vi.LastOperationCompletion),
		vi.IdleWorkersCount, parked))
	for i := range vi.Children {
		treeNodes(w, q, &vi.Children[i], items)
	}
}

// canonTree renders the invocation trees, the workers' lastInvocation / stickinessStartingTimes
// and the tasks' expected duration / queued timestamp like the Lean driver's `treedump`.
func (w *world) canonTree(s *scheduler.VerifState) string {
	var items []string
	for i := range s.SizeClassQueues {
		q := &s.SizeClassQueues[i]
		id := fmt.Sprintf("%d/%d", w.pqIDFor(q.InstanceNamePrefix, q.Platform), q.SizeClass)
		treeNodes(w, id, &q.RootInvocation, &items)
		for _, wk := range q.Workers {
			last := "nil"
			if wk.HasLastInvocation {
				last = pathStr(w, wk.LastInvocationKeys)
			}
			sticks := "-"
			if len(wk.StickinessStartingTimes) > 0 {
				parts := make([]string, len(wk.StickinessStartingTimes))
				for i, t := range wk.StickinessStartingTimes {
					parts[i] = strconv.FormatInt(unixOrZero(t), 10)
				}
				sticks = strings.Join(parts, ",")
			}
			items = append(items, fmt.Sprintf("x %s/%s last=%s sticks=%s parked=%s", id, parseWorkerID(wk.ID), last, sticks, b01(wk.Parked)))
		}
	}
	for _, t := range s.Tasks {
		low := -1
		for _, o := range t.Operations {
			if n := opIndex(o.Name); low < 0 || n < low {
				low = n
			}
		}
		items = append(items, fmt.Sprintf("y %d dur=%d qts=%d", low, int64(t.ExpectedDuration/time.Second), unixOrZero(t.QueuedTimestamp)))
	}
	sort.Strings(items)
	return strings.Join(items, "|")
}

// ---- forwarding the model lines -----------------------------------------------------------------

// workerOfLine returns the worker ("pq/sc/h.t") whose Synchronize call a model line continues.
func workerOfLine(f []string) string {
	switch {
	case len(f) >= 7 && f[0] == "sync":
		return f[2] + "/" + f[3] + "/" + f[6]
	case len(f) >= 5 && f[0] == "wwake":
		return f[2] + "/" + f[3] + "/" + f[4]
	}
	return ""
}

func treeTap(r *run, line, out string) {
	if !treeEnabled() || r.noModel {
		return
	}
	f := strings.Fields(line)
	if len(f) == 0 {
		return
	}
	if f[0] == "cfg" {
		if !treeStart(r) {
			return
		}
		treeRun, treeOff, treeRet = r, false, nil
		if o, err := treeDrv.Ask(line); err != nil || o != out {
			treeOff = true
			r.failf("mismatch", treeProp(), "SchedTree correspondence (driver)", "cfg: %v %s", err, o)
		}
		return
	}
	if treeDrv == nil || treeRun != r || treeOff || r.fail != nil {
		return
	}
	w := r.w
	mismatch := func(name, format string, args ...any) {
		treeOff = true
		r.failf("mismatch", treeProp(), "SchedTree correspondence: "+name, format, args...)
	}
	switch f[0] {
	case "regpq":
		// the stickiness limits are not part of the Sched model's line: read them back from the hook
		stick := "-"
		st := r.safeDump()
		if st == nil {
			return
		}
		for i := range st.SizeClassQueues {
			q := &st.SizeClassQueues[i]
			if strconv.Itoa(w.pqIDFor(q.InstanceNamePrefix, q.Platform)) == f[1] {
				var l []int
				for _, d := range q.StickinessLimits {
					l = append(l, int(d/time.Second))
				}
				stick = intsStr(l)
			}
		}
		o, err := treeDrv.Ask(line + " stick=" + stick)
		if err != nil || o != out {
			mismatch("refines_sched (same answer as the Sched model)", "regpq: %v %q vs %q", err, o, out)
		}
	case "dump":
		o, err := treeDrv.Ask("dump")
		if err != nil || o != out {
			mismatch("refines_sched (projection of the tree layer = state of the Sched model)", "%v: %s", err, firstDiff(o, out))
			if r.fail != nil {
				r.fail.expected, r.fail.actual = o, out
			}
			return
		}
		mt, err := treeDrv.Ask("treedump")
		if err != nil {
			mismatch("driver", "treedump: %v", err)
			return
		}
		treeCount["segments-compared"]++
		if r.prevSt == nil {
			return
		}
		// the executable form of tree_inv (TreeOK for the bags computed from the state + the coupling with
		// the Sched tables) on the model's own state
		if ck, err := treeDrv.Ask("treecheck"); err != nil || ck != "ok" {
			treeCount["treecheck-failed"]++
			mismatch("tree_inv (executable form evaluated on the model state)", "treecheck after %q: %v %s", strings.Join(watchLast(), " ; "), err, ck)
			return
		}
		it := w.canonTree(r.prevSt)
		if mt != it {
			treeCount["tree-differs"]++
			mismatch("invocation tree after the segment (tree_inv / no_invocations_retained rest on it)", "tree differs after %q: %s", strings.Join(watchLast(), " ; "), firstDiff(mt, it))
			if r.fail != nil {
				r.fail.expected, r.fail.actual = mt, it
			}
		}
	default:
		// two operations of one task are removed by cleanups due at the same instant: which one is the
		// task's last operation depends on the layout of the cleanup heap (timestamps of the tree differ)
		if f[0] != "twake" && len(f) > 1 {
			if tie, err := treeDrv.Ask("treetie " + f[1]); err == nil && tie == "1" {
				treeCount["history-discarded-same-task-operation-cleanup-tie"]++
				r.tie, treeOff = true, true
				return
			}
		}
		// the answers of the scripted analyzer the Sched model has no use for, and the observed
		// stickinessRetained of the worker this line belongs to
		d := 10 + 3*w.an.dur
		extra := fmt.Sprintf(" dur=%d,%d,%d,%d bgdur=7 rdur=20", d, d+1, d+2, d+3)
		if k := workerOfLine(f); k != "" {
			if ret, ok := treeRet[k]; ok {
				extra += " ret=" + ret
			}
		}
		o, err := treeDrv.Ask(line + extra)
		if treeDebug {
			fmt.Fprintf(os.Stderr, "TREE %s%s\n  -> %s\n", line, extra, o)
		}
		if err != nil {
			mismatch("driver", "%v", err)
			return
		}
		if strings.HasPrefix(out, "model-error") || out == "bad-op" {
			treeOff = true // the Sched model itself rejects the segment: reported by the harness
			return
		}
		if o != out {
			treeCount["answer-differs"]++
			name := "refines_sched (same events and enabled continuations as the Sched model)"
			if strings.HasPrefix(o, "model-error mismatch:") {
				name = "handoff_and_pick_admissible (the hand-out decision of the implementation is outside the set the tree layer computes from its tree)"
			} else if strings.HasPrefix(o, "model-error tree:") {
				name = "tree_inv (the tree of the model contradicts its task/worker tables)"
			}
			mismatch(name, "on %q the tree layer answers %q, the Sched model %q", line+extra, o, out)
			if r.fail != nil {
				r.fail.expected, r.fail.actual = o, out
			}
		}
	}
}

func watchLast() []string {
	watchMu.Lock()
	defer watchMu.Unlock()
	if n := len(watchLines); n > 0 {
		return watchLines[n-1:]
	}
	return nil
}

// ---- per window: observed stickinessRetained, and the monitor ---------------------------------------

func treeWindow(r *run, primary string, before, after *scheduler.VerifState, events []string) {
	if !treeEnabled() || after == nil {
		return
	}
	// stickinessRetained of every worker that obtained a task in this window: the levels from the
	// first one on whose starting time is not "now" were kept
	treeRet = map[string]string{}
	now := after.Now.Unix()
	for i := range after.SizeClassQueues {
		q := &after.SizeClassQueues[i]
		id := fmt.Sprintf("%d/%d", r.w.pqIDFor(q.InstanceNamePrefix, q.Platform), q.SizeClass)
		for _, wk := range q.Workers {
			if wk.CurrentTaskOperation == "" {
				continue
			}
			ret := 0
			for i, t := range wk.StickinessStartingTimes {
				if unixOrZero(t) != now {
					ret = i + 1
				}
			}
			treeRet[id+"/"+parseWorkerID(wk.ID)] = strconv.Itoa(ret)
		}
	}
	treeMonitor(r, after)
}

type treeAgg struct {
	execOps     int
	execWorkers map[string]bool
	idle        int
}

// treeMonitor judges the dumped tree of every size class queue against the queue's own tasks and
// workers (no model involved).
func treeMonitor(r *run, st *scheduler.VerifState) {
	w := r.w
	for i := range st.SizeClassQueues {
		q := &st.SizeClassQueues[i]
		id := fmt.Sprintf("%d/%d", w.pqIDFor(q.InstanceNamePrefix, q.Platform), q.SizeClass)
		want := map[string]*treeAgg{}
		get := func(p string) *treeAgg {
			a := want[p]
			if a == nil {
				a = &treeAgg{execWorkers: map[string]bool{}}
				want[p] = a
			}
			return a
		}
		prefixesOf := func(keys []string) []string {
			out := []string{"-"}
			for i := 1; i <= len(keys); i++ {
				out = append(out, w.invPath(keys[:i]))
			}
			return out
		}
		live := 0
		for _, t := range st.Tasks {
			if fmt.Sprintf("%d/%d", w.pqIDFor(t.InstanceNamePrefix, t.Platform), t.SizeClass) != id {
				continue
			}
			if t.Stage != 4 {
				live += len(t.Operations)
			}
			if t.Stage != 3 || t.WorkerID == nil {
				continue
			}
			for _, o := range t.Operations {
				for _, p := range prefixesOf(o.InvocationKeys) {
					a := get(p)
					a.execOps++
					a.execWorkers[parseWorkerID(t.WorkerID)] = true
				}
			}
		}
		for _, wk := range q.Workers {
			if wk.HasLastInvocation {
				for _, p := range prefixesOf(wk.LastInvocationKeys) {
					get(p).idle++
				}
			}
		}
		var walk func(vi *scheduler.VerifInvocation)
		walk = func(vi *scheduler.VerifInvocation) {
			if r.fail != nil {
				return
			}
			p := pathStr(w, vi.Keys)
			a := get(p)
			if vi.ExecutingOperationsCount != a.execOps || vi.ExecutingWorkersCount != len(a.execWorkers) {
				r.failf("violation", "C04", "C04Tree.tree_inv (executingWorkers = operations of executing tasks below the invocation)",
					"size class queue %s, invocation %s: executingWorkers holds %d workers / %d operations, but the executing tasks of the queue have %d operations on %d workers at or below it (the score (executing+1)*2^(priority/100) is computed from this counter)",
					id, p, vi.ExecutingWorkersCount, vi.ExecutingOperationsCount, a.execOps, len(a.execWorkers))
				return
			}
			if int(vi.IdleWorkersCount) != a.idle {
				r.failf("violation", "C06", "C06Tree.no_invocations_retained / tree_inv (idleWorkersCount = workers whose last invocation is at or below the invocation)",
					"size class queue %s, invocation %s: idleWorkersCount is %d, but %d workers of the queue have their last invocation at or below it (a non-zero count keeps the invocation alive forever)",
					id, p, vi.IdleWorkersCount, a.idle)
				return
			}
			delete(want, p)
			// notes/findings/C04-stale-first-priority.md (fixed in /repo): the documented meaning of
			// firstQueuedOperationPriority for an invocation without directly queued operations is the
			// priority of the operation its first queued child would hand out next.
			if len(vi.Keys) > 0 && len(vi.QueuedOperations) == 0 && len(vi.QueuedChildren) > 0 {
				first := pathStr(w, vi.QueuedChildren[0])
				for i := range vi.Children {
					if pathStr(w, vi.Children[i].Keys) == first && vi.Children[i].FirstQueuedOperationPriority != vi.FirstQueuedOperationPriority {
						r.failf("violation", "C04", "firstQueuedOperationPriority is the priority of the operation expected to be executed next",
							"size class queue %s, invocation %s: firstQueuedOperationPriority is %d, but its first queued child %s has %d (increment/decrementExecutingWorkersCount reorder queuedChildren without refreshing the cached priority of the ancestors)",
							id, p, vi.FirstQueuedOperationPriority, first, vi.Children[i].FirstQueuedOperationPriority)
						return
					}
				}
			}
			for i := range vi.Children {
				walk(&vi.Children[i])
			}
		}
		walk(&q.RootInvocation)
		if r.fail != nil {
			return
		}
		for p, a := range want {
			if a.execOps > 0 || a.idle > 0 {
				r.failf("violation", "C06", "C04Tree.tree_inv (an invocation exists while it is active or holds idle workers)",
					"size class queue %s: invocation %s does not exist although %d executing operations and %d idle workers refer to it", id, p, a.execOps, a.idle)
				return
			}
		}
		if live == 0 && len(q.Workers) == 0 && len(q.RootInvocation.Children) > 0 {
			r.failf("violation", "C06", "C06Tree.no_invocations_retained", "size class queue %s has no uncompleted operations and no workers but its tree still holds %d invocations below the root (first: %s)",
				id, len(q.RootInvocation.Children), pathStr(w, q.RootInvocation.Children[0].Keys))
			return
		}
	}
}

// treeFinish adds the statistics of the tree correspondence to the result (called by TestHarness
// when present; the counters are also printed with TREE_DEBUG).
func treeFinish(res *hx.Result) {
	for k, v := range treeCount {
		res.Histogram["tree-"+k] += v
	}
	if treeDrv != nil {
		res.ModelLines += treeDrv.Lines
	}
}
