package sched

import (
	"context"
	"fmt"
	"runtime"
	"sort"
	"strconv"
	"strings"
	"sync"
	"sync/atomic"
	"time"

	"cloud.google.com/go/longrunning/autogen/longrunningpb"
	remoteexecution "github.com/bazelbuild/remote-apis/build/bazel/remote/execution/v2"
	"github.com/buildbarn/bb-remote-execution/pkg/proto/buildqueuestate"
	"github.com/buildbarn/bb-remote-execution/pkg/proto/remoteworker"
	"github.com/buildbarn/bb-remote-execution/pkg/scheduler"
	"github.com/buildbarn/bb-remote-execution/pkg/scheduler/initialsizeclass"
	"github.com/buildbarn/bb-remote-execution/pkg/scheduler/invocation"
	"github.com/buildbarn/bb-remote-execution/pkg/scheduler/platform"
	"github.com/buildbarn/bb-storage/pkg/auth"
	"github.com/buildbarn/bb-storage/pkg/blobstore"
	"github.com/buildbarn/bb-storage/pkg/blobstore/buffer"
	"github.com/buildbarn/bb-storage/pkg/clock"
	"github.com/buildbarn/bb-storage/pkg/digest"
	"github.com/buildbarn/bb-storage/pkg/util"
	"github.com/google/uuid"
	status_pb "google.golang.org/genproto/googleapis/rpc/status"
	"google.golang.org/grpc"
	"google.golang.org/grpc/codes"
	"google.golang.org/grpc/metadata"
	"google.golang.org/grpc/status"
	"google.golang.org/protobuf/proto"
	"google.golang.org/protobuf/types/known/anypb"
	"google.golang.org/protobuf/types/known/emptypb"
	"google.golang.org/protobuf/types/known/wrapperspb"
)

const epoch = 800000 // fake clock starts here (seconds)

// ---- fake clock -------------------------------------------------------------

type fakeTimer struct {
	c        *fakeClock
	ch       chan time.Time
	deadline int64
	dead     bool
}

func (t *fakeTimer) Stop() bool {
	t.c.mu.Lock()
	defer t.c.mu.Unlock()
	was := !t.dead
	t.dead = true
	return was
}

type fakeClock struct {
	mu     sync.Mutex
	now    int64
	timers []*fakeTimer
	// While gate is non-nil, Synchronize goroutines (held) that read the clock are suspended.
	// The scheduler reads the clock right before every acquisition of its lock
	// (bq.enter(bq.clock.Now())), so this keeps a woken-up worker from re-taking the lock
	// while further calls run to completion: the interleavings in which the reason for a
	// wake-up is gone again by the time the worker looks.
	gate    chan struct{}
	gateSeq int
	held    map[uint64]int    // Synchronize goroutine -> number of holds begun before it started
	names   map[uint64]string // Synchronize goroutine -> worker key
	readAt  map[string]int64  // worker key -> clock value its suspended call had read
	reads   atomic.Int64      // number of clock reads so far
	selMark map[uint64]bool   // Execute goroutines whose size class selection takes until the hold ends
	auth    map[uint64]bool   // WaitExecution goroutines whose authorization takes until the hold ends
}

type delayedSync struct {
	report string
	at     int64  // clock value the call read
	line   string // the model's primary segment of the call (fed when the call reaches the scheduler)
}

// gatedAuthorizer is the execute authorizer: it allows everything, but the authorization
// of a WaitExecution call that was started with hold=1 takes until the hold is released
// (the scheduler drops its lock around the authorizer, which "may block").
type gatedAuthorizer struct {
	auth.Authorizer
	c *fakeClock
}

func (a gatedAuthorizer) Authorize(ctx context.Context, instanceNames []digest.InstanceName) []error {
	a.c.mu.Lock()
	g := a.c.gate
	mine := a.c.auth[goid()]
	a.c.mu.Unlock()
	if g != nil && mine {
		<-g
	}
	return a.Authorizer.Authorize(ctx, instanceNames)
}

// markSel / selGate: a selector whose Select call takes until the hold ends.  The scheduler calls
// Select with its lock held, so nothing else may touch the scheduler in the meantime.
func (c *fakeClock) markSel() {
	c.mu.Lock()
	if c.selMark == nil {
		c.selMark = map[uint64]bool{}
	}
	c.selMark[goid()] = true
	c.mu.Unlock()
}

func (c *fakeClock) selGate() {
	c.mu.Lock()
	g := c.gate
	mine := c.selMark[goid()]
	delete(c.selMark, goid())
	c.mu.Unlock()
	if g != nil && mine {
		<-g
	}
}

func (c *fakeClock) markAuth() {
	c.mu.Lock()
	if c.auth == nil {
		c.auth = map[uint64]bool{}
	}
	c.auth[goid()] = true
	c.mu.Unlock()
}

func goid() uint64 {
	var buf [64]byte
	n := runtime.Stack(buf[:], false)
	f := strings.Fields(string(buf[:n]))
	id, _ := strconv.ParseUint(f[1], 10, 64)
	return id
}

func (c *fakeClock) Now() time.Time {
	c.reads.Add(1)
	c.mu.Lock()
	now := time.Unix(c.now, 0)
	if g := c.gate; g != nil {
		// only calls that were already in progress when the hold began are suspended (or a new
		// call started with hold=2); they have read the clock and are overtaken by whatever
		// runs until the hold ends, i.e. they enter the scheduler with an old time stamp
		if since, ok := c.held[goid()]; ok && since < c.gateSeq {
			if c.readAt == nil {
				c.readAt = map[string]int64{}
			}
			c.readAt[c.names[goid()]] = c.now
			c.mu.Unlock()
			<-g
			return now
		}
	}
	c.mu.Unlock()
	return now
}

// markDelayed makes the calling goroutine's next clock read (the one in front of its first
// acquisition of the scheduler lock) wait for the end of the current hold.
func (c *fakeClock) markDelayed() {
	c.mu.Lock()
	if c.held == nil {
		c.held = map[uint64]int{}
	}
	c.held[goid()] = c.gateSeq - 1
	c.mu.Unlock()
}

func (c *fakeClock) markHeld(key string) {
	c.mu.Lock()
	if c.held == nil {
		c.held = map[uint64]int{}
		c.names = map[uint64]string{}
	}
	c.names[goid()] = key
	c.held[goid()] = c.gateSeq
	c.mu.Unlock()
}

func (c *fakeClock) unmarkHeld() {
	c.mu.Lock()
	delete(c.held, goid())
	delete(c.names, goid())
	c.mu.Unlock()
}

func (c *fakeClock) hold() {
	c.mu.Lock()
	if c.gate == nil {
		c.gate = make(chan struct{})
		c.gateSeq++
	}
	c.mu.Unlock()
}

func (c *fakeClock) holding() bool {
	c.mu.Lock()
	defer c.mu.Unlock()
	return c.gate != nil
}

func (c *fakeClock) release() {
	c.mu.Lock()
	if c.gate != nil {
		close(c.gate)
		c.gate = nil
	}
	c.mu.Unlock()
}

func (c *fakeClock) NewContextWithTimeout(p context.Context, d time.Duration) (context.Context, context.CancelFunc) {
	return context.WithCancel(p)
}

func (c *fakeClock) NewTimer(d time.Duration) (clock.Timer, <-chan time.Time) {
	c.mu.Lock()
	defer c.mu.Unlock()
	t := &fakeTimer{c: c, ch: make(chan time.Time, 1), deadline: c.now + int64(d/time.Second)}
	c.timers = append(c.timers, t)
	return t, t.ch
}

func (c *fakeClock) NewTicker(d time.Duration) (clock.Ticker, <-chan time.Time) {
	panic("tickers are not used by the scheduler")
}

// advance moves the clock and fires every live timer that is due.
func (c *fakeClock) advance(to int64) int {
	c.mu.Lock()
	defer c.mu.Unlock()
	c.now = to
	fired := 0
	live := c.timers[:0]
	for _, t := range c.timers {
		if t.dead {
			continue
		}
		if t.deadline <= to {
			t.dead = true
			t.ch <- time.Unix(to, 0)
			fired++
			continue
		}
		live = append(live, t)
	}
	c.timers = live
	return fired
}

// ---- fake CAS ----------------------------------------------------------------

type fakeCAS struct {
	blobstore.BlobAccess
	mu      sync.Mutex
	actions map[string]*remoteexecution.Action
}

func (f *fakeCAS) Get(ctx context.Context, d digest.Digest) buffer.Buffer {
	f.mu.Lock()
	defer f.mu.Unlock()
	a, ok := f.actions[d.GetHashString()]
	if !ok {
		return buffer.NewBufferFromError(status.Error(codes.NotFound, "no such action"))
	}
	return buffer.NewProtoBufferFromProto(a, buffer.UserProvided)
}

// ---- scripted, instrumented analyzer / router -----------------------------------

type analyzerState struct {
	w           *world
	nextLearner int
	sel         int
	dur         int // expected duration class of the next Select (0..3)
	bg          int // -1: none
	retry       bool
	selectors   int
	selCalls    map[int]int
	learners    map[int]int // terminal calls per learner token
}

type selector struct {
	a  *analyzerState
	id int
}

type learner struct {
	a   *analyzerState
	tok int
}

func (a *analyzerState) newLearner() *learner {
	a.nextLearner++
	a.learners[a.nextLearner] = 0
	return &learner{a: a, tok: a.nextLearner}
}

func (s *selector) Select(sizeClasses []uint32) (int, time.Duration, time.Duration, initialsizeclass.Learner) {
	s.a.w.clk.selGate()
	s.a.selCalls[s.id]++
	idx := s.a.sel
	if idx >= len(sizeClasses) {
		idx = len(sizeClasses) - 1
	}
	l := s.a.newLearner()
	s.a.w.event("an", fmt.Sprintf("an sel select l=%d", l.tok))
	return idx, time.Duration(10+idx+3*s.a.dur) * time.Second, time.Hour, l
}

func (s *selector) Abandoned() {
	s.a.selCalls[s.id]++
	s.a.w.event("an", "an sel abandoned")
}

func (l *learner) Succeeded(d time.Duration, sizeClasses []uint32) (int, time.Duration, time.Duration, initialsizeclass.Learner) {
	l.a.learners[l.tok]++
	if l.a.bg < 0 {
		l.a.w.event("an", fmt.Sprintf("an learner l=%d succeeded bg=-", l.tok))
		return 0, 0, 0, nil
	}
	nl := l.a.newLearner()
	l.a.w.event("an", fmt.Sprintf("an learner l=%d succeeded bg=%d", l.tok, nl.tok))
	idx := l.a.bg
	if idx >= len(sizeClasses) {
		idx = len(sizeClasses) - 1
	}
	return idx, 7 * time.Second, time.Hour, nl
}

func (l *learner) Failed(timedOut bool) (time.Duration, time.Duration, initialsizeclass.Learner) {
	l.a.learners[l.tok]++
	to := 0
	if timedOut {
		to = 1
	}
	if !l.a.retry {
		l.a.w.event("an", fmt.Sprintf("an learner l=%d failed to=%d next=-", l.tok, to))
		return 0, 0, nil
	}
	nl := l.a.newLearner()
	l.a.w.event("an", fmt.Sprintf("an learner l=%d failed to=%d next=%d", l.tok, to, nl.tok))
	return 20 * time.Second, time.Hour, nl
}

func (l *learner) Abandoned() {
	l.a.learners[l.tok]++
	l.a.w.event("an", fmt.Sprintf("an learner l=%d abandoned", l.tok))
}

type router struct{ w *world }

func (r router) RouteAction(ctx context.Context, digestFunction digest.Function, action *remoteexecution.Action, requestMetadata *remoteexecution.RequestMetadata) (*remoteexecution.Action, platform.Key, []invocation.Key, initialsizeclass.Selector, error) {
	pk, err := platform.NewKey(digestFunction.GetInstanceName(), action.Platform)
	if err != nil {
		return nil, platform.Key{}, nil, nil, err
	}
	var keys []invocation.Key
	if inv := requestMetadata.GetToolInvocationId(); inv != "" && inv != "-" {
		for _, part := range strings.Split(inv, ",") {
			n, _ := strconv.Atoi(part)
			keys = append(keys, r.w.invKey(n))
		}
	}
	a := r.w.an
	a.selectors++
	return action, pk, keys, &selector{a: a, id: a.selectors}, nil
}

// ---- the world ---------------------------------------------------------------------

type config struct {
	update, idle, noWaiter, pqTimeout, busy, workerTimeout int64
	retryCount                                             int
}

type call struct {
	cancel context.CancelFunc
	done   bool
}

type world struct {
	cfg   config
	clk   *fakeClock
	cas   *fakeCAS
	bq    *scheduler.InMemoryBuildQueue
	an    *analyzerState
	mu    sync.Mutex
	evs   []evt
	uuidN int

	pqIDs          map[string]int // "prefix|platform string" -> id
	pqNext         int
	invKeys        map[int]invocation.Key
	invRev         map[string]int
	digests        map[string]int // hash -> index
	clients        map[int]*call
	syncs          map[string]*call // worker key -> active Synchronize
	terms          map[int]*call
	panicked       string
	dkeys          map[string]int
	pqSpec         map[int]string         // id -> "comps plat"
	gateAuth       bool                   // monitor-only histories: the authorization of a WaitExecution started under a hold takes until the hold ends
	slowSelectNext bool                   // the next Execute's size class selection takes until the hold ends (hold=3)
	delayNext      bool                   // the next Synchronize call is overtaken between its clock read and the scheduler lock (hold=2)
	delayed        map[string]delayedSync // such calls that have not reached the scheduler yet
	slowSends      bool
	sending        map[int]*sendGate
}

type evt struct{ ent, text string }

func (w *world) event(ent, text string) {
	w.mu.Lock()
	w.evs = append(w.evs, evt{ent, text})
	w.mu.Unlock()
}

func (w *world) takeEvents() []evt {
	w.mu.Lock()
	defer w.mu.Unlock()
	e := w.evs
	w.evs = nil
	return e
}

func (w *world) invKey(n int) invocation.Key {
	if n == 0 {
		return invocation.BackgroundLearningKeys[0]
	}
	if k, ok := w.invKeys[n]; ok {
		return k
	}
	any, _ := anypb.New(wrapperspb.UInt32(uint32(n)))
	k, err := invocation.NewKey(any)
	if err != nil {
		panic(err)
	}
	w.invKeys[n] = k
	w.invRev[string(k)] = n
	return k
}

func (w *world) invPath(keys []string) string {
	if len(keys) == 0 {
		return ""
	}
	parts := make([]string, len(keys))
	for i, k := range keys {
		if k == string(invocation.BackgroundLearningKeys[0]) {
			parts[i] = "0"
		} else if n, ok := w.invRev[k]; ok {
			parts[i] = strconv.Itoa(n)
		} else {
			parts[i] = "?"
		}
	}
	return strings.Join(parts, ",")
}

func compsToInstance(comps []int) string {
	parts := make([]string, len(comps))
	for i, c := range comps {
		parts[i] = "i" + strconv.Itoa(c)
	}
	return strings.Join(parts, "/")
}

func platformMsg(p int) *remoteexecution.Platform {
	if p == 0 {
		return &remoteexecution.Platform{}
	}
	return &remoteexecution.Platform{Properties: []*remoteexecution.Platform_Property{{Name: "os", Value: "p" + strconv.Itoa(p)}}}
}

// pqID interns a platform key; the same function is applied to what the hook dumps.
func (w *world) pqIDFor(prefix, platformString string) int {
	k := prefix + "|" + platformString
	if id, ok := w.pqIDs[k]; ok {
		return id
	}
	w.pqNext++
	w.pqIDs[k] = w.pqNext
	return w.pqNext
}

func (w *world) pqID(comps []int, plat int) int {
	in := mustInstance(compsToInstance(comps))
	pk, err := platform.NewKey(in, platformMsg(plat))
	if err != nil {
		panic(err)
	}
	id := w.pqIDFor(pk.GetInstanceNamePrefix().String(), pk.GetPlatformString())
	w.pqSpec[id] = fmt.Sprintf("%s %d", intsStr(comps), plat)
	return id
}

func digestHash(d int) string {
	return fmt.Sprintf("%064x", d+1)
}

func (w *world) digestProto(d int) *remoteexecution.Digest {
	w.digests[digestHash(d)] = d
	return &remoteexecution.Digest{Hash: digestHash(d), SizeBytes: int64(d + 1)}
}

func workerID(h, t int) map[string]string {
	return map[string]string{"host": "h" + strconv.Itoa(h), "thread": "t" + strconv.Itoa(t)}
}

func parseWorkerID(id map[string]string) string {
	return strings.TrimPrefix(id["host"], "h") + "." + strings.TrimPrefix(id["thread"], "t")
}

func patternMap(p string) map[string]string {
	m := map[string]string{}
	parts := strings.Split(p, ".")
	if parts[0] != "*" {
		m["host"] = "h" + parts[0]
	}
	if parts[1] != "*" {
		m["thread"] = "t" + parts[1]
	}
	return m
}

func patternString(m map[string]string) string {
	h, t := "*", "*"
	if v, ok := m["host"]; ok {
		h = strings.TrimPrefix(v, "h")
	}
	if v, ok := m["thread"]; ok {
		t = strings.TrimPrefix(v, "t")
	}
	return h + "." + t
}

func opIndex(name string) int {
	u, err := uuid.Parse(name)
	if err != nil {
		return -1
	}
	n := 0
	for _, b := range u[8:] {
		n = n<<8 | int(b)
	}
	return n
}

func newWorld(cfg config) *world {
	w := &world{cfg: cfg, clk: &fakeClock{now: epoch}, cas: &fakeCAS{actions: map[string]*remoteexecution.Action{}},
		pqIDs: map[string]int{}, invKeys: map[int]invocation.Key{}, invRev: map[string]int{}, digests: map[string]int{},
		clients: map[int]*call{}, syncs: map[string]*call{}, terms: map[int]*call{}, dkeys: map[string]int{}, pqSpec: map[int]string{}, sending: map[int]*sendGate{}}
	w.an = &analyzerState{w: w, bg: -1, selCalls: map[int]int{}, learners: map[int]int{}}
	var allow auth.Authorizer = gatedAuthorizer{auth.NewStaticAuthorizer(func(digest.InstanceName) bool { return true }), w.clk}
	gen := func() (uuid.UUID, error) {
		w.uuidN++
		var u uuid.UUID
		n := w.uuidN
		for i := 15; i >= 8; i-- {
			u[i] = byte(n)
			n >>= 8
		}
		return u, nil
	}
	w.bq = scheduler.NewInMemoryBuildQueue(w.cas, w.clk, util.UUIDGenerator(gen), &scheduler.InMemoryBuildQueueConfiguration{
		ExecutionUpdateInterval:              time.Duration(cfg.update) * time.Second,
		OperationWithNoWaitersTimeout:        time.Duration(cfg.noWaiter) * time.Second,
		PlatformQueueWithNoWorkersTimeout:    time.Duration(cfg.pqTimeout) * time.Second,
		BusyWorkerSynchronizationInterval:    time.Duration(cfg.busy) * time.Second,
		GetIdleWorkerSynchronizationInterval: func() time.Duration { return time.Duration(cfg.idle) * time.Second },
		WorkerTaskRetryCount:                 cfg.retryCount,
		WorkerWithNoSynchronizationsTimeout:  time.Duration(cfg.workerTimeout) * time.Second,
	}, 1<<20, router{w}, allow, allow, allow, allow)
	return w
}

// ---- streams ------------------------------------------------------------------------

type stream struct {
	grpc.ServerStream
	w   *world
	c   int
	ctx context.Context
}

// slowSends (monitor-only histories): Send blocks until the harness releases it, so
// that other segments can run while a message is "on the wire".
type sendGate struct {
	release chan struct{}
}

func (s *stream) Context() context.Context { return s.ctx }

func (s *stream) Send(o *longrunningpb.Operation) error {
	var md remoteexecution.ExecuteOperationMetadata
	o.Metadata.UnmarshalTo(&md)
	code, tok := 0, 0
	done := 0
	if o.Done {
		done = 1
		var r remoteexecution.ExecuteResponse
		o.GetResponse().UnmarshalTo(&r)
		code = int(r.GetStatus().GetCode())
		if strings.HasPrefix(r.Message, "tok") {
			tok, _ = strconv.Atoi(r.Message[3:])
		}
	}
	s.w.event(fmt.Sprintf("c%03d", s.c), fmt.Sprintf("msg c=%d op=%d st=%d done=%d code=%d tok=%d", s.c, opIndex(o.Name), int(md.Stage), done, code, tok))
	if s.w.slowSends && done == 0 {
		g := &sendGate{release: make(chan struct{})}
		s.w.mu.Lock()
		s.w.sending[s.c] = g
		s.w.mu.Unlock()
		<-g.release
	}
	return nil
}

// releaseSend lets a blocked Send of client c return; reports whether one was blocked.
func (w *world) releaseSend(c int) bool {
	w.mu.Lock()
	g := w.sending[c]
	delete(w.sending, c)
	w.mu.Unlock()
	if g == nil {
		return false
	}
	close(g.release)
	return true
}

func (w *world) guard(what string) {
	if r := recover(); r != nil {
		w.mu.Lock()
		w.panicked = fmt.Sprintf("%s: panic: %v", what, r)
		w.mu.Unlock()
	}
}

func (w *world) startExecute(c, d int, dnc bool, comps []int, plat int, inv string, prio int) {
	dp := w.digestProto(d)
	w.cas.mu.Lock()
	w.cas.actions[dp.Hash] = &remoteexecution.Action{DoNotCache: dnc, Platform: platformMsg(plat)}
	w.cas.mu.Unlock()
	rm, _ := proto.Marshal(&remoteexecution.RequestMetadata{ToolInvocationId: inv})
	ctx, cancel := context.WithCancel(metadata.NewIncomingContext(context.Background(),
		metadata.Pairs("build.bazel.remote.execution.v2.requestmetadata-bin", string(rm))))
	cl := &call{cancel: cancel}
	w.clients[c] = cl
	slowSelect := w.slowSelectNext
	w.slowSelectNext = false
	go func() {
		defer w.guard("Execute")
		if slowSelect {
			w.clk.markSel()
		}
		err := w.bq.Execute(&remoteexecution.ExecuteRequest{
			InstanceName:    compsToInstance(comps),
			ActionDigest:    dp,
			ExecutionPolicy: &remoteexecution.ExecutionPolicy{Priority: int32(prio)},
		}, &stream{w: w, c: c, ctx: ctx})
		w.event(fmt.Sprintf("c%03d", c), fmt.Sprintf("ret c=%d code=%d", c, int(status.Code(err))))
		w.mu.Lock()
		cl.done = true
		w.mu.Unlock()
	}()
}

func (w *world) startWait(c, name int) {
	ctx, cancel := context.WithCancel(context.Background())
	cl := &call{cancel: cancel}
	w.clients[c] = cl
	var u uuid.UUID
	n := name
	for i := 15; i >= 8; i-- {
		u[i] = byte(n)
		n >>= 8
	}
	slowAuth := w.clk.holding() && w.gateAuth
	go func() {
		defer w.guard("WaitExecution")
		if slowAuth {
			w.clk.markAuth()
		}
		err := w.bq.WaitExecution(&remoteexecution.WaitExecutionRequest{Name: u.String()}, &stream{w: w, c: c, ctx: ctx})
		w.event(fmt.Sprintf("c%03d", c), fmt.Sprintf("ret c=%d code=%d", c, int(status.Code(err))))
		w.mu.Lock()
		cl.done = true
		w.mu.Unlock()
	}()
}

// report: "i", "m", "e:<d>", "c:<d>:<code>:<exit>:<tok>"
func (w *world) startSync(pq string, sc int, comps []int, plat int, h, t int, report string, preferIdle bool) {
	key := fmt.Sprintf("%s/%d/%d.%d", pq, sc, h, t)
	ctx, cancel := context.WithCancel(context.Background())
	cl := &call{cancel: cancel}
	w.syncs[key] = cl
	req := &remoteworker.SynchronizeRequest{
		WorkerId:           workerID(h, t),
		InstanceNamePrefix: compsToInstance(comps),
		Platform:           platformMsg(plat),
		SizeClass:          uint32(sc),
		PreferBeingIdle:    preferIdle,
	}
	parts := strings.Split(report, ":")
	switch parts[0] {
	case "i":
		req.CurrentState = &remoteworker.CurrentState{WorkerState: &remoteworker.CurrentState_Idle{Idle: &emptypb.Empty{}}}
	case "m":
	case "e":
		d, _ := strconv.Atoi(parts[1])
		req.CurrentState = &remoteworker.CurrentState{WorkerState: &remoteworker.CurrentState_Executing_{Executing: &remoteworker.CurrentState_Executing{
			ActionDigest:   w.digestProto(d),
			ExecutionState: &remoteworker.CurrentState_Executing_Running{Running: &emptypb.Empty{}},
		}}}
	case "c":
		d, _ := strconv.Atoi(parts[1])
		code, _ := strconv.Atoi(parts[2])
		exit, _ := strconv.Atoi(parts[3])
		resp := &remoteexecution.ExecuteResponse{Result: &remoteexecution.ActionResult{ExitCode: int32(exit)}, Message: "tok" + parts[4]}
		if code != 0 {
			resp.Status = &status_pb.Status{Code: int32(code), Message: "worker reported failure"}
		}
		if exit < 0 {
			resp.Result = nil // a worker that is not bb_worker may report a response without an action result
		}
		req.CurrentState = &remoteworker.CurrentState{WorkerState: &remoteworker.CurrentState_Executing_{Executing: &remoteworker.CurrentState_Executing{
			ActionDigest:   w.digestProto(d),
			ExecutionState: &remoteworker.CurrentState_Executing_Completed{Completed: resp},
		}}}
	}
	delayed := w.delayNext
	w.delayNext = false
	if delayed {
		if w.delayed == nil {
			w.delayed = map[string]delayedSync{}
		}
		w.delayed[key] = delayedSync{report: report, at: w.clk.now}
	}
	go func() {
		defer w.guard("Synchronize")
		w.clk.markHeld(key)
		if delayed {
			w.clk.markDelayed()
		}
		r, err := w.bq.Synchronize(ctx, req)
		w.clk.unmarkHeld()
		text := ""
		switch {
		case err != nil:
			text = fmt.Sprintf("sync w=%s err code=%d", key, int(status.Code(err)))
		case r.DesiredState == nil:
			text = fmt.Sprintf("sync w=%s nochange next=%d", key, r.NextSynchronizationAt.AsTime().Unix())
		case r.DesiredState.GetIdle() != nil:
			text = fmt.Sprintf("sync w=%s idle next=%d", key, r.NextSynchronizationAt.AsTime().Unix())
		default:
			ex := r.DesiredState.GetExecuting()
			text = fmt.Sprintf("sync w=%s exec d=%d next=%d", key, w.digests[ex.ActionDigest.GetHash()], r.NextSynchronizationAt.AsTime().Unix())
		}
		w.event("w"+key, text)
		w.mu.Lock()
		cl.done = true
		w.mu.Unlock()
	}()
}

func (w *world) sizeClassQueueName(comps []int, plat, sc int) *buildqueuestate.SizeClassQueueName {
	return &buildqueuestate.SizeClassQueueName{
		PlatformQueueName: &buildqueuestate.PlatformQueueName{InstanceNamePrefix: compsToInstance(comps), Platform: platformMsg(plat)},
		SizeClass:         uint32(sc),
	}
}

func (w *world) opResult(err error) {
	if err != nil {
		w.event("op", fmt.Sprintf("op err code=%d", int(status.Code(err))))
	} else {
		w.event("op", "op ok")
	}
}

func (w *world) startTerminate(id int, pat string) {
	ctx, cancel := context.WithCancel(context.Background())
	cl := &call{cancel: cancel}
	w.terms[id] = cl
	go func() {
		defer w.guard("TerminateWorkers")
		_, err := w.bq.TerminateWorkers(ctx, &buildqueuestate.TerminateWorkersRequest{WorkerIdPattern: patternMap(pat)})
		w.event(fmt.Sprintf("k%03d", id), fmt.Sprintf("term id=%d code=%d", id, int(status.Code(err))))
		w.mu.Lock()
		cl.done = true
		w.mu.Unlock()
	}()
}

// ---- canonical dump of the implementation state ----------------------------------------

func ts(t *time.Time) string {
	if t == nil {
		return "-"
	}
	return strconv.FormatInt(t.Unix(), 10)
}

func b01(b bool) string {
	if b {
		return "1"
	}
	return "0"
}

type assignment struct{ worker, op string }

// canon renders a VerifState in the format of the Lean driver's `dump`, and returns
// the worker->task assignments it contains.
func (w *world) canon(s *scheduler.VerifState) (string, map[string]string) {
	var items []string
	assigned := map[string]string{}
	sizes := map[int][]int{}
	for _, q := range s.SizeClassQueues {
		id := w.pqIDFor(q.InstanceNamePrefix, q.Platform)
		sizes[id] = append(sizes[id], int(q.SizeClass))
		var drains []string
		for _, d := range q.Drains {
			drains = append(drains, patternString(d))
		}
		sort.Strings(drains)
		items = append(items, fmt.Sprintf("scq %d/%d rm=%s drains=%s cu=%s", id, q.SizeClass, b01(q.MayBeRemoved), strings.Join(drains, ","), ts(q.Cleanup)))
		for _, wk := range q.Workers {
			task := "-"
			key := fmt.Sprintf("%d/%d/%s", id, q.SizeClass, parseWorkerID(wk.ID))
			if wk.CurrentTaskOperation != "" {
				task = strconv.Itoa(opIndex(wk.CurrentTaskOperation))
				assigned[key] = task
			}
			items = append(items, fmt.Sprintf("w %s task=%s term=%s parked=%s cu=%s", key, task, b01(wk.Terminating), b01(wk.Parked), ts(wk.Cleanup)))
		}
	}
	for id, sz := range sizes {
		sort.Ints(sz)
		parts := make([]string, len(sz))
		for i, x := range sz {
			parts[i] = strconv.Itoa(x)
		}
		items = append(items, fmt.Sprintf("pq %d sizes=%s", id, strings.Join(parts, ",")))
	}
	for _, t := range s.Tasks {
		low := -1
		var ops []string
		queued := false
		for _, o := range t.Operations {
			n := opIndex(o.Name)
			if low < 0 || n < low {
				low = n
			}
			ops = append(ops, strconv.Itoa(n))
			queued = o.QueueIndex >= 0
		}
		sort.Strings(ops)
		wk := "-"
		if t.WorkerID != nil {
			wk = parseWorkerID(t.WorkerID)
		}
		code := "-"
		if t.ResponseCode >= 0 {
			code = strconv.Itoa(int(t.ResponseCode))
		}
		id := w.pqIDFor(t.InstanceNamePrefix, t.Platform)
		items = append(items, fmt.Sprintf("t %d d=%d q=%d/%d w=%s retry=%d st=%d code=%s ops=%s l=%s", low, w.digests[t.ActionDigestHash], id, t.SizeClass, wk, t.RetryCount, t.Stage, code, strings.Join(ops, ","), b01(t.HasLearner)))
		for _, o := range t.Operations {
			items = append(items, fmt.Sprintf("o %d prio=%d waiters=%d mew=%s cu=%s q=%s inv=%s", opIndex(o.Name), o.Priority, o.Waiters, b01(o.MayExistWithoutWaiters), ts(o.Cleanup), b01(queued), w.invPath(o.InvocationKeys)))
		}
	}
	for _, op := range s.DeduplicationMap {
		items = append(items, fmt.Sprintf("d %d", opIndex(op)))
	}
	nowUnix := s.Now.Unix()
	if s.Now.IsZero() {
		nowUnix = 0 // no call has entered the scheduler yet
	}
	items = append(items, fmt.Sprintf("n cleanup=%d", s.CleanupEntries), fmt.Sprintf("n now=%d", nowUnix))
	sort.Strings(items)
	return strings.Join(items, "|"), assigned
}

func mustInstance(s string) digest.InstanceName {
	return util.Must(digest.NewInstanceName(s))
}

// dkey interns the full digest (instance name + hash), the key of the deduplication map.
func (w *world) dkey(comps string, d int) int {
	k := comps + "#" + strconv.Itoa(d)
	if id, ok := w.dkeys[k]; ok {
		return id
	}
	w.dkeys[k] = len(w.dkeys) + 1
	return w.dkeys[k]
}

// takeReadAt returns (and forgets) the clock value a suspended Synchronize call of the worker had read.
func (c *fakeClock) takeReadAt(key string) (int64, bool) {
	c.mu.Lock()
	defer c.mu.Unlock()
	t, ok := c.readAt[key]
	delete(c.readAt, key)
	return t, ok
}

// gated reports whether the Synchronize call of the worker is one that the current hold suspends
// at its next clock read (it was in progress when the hold began).
func (c *fakeClock) gated(key string) bool {
	c.mu.Lock()
	defer c.mu.Unlock()
	if c.gate == nil {
		return false
	}
	for g, k := range c.names {
		if k == key {
			return c.held[g] < c.gateSeq
		}
	}
	return false
}
