// Package sched is the correspondence harness for the in-memory scheduler
// (pkg/scheduler/in_memory_build_queue.go) against lean/BbRe/Model/Sched.lean.
// It is a test binary because it relies on testing/synctest to run the real,
// blocking RPC handlers one lock-held segment at a time.
package sched
