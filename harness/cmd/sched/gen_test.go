package sched

import (
	"fmt"
	"os"
	"sort"
	"strconv"
	"strings"
	"testing"

	"verifharness/internal/hx"
)

var compsPool = []string{"-", "1", "1,2", "1,2,3", "4"}
var invPool = []string{"-", "1", "2", "1,2", "1,3", "2,1"}
var prioPool = []int{0, -7, 13, 50, 123}

// stickiness limits in seconds (C04); the clock moves in multiples of 8 s
var stickPool = []int{20, 60, 150, 400, 1000}

type queueSpec struct {
	comps string
	plat  int
	sizes []int
}

// gen produces the next abstract op given what the implementation currently holds.
type generator struct {
	focus   bool // fairness-focused history (C04): one queue with two stickiness levels, few workers, nested invocations under common top-level keys, many uncacheable tasks, small clock steps
	rng     *hx.Rand
	queues  []queueSpec // predeclared + worker-created candidates
	nextC   int
	nextK   int
	nextTok int
	resync  bool // workers that hold a task frequently ask for it again (retry limit)
}

// undoWake returns, for histories with held wake-ups, a pair of lines of which the first
// wakes a worker that is blocked waiting for work (and keeps it from running) and the
// second takes the reason for the wake-up away again.
func (g *generator) undoWake(r *run) []string {
	w := r.w
	var blocked []string
	for k, cl := range w.syncs {
		if !cl.done {
			blocked = append(blocked, k)
		}
	}
	if len(blocked) == 0 {
		return nil
	}
	sort.Strings(blocked)
	k := strings.Split(blocked[g.rng.Intn(len(blocked))], "/")
	spec := w.pqSpec[atoi(k[0])] // "comps plat"
	if g.rng.Chance(1, 4) {
		// a client leaves; shortly before its operation expires it (or another client) calls
		// WaitExecution, whose authorization takes until after the no-waiter timeout has run
		var cs []int
		for c, m := range r.streams {
			if cl := w.clients[c]; cl != nil && !cl.done && m.op >= 0 && !m.done {
				cs = append(cs, c)
			}
		}
		if len(cs) > 0 {
			sort.Ints(cs)
			c := cs[g.rng.Intn(len(cs))]
			g.nextC++
			return []string{fmt.Sprintf("0 cancel %d", c), fmt.Sprintf("6 wait %d %d hold=1", g.nextC, r.streams[c].op), "2 touch hold=1", "0 touch",
				fmt.Sprintf("1 cancel %d", g.nextC), "9 touch"}
		}
	}
	if g.rng.Chance(1, 5) && len(g.queues) > 0 {
		// a second request for the same cacheable action arrives while the size class of the first is being selected
		q := g.queues[g.rng.Intn(len(g.queues))]
		d := 2*g.rng.Intn(2) + q.plat
		inv := invPool[g.rng.Intn(len(invPool))]
		g.nextC += 2
		return []string{fmt.Sprintf("0 exec %d %d %s %s 0 sel=0 bg=- retry=0 hold=3", g.nextC-1, d, q.comps, inv),
			fmt.Sprintf("0 exec %d %d %s %s 0 sel=0 bg=- retry=0", g.nextC, d, q.comps, invPool[g.rng.Intn(len(invPool))])}
	}
	switch g.rng.Intn(3) {
	case 0: // drained and undrained at once
		pat := k[2]
		return []string{fmt.Sprintf("0 drain+ %s %s %s hold=1", spec, k[1], pat), fmt.Sprintf("0 drain- %s %s %s", spec, k[1], pat)}
	case 1: // handed a task that an operator kills before the worker looks
		g.nextC++
		f := strings.Fields(spec)
		d := 4 + atoi(f[1])
		return []string{fmt.Sprintf("0 exec %d %d %s - 0 sel=0 bg=- retry=0 hold=1", g.nextC, d, f[0]), fmt.Sprintf("0 killop %d 10", w.uuidN+1)}
	default: // handed a task whose only client goes away; the no-waiters timeout passes first
		g.nextC++
		f := strings.Fields(spec)
		d := 4 + atoi(f[1])
		return []string{fmt.Sprintf("0 exec %d %d %s - 0 sel=0 bg=- retry=0 hold=1", g.nextC, d, f[0]), fmt.Sprintf("0 cancel %d hold=1", g.nextC), "12 touch hold=1"}
	}
}

func (g *generator) dt() int {
	if g.focus {
		switch g.rng.Pick(40, 45, 12, 3) {
		case 0:
			return 0
		case 1:
			return 1 + g.rng.Intn(3)
		case 2:
			return 4 + g.rng.Intn(8)
		}
		return 20 + g.rng.Intn(40)
	}
	switch g.rng.Pick(45, 35, 12, 8) {
	case 0:
		return 0
	case 1:
		return 1 + g.rng.Intn(3)
	case 2:
		return 4 + g.rng.Intn(12)
	}
	return 20 + g.rng.Intn(80)
}

func (g *generator) answers() string {
	bg := "-"
	if g.rng.Chance(1, 2) {
		bg = strconv.Itoa(g.rng.Intn(3))
	}
	return fmt.Sprintf("sel=%d bg=%s retry=%s dur=%d", g.rng.Intn(3), bg, b01(g.rng.Chance(1, 2)), g.rng.Intn(4))
}

var focusInvPool = []string{"1,2", "1,3", "1,2", "1,3", "2,1", "2,2", "1"}
var focusStickPool = []int{20, 44, 60, 100, 150}

func (g *generator) setupFocus() []string {
	q := queueSpec{comps: compsPool[g.rng.Intn(len(compsPool))], plat: g.rng.Intn(2), sizes: []int{0}}
	if g.rng.Chance(1, 3) {
		q.sizes = []int{1, 4}
	}
	g.queues = append(g.queues, q)
	stick := []int{focusStickPool[g.rng.Intn(len(focusStickPool))], focusStickPool[g.rng.Intn(len(focusStickPool))]}
	if g.rng.Chance(1, 5) {
		stick = stick[:1]
	}
	return []string{fmt.Sprintf("0 regpq %s %d %s %d %d stick=%s", q.comps, q.plat, intsStr(q.sizes), g.rng.Pick(2, 3, 2), prioPool[g.rng.Intn(len(prioPool))], intsStr(stick))}
}

func (g *generator) nextFocus(r *run, dt int, workerTask, taskDigest map[string]string) (string, bool) {
	w := r.w
	q := g.queues[0]
	switch g.rng.Pick(40, 52, 8) {
	case 0: // Execute: mostly uncacheable actions (every request is a task of its own), mostly one priority
		g.nextC++
		d := 4 + q.plat
		if g.rng.Chance(1, 4) {
			d = 2*g.rng.Intn(3) + q.plat
		}
		prio := 0
		if g.rng.Chance(1, 5) {
			prio = prioPool[g.rng.Intn(len(prioPool))]
		}
		sel := 0
		if len(q.sizes) > 1 {
			sel = g.rng.Intn(2)
		}
		return fmt.Sprintf("%d exec %d %d %s %s %d sel=%d bg=- retry=0 dur=%d", dt, g.nextC, d, q.comps,
			focusInvPool[g.rng.Intn(len(focusInvPool))], prio, sel, g.rng.Intn(4)), true
	case 1: // Synchronize of one of three workers: report completion of what it runs, else ask for work
		sc := q.sizes[len(q.sizes)-1]
		if g.rng.Chance(1, 3) {
			sc = q.sizes[0]
		}
		h := g.rng.Intn(3)
		key := fmt.Sprintf("%d/%d/%d.0", w.pqID(ints(q.comps), q.plat), sc, h)
		report := "i"
		retry := 0
		if task, ok := workerTask[key]; ok && task != "-" {
			switch g.rng.Pick(80, 15, 5) {
			case 0:
				g.nextTok++
				report = fmt.Sprintf("c:%s:0:0:%d", taskDigest[task], g.nextTok)
				if len(q.sizes) > 1 && g.rng.Chance(1, 4) {
					// the action fails and is queued again on the largest size class with the
					// expected duration the learner returns (re-sorting among what is queued there)
					report = fmt.Sprintf("c:%s:0:1:%d", taskDigest[task], g.nextTok)
					retry = 1
				}
			case 1:
				report = "e:" + taskDigest[task]
			}
		}
		return fmt.Sprintf("%d sync %s %d %d %d.0 %s 0 sel=0 bg=- retry=%d", dt, q.comps, q.plat, sc, h, report, retry), true
	}
	return "", false
}

func (g *generator) setup() []string {
	if g.focus {
		return g.setupFocus()
	}
	var lines []string
	n := 1 + g.rng.Intn(3)
	used := map[string]bool{}
	for i := 0; i < n; i++ {
		q := queueSpec{comps: compsPool[g.rng.Intn(len(compsPool))], plat: g.rng.Intn(2)}
		key := q.comps + "|" + strconv.Itoa(q.plat)
		if used[key] {
			continue
		}
		used[key] = true
		switch g.rng.Intn(3) {
		case 0:
			q.sizes = []int{0}
		case 1:
			q.sizes = []int{1, 4}
		case 2:
			q.sizes = []int{1, 2, 8}
		}
		g.queues = append(g.queues, q)
		// worker invocation stickiness limits: lists of length 0-2 (seconds; clock steps are multiples of 8)
		var stick []int
		for n := g.rng.Pick(3, 3, 4); n > 0; n-- {
			stick = append(stick, stickPool[g.rng.Intn(len(stickPool))])
		}
		lines = append(lines, fmt.Sprintf("0 regpq %s %d %s %d %d stick=%s", q.comps, q.plat, intsStr(q.sizes), g.rng.Pick(2, 3, 2), prioPool[g.rng.Intn(len(prioPool))], intsStr(stick)))
	}
	// candidates for worker-created queues
	for i := 0; i < 2; i++ {
		q := queueSpec{comps: compsPool[g.rng.Intn(len(compsPool))], plat: g.rng.Intn(2), sizes: []int{0}}
		if !used[q.comps+"|"+strconv.Itoa(q.plat)] {
			used[q.comps+"|"+strconv.Itoa(q.plat)] = true
			g.queues = append(g.queues, q)
		}
	}
	return lines
}

func (g *generator) pickQueue() (queueSpec, int) {
	q := g.queues[g.rng.Intn(len(g.queues))]
	sc := q.sizes[g.rng.Intn(len(q.sizes))]
	if g.rng.Chance(1, 25) {
		sc = g.rng.Intn(10) // possibly unknown / too large size class
	}
	return q, sc
}

func (g *generator) next(r *run) string {
	w := r.w
	dt := g.dt()
	// inventory from the last dump
	var opNames []string
	workerTask := map[string]string{} // "pq/sc/h.t" -> task op or "-"
	taskDigest := map[string]string{}
	for _, item := range strings.Split(r.last, "|") {
		f := strings.Fields(item)
		if len(f) < 2 {
			continue
		}
		switch f[0] {
		case "o":
			opNames = append(opNames, f[1])
		case "w":
			workerTask[f[1]] = strings.TrimPrefix(f[2], "task=")
		case "t":
			taskDigest[f[1]] = strings.TrimPrefix(f[2], "d=")
		}
	}
	var parkedClients, blockedSyncs, blockedTerms []string
	for c, cl := range w.clients {
		if !cl.done {
			parkedClients = append(parkedClients, strconv.Itoa(c))
		}
	}
	for k, cl := range w.syncs {
		if !cl.done {
			blockedSyncs = append(blockedSyncs, k)
		}
	}
	for k, cl := range w.terms {
		if !cl.done {
			blockedTerms = append(blockedTerms, strconv.Itoa(k))
		}
	}
	sort.Strings(parkedClients)
	sort.Strings(blockedSyncs)
	sort.Strings(blockedTerms)
	if g.focus {
		if l, ok := g.nextFocus(r, dt, workerTask, taskDigest); ok {
			return l
		}
	}

	switch g.rng.Pick(26, 44, 5, 6, 3, 3, 2, 3, 3, 1, 1, 3) {
	case 0: // Execute
		g.nextC++
		q := g.queues[g.rng.Intn(len(g.queues))]
		comps := q.comps
		if g.rng.Chance(1, 4) { // a longer or unrelated instance name
			comps = compsPool[g.rng.Intn(len(compsPool))]
		}
		// digest d: platform d%2, do_not_cache iff d >= 4; mostly a digest of the queue's platform
		d := 2*g.rng.Intn(3) + q.plat
		if g.rng.Chance(1, 12) {
			d = g.rng.Intn(6)
		}
		return fmt.Sprintf("%d exec %d %d %s %s %d %s", dt, g.nextC, d, comps,
			invPool[g.rng.Intn(len(invPool))], prioPool[g.rng.Intn(len(prioPool))], g.answers())
	case 1: // Synchronize
		q, sc := g.pickQueue()
		h, t := g.rng.Intn(3), g.rng.Intn(2)
		// half of the time let a worker that is executing something report
		var busy []string
		for k, task := range workerTask {
			if task != "-" {
				busy = append(busy, k)
			}
		}
		sort.Strings(busy)
		if len(busy) > 0 && (g.rng.Chance(1, 2) || g.resync) {
			k := strings.Split(busy[g.rng.Intn(len(busy))], "/")
			for _, cand := range g.queues {
				if strconv.Itoa(w.pqID(ints(cand.comps), cand.plat)) == k[0] {
					q = cand
					sc, _ = strconv.Atoi(k[1])
					ht := strings.Split(k[2], ".")
					h, _ = strconv.Atoi(ht[0])
					t, _ = strconv.Atoi(ht[1])
				}
			}
		}
		key := fmt.Sprintf("%d/%d/%d.%d", w.pqID(ints(q.comps), q.plat), sc, h, t)
		report := "i"
		if task, ok := workerTask[key]; ok && task != "-" {
			d := taskDigest[task]
			pick := g.rng.Pick(52, 23, 11, 7, 7)
			if g.resync && g.rng.Chance(2, 3) {
				pick = 2 // the worker lost the response (or restarted) and asks again: counts against the retry limit
			}
			switch pick {
			case 0:
				g.nextTok++
				code, exit := 0, 0
				switch g.rng.Pick(55, 15, 12, 10, 8) {
				case 1:
					exit = 1
				case 2:
					code = 4
				case 3:
					code = 13
				case 4:
					code = 14
				}
				if r.noModel && g.rng.Chance(1, 10) {
					exit = -1 // no action result in the response (monitor-only histories)
				}
				report = fmt.Sprintf("c:%s:%d:%d:%d", d, code, exit, g.nextTok)
			case 1:
				report = "e:" + d
			case 2:
				report = "i"
			case 3:
				report = fmt.Sprintf("e:%d", g.rng.Intn(6))
			case 4:
				// a stale completion: the worker reports the result of another action (the one it
				// ran before) while this task is assigned to it
				g.nextTok++
				other, _ := strconv.Atoi(d)
				other = (other + 1 + g.rng.Intn(5)) % 6
				report = fmt.Sprintf("c:%d:0:0:%d", other, g.nextTok)
			}
		} else {
			switch g.rng.Pick(85, 6, 6, 3) {
			case 1:
				report = fmt.Sprintf("e:%d", g.rng.Intn(6))
			case 2:
				g.nextTok++
				report = fmt.Sprintf("c:%d:0:0:%d", g.rng.Intn(6), g.nextTok)
			case 3:
				report = "m"
			}
		}
		return fmt.Sprintf("%d sync %s %d %d %d.%d %s %s %s", dt, q.comps, q.plat, sc, h, t, report, b01(g.rng.Chance(1, 8)), g.answers())
	case 2: // WaitExecution
		g.nextC++
		name := strconv.Itoa(1 + g.rng.Intn(w.uuidN+2))
		if len(opNames) > 0 && g.rng.Chance(4, 5) {
			name = opNames[g.rng.Intn(len(opNames))]
		}
		return fmt.Sprintf("%d wait %d %s", dt, g.nextC, name)
	case 3: // client cancels
		if len(parkedClients) == 0 {
			return fmt.Sprintf("%d touch", dt)
		}
		return fmt.Sprintf("%d cancel %s", dt, parkedClients[g.rng.Intn(len(parkedClients))])
	case 4: // worker cancels its blocked Synchronize
		if len(blockedSyncs) == 0 {
			return fmt.Sprintf("%d touch", dt)
		}
		k := strings.Split(blockedSyncs[g.rng.Intn(len(blockedSyncs))], "/")
		pq, _ := strconv.Atoi(k[0])
		for _, q := range g.queues {
			if w.pqID(ints(q.comps), q.plat) == pq {
				return fmt.Sprintf("%d wcancel %s %d %s %s", dt, q.comps, q.plat, k[1], k[2])
			}
		}
		return fmt.Sprintf("%d touch", dt)
	case 5: // kill one operation
		name := strconv.Itoa(1 + g.rng.Intn(w.uuidN+2))
		if len(opNames) > 0 && g.rng.Chance(5, 6) {
			name = opNames[g.rng.Intn(len(opNames))]
		}
		code := []int{10, 2, 8, 0}[g.rng.Pick(5, 3, 2, 1)]
		return fmt.Sprintf("%d killop %s %d %s", dt, name, code, g.answers())
	case 6: // kill a queue without workers
		q, sc := g.pickQueue()
		return fmt.Sprintf("%d killq %s %d %d %d %s", dt, q.comps, q.plat, sc, []int{2, 10}[g.rng.Intn(2)], g.answers())
	case 7: // add drain
		q, sc := g.pickQueue()
		return fmt.Sprintf("%d drain+ %s %d %d %s", dt, q.comps, q.plat, sc, g.pattern())
	case 8: // remove drain
		q, sc := g.pickQueue()
		// Generator restriction: RemoveDrain broadcasts to all drained workers of the queue;
		// when two or more of them are blocked, which one the Go runtime lets take a queued
		// task first is not determined, while the model runs their continuations in a fixed
		// order.  Such hand-outs are only generated in the monitor-only histories.
		if !r.noModel {
			prefix := fmt.Sprintf("%d/%d/", w.pqID(ints(q.comps), q.plat), sc)
			waiting := 0
			for k, cl := range w.syncs {
				if !cl.done && strings.HasPrefix(k, prefix) && strings.Contains(r.last, "w "+k+" task=- ") && !strings.Contains(r.last, "w "+k+" task=- term=0 parked=1") && !strings.Contains(r.last, "w "+k+" task=- term=1 parked=1") {
					waiting++
				}
			}
			if waiting >= 2 {
				return fmt.Sprintf("%d touch", dt)
			}
		}
		return fmt.Sprintf("%d drain- %s %d %d %s", dt, q.comps, q.plat, sc, g.pattern())
	case 9: // terminate workers
		g.nextK++
		return fmt.Sprintf("%d term %d %s", dt, g.nextK, g.pattern())
	case 10:
		if len(blockedTerms) == 0 {
			return fmt.Sprintf("%d touch", dt)
		}
		return fmt.Sprintf("%d tcancel %s", dt, blockedTerms[g.rng.Intn(len(blockedTerms))])
	}
	return fmt.Sprintf("%d touch", dt)
}

func (g *generator) pattern() string {
	switch g.rng.Pick(2, 4, 3, 1) {
	case 0:
		return "*.*"
	case 1:
		return fmt.Sprintf("%d.*", g.rng.Intn(3))
	case 2:
		return fmt.Sprintf("%d.%d", g.rng.Intn(3), g.rng.Intn(2))
	}
	return fmt.Sprintf("*.%d", g.rng.Intn(2))
}

func propertyOfMismatch(prop string) string {
	if prop != "" {
		return prop
	}
	return os.Getenv("VERIF_PROP_DEFAULT")
}

func TestHarness(t *testing.T) {
	o := hx.ParseFlags()
	currentProp = o.Prop
	if err := fairStart(); err != nil {
		t.Fatalf("cannot start model driver: %v", err)
	}
	defer fairStop()
	nontrivialRule := "a task was handed to a parked worker, a task was taken from a queue, a worker-supplied result reached a client, and a deduplication or size-class retry happened"
	if o.Prop == "C04" {
		nontrivialRule = "a queue pick was judged against the documented fair order (drv_fair) whose walk passed an invocation with at least two candidates (queued operations or queued children)"
	}
	res := hx.NewResult("sched", o, "random segment histories of Execute/WaitExecution/Synchronize/KillOperations/AddDrain/RemoveDrain/TerminateWorkers/cancellations/clock jumps against the real InMemoryBuildQueue (1-3 predeclared queues with 1-3 size classes, worker-created queues, nested instance name prefixes, <=6 workers, 4 digests, invocation depth <=2, stickiness limit lists of length 0-2, 4 expected-duration classes), followed by a quiescence phase; non-trivial = "+nontrivialRule+"; distinct = hash of the op list")
	startWatchdog(res, o)
	drv, err := hx.StartDriver("sched")
	if err != nil {
		t.Fatalf("cannot start model driver: %v", err)
	}
	defer drv.Close()

	report := func(lines []string, f *failure) {
		fails := func(cand []string) bool {
			r := runHistory(t, drv, cand, f.prop == "C06" || strings.HasPrefix(f.name, "C07.learner"))
			return r.fail != nil && r.fail.kind == f.kind && r.fail.prop == f.prop
		}
		min := lines
		if len(lines) <= 400 {
			min = hx.Shrink(lines, fails)
		}
		rr := runHistory(t, drv, min, f.prop == "C06" || strings.HasPrefix(f.name, "C07.learner"))
		ff := f
		if rr.fail != nil {
			ff = rr.fail
		}
		prop := ff.prop
		if prop == "" {
			prop = o.Prop
		}
		res.Report(hx.Finding{Kind: ff.kind, Property: prop, What: ff.what, Name: ff.name, History: min,
			Expected: ff.expected, Actual: ff.actual, Sig: hx.Sig(prop, ff.kind, ff.name)})
	}

	// search: after a model/implementation disagreement, look for a concrete history on
	// which the implementation itself violates a property (monitors only, no model).
	search := func(prefix []string, qs []queueSpec, seed uint64, only string, focus bool) ([]string, *failure) {
		for try := 0; try < 64; try++ {
			g := &generator{rng: hx.NewRand(seed*1000 + uint64(try)), queues: qs, nextC: 1000, nextK: 1000, nextTok: 1000, focus: focus, resync: try%4 == 1}
			lines := append([]string(nil), prefix...)
			r := &run{drv: drv, noModel: true, onlyProp: only, prev: map[string]string{}, flags: map[string]bool{}, streams: map[int]*streamMon{}, doneTask: map[int]string{}, syncRet: map[string]int64{}, issues: map[string]int{}, issuedTo: map[string]string{}}
			synctest_run(t, r, func() {
				for _, l := range lines {
					r.apply(l)
				}
				if try%4 == 3 && len(qs) > 0 {
					// terminate-then-long-poll script (C05): a worker is marked terminating, its next call is held
					// for the idle interval, and it asks again before the worker timeout has really passed
					// while work is queued: it must not get any
					q := qs[g.rng.Intn(len(qs))]
					sc := q.sizes[len(q.sizes)-1]
					h, th := g.rng.Intn(3), g.rng.Intn(2)
					g.nextK++
					g.nextC++
					gap := 5 + g.rng.Intn(8)
					for _, l := range []string{
						fmt.Sprintf("1 sync %s %d %d %d.%d i 0 sel=0 bg=- retry=0", q.comps, q.plat, sc, h, th),
						fmt.Sprintf("1 term %d %d.%d", g.nextK, h, th),
						fmt.Sprintf("1 sync %s %d %d %d.%d i 0 sel=0 bg=- retry=0", q.comps, q.plat, sc, h, th),
						"10 touch",
						fmt.Sprintf("%d exec %d %d %s - 0 sel=%d bg=- retry=0", gap, g.nextC, 4+q.plat, q.comps, len(q.sizes)-1),
						fmt.Sprintf("0 sync %s %d %d %d.%d i 0 sel=0 bg=- retry=0", q.comps, q.plat, sc, h, th),
					} {
						if r.fail == nil {
							lines = append(lines, l)
							r.apply(l)
						}
					}
				}
				for i := 0; i < 60 && r.fail == nil; i++ {
					l := g.next(r)
					if try%4 == 2 && len(qs) > 0 {
						// priority sweep (C04): requests of every priority in sibling and nested invocations of
						// the first queue, alternating with workers asking for work, so that a wrong order or a
						// wrongly cached priority left behind by the prefix decides a hand-out
						if i%3 == 0 {
							q := qs[0]
							// the queue the prefix's last request went to
							for k := len(prefix) - 1; k >= 0; k-- {
								if f := strings.Fields(prefix[k]); len(f) > 5 && f[1] == "exec" {
									q = queueSpec{comps: f[4], plat: atoi(f[3]) % 2}
									break
								}
							}
							g.nextC++
							l = fmt.Sprintf("0 exec %d %d %s %s %d sel=0 bg=- retry=0 dur=%d", g.nextC, 4+q.plat, q.comps,
								invPool[1+(i/3)%(len(invPool)-1)], prioPool[g.rng.Intn(len(prioPool))], g.rng.Intn(4))
						} else {
							for k := 0; k < 8 && !strings.Contains(l, " sync "); k++ {
								l = g.next(r)
							}
						}
					}
					lines = append(lines, l)
					r.apply(l)
				}
				if r.fail == nil {
					r.quiesce()
				}
			})
			if r.fail != nil && r.fail.kind == "violation" {
				return lines, r.fail
			}
		}
		return nil, nil
	}
	reportWithSearch := func(lines []string, qs []queueSpec, f *failure, seed uint64, focus bool) {
		other := f.kind == "violation" && o.Prop != "" && f.prop != "" && f.prop != o.Prop
		if f.kind == "mismatch" || other {
			only := ""
			if other {
				only = o.Prop
			} else if f.prop != "" {
				// a disagreement with the model of one property's mechanism (e.g. C04's selection functions): look for a violation of that property
				only = f.prop
			}
			vl, vf := search(lines, qs, seed, only, focus)
			if only == "" && o.Prop != "" && (vf == nil || (vf.prop != "" && vf.prop != o.Prop)) {
				// prefer a failing input for the property this run was asked about
				if vl2, vf2 := search(lines, qs, seed+7, o.Prop, focus); vf2 != nil {
					vl, vf, only = vl2, vf2, o.Prop
				}
			}
			if vf != nil {
				res.Count("mismatch-turned-into-failing-input")
				// shrink in monitor-only mode
				fails := func(cand []string) bool {
					r := &run{drv: drv, noModel: true, onlyProp: only, prev: map[string]string{}, flags: map[string]bool{}, streams: map[int]*streamMon{}, doneTask: map[int]string{}, syncRet: map[string]int64{}, issues: map[string]int{}, issuedTo: map[string]string{}}
					synctest_run(t, r, func() {
						for _, l := range cand {
							if r.fail == nil {
								r.apply(l)
							}
						}
						if r.fail == nil {
							r.quiesce()
						}
					})
					return r.fail != nil && r.fail.kind == "violation" && r.fail.prop == vf.prop
				}
				min := hx.Shrink(vl, fails)
				prop := vf.prop
				if prop == "" {
					prop = o.Prop
				}
				res.Report(hx.Finding{Kind: "violation", Property: prop, What: vf.what + " (found by searching continuations of a history on which model and implementation disagree: " + f.what + ")",
					Name: vf.name, History: append([]string{"0 mode monitor"}, min...), Sig: hx.Sig(prop, "violation", vf.name)})
				return
			}
		}
		report(lines, f)
	}

	if o.Replay != "" {
		f, err := hx.LoadReplay(o.Replay)
		if err != nil {
			t.Fatal(err)
		}
		r := runHistory(t, drv, f.History, true)
		res.Evaluations = r.steps
		if r.fail != nil {
			report(f.History, r.fail)
		}
		res.ModelLines = drv.Lines
		fairFinish(res)
		treeFinish(res)
		res.Write(o)
		return
	}
	// a disagreement of the sweep is reported only if the histories below do not exhibit a decision that violates the documented order
	var sweepFinding *hx.Finding
	if o.Prop == "C04" || o.Prop == "" {
		sweepFinding = fairSweep(res)
	}

	histories := 120 * o.Scale
	if o.Tier == "thorough" {
		histories = 1500 * o.Scale
	}
	rng := hx.NewRand(o.Seed)
	for h := 0; h < histories && len(res.Findings) == 0; h++ {
		g := &generator{rng: rng}
		// a share of the histories concentrates on hand-out decisions (C04)
		if o.Prop == "C04" {
			g.focus = rng.Chance(1, 2)
		} else {
			g.focus = rng.Chance(1, 6)
		}
		g.resync = rng.Chance(1, 12)
		lines := g.setup()
		n := 30 + rng.Intn(170)
		r := &run{drv: drv, prev: map[string]string{}, flags: map[string]bool{}, streams: map[int]*streamMon{}, doneTask: map[int]string{}, syncRet: map[string]int64{}, issues: map[string]int{}, issuedTo: map[string]string{}}
		// one history in seven is judged by the monitors alone and lets stream messages
		// stay "on the wire" (Send blocks until released) while other segments run
		// another share is also judged by the monitors alone and suspends woken-up workers
		// on their way back to the scheduler lock while the next call runs (hold=1)
		slow := rng.Chance(1, 7)
		holds := !slow && (rng.Chance(1, 8) || (o.Prop == "C04" && rng.Chance(1, 4)))
		r.noModel = slow || holds
		// and a share of the model-compared histories suspends woken-up workers too (hold=1 only)
		mholds := !r.noModel && rng.Chance(1, 6)
		r.modelHolds = mholds
		if slow {
			lines = append([]string{"0 mode monitor slow"}, lines...)
		} else if holds {
			lines = append([]string{"0 mode monitor"}, lines...)
		} else if mholds {
			lines = append([]string{"0 mode modelholds"}, lines...)
		}
		synctest_run(t, r, func() {
			for _, l := range lines {
				r.apply(l)
			}
			for i := 0; i < n && r.fail == nil && !r.tie; i++ {
				l := g.next(r)
				if slow && len(r.w.sending) > 0 && rng.Chance(1, 3) {
					for c := range r.w.sending {
						l = fmt.Sprintf("0 sendrel %d", c)
						break
					}
				}
				if mholds {
					// while a hold is active the clock stands still: a timer of a suspended call that fires
					// is consumed by nobody, which the model's "touch" segment cannot express
					if r.w.clk.holding() {
						l = "0" + l[strings.Index(l, " "):]
						if strings.Contains(l, " wcancel ") {
							// (the suspended call has already chosen its wake-up over the cancellation)
							l = "0 touch"
						}
					}
					// one hold at a time: with several suspended calls the order in which they are let in when
					// the hold ends is the Go scheduler's choice (the monitor-only histories do nest holds)
					if !r.w.clk.holding() && rng.Chance(1, 3) && !strings.Contains(l, " drain- ") && !strings.Contains(l, " wcancel ") {
						if strings.Contains(l, " sync ") && rng.Chance(1, 3) {
							l += " hold=2" // this call itself is overtaken between its clock read and the lock
						} else {
							l += " hold=1"
						}
					}
				}
				if holds && rng.Chance(1, 4) {
					if strings.Contains(l, " sync ") && rng.Chance(1, 2) {
						l += " hold=2" // this call itself is overtaken between its clock read and the lock
					} else {
						l += " hold=1"
					}
				}
				if holds && rng.Chance(1, 6) {
					if pair := g.undoWake(r); pair != nil {
						for _, pl := range pair {
							lines = append(lines, pl)
							r.apply(pl)
						}
						continue
					}
				}
				lines = append(lines, l)
				r.apply(l)
			}
			if r.fail == nil && !r.tie {
				r.quiesce()
			}
		})
		r.finish()
		res.Evaluations += r.steps
		res.TracesVsImpl++
		if slow {
			res.Count("history-monitor-only-slow-sends")
		}
		if holds {
			res.Count("history-monitor-only-held-wakeups")
		}
		if mholds {
			res.Count("history-model-compared-held-wakeups")
			if r.flags["deferred-continuation"] {
				res.Count("history-model-compared-with-a-deferred-worker-continuation")
			}
		}
		if r.tie {
			res.Count("history-discarded-cleanup-tie")
			continue
		}
		for _, l := range lines {
			res.Count("op-" + strings.Fields(l)[1])
		}
		for k := range r.flags {
			res.Count("history-with-" + k)
		}
		if g.focus {
			res.Count("history-fairness-focused")
		}
		if o.Prop == "C04" {
			res.History(lines, r.flags["fair-multi"])
		} else {
			res.History(lines, r.flags["handoff"] && r.flags["queue-pick"] && r.flags["worker-result"] && (r.flags["dedup"] || r.flags["retry"]))
		}
		if r.fail != nil {
			reportWithSearch(lines, g.queues, r.fail, o.Seed, g.focus)
		}
	}
	if sweepFinding != nil && len(res.Findings) == 0 {
		res.Report(*sweepFinding)
	}
	res.ModelLines = drv.Lines
	fairFinish(res)
	treeFinish(res)
	res.Write(o)
}
