package sched

import (
	"context"
	"fmt"
	"os"
	"runtime"
	"sort"
	"strconv"
	"strings"
	"sync"
	"testing"
	"testing/synctest"
	"time"

	"github.com/buildbarn/bb-remote-execution/pkg/proto/buildqueuestate"
	"github.com/buildbarn/bb-remote-execution/pkg/scheduler"
	status_pb "google.golang.org/genproto/googleapis/rpc/status"
	"google.golang.org/protobuf/types/known/emptypb"

	"verifharness/internal/hx"
)

// All clock values are multiples of 8; the three kinds of cleanup deadlines fall into
// different residue classes (operations 1, workers 2, queues 5 mod 8), so callbacks whose
// relative order would depend on heap layout are never due at the same instant.
var defaultCfg = config{update: 40, idle: 72, noWaiter: 57, pqTimeout: 251, busy: 24, workerTimeout: 106, retryCount: 2}

func ints(s string) []int {
	if s == "-" || s == "" {
		return nil
	}
	var out []int
	for _, p := range strings.Split(s, ",") {
		n, _ := strconv.Atoi(p)
		out = append(out, n)
	}
	return out
}

func intsStr(l []int) string {
	if len(l) == 0 {
		return "-"
	}
	parts := make([]string, len(l))
	for i, x := range l {
		parts[i] = strconv.Itoa(x)
	}
	return strings.Join(parts, ",")
}

// run holds one history being executed against implementation and model.
type run struct {
	w               *world
	drv             *hx.Driver
	prev            map[string]string // worker -> task assignments of the previous dump
	last            string            // last canonical dump
	fail            *failure
	flags           map[string]bool
	steps           int
	tie             bool
	streams         map[int]*streamMon // C02 monitor state per client
	doneTask        map[int]string     // op name -> final payload "code/tok" (C03 same-final, C01 no restart)
	hist            *hx.Result
	prevSt          *scheduler.VerifState  // state before the current segment (for per-decision checks)
	noModel         bool                   // monitor-only mode: used to search for a failing input after a mismatch
	onlyProp        string                 // when set, findings and structural invariants of other properties do not end the run
	syncRet         map[string]int64       // worker -> fake-clock time its last Synchronize call returned
	syncActive      map[string]bool        // workers that were inside Synchronize at the end of the previous segment
	primary         string                 // op line of the segment being judged
	issues          map[string]int         // task (lowest op) -> times its current worker was told to execute it
	issuedTo        map[string]string      // task (lowest op) -> that worker
	released        bool                   // calls suspended by a hold continued in the segment being judged: events cannot be attributed to the primary op alone
	justReleased    map[string]delayedSync // delayed Synchronize calls that reached the scheduler in the segment being judged
	pendingReleased bool                   // a hold was ended outside window(): the next segment is a release window
	deferred        []string               // continuations the model has enabled for calls that are suspended by the hold
	modelHolds      bool                   // model-compared history with held wake-ups (hold=1): the continuations of suspended workers are fed to the model when the hold ends
	segReadAt       map[string]int64       // clock values that calls released in this segment had read
	selHeld         bool                   // an Execute call is parked inside Select (hold=3); only another Execute may follow
	termSeen        map[string]bool        // workers observed with the terminating mark (C05.terminating_monotone)
	holdThis        bool                   // the op being applied keeps woken-up workers suspended before they re-take the scheduler lock
	pending         *failure               // a model/implementation disagreement that does not stop the history: a violation found later in the same history takes precedence (see finish)
}

// finish turns a pending disagreement into the history's failure when nothing worse was found.
func (r *run) finish() {
	if r.fail == nil && r.pending != nil {
		r.fail = r.pending
	}
}

func (r *run) pendf(kind, prop, name, format string, args ...any) {
	if r.pending == nil {
		r.pending = &failure{kind: kind, prop: prop, name: name, what: fmt.Sprintf(format, args...)}
	}
}

type failure struct {
	kind, prop, what, name, expected, actual string
}

type streamMon struct {
	op        int
	lastStage int
	done      bool
	cancelled bool
	returned  bool
}

func (r *run) failf(kind, prop, name, format string, args ...any) {
	if r.onlyProp != "" && kind == "violation" && prop != "" && prop != r.onlyProp {
		return
	}
	if r.fail == nil {
		r.fail = &failure{kind: kind, prop: prop, name: name, what: fmt.Sprintf(format, args...)}
	}
}

// windowChecks are additional per-segment checks (e.g. the C04 fairness check of each
// hand-out decision); they see the implementation state before and after the segment
// and its events, and call r.failf on a violation.
var windowChecks []func(r *run, primary string, before, after *scheduler.VerifState, events []string)

// modelTaps see every line sent to the Sched model driver and its answer (tree_test.go forwards
// them to drv_schedtree, the refinement layer that carries the invocation tree).
var modelTaps []func(r *run, line, out string)

func (r *run) askModel(line string) (string, error) {
	out, err := r.drv.Ask(line)
	if err == nil {
		for _, f := range modelTaps {
			f(r, line, out)
		}
	}
	return out, err
}

func entityOf(ev string) string {
	f := strings.Fields(ev)
	switch f[0] {
	case "msg", "ret":
		n, _ := strconv.Atoi(strings.TrimPrefix(f[1], "c="))
		return fmt.Sprintf("c%03d", n)
	case "sync":
		return "w" + strings.TrimPrefix(f[1], "w=")
	case "term":
		n, _ := strconv.Atoi(strings.TrimPrefix(f[1], "id="))
		return fmt.Sprintf("k%03d", n)
	case "an":
		return "an"
	}
	return "op"
}

func canonEvents(evs []string) []string {
	out := append([]string(nil), evs...)
	// per entity the order of events is kept, except for the analyzer calls of one
	// segment: the order in which several tasks are completed by one bulk operation
	// (cancelAllQueuedOperations, a cleanup run) depends on heap layout
	sort.SliceStable(out, func(i, j int) bool {
		ei, ej := entityOf(out[i]), entityOf(out[j])
		if ei != ej {
			return ei < ej
		}
		return ei == "an" && out[i] < out[j]
	})
	return out
}

func (r *run) hints(assignedNow map[string]string, an string) string {
	var as []string
	// every assignment that holds after the segment: the model consults the entry of a
	// worker only where the code picks a task for a worker that has none, and the entry
	// of a task only where the code hands it to a parked worker
	for wk, op := range assignedNow {
		as = append(as, wk+":"+op)
	}
	sort.Strings(as)
	h := "as=-"
	if len(as) > 0 {
		h = "as=" + strings.Join(as, ",")
	}
	return h + " " + an
}

// window lets the implementation run until every goroutine is blocked, then feeds
// the model the primary line and all enabled continuations, and compares.
// watchdog state: the op lines applied so far in the current history and the (real)
// time of the last completed segment.  A scheduler call that spins or deadlocks makes
// synctest.Wait() block forever; the watchdog goroutine (real time, outside the bubble)
// then reports the history as a finding instead of letting the run time out.
var (
	watchMu    sync.Mutex
	watchLines []string
	watchTick  int64 // progress counter (time.Now() inside a synctest bubble is virtual, so no timestamps)
	watchOn    bool
)

func watchNote(line string) {
	watchMu.Lock()
	if line != "" {
		watchLines = append(watchLines, line)
	}
	watchTick++
	watchMu.Unlock()
}

func watchReset() {
	watchMu.Lock()
	watchLines = nil
	watchTick++
	watchMu.Unlock()
}

func startWatchdog(res *hx.Result, o hx.Opts) {
	watchOn = true
	watchReset()
	go func() {
		lastTick, lastChange := int64(-1), time.Now()
		for {
			time.Sleep(2 * time.Second)
			watchMu.Lock()
			if watchTick != lastTick {
				lastTick, lastChange = watchTick, time.Now()
			}
			stuck := time.Since(lastChange) > hx.StallLimit(120*time.Second)
			lines := append([]string(nil), watchLines...)
			watchMu.Unlock()
			if stuck {
				prop := o.Prop
				res.Report(hx.Finding{Kind: "violation", Property: prop, Name: "C06.every_sleeper_wakes / C14: every call terminates",
					What:    "a scheduler call did not return and no goroutine made progress for the load-scaled stall limit (at least 240 s) (spinning or deadlocked under bq.lock) after the last op of this history",
					History: lines, Sig: hx.Sig(prop, "violation", "hang")})
				res.Write(o)
				os.Exit(0)
			}
		}
	}()
}

// safeDump takes the state snapshot; a panic while walking the real data structures
// (dangling pointers after a broken invariant) is a finding, not a crash of the harness.
func (r *run) safeDump() (st *scheduler.VerifState) {
	defer func() {
		if p := recover(); p != nil {
			st = nil
			r.failf("violation", "", "C01.inv_reachable (the scheduler's own data structures are consistent)", "walking the scheduler state panicked: %v", p)
		}
	}()
	return r.w.bq.VerifDumpState()
}

func (r *run) window(primary string, an string) {
	synctest.Wait()
	if r.w.clk.holding() && !r.holdThis {
		// The calls of this op ran to completion while the calls suspended by the hold were still on
		// their way to the scheduler lock.  Judge that segment first, with the hold still in force; then
		// let the suspended calls continue and judge what they do as a segment of its own.
		r.holdThis = true
		r.window(primary, an)
		r.holdThis = false
		if r.fail != nil || r.tie {
			return
		}
		r.w.clk.release()
		r.pendingReleased = true
		r.window("", an)
		return
	}
	if r.pendingReleased {
		r.justReleased, r.w.delayed = r.w.delayed, nil
		r.released = true
		r.pendingReleased = false
	} else {
		r.justReleased = nil
		r.released = false
	}
	watchNote("")
	r.steps++
	w := r.w
	if w.panicked != "" {
		r.failf("violation", "", "no panic on a reachable path", "%s", w.panicked)
		return
	}
	var impl []string
	for _, e := range w.takeEvents() {
		impl = append(impl, e.text)
	}
	st := r.safeDump()
	if st == nil {
		return
	}
	dump, assigned := w.canon(st)
	hints := r.hints(assigned, an)
	r.primary = primary
	r.monitor(impl, st, dump)
	for _, f := range windowChecks {
		// (a delayed call enters the scheduler with the time it read earlier: the per-decision
		// checks assume the segment's own time)
		if r.fail == nil && !r.released {
			f(r, primary, r.prevSt, st, impl)
		}
	}
	prevSt := r.prevSt
	_ = prevSt
	r.prevSt = st
	if r.fail != nil {
		return
	}
	if r.noModel {
		r.prev, r.last = assigned, dump
		return
	}
	var model []string
	now := w.clk.now
	ask := func(line string) []string {
		out, err := r.askModel(line + " " + hints)
		if err != nil {
			r.failf("mismatch", "", "Sched correspondence (driver)", "driver: %v", err)
			return nil
		}
		if strings.HasPrefix(out, "model-error") || out == "bad-op" {
			r.failf("mismatch", "", "Sched correspondence: the model rejects what the implementation did", "%s on %q", out, line)
			r.fail.expected, r.fail.actual = out, strings.Join(impl, ";")
			return nil
		}
		parts := strings.Split(out, " || ")
		if len(parts) > 2 && parts[2] == "tie" {
			r.tie = true
		}
		if parts[0] != "" {
			model = append(model, strings.Split(parts[0], ";")...)
		}
		if len(parts) < 2 || parts[1] == "" {
			return nil
		}
		return strings.Split(parts[1], ",")
	}
	var enabled []string
	if primary != "" {
		enabled = ask(primary)
	} else {
		enabled = r.deferred // the continuations of the calls that were suspended
	}
	// the continuation of a worker that is suspended between its wake-up and the scheduler lock is
	// not run now: the model gets it in the segment in which the hold ends, like the implementation
	suspended := func(x string) bool {
		e := strings.Split(x, ":")
		if e[0] == "w" && w.clk.gated(e[1]) {
			r.flags["deferred-continuation"] = true
			return true
		}
		return false
	}
	drain := func() {
		for guard := 0; guard < 100 && r.fail == nil; guard++ {
			next, best := "", 1<<30
			for _, x := range enabled {
				if suspended(x) {
					continue
				}
				p := 0
				if e := strings.Split(x, ":"); e[0] == "w" && primary == "" {
					// several released workers: in the order in which the implementation let them in
					p = len(impl) + 1
					for i, ev := range impl {
						if strings.HasPrefix(ev, "sync w="+e[1]+" ") {
							p = i + 1
							break
						}
					}
				}
				if p < best {
					next, best = x, p
				}
			}
			if next == "" {
				break
			}
			e := strings.Split(next, ":")
			switch e[0] {
			case "w":
				f := strings.Split(e[1], "/")
				t := now
				if v, ok := r.segReadAt[e[1]]; ok {
					t = v
				}
				enabled = ask(fmt.Sprintf("wwake %d %s %s %s %s", t, f[0], f[1], f[2], e[2]))
			case "k":
				enabled = ask("twake " + e[1] + " 0")
			case "s":
				enabled = ask(fmt.Sprintf("swake %d %s %s", now, e[1], e[2]))
			}
		}
	}
	drain()
	// Synchronize calls that were overtaken between their clock read and the scheduler lock reach the
	// scheduler in this segment, with the time they had read
	var late []string
	for k := range r.justReleased {
		late = append(late, k)
	}
	sort.Strings(late)
	// in the order in which the implementation let them in: a call that returned did so in that order;
	// calls that are now blocked found nothing to do and are taken last
	pos := func(k string) int {
		for i, ev := range impl {
			if strings.HasPrefix(ev, "sync w="+k+" ") {
				return i
			}
		}
		return len(impl)
	}
	sort.SliceStable(late, func(i, j int) bool { return pos(late[i]) < pos(late[j]) })
	for _, k := range late {
		if d := r.justReleased[k]; d.line != "" && r.fail == nil && !r.tie {
			enabled = ask(d.line)
			drain()
		}
	}
	if r.fail != nil || r.tie {
		return
	}
	r.deferred = nil
	for _, x := range enabled {
		if suspended(x) {
			r.deferred = append(r.deferred, x)
		}
	}
	ci, cm := canonEvents(impl), canonEvents(model)
	if strings.Join(ci, ";") != strings.Join(cm, ";") {
		r.failf("mismatch", "", "Sched correspondence: observable events of a segment", "events differ after %q", primary)
		r.fail.expected, r.fail.actual = strings.Join(cm, ";"), strings.Join(ci, ";")
		return
	}
	md, err := r.askModel("dump")
	if err != nil {
		r.failf("mismatch", "", "Sched correspondence (driver)", "driver: %v", err)
		return
	}
	if md != dump {
		r.failf("mismatch", "", "Sched correspondence: abstract state", "state differs after %q: %s", primary, firstDiff(md, dump))
		r.fail.expected, r.fail.actual = md, dump
		return
	}
	// coverage flags
	for wk, op := range assigned {
		if r.prev[wk] != op || strings.Contains(strings.Join(impl, ";"), "sync w="+wk+" exec") {
			if strings.Contains(r.last, "w "+wk+" task=- term=0 parked=1") || strings.Contains(r.last, "w "+wk+" task=- term=1 parked=1") {
				r.flags["handoff"] = true
			} else if r.prev[wk] != op {
				r.flags["queue-pick"] = true
			}
		}
	}
	joined := strings.Join(impl, ";")
	if strings.Contains(joined, "an sel abandoned") && strings.Contains(joined, "msg c=") {
		r.flags["dedup"] = true
	}
	if strings.Contains(joined, " failed ") && !strings.Contains(joined, "next=-") {
		r.flags["retry"] = true
	}
	if strings.Contains(joined, "succeeded bg=") && !strings.Contains(joined, "succeeded bg=-") {
		r.flags["background"] = true
	}
	r.prev = assigned
	r.last = dump
}

func firstDiff(model, impl string) string {
	m, i := strings.Split(model, "|"), strings.Split(impl, "|")
	ms, is := map[string]bool{}, map[string]bool{}
	for _, x := range m {
		ms[x] = true
	}
	for _, x := range i {
		is[x] = true
	}
	var only []string
	for _, x := range m {
		if !is[x] {
			only = append(only, "model:"+x)
		}
	}
	for _, x := range i {
		if !ms[x] {
			only = append(only, "impl:"+x)
		}
	}
	if len(only) > 6 {
		only = only[:6]
	}
	return strings.Join(only, " ; ")
}

// apply executes one abstract op line: "<dt> <kind> args... [sel=.. bg=.. retry=..]".
func (r *run) apply(line string) {
	watchNote(line)
	w := r.w
	var args, kv []string
	for _, f := range strings.Fields(line) {
		if strings.Contains(f, "=") {
			kv = append(kv, f)
		} else {
			args = append(args, f)
		}
	}
	if len(args) < 2 {
		return
	}
	an := "sel=0 bg=- retry=0"
	w.an.sel, w.an.bg, w.an.retry, w.an.dur = 0, -1, false, 0
	r.holdThis = false
	w.delayNext = false
	w.slowSelectNext = false
	var stick []time.Duration // regpq only: worker invocation stickiness limits (seconds); not part of the Sched model
	for _, f := range kv {
		p := strings.SplitN(f, "=", 2)
		switch p[0] {
		case "dur": // expected duration class reported by the scripted selector; not part of the Sched model
			w.an.dur, _ = strconv.Atoi(p[1])
		case "stick":
			for _, x := range ints(p[1]) {
				stick = append(stick, time.Duration(x)*time.Second)
			}
		case "sel":
			w.an.sel, _ = strconv.Atoi(p[1])
		case "bg":
			if p[1] == "-" {
				w.an.bg = -1
			} else {
				w.an.bg, _ = strconv.Atoi(p[1])
			}
		case "retry":
			w.an.retry = p[1] == "1"
		case "hold": // monitor-only histories: see fakeClock.hold
			r.holdThis = (p[1] == "1" || p[1] == "2" || p[1] == "3") && r.noModel || (p[1] == "1" || p[1] == "2") && r.modelHolds
			w.slowSelectNext = p[1] == "3" && r.noModel && args[1] == "exec"
			w.delayNext = p[1] == "2" && (r.noModel || r.modelHolds) && args[1] == "sync"
		}
	}
	bg := "-"
	if w.an.bg >= 0 {
		bg = strconv.Itoa(w.an.bg)
	}
	an = fmt.Sprintf("sel=%d bg=%s retry=%s", w.an.sel, bg, b01(w.an.retry))

	dt, _ := strconv.Atoi(args[0])
	dt *= 8
	if dt > 0 {
		if fired := w.clk.advance(w.clk.now + int64(dt)); fired > 0 {
			r.window(fmt.Sprintf("touch %d", w.clk.now), an)
			if r.fail != nil || r.tie {
				return
			}
		}
	}
	now := w.clk.now
	a := args[2:]
	if r.selHeld && args[1] != "exec" {
		// nothing but another Execute is run against a scheduler whose lock is held by a selection
		r.selHeld = false
		w.clk.release()
		r.pendingReleased = true
		r.window(fmt.Sprintf("touch %d", now), an)
		if r.fail != nil || r.tie {
			return
		}
	}
	if r.holdThis {
		w.clk.hold()
	}
	switch args[1] {
	case "mode": // monitor [slow]: the rest of the history is judged by the monitors alone (no model); modelholds: model-compared with hold=1
		if a[0] == "modelholds" {
			r.modelHolds = true
			return
		}
		r.noModel = true
		w.gateAuth = true
		w.slowSends = len(a) > 1 && a[1] == "slow"
		return
	case "regpq": // comps plat sizes bgmax bgprio
		if r.noModel {
			comps, plat := ints(a[0]), atoi(a[1])
			sizes := ints(a[2])
			usizes := make([]uint32, len(sizes))
			for i, s := range sizes {
				usizes[i] = uint32(s)
			}
			w.bq.RegisterPredeclaredPlatformQueue(mustInstance(compsToInstance(comps)), platformMsg(plat), stick, atoi(a[3]), int32(atoi(a[4])), usizes)
			w.pqID(comps, plat)
			return
		}
		comps, plat := ints(a[0]), atoi(a[1])
		sizes := ints(a[2])
		usizes := make([]uint32, len(sizes))
		for i, s := range sizes {
			usizes[i] = uint32(s)
		}
		if err := w.bq.RegisterPredeclaredPlatformQueue(mustInstance(compsToInstance(comps)), platformMsg(plat), stick, atoi(a[3]), int32(atoi(a[4])), usizes); err != nil {
			return
		}
		out, _ := r.askModel(fmt.Sprintf("regpq %d %s %d %s %s %s", w.pqID(comps, plat), intsStr(comps), plat, intsStr(sizes), a[3], a[4]))
		if out != "ok" {
			r.failf("mismatch", "", "Sched correspondence (driver)", "regpq: %s", out)
		}
		// (RegisterPredeclaredPlatformQueue enters the scheduler like every call)
		r.askModel(fmt.Sprintf("touch %d %s", now, r.hints(map[string]string{}, an)))
	case "exec": // c d comps inv prio
		c := atoi(a[0])
		if cl, ok := w.clients[c]; ok && !cl.done {
			return
		}
		r.streams[c] = &streamMon{op: -1}
		// the digest determines the action, hence do_not_cache and the platform
		d := atoi(a[1])
		dnc, plat := d >= 4, d%2
		if r.selHeld {
			// another Execute is inside Select (with the scheduler lock, if the code is as it should be):
			// this call can only get as far as the lock.  Let it run up to there (it reads the clock right
			// before taking the lock) and a little further, then end the hold.
			before := w.clk.reads.Load()
			w.startExecute(c, d, dnc, ints(a[2]), plat, a[3], atoi(a[4]))
			for i := 0; i < 200000 && w.clk.reads.Load() == before; i++ {
				runtime.Gosched()
			}
			for i := 0; i < 5000; i++ {
				runtime.Gosched()
			}
			r.selHeld = false
			w.clk.release()
			r.pendingReleased = true
			r.window(fmt.Sprintf("exec %d %d %d %d %s %s %d %s %s", now, c, d, w.dkey(a[2], d), b01(dnc), a[2], plat, a[3], a[4]), an)
			return
		}
		slow := w.slowSelectNext
		if slow {
			// run whatever is due at this instant first: a cleanup performed when the call enters the
			// scheduler would wake other calls, which then wait for the lock held across the selection
			go func() {
				defer w.guard("ListPlatformQueues")
				w.bq.ListPlatformQueues(context.Background(), &emptypb.Empty{})
			}()
			keep := r.holdThis
			r.window(fmt.Sprintf("touch %d", now), an)
			r.holdThis = keep
			if r.fail != nil || r.tie {
				return
			}
			w.slowSelectNext = true
		}
		w.startExecute(c, d, dnc, ints(a[2]), plat, a[3], atoi(a[4]))
		if slow {
			// no segment is judged while the selection is in progress: the scheduler lock is held
			synctest.Wait()
			r.selHeld = true
			return
		}
		r.window(fmt.Sprintf("exec %d %d %d %d %s %s %d %s %s", now, c, d, w.dkey(a[2], d), b01(dnc), a[2], plat, a[3], a[4]), an)
	case "wait": // c name
		c := atoi(a[0])
		if cl, ok := w.clients[c]; ok && !cl.done {
			return
		}
		r.streams[c] = &streamMon{op: -1}
		w.startWait(c, atoi(a[1]))
		r.window(fmt.Sprintf("wait %d %d %s", now, c, a[1]), an)
	case "sendrel": // c   (monitor-only histories with slow sends)
		if !r.noModel {
			return
		}
		if w.releaseSend(atoi(a[0])) {
			r.window("sendrel", an)
		}
	case "cancel": // c
		c := atoi(a[0])
		cl, ok := w.clients[c]
		if !ok || cl.done {
			return
		}
		if m := r.streams[c]; m != nil {
			m.cancelled = true
		}
		cl.cancel()
		r.window(fmt.Sprintf("swake %d %d 2", now, c), an)
	case "sync": // comps plat sc h.t report pi
		comps, plat, sc := ints(a[0]), atoi(a[1]), atoi(a[2])
		ht := strings.Split(a[3], ".")
		pq := w.pqID(comps, plat)
		key := fmt.Sprintf("%d/%d/%s", pq, sc, a[3])
		if cl, ok := w.syncs[key]; ok && !cl.done {
			return // duplicate synchronisation of a worker is exercised separately (syncdup)
		}
		w.startSync(strconv.Itoa(pq), sc, comps, plat, atoi(ht[0]), atoi(ht[1]), a[4], a[5] == "1")
		line := fmt.Sprintf("sync %d %d %d %s %d %s %s %s", now, pq, sc, intsStr(comps), plat, a[3], a[4], a[5])
		if d, ok := w.delayed[key]; ok {
			// the call has read the clock but has not reached the scheduler: nothing to tell the model yet
			d.line = line
			w.delayed[key] = d
			line = ""
		}
		r.window(line, an)
	case "wcancel": // comps plat sc h.t
		comps, plat, sc := ints(a[0]), atoi(a[1]), atoi(a[2])
		pq := w.pqID(comps, plat)
		key := fmt.Sprintf("%d/%d/%s", pq, sc, a[3])
		cl, ok := w.syncs[key]
		if !ok || cl.done {
			return
		}
		cl.cancel()
		r.window(fmt.Sprintf("wwake %d %d %d %s 2", now, pq, sc, a[3]), an)
	case "killop": // name code
		go func() {
			defer w.guard("KillOperations")
			var u [16]byte
			n := atoi(a[0])
			for i := 15; i >= 8; i-- {
				u[i] = byte(n)
				n >>= 8
			}
			_, err := w.bq.KillOperations(context.Background(), &buildqueuestate.KillOperationsRequest{
				Filter: &buildqueuestate.KillOperationsRequest_Filter{Type: &buildqueuestate.KillOperationsRequest_Filter_OperationName{OperationName: uuidString(u)}},
				Status: &status_pb.Status{Code: int32(atoi(a[1])), Message: "killed by operator"},
			})
			w.opResult(err)
		}()
		r.window(fmt.Sprintf("killop %d %s %s", now, a[0], a[1]), an)
	case "killq": // comps plat sc code
		comps, plat, sc := ints(a[0]), atoi(a[1]), atoi(a[2])
		go func() {
			defer w.guard("KillOperations")
			_, err := w.bq.KillOperations(context.Background(), &buildqueuestate.KillOperationsRequest{
				Filter: &buildqueuestate.KillOperationsRequest_Filter{Type: &buildqueuestate.KillOperationsRequest_Filter_SizeClassQueueWithoutWorkers{SizeClassQueueWithoutWorkers: w.sizeClassQueueName(comps, plat, sc)}},
				Status: &status_pb.Status{Code: int32(atoi(a[3])), Message: "killed by operator"},
			})
			w.opResult(err)
		}()
		r.window(fmt.Sprintf("killq %d %d %d %s", now, w.pqID(comps, plat), sc, a[3]), an)
	case "drain+", "drain-": // comps plat sc pat
		comps, plat, sc := ints(a[0]), atoi(a[1]), atoi(a[2])
		kind := args[1]
		go func() {
			defer w.guard("AddDrain/RemoveDrain")
			req := &buildqueuestate.AddOrRemoveDrainRequest{SizeClassQueueName: w.sizeClassQueueName(comps, plat, sc), WorkerIdPattern: patternMap(a[3])}
			var err error
			if kind == "drain+" {
				_, err = w.bq.AddDrain(context.Background(), req)
			} else {
				_, err = w.bq.RemoveDrain(context.Background(), req)
			}
			w.opResult(err)
		}()
		r.window(fmt.Sprintf("%s %d %d %d %s", kind, now, w.pqID(comps, plat), sc, a[3]), an)
	case "term": // id pat
		id := atoi(a[0])
		if cl, ok := w.terms[id]; ok && !cl.done {
			return
		}
		w.startTerminate(id, a[1])
		r.window(fmt.Sprintf("term %d %d %s", now, id, a[1]), an)
	case "tcancel": // id
		id := atoi(a[0])
		cl, ok := w.terms[id]
		if !ok || cl.done {
			return
		}
		cl.cancel()
		r.window(fmt.Sprintf("twake %d 2", id), an)
	case "touch":
		go func() {
			defer w.guard("ListPlatformQueues")
			w.bq.ListPlatformQueues(context.Background(), &emptypb.Empty{})
		}()
		r.window(fmt.Sprintf("touch %d", now), an)
	}
}

func atoi(s string) int { n, _ := strconv.Atoi(s); return n }

func uuidString(u [16]byte) string {
	return fmt.Sprintf("%x-%x-%x-%x-%x", u[0:4], u[4:6], u[6:8], u[8:10], u[10:16])
}

// quiesce cancels everything and lets all timeouts pass; afterwards the scheduler must
// retain nothing created on behalf of clients and workers (C06).
func (r *run) quiesce() {
	w := r.w
	w.slowSends = false
	r.holdThis = false
	if w.clk.holding() {
		r.apply("0 touch") // its window lets the suspended calls continue and judges that segment accordingly
	}
	for len(w.sending) > 0 && r.fail == nil {
		for c := range w.sending {
			r.apply(fmt.Sprintf("0 sendrel %d", c))
			break
		}
	}
	cancelClients := func() {
		cs := make([]int, 0, len(w.clients))
		for c := range w.clients {
			cs = append(cs, c)
		}
		sort.Ints(cs)
		for _, c := range cs {
			if cl := w.clients[c]; !cl.done && r.fail == nil && !r.tie {
				r.apply(fmt.Sprintf("1 cancel %d", c))
			}
		}
	}
	cancelWorkers := func() {
		keys := make([]string, 0, len(w.syncs))
		for k := range w.syncs {
			keys = append(keys, k)
		}
		sort.Strings(keys)
		for _, k := range keys {
			if cl := w.syncs[k]; !cl.done && r.fail == nil && !r.tie {
				f := strings.Split(k, "/")
				r.apply(fmt.Sprintf("1 wcancel %s %s %s", w.pqSpec[atoi(f[0])], f[1], f[2]))
			}
		}
		ids := make([]int, 0, len(w.terms))
		for id := range w.terms {
			ids = append(ids, id)
		}
		sort.Ints(ids)
		for _, id := range ids {
			if cl := w.terms[id]; !cl.done && r.fail == nil && !r.tie {
				r.apply(fmt.Sprintf("1 tcancel %d", id))
			}
		}
	}
	if r.steps%2 == 0 {
		// Workers vanish first while the clients keep listening (C02/C06): executing tasks
		// fail when the worker timeout passes, worker-created queues are removed after the
		// queue timeout, so every stream that is still open afterwards must belong to a task
		// queued on a predeclared queue.
		cancelWorkers()
		for i := 0; i < 3 && r.fail == nil && !r.tie; i++ {
			r.apply("200 touch")
		}
		if r.fail != nil || r.tie {
			return
		}
		if st := r.safeDump(); st != nil {
			for c, m := range r.streams {
				if cl := w.clients[c]; cl == nil || cl.done || m.cancelled || m.done || m.op < 0 {
					continue
				}
				for _, t := range st.Tasks {
					for _, o := range t.Operations {
						if opIndex(o.Name) != m.op {
							continue
						}
						for _, q := range st.SizeClassQueues {
							if q.InstanceNamePrefix == t.InstanceNamePrefix && q.Platform == t.Platform && q.SizeClass == t.SizeClass && q.MayBeRemoved {
								r.failf("violation", timeoutProp(), "C02.eventually_done / C06.queue_timeout", "all workers have been gone for longer than the worker and queue timeouts, but the stream of client %d (operation %d, stage %d) is still open: its worker-created size class queue was never removed", c, m.op, t.Stage)
							}
						}
					}
				}
			}
		}
		if r.fail != nil {
			return
		}
	}
	cancelClients()
	cancelWorkers()
	for i := 0; i < 6 && r.fail == nil && !r.tie; i++ {
		r.apply("200 touch")
	}
	if r.fail != nil || r.tie {
		return
	}
	st := r.safeDump()
	if st == nil {
		return
	}
	var left []string
	for _, q := range st.SizeClassQueues {
		if len(q.Workers) > 0 {
			left = append(left, fmt.Sprintf("%d workers", len(q.Workers)))
		}
		if q.MayBeRemoved {
			left = append(left, "a worker-created size class queue")
		}
		if len(q.RootInvocation.Children) > 0 {
			for _, c := range q.RootInvocation.Children {
				if w.invPath(c.Keys) != "0" {
					left = append(left, "invocation "+w.invPath(c.Keys))
				}
			}
		}
	}
	for _, t := range st.Tasks {
		for _, o := range t.Operations {
			if !(o.MayExistWithoutWaiters && t.Stage == 2) {
				left = append(left, fmt.Sprintf("operation %d (stage %d)", opIndex(o.Name), t.Stage))
			}
		}
	}
	if len(st.DeduplicationMap) > 0 {
		left = append(left, "deduplication entries")
	}
	if len(left) > 0 {
		r.failf("violation", "C06", "C06.quiescence", "after all clients and workers are gone and all timeouts passed the scheduler still holds: %s", strings.Join(left, ", "))
	}
	// every learner received exactly one terminal call, except those still held by the
	// bounded backlog of queued background-learning tasks
	held, open := 0, 0
	for _, t := range st.Tasks {
		if t.HasLearner {
			held++
		}
	}
	for tok, n := range w.an.learners {
		if n > 1 {
			r.failf("violation", "C07", "C07.learner_linear", "learner %d received %d terminal calls", tok, n)
		}
		if n == 0 {
			open++
		}
	}
	if open != held {
		r.failf("violation", "C07", "C07.learner_linear", "%d learners never received a terminal call but only %d tasks still hold one", open, held)
	}
}

// endBubble releases every goroutine so that synctest can finish.
func (r *run) endBubble() {
	w := r.w
	w.clk.release()
	for c := range w.sending {
		w.releaseSend(c)
	}
	for _, cl := range w.clients {
		cl.cancel()
	}
	for _, cl := range w.syncs {
		cl.cancel()
	}
	for _, cl := range w.terms {
		cl.cancel()
	}
	w.clk.advance(w.clk.now + 1000000)
	synctest.Wait()
}

func runHistory(t *testing.T, drv *hx.Driver, lines []string, quiesce bool) *run {
	watchReset()
	r := &run{drv: drv, prev: map[string]string{}, flags: map[string]bool{}, streams: map[int]*streamMon{}, doneTask: map[int]string{}, syncRet: map[string]int64{}, issues: map[string]int{}, issuedTo: map[string]string{}}
	synctest.Test(t, func(t *testing.T) {
		r.w = newWorld(defaultCfg)
		c := defaultCfg
		out, err := r.askModel(fmt.Sprintf("cfg %d %d %d %d %d %d %d %d", c.update, c.idle, c.noWaiter, c.pqTimeout, c.busy, c.workerTimeout, c.retryCount, epoch+c.pqTimeout))
		if err != nil || out != "ok" {
			r.failf("mismatch", "", "Sched correspondence (driver)", "cfg: %v %s", err, out)
		}
		for _, l := range lines {
			if r.fail != nil || r.tie {
				break
			}
			r.apply(l)
		}
		if quiesce && r.fail == nil && !r.tie {
			r.quiesce()
		}
		r.endBubble()
	})
	r.finish()
	return r
}

// synctest_run executes body inside a fresh bubble with a fresh scheduler and model.
func synctest_run(t *testing.T, r *run, body func()) {
	watchReset()
	synctest.Test(t, func(t *testing.T) {
		r.w = newWorld(defaultCfg)
		r.w.gateAuth = r.noModel
		c := defaultCfg
		out, err := r.askModel(fmt.Sprintf("cfg %d %d %d %d %d %d %d %d", c.update, c.idle, c.noWaiter, c.pqTimeout, c.busy, c.workerTimeout, c.retryCount, epoch+c.pqTimeout))
		if err != nil || out != "ok" {
			r.failf("mismatch", "", "Sched correspondence (driver)", "cfg: %v %s", err, out)
		}
		body()
		r.endBubble()
	})
}
