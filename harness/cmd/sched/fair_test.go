package sched

import (
	"fmt"
	"os"
	"sort"
	"strconv"
	"strings"
	"sync"
	"time"

	"github.com/buildbarn/bb-remote-execution/pkg/scheduler"
	"github.com/buildbarn/bb-remote-execution/pkg/scheduler/invocation"

	"verifharness/internal/hx"
)

// C04: every hand-out decision of the real scheduler is judged against the documented
// fair order.  After every segment the invocation tree of the size class queue *before*
// the decision (VerifDumpState of the previous segment, plus the documented effect of a
// completion reported in the same Synchronize call) is serialised and sent to the Lean
// driver drv_fair (Model/Fair.lean):
//
//   - a worker that was not parked obtains a task (queue pick): the task must be in
//     specPick, the documented admissible set computed by full scan (violation
//     otherwise); when the segment did nothing before the pick, the transcription of
//     assignNextQueuedTask over the heap roots (pickFromQueue) must return exactly the
//     operation handed out, the snapshot must be well-formed, and the worker's
//     stickiness starting times afterwards must be those of the model's
//     stickinessRetained (mismatch otherwise);
//   - a parked worker obtains a task (direct hand-off): no other parked worker may be
//     more closely related to the task's invocations (violation otherwise), and when the
//     segment is an Execute the worker must be in handoffTargets, the transcription of
//     task.schedule (violation otherwise).
//
// fairSweep compares the real float64 invocation.isPreferred (hook VerifIsPreferred)
// with the exact score order scoreLt of the model.

func init() { windowChecks = append(windowChecks, fairCheck) }

// time given to invocations synthesised by walk(create)
var createNow int64

var (
	fairDrv   *hx.Driver
	fairCount = map[string]int{}
)

func fairStart() error {
	if fairDrv != nil {
		return nil
	}
	d, err := hx.StartDriver("fair")
	if err != nil {
		return err
	}
	fairDrv = d
	return nil
}

func fairStop() {
	if fairDrv != nil {
		fairDrv.Close()
		fairDrv = nil
	}
}

// ---- snapshot of one invocation tree -----------------------------------------------

type fop struct {
	id, prio, dur int
	ts            int64
}

type fnode struct {
	key                int
	ops                []fop
	queued             []int
	prio, exec         int
	started, completed int64
	parked, parkedKids []int
	kids               []*fnode
}

type fairCtx struct {
	w       *world
	keyIDs  map[string]int
	opInfo  map[string]fop // operation name -> priority, expected duration, queued timestamp
	opNames map[int]string
}

func unixOrZero(t time.Time) int64 {
	if t.IsZero() {
		return 0
	}
	return t.Unix()
}

func (c *fairCtx) keyID(k string) int {
	if k == string(invocation.BackgroundLearningKeys[0]) {
		return 0
	}
	if n, ok := c.w.invRev[k]; ok {
		return n
	}
	if n, ok := c.keyIDs[k]; ok {
		return n
	}
	n := 1000 + len(c.keyIDs)
	c.keyIDs[k] = n
	return n
}

func workerNum(id map[string]string) int {
	h, _ := strconv.Atoi(strings.TrimPrefix(id["host"], "h"))
	t, _ := strconv.Atoi(strings.TrimPrefix(id["thread"], "t"))
	return h*10 + t + 1
}

func newFairCtx(w *world, st *scheduler.VerifState) *fairCtx {
	c := &fairCtx{w: w, keyIDs: map[string]int{}, opInfo: map[string]fop{}}
	for _, t := range st.Tasks {
		for _, o := range t.Operations {
			c.opInfo[o.Name] = fop{id: opIndex(o.Name), prio: int(o.Priority), dur: int(t.ExpectedDuration / time.Second), ts: unixOrZero(t.QueuedTimestamp)}
		}
	}
	return c
}

func (c *fairCtx) build(vi *scheduler.VerifInvocation) *fnode {
	n := &fnode{prio: int(vi.FirstQueuedOperationPriority), exec: vi.ExecutingWorkersCount,
		started: unixOrZero(vi.LastOperationStarted), completed: unixOrZero(vi.LastOperationCompletion)}
	if len(vi.Keys) > 0 {
		n.key = c.keyID(vi.Keys[len(vi.Keys)-1])
	}
	for _, name := range vi.QueuedOperations {
		o, ok := c.opInfo[name]
		if !ok {
			o = fop{id: opIndex(name)}
		}
		n.ops = append(n.ops, o)
	}
	for _, k := range vi.QueuedChildren {
		n.queued = append(n.queued, c.keyID(k[len(k)-1]))
	}
	for _, k := range vi.IdleSynchronizingWorkersChildren {
		n.parkedKids = append(n.parkedKids, c.keyID(k[len(k)-1]))
	}
	for _, id := range vi.IdleSynchronizingWorkers {
		n.parked = append(n.parked, workerNum(id))
	}
	for i := range vi.Children {
		n.kids = append(n.kids, c.build(&vi.Children[i]))
	}
	return n
}

func (n *fnode) child(k int) *fnode {
	for _, c := range n.kids {
		if c.key == k {
			return c
		}
	}
	return nil
}

// walk visits the node at every prefix of path (including the root), creating empty
// invocations where create is set (getOrCreateInvocation: a new invocation starts with
// lastOperationStarted = lastOperationCompletion = now, see createNow).
func (n *fnode) walk(path []int, create bool, f func(*fnode)) {
	cur := n
	f(cur)
	for _, k := range path {
		next := cur.child(k)
		if next == nil {
			if !create {
				return
			}
			next = &fnode{key: k, started: createNow, completed: createNow}
			cur.kids = append(cur.kids, next)
		}
		cur = next
		f(cur)
	}
}

func (n *fnode) serialise(b *strings.Builder) {
	fmt.Fprintf(b, " %d %d %d %d %d %d", n.key, n.prio, n.exec, n.started, n.completed, len(n.ops))
	for _, o := range n.ops {
		fmt.Fprintf(b, " %d %d %d %d", o.id, o.prio, o.dur, o.ts)
	}
	writeInts := func(l []int) {
		fmt.Fprintf(b, " %d", len(l))
		for _, x := range l {
			fmt.Fprintf(b, " %d", x)
		}
	}
	writeInts(n.queued)
	writeInts(n.parked)
	writeInts(n.parkedKids)
	fmt.Fprintf(b, " %d", len(n.kids))
	for _, k := range n.kids {
		k.serialise(b)
	}
}

func (c *fairCtx) path(keys []string) []int {
	p := make([]int, len(keys))
	for i, k := range keys {
		p[i] = c.keyID(k)
	}
	return p
}

func intsSp(l []int) string {
	parts := make([]string, len(l)+1)
	parts[0] = strconv.Itoa(len(l))
	for i, x := range l {
		parts[i+1] = strconv.Itoa(x)
	}
	return strings.Join(parts, " ")
}

// per node path ("1,2"): queued operation names and executing workers count
func collect(vi *scheduler.VerifInvocation, c *fairCtx, queued map[string]bool, exec map[string]int) {
	p := intsStr(c.path(vi.Keys))
	exec[p] = vi.ExecutingWorkersCount
	for _, name := range vi.QueuedOperations {
		queued[name] = true
	}
	for i := range vi.Children {
		collect(&vi.Children[i], c, queued, exec)
	}
}

// ---- lookups in a VerifState -----------------------------------------------------------

func (w *world) findQueue(st *scheduler.VerifState, pq, sc int) *scheduler.VerifSizeClassQueue {
	for i := range st.SizeClassQueues {
		q := &st.SizeClassQueues[i]
		if w.pqIDFor(q.InstanceNamePrefix, q.Platform) == pq && int(q.SizeClass) == sc {
			return q
		}
	}
	return nil
}

func findWorker(q *scheduler.VerifSizeClassQueue, ht string) *scheduler.VerifWorker {
	if q == nil {
		return nil
	}
	for i := range q.Workers {
		if parseWorkerID(q.Workers[i].ID) == ht {
			return &q.Workers[i]
		}
	}
	return nil
}

func findTaskByOp(st *scheduler.VerifState, opName string) *scheduler.VerifTask {
	for i := range st.Tasks {
		for _, o := range st.Tasks[i].Operations {
			if o.Name == opName {
				return &st.Tasks[i]
			}
		}
	}
	return nil
}

func parseKV(s string) map[string]string {
	kv := map[string]string{}
	for _, f := range strings.Fields(s) {
		if p := strings.SplitN(f, "=", 2); len(p) == 2 {
			kv[p[0]] = p[1]
		}
	}
	return kv
}

func commonPrefixLen(a, b []int) int {
	n := 0
	for n < len(a) && n < len(b) && a[n] == b[n] {
		n++
	}
	return n
}

// distance of a worker whose last invocation is q from a task with invocations ps:
// fewest upward steps from one of the task's invocations to an ancestor-or-self of q
func relDistance(ps [][]int, q []int) int {
	best := -1
	for _, p := range ps {
		if d := len(p) - commonPrefixLen(p, q); best < 0 || d < best {
			best = d
		}
	}
	return best
}

// cleanupDue tells whether some cleanup callback registered in st is due at time now, i.e. ran at
// the next entry into the scheduler.
func cleanupDue(st *scheduler.VerifState, now time.Time) bool {
	due := func(t *time.Time) bool { return t != nil && !t.After(now) }
	for i := range st.SizeClassQueues {
		q := &st.SizeClassQueues[i]
		if due(q.Cleanup) {
			return true
		}
		for j := range q.Workers {
			if due(q.Workers[j].Cleanup) {
				return true
			}
		}
	}
	for i := range st.Tasks {
		for _, o := range st.Tasks[i].Operations {
			if due(o.Cleanup) {
				return true
			}
		}
	}
	return false
}

// ---- the check ---------------------------------------------------------------------------

func fairCheck(r *run, primary string, before, after *scheduler.VerifState, events []string) {
	if before == nil || after == nil || fairDrv == nil {
		return
	}
	type got struct {
		pq, sc int
		ht     string
	}
	var picks, handoffs []got
	for _, ev := range events {
		f := strings.Fields(ev)
		if len(f) < 3 || f[0] != "sync" || f[2] != "exec" {
			continue
		}
		k := strings.Split(strings.TrimPrefix(f[1], "w="), "/")
		if len(k) != 3 {
			continue
		}
		g := got{atoi(k[0]), atoi(k[1]), k[2]}
		wb := findWorker(r.w.findQueue(before, g.pq, g.sc), g.ht)
		if wb != nil && wb.Parked {
			handoffs = append(handoffs, g)
		} else {
			picks = append(picks, g)
		}
	}
	pf := strings.Fields(primary)
	if len(pf) > 0 && pf[0] == "exec" && len(picks) == 0 && len(handoffs) == 0 {
		fairDynEnqueue(r, before, after)
	}
	for _, g := range handoffs {
		if r.fail == nil {
			fairHandoff(r, pf, before, after, g.pq, g.sc, g.ht, len(handoffs))
		}
	}
	perQueue := map[string]int{}
	for _, g := range picks {
		perQueue[fmt.Sprintf("%d/%d", g.pq, g.sc)]++
	}
	for _, g := range picks {
		if r.fail != nil {
			return
		}
		if perQueue[fmt.Sprintf("%d/%d", g.pq, g.sc)] > 1 {
			// several workers of one queue picked in one segment (wake-up after an undrain): their order is not observable
			fairCount["pick-skipped-several-in-segment"]++
			continue
		}
		fairPick(r, pf, before, after, g.pq, g.sc, g.ht)
	}
}

func fairPick(r *run, pf []string, before, after *scheduler.VerifState, pq, sc int, ht string) {
	w := r.w
	qb, qa := w.findQueue(before, pq, sc), w.findQueue(after, pq, sc)
	wa := findWorker(qa, ht)
	if qb == nil || qa == nil || wa == nil || wa.CurrentTaskOperation == "" {
		fairCount["pick-skipped-no-before-state"]++
		return
	}
	wb := findWorker(qb, ht)
	ta := findTaskByOp(after, wa.CurrentTaskOperation)
	if ta == nil {
		return
	}
	if cleanupDue(before, after.Now) {
		// a cleanup callback ran when this call entered the scheduler (an operation without waiters
		// was removed, which may complete the worker's own task without it being "completed by the
		// worker"; a stale worker or queue was removed): the tree at the time of the decision is not
		// the dumped one
		fairCount["pick-skipped-cleanup-ran-at-entry"]++
		return
	}
	c := newFairCtx(w, before)

	// what the segment did before the pick
	var completedPaths [][]int
	lastKeys := []int{}
	starts := make([]int64, len(qb.StickinessLimits))
	completion, forced := false, false
	if wb != nil {
		lastKeys = c.path(wb.LastInvocationKeys)
		for i, t := range wb.StickinessStartingTimes {
			if i < len(starts) {
				starts[i] = unixOrZero(t)
			}
		}
		if wb.CurrentTaskOperation != "" {
			tb := findTaskByOp(before, wb.CurrentTaskOperation)
			// sync <now> <pq> <sc> <comps> <plat> <h.t> <report> <preferIdle>
			byWorker := len(pf) >= 8 && pf[0] == "sync" && atoi(pf[2]) == pq && atoi(pf[3]) == sc && pf[6] == ht &&
				strings.HasPrefix(pf[7], "c:") && tb != nil && strings.Split(pf[7], ":")[1] == strconv.Itoa(w.digests[tb.ActionDigestHash])
			if !byWorker && wb.CurrentTaskOperation == wa.CurrentTaskOperation {
				fairCount["exec-is-resend-of-current-task"]++
				return
			}
			if tb == nil {
				fairCount["pick-skipped-no-before-state"]++
				return
			}
			forced = !byWorker
			completion = true
			var ps [][]int
			for _, o := range tb.Operations {
				ps = append(ps, c.path(o.InvocationKeys))
			}
			completedPaths = ps
			if forced {
				// getCurrentOrNextTask gave up on the task (retry count exhausted, or the worker reported
				// something else): task.complete(..., completedByWorker = false) associates the worker
				// with the root invocation again
				lastKeys = []int{}
				if ta2 := findTaskByOp(after, wb.CurrentTaskOperation); ta2 != nil && ta2.Stage != 4 {
					fairCount["pick-skipped-forced-completion-unclear"]++
					return
				}
			} else {
				// worker.lastInvocation = lowest common ancestor of the task's invocations
				lastKeys = append([]int{}, ps[0]...)
				for _, p := range ps[1:] {
					lastKeys = lastKeys[:commonPrefixLen(lastKeys, p)]
				}
			}
		}
	}

	// did anything else change the tree in this segment? (cleanups at enter, kills,
	// background/retry tasks created by the completion)
	qBefore, qAfter := map[string]bool{}, map[string]bool{}
	eBefore, eAfter := map[string]int{}, map[string]int{}
	collect(&qb.RootInvocation, c, qBefore, eBefore)
	collect(&qa.RootInvocation, c, qAfter, eAfter)
	picked := map[string]bool{}
	var pickedPaths [][]int
	for _, o := range ta.Operations {
		picked[o.Name] = true
		pickedPaths = append(pickedPaths, c.path(o.InvocationKeys))
	}
	onPath := func(paths [][]int) map[string]bool {
		m := map[string]bool{}
		for _, p := range paths {
			for i := 0; i <= len(p); i++ {
				m[intsStr(p[:i])] = true
			}
		}
		return m
	}
	onCompleted, onPicked := onPath(completedPaths), onPath(pickedPaths)
	changed := false
	for name := range picked {
		if !qBefore[name] {
			changed = true
		}
	}
	for name := range qBefore {
		if !picked[name] && !qAfter[name] {
			changed = true
		}
	}
	for name := range qAfter {
		if !qBefore[name] || picked[name] {
			changed = true
		}
	}
	for p, ea := range eAfter {
		eb, ok := eBefore[p]
		if !ok {
			continue
		}
		if onCompleted[p] {
			eb--
		}
		if onPicked[p] {
			eb++
		}
		if ea != eb {
			changed = true
		}
	}
	if changed {
		fairCount["pick-skipped-tree-changed-in-segment"]++
		return
	}

	root := c.build(&qb.RootInvocation)
	now := after.Now.Unix()
	// what the segment did to the tree before the decision: decrementExecutingWorkersCount for the
	// operation of the completed task (Model/FairDyn.lean applies it, including the heap fixes and
	// the refresh of the cached priorities)
	pre, nPre := "", 0
	if completion {
		if len(completedPaths) != 1 {
			fairCount["pick-skipped-completed-task-with-several-operations"]++
			return
		}
		pre, nPre = fmt.Sprintf(" dec %s %d", intsSp(completedPaths[0]), now), 1
	}
	var b strings.Builder
	fmt.Fprintf(&b, "pick %d L %d", now, len(qb.StickinessLimits))
	for _, l := range qb.StickinessLimits {
		fmt.Fprintf(&b, " %d", int64(l/time.Second))
	}
	fmt.Fprintf(&b, " S %d", len(starts))
	for _, s := range starts {
		fmt.Fprintf(&b, " %d", s)
	}
	fmt.Fprintf(&b, " K %s U %d%s T", intsSp(lastKeys), nPre, pre)
	root.serialise(&b)
	req := b.String()
	out, err := fairDrv.Ask(req)
	if err != nil || out == "bad-op" {
		r.failf("mismatch", "C04", "Fair correspondence (driver)", "drv_fair: %v %s on %q", err, out, req)
		return
	}
	kv := parseKV(out)
	if fairDebug {
		fmt.Fprintf(os.Stderr, "FAIR %s\n  -> %s\n  starts before %v after %v\n  primary %v completion=%v wb=%+v\n  wa=%+v\n", req, out, starts, wa.StickinessStartingTimes, pf, completion, wb, wa)
	}
	fairCount["pick-checked"]++
	if completion && !forced {
		fairCount["pick-checked-after-completion"]++
	}
	if forced {
		fairCount["pick-checked-after-forced-completion"]++
	}
	if kv["multi"] == "1" {
		fairCount["pick-checked-with-two-or-more-candidates"]++
		r.flags["fair-multi"] = true
	}
	r.flags["fair-pick"] = true
	if len(qb.StickinessLimits) > 0 && len(lastKeys) > 0 {
		fairCount["pick-checked-with-stickiness-in-play"]++
	}
	if kv["code"] != kv["legacy"] {
		fairCount["pick-where-level0-window-would-differ"]++
	}

	pickedIDs := map[string]bool{}
	for name := range picked {
		pickedIDs[strconv.Itoa(opIndex(name))] = true
	}
	// A task with operations in several invocations can be admissible through more than one of them,
	// each with its own number of stickiness levels retained: all of them are kept.
	retained := -1
	retainedSet := map[int]bool{}
	if kv["spec"] != "-" {
		for _, e := range strings.Split(kv["spec"], ",") {
			p := strings.Split(e, "/")
			if pickedIDs[p[0]] {
				retained = atoi(p[1])
				retainedSet[retained] = true
			}
		}
	}
	desc := fmt.Sprintf("worker %d/%d/%s obtained operation(s) %v at time %d", pq, sc, ht, keysOf(pickedIDs), now)
	if retained < 0 {
		extra := ""
		if p := strings.Split(kv["legacy"], "/"); pickedIDs[p[0]] && kv["code"] != kv["legacy"] {
			extra = " (this is the choice of the walk that measures every level's stickiness window from the level-0 starting time, signature C04-stickiness-window-uses-level0-start)"
		}
		r.failf("violation", "C04", "C04.pick_refines_spec", "%s, but the documented policy admits only %s (operation/levels of stickiness retained)%s; pre-decision snapshot: %s", desc, kv["spec"], extra, req)
		return
	}
	{
		// (pending: a pick outside the documented set later in this history is the better report)
		if kv["wf"] != "1" {
			r.pendf("mismatch", "C04", "Fair correspondence: snapshot well-formed (Inv.wf: queuedChildren = children with queued work, heap roots minimal for the exact order)", "%s: the pre-decision snapshot is not well-formed: %s", desc, req)
		} else if kv["cache"] != "1" {
			r.pendf("mismatch", "C04", "C04.cached_priority (firstQueuedOperationPriority = priority of queuedOperations[0], else the cached priority of a queued child)", "%s: an invocation of the pre-decision snapshot caches a priority that updateFirstOperationPriority cannot have stored: %s", desc, req)
		} else if p := strings.Split(kv["code"], "/"); !pickedIDs[p[0]] {
			r.pendf("mismatch", "C04", "Fair correspondence: pickFromQueue = assignNextQueuedTask", "%s, the model's walk over the heap roots yields %s; snapshot: %s", desc, kv["code"], req)
		}
	}
	// the tree afterwards: incrementExecutingWorkersCount, then removeQueuedFromInvocation, for a task with one operation
	if len(ta.Operations) == 1 {
		p := pickedPaths[0]
		idx := -1
		root.walk(p, false, func(*fnode) {})
		cur := root
		for _, k := range p {
			if cur = cur.child(k); cur == nil {
				break
			}
		}
		if cur != nil {
			for i, o := range cur.ops {
				if pickedIDs[strconv.Itoa(o.id)] {
					idx = i
				}
			}
		}
		// another worker of the queue that parked or was woken in the same segment (several workers
		// released by one RemoveDrain) changed idleSynchronizingWorkers besides the pick
		others := false
		for i := range qa.Workers {
			if o := &qa.Workers[i]; parseWorkerID(o.ID) != ht {
				if ob := findWorker(qb, parseWorkerID(o.ID)); ob == nil || ob.Parked != o.Parked {
					others = true
				}
			}
		}
		if others {
			fairCount["dyn-pick-skipped-other-worker-parked-in-segment"]++
		} else if idx >= 0 {
			upd := fmt.Sprintf("%sinc %s %d deq %s %d", strings.TrimPrefix(pre+" ", " "), intsSp(p), now, intsSp(p), idx)
			fairDynCompare(r, c, "pick", upd, nPre+2, root, &qa.RootInvocation)
		}
	}
	// stickiness bookkeeping: levels below `retained` keep their starting time, the others restart now.
	// The number of levels retained is the one of the model's own walk when that walk ends at an operation
	// of the task handed out (always, unless the snapshot's heap order is not the one at decision time);
	// otherwise any admissible way to reach the task must explain the starting times.
	candidates := retainedSet
	if p := strings.Split(kv["code"], "/"); len(p) == 2 && pickedIDs[p[0]] {
		candidates = map[int]bool{atoi(p[1]): true}
	}
	fits := func(ret int) (int, int64, bool) {
		for i, t := range wa.StickinessStartingTimes {
			want := now
			if i < ret && i < len(starts) {
				want = starts[i]
			}
			if unixOrZero(t) != want {
				return i, want, false
			}
		}
		return 0, 0, true
	}
	ok := false
	for ret := range candidates {
		if _, _, f := fits(ret); f {
			ok = true
		}
	}
	if !ok {
		var rets []int
		for ret := range candidates {
			rets = append(rets, ret)
		}
		sort.Ints(rets)
		i, want, _ := fits(rets[0])
		r.pendf("mismatch", "C04", "Fair correspondence: stickinessRetained", "%s: stickiness starting time of level %d is %d afterwards, the model (levels retained: %v) expects %d", desc, i, unixOrZero(wa.StickinessStartingTimes[i]), rets, want)
	}
	if len(retainedSet) > 1 {
		fairCount["pick-task-admissible-through-several-operations"]++
	}
}

func keysOf(m map[string]bool) []string {
	var l []string
	for k := range m {
		l = append(l, k)
	}
	sort.Strings(l)
	return l
}

func fairHandoff(r *run, pf []string, before, after *scheduler.VerifState, pq, sc int, ht string, handoffsInSegment int) {
	w := r.w
	qb, qa := w.findQueue(before, pq, sc), w.findQueue(after, pq, sc)
	wa, wb := findWorker(qa, ht), findWorker(qb, ht)
	if qb == nil || qa == nil || wa == nil || wb == nil || wa.CurrentTaskOperation == "" {
		return
	}
	ta := findTaskByOp(after, wa.CurrentTaskOperation)
	if ta == nil {
		return
	}
	c := newFairCtx(w, before)
	var paths [][]int
	for _, o := range ta.Operations {
		paths = append(paths, c.path(o.InvocationKeys))
	}
	me := workerNum(wb.ID)
	now := after.Now.Unix()
	desc := fmt.Sprintf("parked worker %d/%d/%s (last invocation %s) was handed the task of operation %d with invocations %v at time %d",
		pq, sc, ht, intsStr(c.path(wb.LastInvocationKeys)), opIndex(wa.CurrentTaskOperation), paths, now)
	fairCount["handoff-checked"]++
	r.flags["fair-handoff"] = true

	// monitor: no worker that stayed parked is more closely related
	mine := relDistance(paths, c.path(wb.LastInvocationKeys))
	others := 0
	for i := range qb.Workers {
		o := &qb.Workers[i]
		oa := findWorker(qa, parseWorkerID(o.ID))
		if !o.Parked || oa == nil || !oa.Parked {
			continue
		}
		others++
		if d := relDistance(paths, c.path(o.LastInvocationKeys)); d < mine {
			r.failf("violation", "C04", "C04.direct_handoff_prefers_related", "%s (%d steps up), although worker %s, parked at invocation %s, is more closely related (%d steps up)",
				desc, mine, parseWorkerID(o.ID), intsStr(c.path(o.LastInvocationKeys)), d)
			return
		}
	}
	if others > 0 {
		fairCount["handoff-checked-with-other-parked-workers"]++
	}
	for i, t := range wa.StickinessStartingTimes {
		if unixOrZero(t) != now {
			r.pendf("mismatch", "C04", "Fair correspondence: stickinessRetained", "%s: stickiness starting time of level %d is %d afterwards, expected %d (a direct hand-off retains no stickiness)", desc, i, unixOrZero(t), now)
			return
		}
	}

	// transcription of task.schedule: only when the segment is an Execute that did nothing else to the parked workers
	if len(pf) == 0 || pf[0] != "exec" || handoffsInSegment != 1 || cleanupDue(before, after.Now) {
		fairCount["handoff-model-skipped-not-a-plain-execute"]++
		return
	}
	for i := range qb.Workers {
		o := &qb.Workers[i]
		oa := findWorker(qa, parseWorkerID(o.ID))
		if o.Parked && parseWorkerID(o.ID) != ht && (oa == nil || !oa.Parked) {
			fairCount["handoff-model-skipped-not-a-plain-execute"]++
			return
		}
	}
	root := c.build(&qb.RootInvocation)
	createNow = now
	for _, p := range paths {
		root.walk(p, true, func(*fnode) {})
	}
	var b strings.Builder
	fmt.Fprintf(&b, "handoff I %d", len(paths))
	for _, p := range paths {
		fmt.Fprintf(&b, " %s", intsSp(p))
	}
	b.WriteString(" T")
	root.serialise(&b)
	req := b.String()
	out, err := fairDrv.Ask(req)
	if err != nil || out == "bad-op" {
		r.failf("mismatch", "C04", "Fair correspondence (driver)", "drv_fair: %v %s on %q", err, out, req)
		return
	}
	fairCount["handoff-model-checked"]++
	targets := strings.Split(strings.TrimPrefix(out, "targets="), ",")
	for _, t := range targets {
		if t == strconv.Itoa(me) {
			return
		}
	}
	r.failf("violation", "C04", "C04.direct_handoff_prefers_related (order among equally related workers: idleSynchronizingWorkersChildren root, first parked worker)", "%s, but task.schedule as documented would choose one of the workers %v (worker number = 10*host+thread+1); snapshot: %s", desc, targets, req)
}

// fairSweep compares the float64 implementation of invocation.isPreferred with the exact
// score order of the model for all executing counts <= 64, all pairs of the generator's
// priorities and both tie-breaker values.
func fairSweep(res *hx.Result) *hx.Finding {
	var first *hx.Finding
	// the real function first (4 goroutines; it allocates stub invocations on every call)
	type cell struct{ pi, pj int }
	var cells []cell
	for _, pi := range prioPool {
		for _, pj := range prioPool {
			cells = append(cells, cell{pi, pj})
		}
	}
	real := make([][]bool, len(cells))
	var wg sync.WaitGroup
	for g := 0; g < 4; g++ {
		wg.Add(1)
		go func(g int) {
			defer wg.Done()
			for ci := g; ci < len(cells); ci += 4 {
				row := make([]bool, 0, 65*65*2)
				for ei := 0; ei <= 64; ei++ {
					for tie := 0; tie <= 1; tie++ {
						for ej := 0; ej <= 64; ej++ {
							row = append(row, scheduler.VerifIsPreferred(ei, int32(cells[ci].pi), ej, int32(cells[ci].pj), tie == 1))
						}
					}
				}
				real[ci] = row
			}
		}(g)
	}
	wg.Wait()
	n, bad := 0, 0
	for ci, c := range cells {
		k := 0
		for ei := 0; ei <= 64; ei++ {
			for tie := 0; tie <= 1; tie++ {
				line := fmt.Sprintf("scorerow %d %d %d %d 64", ei, c.pi, c.pj, tie)
				out, err := fairDrv.Ask(line)
				if err != nil || len(out) != 65 {
					return &hx.Finding{Kind: "mismatch", Property: "C04", Name: "Fair correspondence (driver)", What: fmt.Sprintf("drv_fair: %v %s on %q", err, out, line), Sig: hx.Sig("C04", "sweep-driver")}
				}
				for ej := 0; ej <= 64; ej++ {
					got := real[ci][k]
					k++
					n++
					if (out[ej] == '1') != got {
						bad++
						if bad == 1 {
							first = &hx.Finding{Kind: "mismatch", Property: "C04", Name: "C04.isPreferred_is_scoreLt (sweep of the real invocation.isPreferred against the exact score order)",
								What:    fmt.Sprintf("isPreferred(executing %d, priority %d; executing %d, priority %d; tieBreaker %d) = %v, the exact order (e+1)^100*2^p says %c", ei, c.pi, ej, c.pj, tie, got, out[ej]),
								History: []string{fmt.Sprintf("scorelt %d %d %d %d %d", ei, c.pi, ej, c.pj, tie)}, Sig: hx.Sig("C04", "mismatch", "isPreferred-sweep")}
						}
					}
				}
			}
		}
	}
	res.Histogram["isPreferred-sweep-calls"] += n
	res.Histogram["isPreferred-sweep-disagreements"] += bad
	if first != nil {
		return first
	}
	// The whole advertised priority range (MinInt32..MaxInt32): when two priorities differ
	// by more than 700, 2^(difference/100) > 65 >= (e_i+1)/(e_j+1), so the documented score
	// (executing+1)*2^(priority/100) is strictly lower for the numerically lower priority,
	// whatever the executing counts (<= 64) and the tie-breaker are.  Judged on the real
	// function alone (no model needed): a wrong answer is a violation of the documented order.
	extremes := []int64{-2147483648, -2147483647, -2000000000, -1073741824, -1000000, -701, 0, 701, 1000000, 1073741823, 2000000000, 2147483646, 2147483647}
	for _, pi := range extremes {
		for _, pj := range extremes {
			if d := pi - pj; d >= -700 && d <= 700 {
				continue
			}
			for _, ei := range []int{0, 1, 7, 64} {
				for _, ej := range []int{0, 1, 7, 64} {
					for tie := 0; tie <= 1; tie++ {
						res.Histogram["isPreferred-extreme-calls"]++
						got := scheduler.VerifIsPreferred(ei, int32(pi), ej, int32(pj), tie == 1)
						if want := pi < pj; got != want {
							return &hx.Finding{Kind: "violation", Property: "C04", Name: "C04.child_is_score_minimal (documented score order over the full priority range)",
								What:    fmt.Sprintf("isPreferred(executing %d, priority %d; executing %d, priority %d; tieBreaker %d) = %v although the score (executing+1)*2^(priority/100) of the first is %s", ei, pi, ej, pj, tie, got, map[bool]string{true: "strictly lower", false: "strictly higher"}[want]),
								History: []string{fmt.Sprintf("ispreferred %d %d %d %d %d", ei, pi, ej, pj, tie)}, Sig: hx.Sig("C04", "violation", "isPreferred-extreme")}
						}
					}
				}
			}
		}
	}
	return first
}

// fairFinish adds the decision statistics to the result.
func fairFinish(res *hx.Result) {
	for k, v := range fairCount {
		res.Histogram["fair-"+k] += v
	}
	res.PerProperty["C04"] = fairCount["pick-checked"] + fairCount["handoff-checked"] + res.Histogram["isPreferred-sweep-calls"]
	if fairDrv != nil {
		res.ModelLines += fairDrv.Lines
	}
}

var fairDebug = os.Getenv("FAIR_DEBUG") != ""

// ---- differential run of the dynamic model (Model/FairDyn.lean, container/heap layout) ---------

type dynNode struct{ prio, ops, q, pk, pw, e, s, c string }

func (c *fairCtx) dynMap(vi *scheduler.VerifInvocation, m map[string]dynNode) {
	n := c.build(vi)
	ids := make([]int, len(n.ops))
	for i, o := range n.ops {
		ids[i] = o.id
	}
	csv := func(l []int) string {
		if len(l) == 0 {
			return ""
		}
		return strings.Trim(strings.Join(strings.Fields(fmt.Sprint(l)), ","), "[]")
	}
	p := c.path(vi.Keys)
	m[csv(p)] = dynNode{strconv.Itoa(n.prio), csv(ids), csv(n.queued), csv(n.parkedKids), csv(n.parked),
		strconv.Itoa(n.exec), strconv.FormatInt(n.started, 10), strconv.FormatInt(n.completed, 10)}
	for i := range vi.Children {
		c.dynMap(&vi.Children[i], m)
	}
}

func parseDyn(out string) map[string]dynNode {
	m := map[string]dynNode{}
	for _, e := range strings.Fields(out) {
		kv := map[string]string{}
		for _, f := range strings.Split(e, ";") {
			if p := strings.SplitN(f, "=", 2); len(p) == 2 {
				kv[p[0]] = p[1]
			}
		}
		m[kv["p"]] = dynNode{kv["prio"], kv["ops"], kv["q"], kv["pk"], kv["pw"], kv["e"], kv["s"], kv["c"]}
	}
	return m
}

// fairDynCompare asks the model for the tree after the updates and compares every invocation of the real
// tree afterwards with it: order of queuedOperations, queuedChildren and idleSynchronizingWorkersChildren
// (heap layout), cached priority, executing count, time stamps.  Invocations that exist only in the model's
// result must be empty (removeIfEmpty is not part of the model).
func fairDynCompare(r *run, c *fairCtx, what, updates string, nUpdates int, root *fnode, afterRoot *scheduler.VerifInvocation) {
	var b strings.Builder
	fmt.Fprintf(&b, "apply U %d %s T", nUpdates, updates)
	root.serialise(&b)
	req := b.String()
	out, err := fairDrv.Ask(req)
	if err != nil || out == "bad-op" {
		r.failf("mismatch", "C04", "Fair correspondence (driver)", "drv_fair: %v %s on %q", err, out, req)
		return
	}
	model := parseDyn(out)
	real := map[string]dynNode{}
	c.dynMap(afterRoot, real)
	fairCount["dyn-"+what+"-checked"]++
	for p, rn := range real {
		mn, ok := model[p]
		if !ok {
			fairCount["dyn-"+what+"-skipped-node-sets-differ"]++
			return
		}
		if mn != rn {
			r.pendf("mismatch", "C04", "Fair correspondence: "+what+" on the tree = Model/FairDyn.lean (heap layout after the code's heapPushOrFix/heapRemoveOrFix/heapMaybeFix calls, cached priorities)",
				"invocation %q after %s: real %+v, model %+v; request: %s", p, what, rn, mn, req)
			return
		}
	}
	for p, mn := range model {
		if _, ok := real[p]; !ok && (mn.ops != "" || mn.q != "" || mn.pw != "" || mn.pk != "") {
			r.pendf("mismatch", "C04", "Fair correspondence: "+what+" on the tree = Model/FairDyn.lean", "invocation %q holds %+v in the model but does not exist afterwards; request: %s", p, mn, req)
			return
		}
	}
}

// fairDynEnqueue: an Execute whose only effect on the trees is that one operation was queued.
func fairDynEnqueue(r *run, before, after *scheduler.VerifState) {
	if cleanupDue(before, after.Now) {
		return
	}
	var target *scheduler.VerifSizeClassQueue
	var targetBefore *scheduler.VerifSizeClassQueue
	newOp := ""
	for i := range after.SizeClassQueues {
		qa := &after.SizeClassQueues[i]
		qb := r.w.findQueue(before, r.w.pqIDFor(qa.InstanceNamePrefix, qa.Platform), int(qa.SizeClass))
		if qb == nil {
			return
		}
		c := newFairCtx(r.w, before)
		sb, sa := map[string]bool{}, map[string]bool{}
		collect(&qb.RootInvocation, c, sb, map[string]int{})
		collect(&qa.RootInvocation, c, sa, map[string]int{})
		for name := range sb {
			if !sa[name] {
				return
			}
		}
		for name := range sa {
			if !sb[name] {
				if newOp != "" {
					return
				}
				newOp, target, targetBefore = name, qa, qb
			}
		}
	}
	if newOp == "" {
		return
	}
	ta := findTaskByOp(after, newOp)
	if ta == nil {
		return
	}
	c := newFairCtx(r.w, after) // operation data of the new operation are only in the state afterwards
	var path []int
	for _, o := range ta.Operations {
		if o.Name == newOp {
			path = c.path(o.InvocationKeys)
		}
	}
	root := c.build(&targetBefore.RootInvocation)
	// getOrCreateInvocation: one `mk` update per invocation of the path that does not exist yet
	var upds []string
	cur := root
	for i, k := range path {
		if cur != nil {
			cur = cur.child(k)
		}
		if cur == nil {
			upds = append(upds, fmt.Sprintf("mk %s %d %d", intsSp(path[:i]), k, after.Now.Unix()))
		}
	}
	o := c.opInfo[newOp]
	upds = append(upds, fmt.Sprintf("enq %s %d %d %d %d", intsSp(path), o.id, o.prio, o.dur, o.ts))
	if len(upds) > 1 {
		fairCount["dyn-enqueue-with-new-invocations"]++
	}
	fairDynCompare(r, c, "enqueue", strings.Join(upds, " "), len(upds), root, &target.RootInvocation)
}
