package nfsstate

import (
	"fmt"
	"sort"
	"strings"

	"verifharness/internal/hx"
)

// makeGen returns a generator of the next op of a history, drawn from the
// client view of the running history (registered clients, state IDs received,
// requests parked). Mostly valid requests, plus a stream of deliberately
// wrong ones (stale / future seqids, foreign clients and files, forged state
// IDs, missing file handles).
func makeGen(rnd *hx.Rand, version, prop string) genFunc {
	v40 := version == "v40"
	locky := prop == "C20"
	offsets := []string{"0", "1", "5", "10", "2^63", "max-1", "max"}
	lengths := []string{"1", "2", "5", "10", "2^63", "max", "max", "0"}
	var pending []string
	return func(r *run) string {
		if len(pending) > 0 {
			op := pending[0]
			pending = pending[1:]
			return op
		}
		r.nextReq++
		id := r.nextReq
		// sorted views (deterministic)
		var clients []*clientRec
		for _, c := range r.clients {
			if !c.dead && c.long < 9 {
				clients = append(clients, c)
			}
		}
		sort.Slice(clients, func(i, j int) bool { return clients[i].modelID < clients[j].modelID })
		var confirmed []*clientRec
		for _, c := range clients {
			if c.confirmed && (v40 || func() bool { s, _ := c.liveSession(); return s != nil }()) {
				confirmed = append(confirmed, c)
			}
		}
		var opens, locks, all []*stateRec
		for _, s := range r.states {
			all = append(all, s)
		}
		sort.Slice(all, func(i, j int) bool { return all[i].req < all[j].req || (all[i].req == all[j].req && all[i].sid < all[j].sid) })
		for _, s := range all {
			if s.closed || s.c.dead {
				continue
			}
			if s.lock {
				locks = append(locks, s)
			} else {
				opens = append(opens, s)
			}
		}
		pickClient := func() *clientRec { return confirmed[rnd.Intn(len(confirmed))] }
		lease := func() {
			// note lapsing leases for the non-triviality rule
		}
		_ = lease
		if len(confirmed) == 0 {
			return fmt.Sprintf("reg %d %d", rnd.Intn(3), rnd.Intn(2))
		}
		// quiet period: for several lease times only the clock moves (30 s steps) and
		// leases are kept alive by RENEW / an empty SEQUENCE; either one client that holds
		// state goes silent while at least two others stay active (it must be reclaimed
		// although others keep the server busy), or nobody does (nothing may be
		// reclaimed: an open-owner that closed one of its files keeps the others and its
		// locks). Afterwards other owners probe the locks that were held.
		if (len(opens) > 0 || len(locks) > 0) && rnd.Chance(1, 40) {
			var silent *clientRec
			var active []*clientRec
			if rnd.Chance(1, 2) && len(opens) > 0 {
				silent = opens[rnd.Intn(len(opens))].c
			}
			for _, c := range confirmed {
				if c != silent {
					active = append(active, c)
				}
			}
			if silent != nil {
				// at least two active clients
				for l := 0; len(active) < 2 && l < 3; l++ {
					for v := 0; v < 2 && len(active) < 2; v++ {
						if c := r.client(l, v); (c == nil || c.dead) && (silent == nil || l != silent.long) {
							taken := false
							for _, a := range active {
								if a.long == l {
									taken = true
								}
							}
							if !taken {
								pending = append(pending, fmt.Sprintf("reg %d %d", l, v))
								active = append(active, &clientRec{long: l, ver: v})
							}
						}
					}
				}
			} else if len(opens) > 0 {
				// an open-owner with two open files and a lock on the first closes the second
				s1 := opens[rnd.Intn(len(opens))]
				other := (s1.leaf + 1) % numFiles
				r.nextReq += 3
				a, b, c := r.nextReq-2, r.nextReq-1, r.nextReq
				_ = c
				pending = append(pending, fmt.Sprintf("open %d %d %d %d 3 0 n %d 0", a, s1.c.long, s1.c.ver, s1.key, other))
				if v40 {
					pending = append(pending, fmt.Sprintf("oconf %d", a))
				}
				lo := -1
				for cand := 0; cand < 3 && lo < 0; cand++ {
					free := true
					for _, l := range locks {
						if l.c == s1.c && l.key == cand && l.leaf == s1.leaf && l.parent != s1 {
							free = false // never one lock-owner through two open-owners (known finding)
						}
					}
					if free {
						lo = cand
					}
				}
				if lo >= 0 {
					pending = append(pending, fmt.Sprintf("lock %d %d %d 2 0 10", b, s1.req, lo))
				}
				pending = append(pending, fmt.Sprintf("close %d", a))
			}
			n := 6 + rnd.Intn(16)
			for i := 0; i < n; i++ {
				pending = append(pending, "tick 30")
				for _, c := range active {
					if rnd.Chance(1, 5) {
						pending = append(pending, fmt.Sprintf("lockt %d %d %d %d 1 0 max", c.long, c.ver, rnd.Intn(3), rnd.Intn(numFiles)))
					} else {
						pending = append(pending, fmt.Sprintf("renew %d %d", c.long, c.ver))
					}
				}
			}
			// probes of the locks that were held, by other owners
			for i, s := range locks {
				if i >= 3 || len(active) == 0 {
					break
				}
				c := active[rnd.Intn(len(active))]
				pending = append(pending, fmt.Sprintf("lockt %d %d %d %d 2 0 max", c.long, c.ver, (s.key+1)%3, s.leaf))
			}
			if silent != nil {
				r.out.flags["quiet-one-silent"] = true
			} else {
				r.out.flags["quiet-all-renew"] = true
			}
			if len(pending) > 0 {
				op := pending[0]
				pending = pending[1:]
				return op
			}
		}
		// 4.0: confirm freshly opened unconfirmed owners most of the time
		if v40 {
			for _, s := range opens {
				if !r.confirmedOwners()[[2]int{s.c.modelID, s.key}] && rnd.Chance(4, 5) {
					return fmt.Sprintf("oconf %d", s.req)
				}
			}
		}
		bad := func() string {
			switch rnd.Pick(5, 3, 2, 3, 2) {
			case 0:
				return []string{" ss=-1", " ss=1", " ss=z"}[rnd.Intn(3)]
			case 1:
				if v40 {
					return []string{" os=-1", " os=1", " ls=-1", " ls=1"}[rnd.Intn(4)]
				}
				return " ss=z"
			case 2:
				return fmt.Sprintf(" as=%d.%d", rnd.Intn(3), rnd.Intn(2))
			case 3:
				return []string{fmt.Sprintf(" fh=%d", rnd.Intn(numFiles)), " fh=-1", fmt.Sprintf(" fh=d%d", rnd.Intn(numFiles))}[rnd.Intn(3)]
			}
			return ""
		}
		maybeBad := func() string {
			if rnd.Chance(1, 9) {
				return bad()
			}
			return ""
		}
		rng := func() (string, string) {
			for {
				a, b := offsets[rnd.Intn(len(offsets))], lengths[rnd.Intn(len(lengths))]
				if a == "max" && b == "max" && !rnd.Chance(1, 3) {
					continue // refused with NFS4ERR_BAD_RANGE since 3d4b513; asked for now and then
				}
				if b == "0" && !rnd.Chance(1, 4) {
					continue
				}
				return a, b
			}
		}
		// one lock-owner never locks one file through two open-owners (dedicated probe only)
		loFree := func(open *stateRec, lo int) bool {
			for _, l := range locks {
				if l.c == open.c && l.key == lo && l.leaf == open.leaf && l.parent != open {
					return false
				}
			}
			return true
		}
		w := []int{
			6,  // 0 tick
			3,  // 1 registration traffic
			14, // 2 open
			4,  // 3 downgrade
			7,  // 4 close
			9,  // 5 lock new
			5,  // 6 lock existing
			5,  // 7 locku
			6,  // 8 lockt
			2,  // 9 rlo / free
			12, // 10 io
			7,  // 11 rel
			2,  // 12 unlink
			3,  // 13 putfh
			2,  // 14 renew
			2,  // 15 sessions
		}
		if locky {
			w[5], w[6], w[7], w[8] = 16, 9, 8, 12
		}
		if len(r.parked) > 2 {
			w[11] = 20
		}
		switch rnd.Pick(w...) {
		case 0:
			d := 1 + rnd.Intn(40)
			switch rnd.Pick(6, 3, 1, 2) {
			case 1:
				d = 50 + rnd.Intn(60)
			case 2:
				d = int(leaseSecs) + 1 + rnd.Intn(60)
			case 3:
				// exactly to the end of some client's lease (still valid), or one second beyond
				c := pickClient()
				if left := leaseSecs - (r.now - c.lastRenew); c.renewed && left > 0 {
					d = int(left) + rnd.Intn(2)
				}
			}
			// non-triviality bookkeeping
			for _, s := range opens {
				if s.c.inflight == 0 && s.c.renewed && r.now+int64(d)-s.c.lastRenew > leaseSecs {
					r.out.flags["lease-lapsed-with-state"] = true
				}
			}
			return fmt.Sprintf("tick %d", d)
		case 1:
			l, v := rnd.Intn(3), rnd.Intn(2)
			switch rnd.Pick(5, 2, 2) {
			case 0:
				if c := r.client(l, 1-v); c != nil && c.confirmed && !c.dead {
					for _, s := range opens {
						if s.c == c {
							r.out.flags["rereg-with-state"] = true
						}
					}
				}
				return fmt.Sprintf("reg %d %d", l, v)
			case 1:
				return fmt.Sprintf("setcid %d %d", l, v)
			default:
				return fmt.Sprintf("conf %d %d", l, v)
			}
		case 2:
			c := pickClient()
			acc := 1 + rnd.Intn(3)
			how := rnd.Pick(6, 2, 1, 1)
			claim := "n"
			f, name := rnd.Intn(numFiles), 0
			switch {
			case !v40 && rnd.Chance(1, 2):
				claim = "h"
				if how == 3 {
					how = 0
				}
			case rnd.Chance(1, 7):
				// CLAIM_PREVIOUS: with or without state to reclaim, with or without a delegation type
				claim = "p"
				dt := ""
				if rnd.Chance(1, 3) {
					dt = fmt.Sprintf(" dt=%d", 1+rnd.Intn(2))
				}
				if len(opens) > 0 && rnd.Chance(2, 3) {
					s := opens[rnd.Intn(len(opens))]
					return fmt.Sprintf("open %d %d %d %d %d %d p %d 0%s", id, s.c.long, s.c.ver, s.key, acc, how%3, s.leaf, dt)
				}
				if dt != "" {
					var leaves []int
					for lf := range r.leafFH {
						leaves = append(leaves, lf)
					}
					sort.Ints(leaves)
					return fmt.Sprintf("open %d %d %d %d %d %d p %d 0%s", id, c.long, c.ver, rnd.Intn(3), acc, how%3, leaves[rnd.Intn(len(leaves))], dt)
				}
			case rnd.Chance(1, 4):
				name = 1
				if how == 0 {
					how = 1
				}
			}
			if claim != "n" {
				// any known leaf, including created and unlinked ones
				var leaves []int
				for lf := range r.leafFH {
					leaves = append(leaves, lf)
				}
				sort.Ints(leaves)
				f = leaves[rnd.Intn(len(leaves))]
			}
			opt := ""
			if rnd.Chance(1, 6) && claim != "p" {
				opt = " park"
			}
			if rnd.Chance(1, 25) {
				opt += fmt.Sprintf(" dn=%d", 1+rnd.Intn(3))
			}
			if v40 && rnd.Chance(1, 14) {
				opt += []string{" os=-1", " os=1"}[rnd.Intn(2)]
			}
			if rnd.Chance(1, 30) {
				acc = []int{0, 4}[rnd.Intn(2)]
			}
			return fmt.Sprintf("open %d %d %d %d %d %d %s %d %d%s", id, c.long, c.ver, rnd.Intn(3), acc, how, claim, f, name, opt)
		case 3:
			if len(opens) == 0 {
				return ""
			}
			s := opens[rnd.Intn(len(opens))]
			return fmt.Sprintf("down %d %d%s", s.req, 1+rnd.Intn(3), maybeBad())
		case 4:
			if len(opens) == 0 {
				return ""
			}
			s := opens[rnd.Intn(len(opens))]
			return fmt.Sprintf("close %d%s", s.req, maybeBad())
		case 5:
			if len(opens) == 0 {
				return ""
			}
			s := opens[rnd.Intn(len(opens))]
			lo := rnd.Intn(3)
			if !loFree(s, lo) {
				return ""
			}
			a, b := rng()
			opt := maybeBad()
			if strings.Contains(opt, "as=") {
				// through another client's session the state ID may resolve to a state of that
				// client: the lock-owner could then reach one file through two open-owners
				opt = ""
			}
			lt := 1 + rnd.Intn(4)
			lock := fmt.Sprintf("lock %d %d %d %d %s %s%s", id, s.req, lo, lt, a, b, opt)
			if opt == "" && rnd.Chance(1, 4) {
				// ask first: LOCKT by the same owner for the same type and range, then the LOCK
				pending = append(pending, lock)
				return fmt.Sprintf("lockt %d %d %d %d %d %s %s", s.c.long, s.c.ver, lo, s.leaf, lt, a, b)
			}
			return lock
		case 6:
			if len(locks) == 0 {
				return ""
			}
			s := locks[rnd.Intn(len(locks))]
			a, b := rng()
			return fmt.Sprintf("lockx %d %d %s %s%s", s.req, 1+rnd.Intn(4), a, b, maybeBad())
		case 7:
			if len(locks) == 0 {
				return ""
			}
			s := locks[rnd.Intn(len(locks))]
			a, b := rng()
			if rnd.Chance(1, 3) {
				a, b = "0", "max"
			}
			return fmt.Sprintf("locku %d %s %s%s", s.req, a, b, maybeBad())
		case 8:
			c := pickClient()
			f := rnd.Intn(numFiles)
			lo := rnd.Intn(3)
			if len(locks) > 0 && rnd.Chance(3, 4) {
				// probe around an existing lock: its own owner, or another one
				s := locks[rnd.Intn(len(locks))]
				f = s.leaf
				if rnd.Chance(1, 2) && !s.c.dead {
					c, lo = s.c, s.key
				}
			}
			a, b := rng()
			opt := ""
			if rnd.Chance(1, 20) {
				opt = []string{" fh=-1", fmt.Sprintf(" fh=d%d", rnd.Intn(numFiles))}[rnd.Intn(2)]
			}
			return fmt.Sprintf("lockt %d %d %d %d %d %s %s%s", c.long, c.ver, lo, f, 1+rnd.Intn(4), a, b, opt)
		case 9:
			if v40 {
				c := pickClient()
				return fmt.Sprintf("rlo %d %d %d", c.long, c.ver, rnd.Intn(3))
			}
			// FREE_STATEID of a lock state: mostly one that holds no lock (freed), sometimes one that does (LOCKS_HELD)
			for _, s := range locks {
				held := false
				if orc := r.oracle[s.leaf]; orc != nil {
					held = len(orc.held[ownerID{s.c.modelID, s.key}]) > 0 || orc.top[ownerID{s.c.modelID, s.key}] != 0
				}
				if (!held && rnd.Chance(1, 2)) || (held && rnd.Chance(1, 6)) {
					return fmt.Sprintf("free %d%s", s.req, maybeBad())
				}
			}
			if len(opens) > 0 && rnd.Chance(1, 3) {
				return fmt.Sprintf("free %d", opens[rnd.Intn(len(opens))].req)
			}
			return ""
		case 10:
			kind := []string{"r", "w", "s"}[rnd.Pick(5, 4, 1)]
			x, f := -1, rnd.Intn(numFiles)
			switch rnd.Pick(10, 5, 2, 1, 1, 2) {
			case 0:
				if len(opens) > 0 {
					s := opens[rnd.Intn(len(opens))]
					x, f = s.req, s.leaf
				}
			case 1:
				if len(locks) > 0 {
					s := locks[rnd.Intn(len(locks))]
					x, f = s.req, s.leaf
				}
			case 2:
				x = -1
			case 3:
				x = -2
			case 4:
				x = -3
			case 5:
				// a state ID the client has closed or lost
				if len(all) > 0 {
					s := all[rnd.Intn(len(all))]
					x, f = s.req, s.leaf
				}
			}
			if x < 0 && len(confirmed) == 0 {
				return ""
			}
			opt := maybeBad()
			if kind != "s" && rnd.Chance(1, 4) {
				opt += " park"
			}
			if rnd.Chance(1, 6) {
				// the file system fails the call (disk full, backing store unreachable, …)
				opt += " fail"
			}
			return fmt.Sprintf("io %d %s %d %d%s", id, kind, x, f, opt)
		case 11:
			if len(r.parked) == 0 {
				return ""
			}
			return fmt.Sprintf("rel %d", r.parked[rnd.Intn(len(r.parked))].id)
		case 12:
			return fmt.Sprintf("unlink %d %d", rnd.Intn(numFiles), rnd.Intn(2))
		case 13:
			var leaves []int
			for lf := range r.leafFH {
				leaves = append(leaves, lf)
			}
			sort.Ints(leaves)
			// prefer unlinked files
			for _, lf := range leaves {
				if r.unlinked[lf] && rnd.Chance(1, 2) {
					return fmt.Sprintf("putfh %d", lf)
				}
			}
			return fmt.Sprintf("putfh %d", leaves[rnd.Intn(len(leaves))])
		case 14:
			c := pickClient()
			return fmt.Sprintf("renew %d %d", c.long, c.ver)
		case 15:
			if v40 {
				return ""
			}
			c := clients[rnd.Intn(len(clients))]
			switch rnd.Pick(3, 2, 1) {
			case 0:
				return fmt.Sprintf("csess %d %d", c.long, c.ver)
			case 1:
				if len(c.sessions) == 0 {
					return ""
				}
				return fmt.Sprintf("dsess %d %d %d", c.long, c.ver, rnd.Intn(len(c.sessions)))
			default:
				return fmt.Sprintf("dcid %d %d", c.long, c.ver)
			}
		}
		return ""
	}
}
