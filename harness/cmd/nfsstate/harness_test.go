// Package nfsstate ties lean/BbRe/Model/NfsState.lean (+ NfsShare.lean,
// LockRange.lean, BRL.lean) to pkg/filesystem/virtual/nfsv4/nfs40_program.go,
// nfs41_program.go and opened_files_pool.go, for C18 (NFSv4 open and lock state
// is accounted for and fully reclaimed) and the NFS layer of C20 (byte-range
// locks through LOCK, LOCKT, LOCKU, CLOSE and lease expiry).
//
// Both REAL programs run in-process (internal/nfsx) on a real
// InMemoryPrepopulatedDirectory whose files are instrumented leaves: every
// VirtualOpenSelf / VirtualClose / file creation is logged, reads, writes and
// opens can be parked inside the leaf so that other requests (CLOSE, lease
// expiry, re-registration) overtake them. Every history runs in a
// testing/synctest bubble, one lock-held segment at a time.
//
// Compared with the Lean model after every step: the reply (status, state IDs
// by identity and seqid, the reported conflicting lock), the sequence of leaf
// opens/closes, and the complete abstract state read through the verif hook
// (client records with hold count, lastSeen and idle-list order, 4.0 open-owners
// with seqid / cached reply / unused list, open-owner files with shareAccess and
// shareCount, lock-owner files with cloned shareAccess and lockCount, lock-owner
// objects, pool entries with useCount and the lock tables).
//
// Monitors (implementation only, view_test.go): per (leaf, access bit) the
// running balance opens-closes never negative; >= 1 while a valid state ID
// grants the bit; 0 once every state ID granting it is closed / freed / lost
// and nothing is in flight; reads and writes succeed while a granting state
// ID is live and are refused for other files, clients, seqids and closed
// state; a request that fails (also: READ / WRITE / SETATTR that the file
// system fails with an I/O error, injected into the leaf) leaves no leaf more
// open than before; PUTFH of an open (possibly unlinked) file resolves; LOCKT
// denies exactly when LOCK would (interval oracle; and a LOCK sent with current
// state and sequence IDs under a valid lease is answered with a grant or a
// conflicting lock, never with another error), own locks never block, granted locks of different
// owners never share a byte unless both shared (interval oracle on RFC
// ranges); after all leases expired nothing is retained.
package nfsstate

import (
	"fmt"
	"os"
	"strings"
	"sync/atomic"
	"testing"
	"testing/synctest"
	"time"

	"verifharness/internal/hx"
)

const rule = "multi-client histories against the real NFSv4.0 and NFSv4.1 programs: registration and re-registration with a new verifier, OPEN with every claim/create mode (CLAIM_NULL create/guarded/unchecked/truncate, CLAIM_FH, CLAIM_PREVIOUS), upgrades, OPEN_CONFIRM, OPEN_DOWNGRADE, CLOSE, LOCK with new and existing lock-owners over boundary ranges (0,1,2^63,2^64-2,2^64-1, all-ones lengths, also the refused byte 2^64-1 alone), LOCKT, LOCKU, RELEASE_LOCKOWNER / FREE_STATEID, READ/WRITE/SETATTR with open, lock, anonymous, bypass, foreign, stale and forged state IDs parked inside the leaf across CLOSE / expiry or failed by the file system (I/O error injected into the leaf), LOCKT followed by the LOCK it asks about and retries after a denial, unlinking open files, PUTFH probes, clock advances past the lease, DESTROY_SESSION/CLIENTID; every history ends with all leases expiring; non-trivial = at least one OPEN, one granted LOCK, and one of: I/O in flight across the CLOSE of its state, a lease lapsing or a re-registration while state is held, an upgrade or downgrade; distinct = hash of the executed op list"

const (
	sigSharedLO41 = "nfs41 CLOSE with a lock-owner shared by two open-owners of one file panics"
	sigSharedLO40 = "nfs40 CLOSE with a lock-owner shared by two open-owners of one file panics"
)

var (
	progress       atomic.Int64
	currentHistory atomic.Value
	// the property this run is for: monitors of the other property do not stop a history
	focusProp string
)

type genFunc func(r *run) string

// runHistory executes a history (ops[0] = "v40" | "v41") in one bubble; with
// gen != nil the ops after the header are generated from the live view.
func runHistory(t *testing.T, ops []string, drv *hx.Driver, gen genFunc, steps int) (out outcome) {
	out = outcome{flags: map[string]bool{}, counts: map[string]int{}}
	if len(ops) == 0 || (ops[0] != "v40" && ops[0] != "v41") {
		return
	}
	currentHistory.Store(ops)
	defer func() {
		if p := recover(); p != nil && out.monitor == "" {
			out.monitor = fmt.Sprintf("panic while running the history: %v", p)
			out.monitorProp = "C18"
		}
	}()
	out.executed = []string{ops[0]}
	synctest.Test(t, func(t *testing.T) {
		r := newRun(t, ops[0], drv, &out)
		r.focus = focusProp
		defer r.w.ReleaseAll()
		do := func(op string) {
			progress.Add(1)
			if r.op(op) {
				out.executed = append(out.executed, op)
			}
		}
		if gen != nil {
			for i := 0; i < steps && out.monitor == "" && !r.panicked; i++ {
				if op := gen(r); op != "" {
					do(op)
				}
			}
		} else {
			for _, op := range ops[1:] {
				if out.monitor != "" || r.panicked {
					break
				}
				do(op)
			}
		}
		r.epilogue()
	})
	promote(&out)
	return
}

// promote: no monitor of the property in focus fired, but one of the other property did.
func promote(out *outcome) {
	if out.monitor == "" && out.otherMonitor != "" {
		out.monitor, out.monitorProp, out.monitorSig, out.monitorClass = out.otherMonitor, out.otherProp, out.otherSig, out.otherClass
	}
}

// epilogue: every request ends, every lease expires, nothing may be retained.
func (r *run) epilogue() {
	if r.out.monitor != "" || r.panicked {
		return
	}
	for len(r.parked) > 0 && r.out.monitor == "" && !r.panicked {
		q := r.parked[0]
		r.lastLine = fmt.Sprintf("(epilogue) rel %d", q.id)
		r.release(q)
	}
	if r.out.monitor != "" || r.panicked {
		return
	}
	r.op(fmt.Sprintf("tick %d", leaseSecs+1))
	r.lastLine = "(epilogue) setcid 9 9"
	if !r.opSetcid(9, 9) || r.out.monitor != "" || r.panicked {
		return
	}
	r.epilogueCheck(r.client(9, 9))
}

func nontrivial(o *outcome) bool {
	f := o.flags
	return f["open"] && f["lock"] && (f["io-across-close"] || f["lease-lapsed-with-state"] || f["rereg-with-state"] || f["upgrade"] || f["downgrade"])
}

func TestHarness(t *testing.T) {
	o := hx.ParseFlags()
	res := hx.NewResult("nfsstate", o, rule)
	drv, err := hx.StartDriver("nfsstate")
	if err != nil {
		fmt.Fprintln(os.Stderr, "cannot start model driver:", err)
		os.Exit(3)
	}
	defer drv.Close()
	prop := o.Prop
	if prop == "" {
		prop = "C18"
	}
	focusProp = prop

	// watchdog: a mutation can make the real code block on a mutex, which
	// synctest cannot see; report the history instead of hanging.
	stop := make(chan struct{})
	defer close(stop)
	go func() {
		last, lastChange := progress.Load(), time.Now()
		for {
			select {
			case <-stop:
				return
			case <-time.After(2 * time.Second):
			}
			if p := progress.Load(); p != last {
				last, lastChange = p, time.Now()
			} else if time.Since(lastChange) > hx.StallLimit(90*time.Second) {
				ops, _ := currentHistory.Load().([]string)
				res.Report(hx.Finding{Kind: "violation", Property: prop, History: ops,
					Name: "C18 monitor: every call returns",
					What: "the implementation did not reach the end of a step within the load-scaled stall limit (at least 240 s of real time) (blocked on a lock that is never released)",
					Sig:  hx.Sig(prop, "nfsstate", "hang")})
				res.ModelLines = drv.Lines
				res.Write(o)
				os.Exit(0)
			}
		}
	}()

	account := func(out *outcome) {
		res.Evaluations += out.steps
		res.TracesVsImpl++
		for k := range out.flags {
			res.Count(k)
		}
		for k, v := range out.counts {
			res.Histogram[k] += v
		}
		for _, op := range out.executed {
			res.Count("op-" + strings.Fields(op)[0])
		}
		res.History(out.executed, nontrivial(out))
	}

	// search: after a model/implementation disagreement go on without the
	// model: the same history, then random continuations, until a monitor fires.
	search := func(ops []string, seed uint64) ([]string, outcome, bool) {
		if again := runHistory(t, ops, nil, nil, 0); again.monitor != "" {
			return ops, again, true
		}
		for try := 0; try < 40; try++ {
			rnd := hx.NewRand(seed*7919 + uint64(try))
			g := makeGen(rnd, ops[0], prop)
			ext := runExtended(t, ops, g, 60)
			if ext.monitor != "" {
				return ext.executed, ext, true
			}
		}
		return nil, outcome{}, false
	}

	report := func(ops []string, out outcome, fixedSig string) {
		if out.monitor == "" && out.mismatch != "" {
			if ext, eo, ok := search(ops, o.Seed); ok {
				res.Count("mismatch-turned-into-failing-input")
				ops, out = ext, eo
			}
		}
		wantMonitor := out.monitor != ""
		wantProp, wantClass := out.monitorProp, out.monitorClass
		fails := func(cand []string) bool {
			if len(cand) == 0 || cand[0] != ops[0] {
				return false
			}
			if wantMonitor {
				r := runHistory(t, cand, nil, nil, 0)
				return r.monitor != "" && r.monitorProp == wantProp && r.monitorClass == wantClass
			}
			r := runHistory(t, cand, drv, nil, 0)
			return r.monitor == "" && r.mismatch != ""
		}
		min := hx.Shrink(ops, fails)
		var r outcome
		if wantMonitor {
			r = runHistory(t, min, nil, nil, 0)
		} else {
			r = runHistory(t, min, drv, nil, 0)
		}
		if (wantMonitor && r.monitor == "") || (!wantMonitor && r.mismatch == "") {
			min, r = ops, out
		}
		f := hx.Finding{History: min}
		if r.monitor != "" {
			f.Kind, f.What, f.Property = "violation", r.monitor, r.monitorProp
			if f.Property == "C20" {
				f.Name = "C20 monitor on the real NFSv4 programs: LOCKT denies exactly when LOCK would, own locks never block, granted locks of different owners share no byte unless both shared (range_conversion, owner_identity)"
			} else {
				f.Name = "C18 monitor on the real NFSv4 programs: opens and closes balance per access bit, never closed while entitled, closed once closed/freed/expired, state IDs honoured only in scope, open files resolvable, nothing retained (ledger_balance, never_negative, no_close_while_entitled, closed_means_closed, expiry_empties, hold_protects, open_file_resolvable)"
			}
			f.Sig = hx.Sig(f.Property, "nfsstate", strings.Join(min, ";"))
			if r.monitorSig != "" {
				f.Sig = r.monitorSig
			}
			if fixedSig != "" {
				f.Sig = fixedSig
			}
		} else {
			f.Kind, f.What, f.Name, f.Property = "mismatch", r.mismatch, r.name, r.prop
			f.Expected, f.Actual = r.expected, r.actual
			f.Sig = hx.Sig("nfsstate-mismatch", strings.Join(min, ";"))
		}
		res.Report(f)
	}

	if o.Replay != "" {
		f, err := hx.LoadReplay(o.Replay)
		if err != nil {
			fmt.Fprintln(os.Stderr, err)
			os.Exit(3)
		}
		out := runHistory(t, f.History, drv, nil, 0)
		account(&out)
		if out.monitor != "" || out.mismatch != "" {
			sig := ""
			for _, p := range probes {
				if strings.Join(p.ops, ";") == strings.Join(f.History, ";") {
					sig = p.sig
				}
			}
			report(f.History, out, sig)
		}
		res.ModelLines = drv.Lines
		res.Write(o)
		return
	}

	// known-finding probes: run once per check, never generated at random
	for _, p := range probes {
		if p.prop != prop {
			continue
		}
		out := runHistory(t, p.ops, drv, nil, 0)
		account(&out)
		res.Count("probe")
		if out.monitor != "" {
			res.Count("probe-fired")
			f := hx.Finding{Kind: "violation", Property: p.prop, History: p.ops, What: out.monitor, Sig: p.sig,
				Name: "known-finding probe: " + p.what}
			res.Report(f)
		} else if out.mismatch != "" {
			report(p.ops, out, "")
		}
	}
	if prop == "C20" {
		// concurrent LOCKs of two clients on one file (stress; implementation only)
		iters := 4000
		if o.Tier == "thorough" {
			iters = 30000
		}
		n2, detail := raceProbe(iters)
		res.Histogram["race-lock-iterations"] += iters
		res.Evaluations += iters
		if n2 == 0 && detail == "" {
			iters *= 25
			n2, detail = raceProbePool(iters)
			res.Histogram["race-pool-lock-iterations"] += iters
			res.Evaluations += iters
		}
		if n2 > 0 || (detail != "" && n2 == 0) {
			res.Report(hx.Finding{Kind: "violation", Property: "C20", What: fmt.Sprintf("%s (%d of %d iterations)", detail, n2, iters),
				Name: "C20 monitor: two owners never both hold an exclusive lock on a common byte (concurrent LOCK requests of two NFSv4.1 clients, real goroutines)",
				History: []string{"race-probe: v41, two clients OPEN file 0, then concurrently LOCK WRITE [0,10)"}, Sig: hx.Sig("C20", "nfsstate", "race-lock")})
		}
	}
	for _, h := range regressionHistories {
		out := runHistory(t, h, drv, nil, 0)
		account(&out)
		res.Count("fixed-witness")
		if out.monitor != "" || out.mismatch != "" {
			report(h, out, "")
		}
	}

	n := 1200
	if o.Tier == "thorough" {
		n = 4000
	}
	n *= o.Scale
	if v := os.Getenv("NFSSTATE_N"); v != "" {
		fmt.Sscanf(v, "%d", &n)
	}
	rnd := hx.NewRand(o.Seed)
	mismatches, violations := 0, 0
	for i := 0; i < n && violations < 3; i++ {
		version := "v41"
		if i%2 == 1 {
			version = "v40"
		}
		steps := 25 + rnd.Intn(90)
		g := makeGen(rnd, version, prop)
		out := runHistory(t, []string{version}, drv, g, steps)
		account(&out)
		switch {
		case out.monitor != "":
			violations++
			report(out.executed, out, "")
		case out.mismatch != "":
			res.Count("mismatching-history")
			if mismatches < 2 {
				mismatches++
				report(out.executed, out, "")
			}
		}
	}
	res.PerProperty[prop] = res.Evaluations
	res.ModelLines = drv.Lines
	res.Write(o)
}

// runExtended replays a prefix and continues with generated ops, monitors only.
func runExtended(t *testing.T, prefix []string, g genFunc, steps int) (out outcome) {
	out = outcome{flags: map[string]bool{}, counts: map[string]int{}}
	defer func() {
		if p := recover(); p != nil && out.monitor == "" {
			out.monitor = fmt.Sprintf("panic while running the history: %v", p)
			out.monitorProp = "C18"
		}
	}()
	out.executed = []string{prefix[0]}
	synctest.Test(t, func(t *testing.T) {
		r := newRun(t, prefix[0], nil, &out)
		r.focus = focusProp
		defer r.w.ReleaseAll()
		for _, op := range prefix[1:] {
			if out.monitor != "" || r.panicked {
				break
			}
			if r.op(op) {
				out.executed = append(out.executed, op)
			}
		}
		for i := 0; i < steps && out.monitor == "" && !r.panicked; i++ {
			if op := g(r); op != "" && r.op(op) {
				out.executed = append(out.executed, op)
			}
		}
		r.epilogue()
	})
	promote(&out)
	return
}

type probe struct {
	prop, sig, what string
	ops             []string
}

// The known findings; each is a dedicated history that the random generator
// cannot produce (it never lets one lock-owner lock one file through two
// open-owners).
var probes = []probe{
	{"C18", sigSharedLO41, "one lock-owner locks a file through two open-owners, then one of them closes (NFSv4.1)", []string{
		"v41", "reg 0 0", "open 1 0 0 1 3 0 h 2 0", "lock 2 1 0 2 0 5", "open 3 0 0 2 3 0 h 2 0", "lock 4 3 0 2 10 5", "close 3"}},
	{"C18", sigSharedLO40, "one lock-owner locks a file through two open-owners, then one of them closes (NFSv4.0)", []string{
		"v40", "reg 0 0", "open 1 0 0 1 3 0 n 2 0", "oconf 1", "lock 2 1 0 2 0 5", "open 3 0 0 2 3 0 n 2 0", "oconf 3", "lock 4 3 0 2 10 5", "close 3"}},
}

// regressionHistories: witnesses of repaired defects (must stay clean).
var regressionHistories = [][]string{
	// adfdf7d: NFSv4.1 LOCK new_lock_owner then LOCKT by the same owner
	{"v41", "reg 0 0", "open 1 0 0 1 3 0 h 1 0", "lock 2 1 0 2 0 10", "lockt 0 0 0 1 2 0 10", "lockt 0 0 1 1 2 0 10"},
	{"v40", "reg 0 0", "open 1 0 0 1 3 0 n 1 0", "oconf 1", "lock 2 1 0 2 0 10", "lockt 0 0 0 1 2 0 10", "lockt 0 0 1 1 2 0 10"},
	// OPEN with CLAIM_PREVIOUS and a delegation type is refused (RECLAIM_BAD) and leaves nothing open:
	// without state to reclaim, and with the owner having the file open
	{"v41", "reg 0 0", "open 1 0 0 1 3 0 p 2 0 dt=1", "open 2 0 0 1 3 0 h 2 0", "open 3 0 0 1 1 0 p 2 0 dt=2", "open 4 0 0 1 1 0 p 2 0", "close 2"},
	{"v40", "reg 0 0", "open 1 0 0 1 3 0 p 2 0 dt=1", "open 2 0 0 1 3 0 n 2 0", "oconf 2", "open 3 0 0 1 1 0 p 2 0 dt=2", "open 4 0 0 1 1 0 p 2 0", "close 2"},
	// 4815fef: NFSv4.1 FREE_STATEID of a lock state ID that still holds locks (NFS4ERR_LOCKS_HELD, nothing
	// freed: the lock still blocks another owner; after LOCKU the state ID can be freed)
	{"v41", "reg 0 0", "open 1 0 0 1 3 0 h 2 0", "lock 2 1 0 2 0 5", "free 2", "lockt 0 0 1 2 2 0 5", "io 3 w 2 2", "locku 2 0 max", "free 2", "io 4 w 2 2"},
	// the file system fails READ / WRITE / SETATTR (open, lock and anonymous state IDs, also parked across
	// nothing): NFS4ERR_IO, and whatever was acquired for the I/O is given back; CLOSE closes the leaf
	{"v41", "reg 0 0", "open 1 0 0 1 3 0 h 2 0", "io 2 w 1 2 fail", "io 3 w -1 2 fail", "io 4 r 1 2 fail", "io 5 s 1 2 fail", "lock 6 1 0 2 0 5",
		"io 7 w 6 2 fail", "io 8 w 1 2 park fail", "rel 8", "io 9 r -1 2 fail", "io 10 s -1 2 fail", "down 1 1", "close 1"},
	{"v40", "reg 0 0", "open 1 0 0 1 3 0 n 2 0", "oconf 1", "io 2 w 1 2 fail", "io 3 w -1 2 fail", "io 4 r 1 2 fail", "io 5 s 1 2 fail", "lock 6 1 0 2 0 5",
		"io 7 w 6 2 fail", "io 8 w 1 2 park fail", "rel 8", "io 9 r -1 2 fail", "io 10 s -1 2 fail", "down 1 1", "close 1"},
	// a denied first LOCK of a new lock-owner is undone: the retry with new_lock_owner after the holder unlocked
	// is granted (LOCKT and LOCK agree at every attempt)
	{"v40", "reg 0 0", "reg 1 0", "open 1 0 0 1 3 0 n 2 0", "oconf 1", "open 2 1 0 1 3 0 n 2 0", "oconf 2", "lock 3 1 0 2 0 100",
		"lockt 1 0 0 2 2 0 100", "lock 4 2 0 2 0 100", "lockt 1 0 0 2 2 0 100", "lock 5 2 0 2 0 100", "locku 3 0 max", "lockt 1 0 0 2 2 0 100", "lock 6 2 0 2 0 100"},
	{"v41", "reg 0 0", "reg 1 0", "open 1 0 0 1 3 0 h 2 0", "open 2 1 0 1 3 0 h 2 0", "lock 3 1 0 2 0 100",
		"lockt 1 0 0 2 2 0 100", "lock 4 2 0 2 0 100", "lockt 1 0 0 2 2 0 100", "lock 5 2 0 2 0 100", "locku 3 0 max", "lockt 1 0 0 2 2 0 100", "lock 6 2 0 2 0 100"},
	// 3d4b513: two owners ask for an exclusive lock from offset 2^64-1 to the end of the file; both are
	// refused (NFS4ERR_BAD_RANGE) instead of both being granted the empty range [2^64-1, 2^64-1); LOCKT
	// and LOCKU of that range are refused as well, the neighbouring byte 2^64-2 .. EOF still locks
	{"v41", "reg 0 0", "reg 1 0", "open 1 0 0 1 3 0 h 2 0", "open 2 1 0 1 3 0 h 2 0", "lock 3 1 0 2 max max", "lock 4 2 0 2 max max",
		"lockt 0 0 1 2 2 max max", "lock 5 1 0 2 max-1 max", "lockt 0 0 1 2 2 max-1 1", "locku 5 max max", "locku 5 0 max"},
	{"v40", "reg 0 0", "reg 1 0", "open 1 0 0 1 3 0 n 2 0", "oconf 1", "open 2 1 0 1 3 0 n 2 0", "oconf 2", "lock 3 1 0 2 max max", "lock 4 2 0 2 max max",
		"lockt 0 0 1 2 2 max max", "lock 5 1 0 2 max-1 max", "lockt 0 0 1 2 2 max-1 1", "locku 5 max max", "locku 5 0 max"},
}
