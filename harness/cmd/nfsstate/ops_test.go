package nfsstate

import (
	"fmt"
	"strconv"
	"strings"
	"time"

	"github.com/buildbarn/go-xdr/pkg/protocols/nfsv4"

	"verifharness/internal/nfsx"
)

// op executes one history op; false = not applicable in the current state
// (dangling reference, no free slot, …): skipped, not part of the executed history.
func (r *run) op(line string) bool {
	if r.out.monitor != "" || r.panicked {
		return false
	}
	r.lastLine = line
	toks, o := splitOpts(strings.Fields(line))
	if len(toks) == 0 {
		return false
	}
	n := func(i int) int {
		if i < len(toks) {
			return atoi(toks[i])
		}
		return 0
	}
	switch toks[0] {
	case "tick":
		if len(toks) != 2 || n(1) <= 0 {
			return false
		}
		r.w.Clock.Advance(time.Duration(n(1)) * time.Second)
		r.now += int64(n(1))
		r.ask(fmt.Sprintf("tick %d", n(1)))
		r.stepEff = nil
		return true
	case "setcid":
		return len(toks) == 3 && r.opSetcid(n(1), n(2))
	case "conf":
		return len(toks) == 3 && r.opConfirm(n(1), n(2))
	case "reg":
		if len(toks) != 3 {
			return false
		}
		if !r.opSetcid(n(1), n(2)) {
			return false
		}
		if r.out.monitor == "" && !r.panicked {
			r.opConfirm(n(1), n(2))
		}
		return true
	case "csess":
		return len(toks) == 3 && !r.v40() && r.opConfirm(n(1), n(2))
	case "dsess":
		return len(toks) == 4 && !r.v40() && r.opDestroySession(n(1), n(2), n(3))
	case "dcid":
		return len(toks) == 3 && !r.v40() && r.opDestroyClient(n(1), n(2))
	case "renew":
		return len(toks) == 3 && r.opRenew(n(1), n(2))
	case "open":
		return len(toks) == 10 && r.opOpen(n(1), n(2), n(3), n(4), n(5), n(6), toks[7], n(8), n(9), o)
	case "oconf":
		return len(toks) == 2 && r.v40() && r.opStateOp("oconf", n(1), 0, o)
	case "down":
		return len(toks) == 3 && r.opStateOp("down", n(1), n(2), o)
	case "close":
		return len(toks) == 2 && r.opStateOp("close", n(1), 0, o)
	case "free":
		return len(toks) == 2 && !r.v40() && r.opStateOp("free", n(1), 0, o)
	case "lock":
		return len(toks) == 7 && r.opLock(n(1), n(2), n(3), n(4), atou(toks[5]), atou(toks[6]), true, o)
	case "lockx":
		return len(toks) == 5 && r.opLock(0, n(1), 0, n(2), atou(toks[3]), atou(toks[4]), false, o)
	case "locku":
		return len(toks) == 4 && r.opLocku(n(1), atou(toks[2]), atou(toks[3]), o)
	case "lockt":
		return len(toks) == 8 && r.opLockt(n(1), n(2), n(3), n(4), n(5), atou(toks[6]), atou(toks[7]), o)
	case "rlo":
		return len(toks) == 4 && r.v40() && r.opReleaseLockOwner(n(1), n(2), n(3))
	case "io":
		return len(toks) == 5 && r.opIO(n(1), toks[2], n(3), n(4), o)
	case "rel":
		q := r.reqs[n(1)]
		if len(toks) != 2 || q == nil || !q.parked {
			return false
		}
		r.release(q)
		return true
	case "unlink":
		return len(toks) == 3 && r.opUnlink(n(1), n(2))
	case "putfh":
		return len(toks) == 2 && r.opPutFH(n(1))
	}
	return false
}

// wrap builds the compound for client c (4.1: with SEQUENCE) and the pre/post
// model lines; q40 = the `q` argument of model ops (sequence tag, 0 for 4.0).
func (r *run) wrap(q *request, c *clientRec, body ...nfsv4.NfsArgop4) ([]nfsv4.NfsArgop4, string, string, bool) {
	if r.v40() {
		return body, "", "0", true
	}
	if c == nil {
		return nil, "", "", false
	}
	seq, pre, tag, ok := r.seqWrap(q, c)
	if !ok {
		return nil, "", "", false
	}
	return append([]nfsv4.NfsArgop4{seq}, body...), pre, tag, true
}

// noteReply updates the lease part of the client view after a reply.
func (r *run) noteReply(q *request, renews bool) {
	c := q.c
	if r.v40() && q.leaseOf != nil {
		// NFSv4.0 requests carry no client: a state ID renews the lease of the client it belongs to
		c = q.leaseOf
	}
	if c == nil {
		return
	}
	if q.noRenew {
		// a retransmitted seqid is answered from the cache without touching the lease
		renews = false
	}
	if !r.v40() {
		renews = sequenceOK(q.res)
		if q.res != nil && len(q.res.Resarray) > 0 {
			if s, ok := q.res.Resarray[0].(*nfsv4.NfsResop4_OP_SEQUENCE); ok {
				if d, ok := s.Opsequence.(*nfsv4.Sequence4res_default); ok && d.SrStatus == nfsv4.NFS4ERR_BADSESSION {
					// the session is gone: expired or destroyed
					q.sess.dead = true
				}
			}
		}
	}
	if renews {
		c.renewed, c.lastRenew = true, r.now
	}
}

// statusOnly renders "st=<code of the last result>".
func statusOnly(res *nfsv4.Compound4res) string {
	st, _ := lastResult(res)
	return fmt.Sprintf("st=%d", st)
}

func (r *run) opSetcid(l, v int) bool {
	q := &request{id: -1, kind: "setcid", enters: true}
	r.touch(r.client(l, v))
	var ops []nfsv4.NfsArgop4
	if r.v40() {
		ops = []nfsv4.NfsArgop4{nfsx.SetClientID(longName(l), byte(v))}
	} else {
		ops = []nfsv4.NfsArgop4{nfsx.ExchangeID(longName(l), byte(v))}
	}
	q.finish = func(q *request, final string) {
		m := kv(final)
		real := statusOnly(q.res)
		var short uint64
		var flagConf int
		okReply := false
		if len(q.res.Resarray) == 1 {
			switch x := q.res.Resarray[0].(type) {
			case *nfsv4.NfsResop4_OP_SETCLIENTID:
				if ok, isOK := x.Opsetclientid.(*nfsv4.Setclientid4res_NFS4_OK); isOK {
					short, okReply = ok.Resok4.Clientid, true
				}
			case *nfsv4.NfsResop4_OP_EXCHANGE_ID:
				if ok, isOK := x.OpexchangeId.(*nfsv4.ExchangeId4res_NFS4_OK); isOK {
					short, okReply = ok.EirResok4.EirClientid, true
					if ok.EirResok4.EirFlags&nfsv4.EXCHGID4_FLAG_CONFIRMED_R != 0 {
						flagConf = 1
					}
				}
			}
		}
		if okReply {
			c, known := r.byShort[short]
			mid := atoi(m["c"])
			if !known {
				if old, dup := r.byModel[mid]; dup && !r.noModel() {
					r.failMismatch("C18", "client record identity", fmt.Sprintf("record c%d (short id %x)", mid, old.shortID), fmt.Sprintf("a new short client id %x", short),
						"%s: the implementation created a new client record where the model reuses one", r.lastLine)
				}
				c = &clientRec{long: l, ver: v, shortID: short, modelID: mid}
				if r.noModel() {
					c.modelID = 500 + len(r.byShort)
				}
				r.byShort[short] = c
				r.byModel[c.modelID] = c
			}
			r.clients[[2]int{l, v}] = c
			switch x := q.res.Resarray[0].(type) {
			case *nfsv4.NfsResop4_OP_SETCLIENTID:
				c.confirmVer = x.Opsetclientid.(*nfsv4.Setclientid4res_NFS4_OK).Resok4.SetclientidConfirm
			case *nfsv4.NfsResop4_OP_EXCHANGE_ID:
				ok := x.OpexchangeId.(*nfsv4.ExchangeId4res_NFS4_OK)
				if flagConf == 0 {
					c.csSeq = ok.EirResok4.EirSequenceid
				}
			}
			conf := m["conf"]
			if !r.v40() {
				conf = strconv.Itoa(flagConf)
			}
			real = fmt.Sprintf("st=0 c=%d conf=%s", c.modelID, conf)
		}
		r.compare(final, real)
	}
	r.drive(q, ops, segPlan{body: []string{fmt.Sprintf("setclientid %d %d", l, v)}, parkAt: -1})
	return true
}

func (r *run) opConfirm(l, v int) bool {
	c := r.client(l, v)
	if c == nil {
		return false
	}
	q := &request{id: -1, kind: "confirm", c: c, enters: true}
	var ops []nfsv4.NfsArgop4
	if r.v40() {
		ops = []nfsv4.NfsArgop4{nfsx.SetClientIDConfirm(c.shortID, c.confirmVer)}
	} else {
		ops = []nfsv4.NfsArgop4{nfsx.CreateSession(c.shortID, c.csSeq)}
	}
	q.finish = func(q *request, final string) {
		m := kv(final)
		real := statusOnly(q.res)
		st, _ := lastResult(q.res)
		if st == stOK {
			// re-registration: the records of the same client with another verifier are gone
			if !c.confirmed {
				for k, d := range r.clients {
					if k[0] == l && d != c && d.confirmed {
						r.clientGone(d)
					}
				}
			}
			c.confirmed = true
			if !r.v40() {
				c.renewed, c.lastRenew = true, r.now
				if cs, ok := q.res.Resarray[0].(*nfsv4.NfsResop4_OP_CREATE_SESSION).OpcreateSession.(*nfsv4.CreateSession4res_NFS4_OK); ok {
					s := &session{id: cs.CsrResok4.CsrSessionid, k: atoi(m["sess"])}
					if r.noModel() {
						s.k = 500 + len(c.sessions)
					}
					c.sessions = append(c.sessions, s)
					c.csSeq++
					real = fmt.Sprintf("st=0 sess=%d", s.k)
				}
			}
		} else if st == stStaleCID {
			r.clientGone(c)
		}
		r.compare(final, real)
	}
	r.drive(q, ops, segPlan{body: []string{fmt.Sprintf("confirm %d", c.modelID)}, parkAt: -1})
	return true
}

// clientGone: the client view learns that a record and all its state are gone.
func (r *run) clientGone(c *clientRec) {
	c.dead = true
	for _, s := range r.states {
		if s.c == c {
			s.closed = true
		}
	}
	for _, s := range c.sessions {
		s.dead = true
	}
	for _, orc := range r.oracle {
		orc.dropClient(c.modelID)
	}
}

func (r *run) opDestroySession(l, v, i int) bool {
	c := r.client(l, v)
	if c == nil || i < 0 || i >= len(c.sessions) {
		return false
	}
	s := c.sessions[i]
	q := &request{id: -1, kind: "dsess", enters: true}
	q.finish = func(q *request, final string) {
		st, _ := lastResult(q.res)
		if st == stOK || st == stBadSess {
			s.dead = true
		}
		r.compare(final, statusOnly(q.res))
	}
	r.drive(q, []nfsv4.NfsArgop4{nfsx.DestroySession(s.id)}, segPlan{body: []string{fmt.Sprintf("destroySession %d %d", c.modelID, s.k)}, parkAt: -1})
	return true
}

func (r *run) opDestroyClient(l, v int) bool {
	c := r.client(l, v)
	if c == nil {
		return false
	}
	q := &request{id: -1, kind: "dcid", enters: true}
	r.touch(c)
	q.finish = func(q *request, final string) {
		st, _ := lastResult(q.res)
		if st == stOK || st == stStaleCID {
			r.clientGone(c)
		}
		r.compare(final, statusOnly(q.res))
	}
	r.drive(q, []nfsv4.NfsArgop4{nfsx.DestroyClientID(c.shortID)}, segPlan{body: []string{fmt.Sprintf("destroyClient %d", c.modelID)}, parkAt: -1})
	return true
}

func (r *run) opRenew(l, v int) bool {
	c := r.client(l, v)
	if c == nil {
		return false
	}
	q := &request{id: -1, kind: "renew", c: c, enters: true}
	var body []nfsv4.NfsArgop4
	var mb []string
	if r.v40() {
		body = []nfsv4.NfsArgop4{nfsx.Renew(c.shortID)}
		mb = []string{fmt.Sprintf("renew %d", c.modelID)}
	}
	ops, pre, _, ok := r.wrap(q, c, body...)
	if !ok {
		return false
	}
	q.finish = func(q *request, final string) {
		st, _ := lastResult(q.res)
		r.noteReply(q, st == stOK)
		if final == "" || final == "go" {
			final = "st=0"
		}
		r.compare(final, statusOnly(q.res))
	}
	r.drive(q, ops, segPlan{pre: pre, body: mb, parkAt: -1})
	return true
}

func accessOf(acc int) uint32 { return uint32(acc) }

// fhOverride applies the fh= option: the handle to PUTFH and the model's code.
func (r *run) fhOverride(o opts, h []byte, code int) ([]nfsv4.NfsArgop4, int, bool) {
	switch {
	case o.fh == "":
		if h == nil {
			return nil, 0, false
		}
		return []nfsv4.NfsArgop4{nfsx.PutFH(h)}, code, true
	case o.fh == "-1":
		return nil, 0, true
	case strings.HasPrefix(o.fh, "d"):
		d := atoi(o.fh[1:])
		if d < 0 || d >= numFiles {
			return nil, 0, false
		}
		return []nfsv4.NfsArgop4{nfsx.PutFH(r.w.DirHandles[d])}, dirFH(d), true
	default:
		f := atoi(o.fh)
		hh, ok := r.leafFH[f]
		if !ok {
			return nil, 0, false
		}
		return []nfsv4.NfsArgop4{nfsx.PutFH(hh)}, fileFH(f), true
	}
}

func (r *run) opOpen(id, l, v, key, acc, how int, claim string, f, name int, o opts) bool {
	c := r.client(l, v)
	if c == nil || r.reqs[id] != nil || r.byReq[id] != nil || id <= 0 {
		return false
	}
	if how < 0 || how > 3 || acc < 0 || acc > 4 || r.ownerBusy(c, key) {
		return false
	}
	q := &request{id: id, kind: "open", c: c, line: r.lastLine, noRenew: o.os != 0, enters: o.fh != "-1"}
	var put []nfsv4.NfsArgop4
	var fh, claimN int
	var openOp nfsv4.NfsArgop4
	cmodel := c.modelID
	seq := r.ooSeq[[2]int{cmodel, key}] + 1 + uint32(o.os)
	nameStr := "f"
	if name == 1 {
		nameStr = "g"
	}
	expectLeaf := -1
	switch claim {
	case "n":
		if f < 0 || f >= numFiles || name < 0 || name > 1 || r.dirBusy(f) {
			return false
		}
		var ok bool
		put, fh, ok = r.fhOverride(o, r.w.DirHandles[f], dirFH(f))
		if !ok {
			return false
		}
		openOp = nfsx.OpenNull(c.shortID, ownerName(key), seq, accessOf(acc), nfsx.OpenHow(how), nameStr)
		if lf, ok := r.names[[2]int{f, name}]; ok {
			expectLeaf = lf
		}
		claimN = 0
	case "h", "p":
		h, ok := r.leafFH[f]
		if !ok {
			return false
		}
		put, fh, ok = r.fhOverride(o, h, fileFH(f))
		if !ok {
			return false
		}
		expectLeaf = f
		if claim == "h" {
			if r.v40() {
				return false
			}
			openOp = nfsx.OpenFH(c.shortID, ownerName(key), accessOf(acc), nfsx.OpenHow(how))
			claimN = 1
		} else {
			op := nfsx.OpenPrevious(c.shortID, ownerName(key), seq, accessOf(acc)).(*nfsv4.NfsArgop4_OP_OPEN)
			if how != 0 {
				op.Opopen.Openhow = openHowOf(how)
			}
			openOp = op
			claimN = 2
			if o.dt != 0 {
				op.Opopen.Claim = &nfsv4.OpenClaim4_CLAIM_PREVIOUS{DelegateType: nfsv4.OpenDelegationType4(o.dt)}
				claimN = 3
			}
		}
	default:
		return false
	}
	if o.deny != 0 {
		openOp.(*nfsv4.NfsArgop4_OP_OPEN).Opopen.ShareDeny = uint32(o.deny)
	}
	body := append(append([]nfsv4.NfsArgop4{}, put...), openOp, nfsx.GetFH())
	ops, pre, tag, ok := r.wrap(q, c, body...)
	if !ok {
		return false
	}
	var pl segPlan
	if r.v40() {
		pl = segPlan{body: []string{
			fmt.Sprintf("open40a %d %d %d %d %d %d %d %d %d %d", id, cmodel, key, seq, acc, o.deny, how, claimN, fh, name),
			fmt.Sprintf("open40b %d", id), fmt.Sprintf("open40c %d", id)}, parkAt: 1}
	} else {
		pl = segPlan{pre: pre, body: []string{
			fmt.Sprintf("open41a %d %s %d %d %d %d %d %d %d 1", id, tag, key, acc, o.deny, how, claimN, fh, name),
			fmt.Sprintf("open41b %d", id)}, parkAt: 0,
			atPark: fmt.Sprintf("putfh %d", fh),
			parkedBody: []string{fmt.Sprintf("open41a %d %s %d %d %d %d %d %d %d 0", id, tag, key, acc, o.deny, how, claimN, fh, name),
				fmt.Sprintf("open41b %d", id)}}
	}
	q.ioLeaf, q.openDir, q.openKey = expectLeaf, -1, key
	if claim == "n" {
		q.openDir = f
	}
	if o.park && expectLeaf >= 0 {
		q.gate = r.w.Park(expectLeaf, "open")
	}
	q.finish = func(q *request, final string) {
		st, last := lastResult(q.res)
		real := fmt.Sprintf("st=%d", st)
		r.noteReply(q, false)
		advance := false
		var openRes *nfsv4.Open4res_NFS4_OK
		sawOpen := false
		for _, x := range q.res.Resarray {
			if _, ok := x.(*nfsv4.NfsResop4_OP_OPEN); ok {
				sawOpen = true
			}
		}
		q.enters = q.enters && sawOpen
		for _, x := range q.res.Resarray {
			if oo, ok := x.(*nfsv4.NfsResop4_OP_OPEN); ok {
				openRes, _ = oo.Opopen.(*nfsv4.Open4res_NFS4_OK)
				advance = r.v40() && shouldAdvance(uint32(oo.Opopen.GetStatus()))
			}
		}
		if advance && o.os >= 0 {
			r.ooSeq[[2]int{cmodel, key}] = seq
		}
		if st == stStale && len(q.res.Resarray) > len(put) {
			r.phantomOpen = expectLeaf
		}
		if st != stOK {
			r.stepFailed = true
		}
		if openRes != nil && st == stOK {
			m := kv(final)
			leaf := -1
			if g, ok := last.(*nfsv4.NfsResop4_OP_GETFH); ok {
				if okRes, ok := g.Opgetfh.(*nfsv4.Getfh4res_NFS4_OK); ok {
					h := okRes.Resok4.Object
					if lf, known := r.handles[string(h)]; known {
						leaf = lf
					} else if r.isDirHandle(h) {
						// a replayed OPEN does not set the current file handle
						if old, ok := r.states[r.stateKey(c, openRes.Resok4.Stateid.Other)]; ok {
							leaf = old.leaf
						}
					} else {
						// a newly created file: the model tells its leaf index
						leaf = r.nextLeaf
						r.nextLeaf++
						r.handles[string(h)] = leaf
						r.leafFH[leaf] = append([]byte(nil), h...)
						if claim == "n" {
							r.names[[2]int{f, name}] = leaf
						}
						r.count("file-created")
					}
				}
			}
			msid := strings.Split(m["sid"], ".")
			s := r.bindState(c, openRes.Resok4.Stateid, atoi(msid[0]))

			if o.os < 0 && s.req != 0 {
				// (possibly) a cached reply: nothing new was granted, and the
				// current file handle was not set by the OPEN
				r.byReq[id] = s
				leaf = s.leaf
				if r.v40() {
					real = fmt.Sprintf("st=0 sid=%d.%d conf=%d leaf=%d", s.sid, openRes.Resok4.Stateid.Seqid, b01(openRes.Resok4.Rflags&nfsv4.OPEN4_RESULT_CONFIRM != 0), leaf)
				}
				r.compare(final, real)
				return
			}
			s.leaf, s.key, s.closed = leaf, key, false
			if s.access != 0 && s.access|acc != s.access {
				r.out.flags["upgrade"] = true
			}
			s.access |= acc
			s.everAccess |= acc
			if r.v40() {
				needConfirm := openRes.Resok4.Rflags&nfsv4.OPEN4_RESULT_CONFIRM != 0
				r.confirmedOwners()[[2]int{cmodel, key}] = !needConfirm
				if needConfirm {
					// RFC 7530 16.18.5: an OPEN by an unconfirmed open-owner starts it afresh
					for _, t := range r.states {
						if t != s && t.c == c && ((!t.lock && t.key == key) || (t.lock && t.parent != nil && t.parent != s && t.parent.key == key)) {
							t.closed = true
						}
					}
				}
			}
			if s.req == 0 {
				s.req = id
			}
			r.byReq[id] = s
			if r.v40() {
				real = fmt.Sprintf("st=0 sid=%d.%d conf=%d leaf=%d", s.sid, openRes.Resok4.Stateid.Seqid, b01(openRes.Resok4.Rflags&nfsv4.OPEN4_RESULT_CONFIRM != 0), leaf)
			} else {
				real = fmt.Sprintf("st=0 sid=%d.%d leaf=%d", s.sid, openRes.Resok4.Stateid.Seqid, leaf)
			}
			c.renewed, c.lastRenew = true, r.now
			r.out.flags["open"] = true
		}
		r.compare(final, real)
	}
	r.drive(q, ops, pl)
	return true
}

func openHowOf(how int) nfsv4.Openflag4 {
	return nfsx.OpenNull(0, "", 0, 0, nfsx.OpenHow(how), "").(*nfsv4.NfsArgop4_OP_OPEN).Opopen.Openhow
}

// shouldAdvance mirrors the client side of RFC 7530 9.1.7: the owner's seqid
// advances unless the error is one of these.
func shouldAdvance(st uint32) bool {
	switch nfsv4.Nfsstat4(st) {
	case nfsv4.NFS4ERR_STALE_CLIENTID, nfsv4.NFS4ERR_STALE_STATEID, nfsv4.NFS4ERR_BAD_STATEID, nfsv4.NFS4ERR_BAD_SEQID,
		nfsv4.NFS4ERR_BADXDR, nfsv4.NFS4ERR_RESOURCE, nfsv4.NFS4ERR_NOFILEHANDLE, nfsv4.NFS4ERR_MOVED:
		return false
	}
	return true
}

// mainIndex is the position of the operation of interest in the results.
func mainResult(q *request, nput int) (nfsv4.NfsResop4, bool) {
	i := nput
	if q.sess != nil {
		i++
	}
	if q.res == nil || len(q.res.Resarray) <= i {
		return nil, false
	}
	return q.res.Resarray[i], true
}

// opStateOp: OPEN_CONFIRM, OPEN_DOWNGRADE, CLOSE, FREE_STATEID on state x.
func (r *run) opStateOp(kind string, x, acc int, o opts) bool {
	sid, msid, mseq, s := r.sidArg(x, o)
	var def *clientRec
	leaf := 0
	if s != nil {
		def, leaf = s.c, s.leaf
	} else {
		for _, c := range r.clients {
			if def == nil || c.modelID < def.modelID {
				def = c
			}
		}
	}
	c := r.actingClient(def, o)
	if c == nil && !r.v40() {
		return false
	}
	if s != nil && !s.lock && r.ownerBusy(s.c, s.key) {
		return false
	}
	q := &request{id: -1, kind: kind, c: c, noRenew: o.os != 0, enters: x >= 0}
	if s != nil {
		q.leaseOf = s.c
	}
	msid = r.resolveFor(c, s, msid)
	var put []nfsv4.NfsArgop4
	fh := 0
	if kind != "free" {
		var ok bool
		put, fh, ok = r.fhOverride(o, r.leafFH[leaf], fileFH(leaf))
		if !ok {
			return false
		}
	}
	var oseq uint32
	var okey [2]int
	if s != nil && !s.lock {
		okey = [2]int{s.c.modelID, s.key}
		oseq = r.ooSeq[okey] + 1 + uint32(o.os)
	} else {
		oseq = uint32(1 + o.os)
	}
	var main nfsv4.NfsArgop4
	var mline string
	switch kind {
	case "oconf":
		main = nfsx.OpenConfirm(sid, oseq)
		mline = fmt.Sprintf("openConfirm %d %d %d %d", msid, mseq, fh, oseq)
	case "down":
		d := nfsx.OpenDowngrade(sid, oseq, uint32(acc)).(*nfsv4.NfsArgop4_OP_OPEN_DOWNGRADE)
		d.OpopenDowngrade.ShareDeny = uint32(o.deny)
		main = d
	case "close":
		main = nfsx.Close(sid, oseq)
	case "free":
		main = nfsx.FreeStateID(sid)
	}
	body := append(append([]nfsv4.NfsArgop4{}, put...), main)
	ops, pre, tag, ok := r.wrap(q, c, body...)
	if !ok {
		return false
	}
	switch kind {
	case "down":
		mline = fmt.Sprintf("downgrade %s %d %d %d %d %d %d", tag, msid, mseq, fh, oseq, acc, o.deny)
	case "close":
		mline = fmt.Sprintf("close %s %d %d %d %d", tag, msid, mseq, fh, oseq)
	case "free":
		mline = fmt.Sprintf("freeStateid %s %d %d", tag, msid, mseq)
	}
	// the state the request really denotes: NFSv4.1 state IDs are per-client counters, so
	// through another client's session the ID denotes that client's own state (if any)
	if !r.v40() && s != nil && c != s.c {
		s = r.states[r.stateKey(c, s.other)]
		if s != nil && !s.lock {
			okey = [2]int{s.c.modelID, s.key}
		}
	}
	q.finish = func(q *request, final string) {
		st, _ := lastResult(q.res)
		real := fmt.Sprintf("st=%d", st)
		mr, reached := mainResult(q, len(put))
		q.enters = q.enters && reached
		r.noteReply(q, reached && st == stOK)
		if reached && r.v40() && s != nil && !s.lock && shouldAdvance(st) && o.os >= 0 {
			r.ooSeq[okey] = oseq
		}
		if reached && st == stOK {
			if rs, ok := nfsx.ResultStateID(&nfsv4.Compound4res{Resarray: []nfsv4.NfsResop4{mr}}); ok && s != nil && (kind != "close" || r.v40()) {
				if rs.Other == s.other && rs.Seqid > s.seq {
					s.seq = rs.Seqid
				}
				real = fmt.Sprintf("st=0 sid=%s.%d", r.modelSidOf(s.c, rs), rs.Seqid)
			}
			if s != nil && o.os >= 0 {
				switch kind {
				case "oconf":
					r.confirmedOwners()[okey] = true
				case "down":
					s.access = acc
					r.out.flags["downgrade"] = true
				case "close":
					s.closed = true
					for _, pq := range r.parked {
						if pq.kind == "io" && (pq.ioState == s || (pq.ioState != nil && pq.ioState.parent == s)) {
							r.out.flags["io-across-close"] = true
						}
					}
					for _, t := range r.states {
						if t.parent == s {
							t.closed = true
						}
					}
					if orc := r.oracle[s.leaf]; orc != nil {
						orc.closeOpen(s)
					}
					r.out.flags["close"] = true
				case "free":
					s.closed = true
					r.out.flags["free"] = true
				}
			}
		}
		r.compare(final, real)
	}
	r.drive(q, ops, segPlan{pre: pre, body: []string{mline}, parkAt: -1})
	return true
}

func lockType(ty int) nfsv4.NfsLockType4 { return nfsv4.NfsLockType4(ty) }

// opLock: LOCK with a new lock-owner (through open state x) or an existing lock state x.
func (r *run) opLock(id, x, lo, ty int, off, length uint64, fresh bool, o opts) bool {
	sid, msid, mseq, s := r.sidArg(x, o)
	if fresh && (id <= 0 || r.byReq[id] != nil || r.reqs[id] != nil) {
		return false
	}
	var def *clientRec
	leaf := 0
	if s != nil {
		def, leaf = s.c, s.leaf
	} else {
		for _, c := range r.clients {
			if def == nil || c.modelID < def.modelID {
				def = c
			}
		}
	}
	c := r.actingClient(def, o)
	if c == nil {
		return false
	}
	if fresh && s != nil && !s.lock && r.ownerBusy(s.c, s.key) {
		return false
	}
	q := &request{id: -1, kind: "lock", c: c, noRenew: o.os != 0 || o.ls != 0, enters: true}
	if s != nil {
		q.leaseOf = s.c
	}
	msid = r.resolveFor(c, s, msid)
	put, fh, ok := r.fhOverride(o, r.leafFH[leaf], fileFH(leaf))
	if !ok {
		return false
	}
	var main nfsv4.NfsArgop4
	var okey, lkey [2]int
	var oseq, lseq uint32
	if fresh {
		okey = [2]int{c.modelID, 0}
		if s != nil {
			okey = [2]int{s.c.modelID, s.key}
		}
		oseq = r.ooSeq[okey] + 1 + uint32(o.os)
		lkey = [2]int{c.modelID, lo}
		lseq = r.loSeq[lkey] + 1 + uint32(o.ls)
		main = nfsx.LockNew(lockType(ty), off, length, oseq, sid, lseq, c.shortID, lockOwnerName(lo))
	} else {
		if s != nil {
			lkey = [2]int{s.c.modelID, s.key}
			lo = s.key
		}
		lseq = r.loSeq[lkey] + 1 + uint32(o.ls)
		main = nfsx.LockExisting(lockType(ty), off, length, sid, lseq)
	}
	body := append(append([]nfsv4.NfsArgop4{}, put...), main)
	ops, pre, tag, ok := r.wrap(q, c, body...)
	if !ok {
		return false
	}
	var mline string
	if fresh {
		mline = fmt.Sprintf("lockNew %s %d %d %d %d %d %d %d %d %d %d", tag, msid, mseq, fh, oseq, c.modelID, lo, lseq, ty, off, length)
	} else {
		mline = fmt.Sprintf("lockOld %s %d %d %d %d %d %d %d", tag, msid, mseq, fh, lseq, ty, off, length)
	}
	must := r.lockMust(s, c, lo, ty, off, length, fresh, o)
	q.finish = func(q *request, final string) {
		st, _ := lastResult(q.res)
		real := fmt.Sprintf("st=%d", st)
		mr, reached := mainResult(q, len(put))
		q.enters = q.enters && reached
		r.noteReply(q, reached && st == stOK)
		if must && reached && (q.sess == nil || sequenceOK(q.res)) {
			r.monitorLockAnswer(s, lo, ty, off, length, st)
		}
		if reached && r.v40() {
			if fresh && shouldAdvance(st) && o.os >= 0 && s != nil {
				r.ooSeq[okey] = oseq
			}
			// the lock-owner's seqid advances when its (nested) transaction completed;
			// the first transaction of a new lock-owner accepts any seqid
			_, knownLO := r.loSeq[lkey]
			// (with new_lock_owner the lock-owner's transaction starts once the open state ID, the
			// client ID and the association are accepted: it then ends with a grant, a conflict, or
			// the refusal of the range / type; a retransmitted open-owner seqid only repeats the cached reply)
			_, _, rok, rempty := rfcRange(off, length)
			refusedArgs := (st == stInval || st == stBadRange) && (!rok || rempty || ty < 1 || ty > 4) && s != nil && c == s.c
			if shouldAdvance(st) && (o.ls >= 0 || (fresh && !knownLO)) && (st == stOK || st == stDenied || !fresh || refusedArgs) && (!fresh || o.os >= 0) {
				r.loSeq[lkey] = lseq
			}
		}
		if reached {
			if lr, ok := mr.(*nfsv4.NfsResop4_OP_LOCK); ok {
				switch res := lr.Oplock.(type) {
				case *nfsv4.Lock4res_NFS4_OK:
					m := kv(final)
					msidNew := atoi(strings.Split(m["sid"], ".")[0])
					// a cached reply (retransmitted seqid) repeats a state ID seqid the client already has
					cached := false
					if old, ok := r.states[r.stateKey(c, res.Resok4.LockStateid.Other)]; ok && res.Resok4.LockStateid.Seqid <= old.seq {
						cached = true
					}
					ls := r.bindState(c, res.Resok4.LockStateid, msidNew)

					if !ls.lock {
						ls.lock, ls.leaf, ls.key = true, leaf, lo
						if s != nil && !s.lock {
							ls.parent = s
							ls.access = s.access
							ls.everAccess = s.access
						}
						if ls.req == 0 {
							ls.req = id
						}
					}
					if fresh {
						r.byReq[id] = ls
					}
					for _, t := range r.states {
						if t != ls && t.lock && !t.closed && t.c == ls.c && t.key == ls.key && t.leaf == ls.leaf && t.parent != ls.parent {
							r.sharedLO = true
						}
					}
					real = fmt.Sprintf("st=0 sid=%d.%d", ls.sid, res.Resok4.LockStateid.Seqid)
					if !cached {
						// the owner of an existing lock state is the owner it was created for
						r.lockGranted(ls, ls.leaf, ls.c, ls.key, ty, off, length)
					}
					r.out.flags["lock"] = true
				case *nfsv4.Lock4res_NFS4ERR_DENIED:
					real = fmt.Sprintf("st=%d %s", st, r.deniedStr(&res.Denied))
					if (o.os >= 0 || !fresh) && o.ls >= 0 {
						switch {
						case fresh:
							r.lockDenied(leaf, c, lo, ty, off, length, &res.Denied, "LOCK")
						case s != nil && (r.v40() || c == s.c):
							r.lockDenied(s.leaf, s.c, s.key, ty, off, length, &res.Denied, "LOCK")
						}
					}
					r.out.flags["lock-denied"] = true
				}
			}
		}
		r.compare(final, real)
	}
	r.drive(q, ops, segPlan{pre: pre, body: []string{mline}, parkAt: -1})
	return true
}

func (r *run) opLocku(x int, off, length uint64, o opts) bool {
	sid, msid, mseq, s := r.sidArg(x, o)
	var def *clientRec
	leaf := 0
	if s != nil {
		def, leaf = s.c, s.leaf
	} else {
		for _, c := range r.clients {
			if def == nil || c.modelID < def.modelID {
				def = c
			}
		}
	}
	c := r.actingClient(def, o)
	if c == nil {
		return false
	}
	q := &request{id: -1, kind: "locku", c: c, noRenew: o.ls != 0, enters: true}
	if s != nil {
		q.leaseOf = s.c
	}
	msid = r.resolveFor(c, s, msid)
	put, fh, ok := r.fhOverride(o, r.leafFH[leaf], fileFH(leaf))
	if !ok {
		return false
	}
	var lkey [2]int
	if s != nil {
		lkey = [2]int{s.c.modelID, s.key}
	}
	lseq := r.loSeq[lkey] + 1 + uint32(o.ls)
	body := append(append([]nfsv4.NfsArgop4{}, put...), nfsx.LockU(nfsv4.WRITE_LT, off, length, sid, lseq))
	ops, pre, tag, ok := r.wrap(q, c, body...)
	if !ok {
		return false
	}
	q.finish = func(q *request, final string) {
		st, _ := lastResult(q.res)
		real := fmt.Sprintf("st=%d", st)
		mr, reached := mainResult(q, len(put))
		q.enters = q.enters && reached
		r.noteReply(q, reached && st == stOK)
		if reached && r.v40() && shouldAdvance(st) && o.ls >= 0 && s != nil {
			r.loSeq[lkey] = lseq
		}
		if reached && st == stOK && s != nil {
			cached := false
			if rs, ok := nfsx.ResultStateID(&nfsv4.Compound4res{Resarray: []nfsv4.NfsResop4{mr}}); ok {
				if rs.Other == s.other {
					cached = rs.Seqid <= s.seq
					if rs.Seqid > s.seq {
						s.seq = rs.Seqid
					}
				}
				real = fmt.Sprintf("st=0 sid=%s.%d", r.modelSidOf(s.c, rs), rs.Seqid)
			}
			if !cached && (r.v40() || c == s.c) {
				r.lockReleased(s.leaf, s.c, s.key, off, length)
			}
			r.out.flags["locku"] = true
		}
		r.compare(final, real)
	}
	r.drive(q, ops, segPlan{pre: pre, body: []string{fmt.Sprintf("locku %s %d %d %d %d %d %d", tag, msid, mseq, fh, lseq, off, length)}, parkAt: -1})
	return true
}

func (r *run) opLockt(l, v, lo, f, ty int, off, length uint64, o opts) bool {
	c := r.client(l, v)
	if c == nil {
		return false
	}
	put, fh, ok := r.fhOverride(o, r.leafFH[f], fileFH(f))
	if !ok {
		return false
	}
	q := &request{id: -1, kind: "lockt", c: c, enters: o.fh == ""}
	body := append(append([]nfsv4.NfsArgop4{}, put...), nfsx.LockT(lockType(ty), off, length, c.shortID, lockOwnerName(lo)))
	ops, pre, tag, ok := r.wrap(q, c, body...)
	if !ok {
		return false
	}
	q.finish = func(q *request, final string) {
		st, _ := lastResult(q.res)
		real := fmt.Sprintf("st=%d", st)
		mr, reached := mainResult(q, len(put))
		q.enters = q.enters && reached
		r.noteReply(q, reached && (st == stOK || st == stDenied))
		if reached {
			if lr, ok := mr.(*nfsv4.NfsResop4_OP_LOCKT); ok {
				switch res := lr.Oplockt.(type) {
				case *nfsv4.Lockt4res_NFS4_OK:
					r.locktOK(f, c, lo, ty, off, length)
					r.out.flags["lockt-ok"] = true
					if o.fh == "" {
						r.lastLockt = &locktAnswer{step: r.out.steps, c: c, lo: lo, leaf: f, ty: tyOf(ty), off: off, length: length, line: r.lastLine}
					}
				case *nfsv4.Lockt4res_NFS4ERR_DENIED:
					real = fmt.Sprintf("st=%d %s", st, r.deniedStr(&res.Denied))
					r.lockDenied(f, c, lo, ty, off, length, &res.Denied, "LOCKT")
					r.out.flags["lockt-denied"] = true
					if o.fh == "" {
						r.lastLockt = &locktAnswer{step: r.out.steps, c: c, lo: lo, leaf: f, ty: tyOf(ty), off: off, length: length, denied: true, line: r.lastLine}
					}
				}
			}
		}
		r.compare(final, real)
	}
	r.drive(q, ops, segPlan{pre: pre, body: []string{fmt.Sprintf("lockt %s %d %d %d %d %d %d", tag, c.modelID, lo, fh, ty, off, length)}, parkAt: -1})
	return true
}

func (r *run) opReleaseLockOwner(l, v, lo int) bool {
	c := r.client(l, v)
	if c == nil {
		return false
	}
	q := &request{id: -1, kind: "rlo", c: c, enters: true}
	q.finish = func(q *request, final string) {
		st, _ := lastResult(q.res)
		r.noteReply(q, st == stOK)
		if st == stOK {
			for _, s := range r.states {
				if s.lock && s.c == c && s.key == lo {
					s.closed = true
				}
			}
			delete(r.loSeq, [2]int{c.modelID, lo})
			r.out.flags["release-lockowner"] = true
		}
		r.compare(final, statusOnly(q.res))
	}
	r.drive(q, []nfsv4.NfsArgop4{nfsx.ReleaseLockOwner(c.shortID, lockOwnerName(lo))},
		segPlan{body: []string{fmt.Sprintf("releaseLockOwner %d %d", c.modelID, lo)}, parkAt: -1})
	return true
}

func setAttrSize(sid nfsv4.Stateid4, size uint64) nfsv4.NfsArgop4 {
	v := make([]byte, 8)
	for i := 0; i < 8; i++ {
		v[7-i] = byte(size >> (8 * i))
	}
	return &nfsv4.NfsArgop4_OP_SETATTR{Opsetattr: nfsv4.Setattr4args{Stateid: sid,
		ObjAttributes: nfsv4.Fattr4{Attrmask: nfsv4.Bitmap4{1 << nfsv4.FATTR4_SIZE}, AttrVals: v}}}
}

// opIO: READ / WRITE / SETATTR(size) with state reference x on file f.
func (r *run) opIO(id int, kind string, x, f int, o opts) bool {
	if id <= 0 || r.reqs[id] != nil {
		return false
	}
	sid, msid, mseq, s := r.sidArg(x, o)
	var def *clientRec
	if s != nil {
		def = s.c
	} else {
		for _, c := range r.clients {
			if !c.dead && (def == nil || c.modelID < def.modelID) {
				def = c
			}
		}
	}
	c := r.actingClient(def, o)
	if c == nil && !r.v40() {
		return false
	}
	h, known := r.leafFH[f]
	if !known {
		return false
	}
	put, fh, ok := r.fhOverride(o, h, fileFH(f))
	if !ok {
		return false
	}
	q := &request{id: id, kind: "io", c: c, ioLeaf: f, ioState: s, enters: x >= 0}
	if s != nil {
		q.leaseOf = s.c
	}
	msid = r.resolveFor(c, s, msid)
	var main nfsv4.NfsArgop4
	k := 0
	parkKind := ""
	switch kind {
	case "r":
		main, k, parkKind, q.ioBit = nfsx.Read(sid, 0, 16), 0, "read", 0
	case "w":
		main, k, parkKind, q.ioBit = nfsx.Write(sid, 64, []byte{byte('A' + id%26)}), 1, "write", 1
	case "s":
		main, k, q.ioBit = setAttrSize(sid, 80), 2, 1
		if o.fail {
			parkKind = "setattr"
		}
	default:
		return false
	}
	body := append(append([]nfsv4.NfsArgop4{}, put...), main)
	ops, pre, tag, ok := r.wrap(q, c, body...)
	if !ok {
		return false
	}
	r.prepareIO(q, kind, x, f, o, mseq)
	if o.fh != "" && o.fh != "-1" && !strings.HasPrefix(o.fh, "d") {
		q.ioLeaf = atoi(o.fh)
	}
	if s != nil && x >= 0 {
		// I/O with a regular state ID goes to the state's leaf (if it is accepted at all)
		q.ioLeaf = s.leaf
	}
	if (o.park && kind != "s" || o.fail) && parkKind != "" {
		q.gate = r.w.Park(q.ioLeaf, parkKind)
		if o.fail {
			// fault injection: the file system reports an I/O error for this call
			q.gate.Fail()
			if !o.park || kind == "s" {
				q.gate.Release()
			}
		}
	}
	fault := 0
	if o.fail {
		fault = 1
	}
	q.finish = func(q *request, final string) {
		st, _ := lastResult(q.res)
		_, reached := mainResult(q, len(put))
		if o.fail && q.gate != nil && q.gate.Entered() {
			q.ioFaulted = true
			r.out.flags["io-fault-"+kind] = true
			if st == stOK {
				r.failMonitor("C18", "", "%s: the file system reported an I/O error for the call, the client was told the operation succeeded", r.lastLine)
			}
		}
		q.enters = q.enters && reached
		r.noteReply(q, reached && st == stOK && x >= 0)
		if reached && st == stOK {
			r.out.flags["io-"+kind] = true
			if x < 0 {
				r.out.flags["io-special"] = true
			} else if s != nil && s.lock {
				r.out.flags["io-lockstate"] = true
			}
		}
		if reached && st == stStale && x < 0 {
			r.phantomOpen = q.ioLeaf
		}
		if st != stOK {
			r.stepFailed = true
		}
		r.monitorIO(q, kind, st, reached)
		r.compare(final, fmt.Sprintf("st=%d", st))
	}
	r.drive(q, ops, segPlan{pre: pre, body: []string{fmt.Sprintf("ioA %d %s %d %d %d %d", id, tag, msid, mseq, fh, k), fmt.Sprintf("ioB %d %d", id, fault)}, parkAt: 1})
	return true
}

func (r *run) opUnlink(d, name int) bool {
	if d < 0 || d >= numFiles || name < 0 || name > 1 || r.dirBusy(d) {
		return false
	}
	nameStr := "f"
	if name == 1 {
		nameStr = "g"
	}
	q := &request{id: -1, kind: "unlink"}
	var c *clientRec
	if !r.v40() {
		for _, x := range r.clients {
			if s, _ := x.liveSession(); s != nil && !x.dead && (c == nil || x.modelID < c.modelID) {
				c = x
			}
		}
		if c == nil {
			return false
		}
		q.c = c
	}
	ops, pre, _, ok := r.wrap(q, c, nfsx.PutFH(r.w.DirHandles[d]), nfsx.Remove(nameStr))
	if !ok {
		return false
	}
	q.finish = func(q *request, final string) {
		st, _ := lastResult(q.res)
		r.noteReply(q, false)
		if st == stOK {
			if lf, ok := r.names[[2]int{d, name}]; ok {
				r.unlinked[lf] = true
				delete(r.names, [2]int{d, name})
				r.out.flags["unlink"] = true
			}
		}
		r.compare(final, fmt.Sprintf("st=%d", st))
	}
	r.drive(q, ops, segPlan{pre: pre, body: []string{fmt.Sprintf("unlink %d %d", d, name)}, parkAt: -1})
	return true
}

func (r *run) opPutFH(f int) bool {
	h, ok := r.leafFH[f]
	if !ok {
		return false
	}
	q := &request{id: -1, kind: "putfh"}
	var c *clientRec
	if !r.v40() {
		for _, x := range r.clients {
			if s, _ := x.liveSession(); s != nil && !x.dead && (c == nil || x.modelID < c.modelID) {
				c = x
			}
		}
		if c == nil {
			return false
		}
		q.c = c
	}
	ops, pre, _, ok := r.wrap(q, c, nfsx.PutFH(h), nfsx.GetFH())
	if !ok {
		return false
	}
	q.finish = func(q *request, final string) {
		st, _ := lastResult(q.res)
		r.noteReply(q, false)
		seqFailed := q.sess != nil && !sequenceOK(q.res)
		if !seqFailed {
			r.monitorResolvable(f, st)
			if st == stOK && r.unlinked[f] {
				r.out.flags["putfh-unlinked-open"] = true
			}
		}
		r.compare(final, fmt.Sprintf("st=%d", st))
	}
	r.drive(q, ops, segPlan{pre: pre, body: []string{fmt.Sprintf("putfh %d", fileFH(f))}, parkAt: -1})
	return true
}

var _ = strconv.Itoa

// dirBusy: an OPEN by name is parked inside directory d (it holds the
// directory's lock; anything else looking into d would block on that mutex,
// which testing/synctest cannot see).
func (r *run) dirBusy(d int) bool {
	for _, pq := range r.parked {
		if pq.kind == "open" && pq.openDir == d {
			return true
		}
	}
	return false
}

// ownerBusy: an OPEN of this 4.0 open-owner is parked: every other
// transaction of the owner waits for it (channel wait inside the server).
func (r *run) ownerBusy(c *clientRec, key int) bool {
	if !r.v40() {
		return false
	}
	for _, pq := range r.parked {
		if pq.kind == "open" && pq.c == c && pq.openKey == key {
			return true
		}
	}
	return false
}

func (r *run) isDirHandle(h []byte) bool {
	for _, d := range r.w.DirHandles {
		if string(d) == string(h) {
			return true
		}
	}
	return string(r.w.RootHandle) == string(h)
}
