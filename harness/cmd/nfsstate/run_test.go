package nfsstate

import (
	"context"
	"runtime/debug"
	"encoding/binary"
	"fmt"
	"os"
	"sort"
	"strconv"
	"strings"
	"testing"
	"testing/synctest"
	"time"

	"github.com/buildbarn/bb-remote-execution/pkg/filesystem/virtual"
	re_nfsv4 "github.com/buildbarn/bb-remote-execution/pkg/filesystem/virtual/nfsv4"
	"github.com/buildbarn/go-xdr/pkg/protocols/nfsv4"

	"verifharness/internal/hx"
	"verifharness/internal/nfsx"
)

// ---------------------------------------------------------------------------
// History ops (first op is "v40" | "v41"); L V = client long id and verifier,
// O = open-owner key, LO = lock-owner key, R = id of the request (names the
// state ID it creates), X = id of an earlier request whose state ID is used
// (-1 anonymous, -2 READ bypass, -3 forged), F = leaf index, D N = directory
// index and name index ("f", "g").
//
//	tick D | setcid L V | conf L V | reg L V | csess L V | dsess L V I | dcid L V | renew L V
//	open R L V O acc how claim F N [park]     claim n (CLAIM_NULL in dir F, name N) | h (CLAIM_FH) | p (CLAIM_PREVIOUS)
//	oconf X | down X acc | close X
//	lock R X LO ty off len | lockx X ty off len | lockt L V LO F ty off len | locku X off len
//	rlo L V LO | free X
//	io R kind X F [park] [fail]               kind r | w | s (SETATTR); fail: the file system reports an I/O error
//	rel R | unlink D N | putfh F
//
// optional trailing tokens: ss=<d|z> state ID seqid = current+d (z: zero),
// os=<d> open-owner seqid = expected+d, ls=<d> lock-owner seqid = expected+d,
// as=L.V send through client (L,V), dn=<n> share_deny, fh=<F|-1|dD> current
// file handle override (-1 none, dD directory D), dt=<1|2> delegate type of
// an OPEN with CLAIM_PREVIOUS (read / write delegation).
// ---------------------------------------------------------------------------

const (
	numFiles   = 4
	worldSeed  = 11
	leaseSecs  = int64(nfsx.LeaseTime / time.Second)
	sidForged  = 888888
	sidAnon    = 0
	sidBypass  = 999999
	maxU64     = ^uint64(0)
	baseUnix   = 10000
	stOK       = 0
	stStale    = 70
	stDenied   = 10010
	stInval    = 22
	stBadRange = 10042
	stBadSess  = 10052
	stStaleCID = 10022
)

type outcome struct {
	monitor     string
	monitorProp string
	monitorSig  string
	monitorClass string
	otherMonitor string
	otherProp    string
	otherSig     string
	otherClass   string
	otherAt      int
	mismatch    string
	name        string
	expected    string
	actual      string
	prop        string
	steps       int
	flags       map[string]bool
	counts      map[string]int
	executed    []string
}

type session struct {
	id   [16]byte
	k    int
	seq  [nfsx.Slots]uint32
	busy [nfsx.Slots]bool
	dead bool
}

type clientRec struct {
	long, ver  int
	modelID    int
	shortID    uint64
	confirmVer nfsv4.Verifier4
	csSeq      uint32
	sessions   []*session
	// client view
	// lastTouch: fake-clock second of the last request that could possibly have renewed the
	// lease (anything sent by or for the client): an upper bound of the server's lastSeen
	lastTouch    int64
	pendingTouch bool
	confirmed bool
	dead      bool  // definitely removed (replaced by a re-registration, destroyed, expired and seen so)
	renewed   bool  // lastRenew is meaningful
	lastRenew int64 // fake-clock second of the last reply that surely renewed the lease
	inflight  int
}

type stateRec struct {
	req    int
	sid    int
	other  [12]byte
	seq    uint32
	c      *clientRec
	lock   bool
	leaf   int
	key    int
	parent *stateRec
	access int // view: access bits the state ID grants
	closed bool
	// every access bit the state ID ever granted (an upgrade or a clone made
	// before a downgrade keeps the leaf open)
	everAccess int
}

type request struct {
	id      int
	kind    string
	c       *clientRec
	sess    *session
	slot    int
	done    chan struct{}
	res     *nfsv4.Compound4res
	err     error
	gate    *nfsx.Gate
	parked  bool
	after   []string // model body segments still to run
	post    string
	finish  func(q *request, final string)
	ioLeaf  int
	ioBit   int
	ioState *stateRec
	line    string
	ioMust    bool
	ioFaulted bool // the injected I/O error was delivered to this request
	ioMustNot string
	openDir   int
	openKey   int
	holds     bool
	deferred  *nfsx.Event
	noRenew   bool
	enters    bool // 4.0: the compound reaches an operation that calls enter()
	leaseOf   *clientRec // 4.0: the client whose lease a state-ID based request renews
}

func (q *request) returned() bool {
	select {
	case <-q.done:
		return true
	default:
		return false
	}
}

type run struct {
	t     *testing.T
	w     *nfsx.World
	p     nfsv4.Nfs4Program
	drv   *hx.Driver
	minor uint32
	out   *outcome

	clients   map[[2]int]*clientRec // current record per (long, ver)
	byModel   map[int]*clientRec
	byShort   map[uint64]*clientRec
	states    map[string]*stateRec // key: other (+ short id for 4.1)
	bySid     map[int]*stateRec
	byReq     map[int]*stateRec
	reqs      map[int]*request
	parked    []*request
	handles   map[string]int // file handle -> leaf
	leafFH    map[int][]byte
	names     map[[2]int]int // (dir, name) -> leaf (view, mirrors the model's tiny fs)
	nextLeaf  int
	unlinked  map[int]bool
	nextTag   int
	ooSeq     map[[2]int]uint32 // (client model id, key) -> last seqid accepted
	loSeq     map[[2]int]uint32
	logPos    int
	stepEff   []string // model effects of the current step
	bal       map[[2]int]int
	oracle    map[int]*lockOracle // leaf -> lock oracle
	now       int64
	entered   bool
	lastLine  string
	panicked  bool
	modelDead bool
	confOwners map[[2]int]bool
	nextReq    int
	// leaf whose last "open" event of this step is a call that failed inside the
	// real leaf (nfsx logs before delegating): -1 none
	phantomOpen int
	// the request that completed in this step returned an error: it must not leave a leaf
	// more open than it found it
	stepFailed  bool
	stepEntered bool // the request of this step ran the server's enter() (lease expiry)
	focus       string
	lastLockt   *locktAnswer // the latest LOCKT the server answered
	sharedLO    bool        // some lock-owner has locked one file through two open states (known-finding shape)
	withhold    *request    // request that just parked in an open: its open event is withheld
	inject      *nfsx.Event // withheld open event of the request being released
}

func (r *run) failMonitor(prop, sig, format string, a ...any) {
	if r.focus != "" && prop != r.focus && !r.panicked {
		// a monitor of the other property fired: note it and go on looking for a
		// failing input of the property this run is for
		if r.out.otherMonitor == "" {
			r.out.otherMonitor = fmt.Sprintf(format, a...)
			r.out.otherProp, r.out.otherSig, r.out.otherClass = prop, sig, format+"/"+sig
			r.out.otherAt = len(r.out.executed)
		}
		return
	}
	if r.out.monitor == "" {
		r.out.monitor = fmt.Sprintf(format, a...)
		r.out.monitorProp = prop
		r.out.monitorSig = sig
		r.out.monitorClass = format + "/" + sig
	}
}

func (r *run) failMismatch(prop, name, expected, actual, format string, a ...any) {
	if r.out.mismatch == "" {
		r.out.mismatch = fmt.Sprintf(format, a...)
		r.out.name, r.out.expected, r.out.actual, r.out.prop = name, expected, actual, prop
	}
	// the model has lost track: go on with the monitors alone
	r.modelDead = true
}

func (r *run) count(k string) { r.out.counts[k]++ }

// noModel: the run is monitor-only (no driver, or the model lost track).
func (r *run) noModel() bool { return r.drv == nil || r.modelDead }

// ask sends one line to the model; returns (reply, effects).
func (r *run) ask(line string) string {
	if r.drv == nil || r.modelDead {
		return ""
	}
	o, err := r.drv.Ask(line)
	if err != nil {
		r.failMismatch("C18", "driver", "", "", "driver: %v", err)
		r.modelDead = true
		return ""
	}
	r.out.steps++
	parts := strings.Split(o, " | ")
	for _, p := range parts[1:] {
		if strings.HasPrefix(p, "eff=") && len(p) > 4 {
			r.stepEff = append(r.stepEff, strings.Split(p[4:], ",")...)
		}
		if strings.HasPrefix(p, "panic=") {
			return parts[0] + " panic"
		}
	}
	return strings.TrimSpace(parts[0])
}

func newRun(t *testing.T, version string, drv *hx.Driver, out *outcome) *run {
	r := &run{t: t, drv: drv, out: out,
		clients: map[[2]int]*clientRec{}, byModel: map[int]*clientRec{}, byShort: map[uint64]*clientRec{},
		states: map[string]*stateRec{}, bySid: map[int]*stateRec{}, byReq: map[int]*stateRec{},
		reqs: map[int]*request{}, handles: map[string]int{}, leafFH: map[int][]byte{}, names: map[[2]int]int{},
		unlinked: map[int]bool{}, ooSeq: map[[2]int]uint32{}, loSeq: map[[2]int]uint32{},
		bal: map[[2]int]int{}, oracle: map[int]*lockOracle{}, nextTag: 100000, phantomOpen: -1}
	r.w = nfsx.NewWorld(worldSeed, numFiles)
	if version == "v40" {
		r.p, r.minor = r.w.NewNFS40(), 0
		r.ask("init 40 " + strconv.Itoa(numFiles))
	} else {
		r.p, r.minor = r.w.NewNFS41(), 1
		r.ask("init 41 " + strconv.Itoa(numFiles))
	}
	for i, h := range r.w.FileHandles {
		r.handles[string(h)] = i
		r.leafFH[i] = h
		r.names[[2]int{i, 0}] = i
	}
	r.nextLeaf = numFiles
	return r
}

func (r *run) v40() bool { return r.minor == 0 }

// ---------------------------------------------------------------------------
// token helpers

type opts struct {
	ss    string
	os    int
	ls    int
	as    string
	deny  int
	fh    string
	park  bool
	fail  bool // the leaf's VirtualRead / VirtualWrite / VirtualSetAttributes reports an I/O error
	dt    int // delegate type of CLAIM_PREVIOUS (0 none, 1 read, 2 write)
	extra []string
}

func splitOpts(toks []string) ([]string, opts) {
	var o opts
	var pos []string
	for _, t := range toks {
		switch {
		case t == "park":
			o.park = true
		case t == "fail":
			o.fail = true
		case strings.HasPrefix(t, "ss="):
			o.ss = t[3:]
		case strings.HasPrefix(t, "os="):
			o.os, _ = strconv.Atoi(t[3:])
		case strings.HasPrefix(t, "ls="):
			o.ls, _ = strconv.Atoi(t[3:])
		case strings.HasPrefix(t, "as="):
			o.as = t[3:]
		case strings.HasPrefix(t, "dn="):
			o.deny, _ = strconv.Atoi(t[3:])
		case strings.HasPrefix(t, "fh="):
			o.fh = t[3:]
		case strings.HasPrefix(t, "dt="):
			o.dt, _ = strconv.Atoi(t[3:])
		default:
			pos = append(pos, t)
		}
	}
	return pos, o
}

func atoi(s string) int { n, _ := strconv.Atoi(s); return n }

func atou(s string) uint64 {
	if s == "max" {
		return maxU64
	}
	if strings.HasPrefix(s, "max-") {
		return maxU64 - uint64(atoi(s[4:]))
	}
	if strings.HasPrefix(s, "2^63") {
		return 1 << 63
	}
	n, _ := strconv.ParseUint(s, 10, 64)
	return n
}

func kv(out string) map[string]string {
	m := map[string]string{}
	for _, t := range strings.Fields(out) {
		if i := strings.IndexByte(t, '='); i > 0 {
			m[t[:i]] = t[i+1:]
		} else {
			m[t] = ""
		}
	}
	return m
}

// fhCode is the model's encoding of the current file handle.
func fileFH(leaf int) int { return 1 + 2*leaf }
func dirFH(dir int) int   { return 2 + 2*dir }

// ---------------------------------------------------------------------------
// state ID tables

func (r *run) stateKey(c *clientRec, other [12]byte) string {
	if r.v40() || c == nil {
		return string(other[:])
	}
	return fmt.Sprintf("%d/%s", c.shortID, string(other[:]))
}

// bindState ties the state ID of a real reply to the model's name for it.
func (r *run) bindState(c *clientRec, sid nfsv4.Stateid4, modelSid int) *stateRec {
	k := r.stateKey(c, sid.Other)
	if r.noModel() {
		if s, ok := r.states[k]; ok {
			if sid.Seqid > s.seq {
				s.seq = sid.Seqid
			}
			return s
		}
		s := &stateRec{sid: 700000 + len(r.states), other: sid.Other, seq: sid.Seqid, c: c}
		r.states[k] = s
		r.bySid[s.sid] = s
		return s
	}
	if s, ok := r.states[k]; ok {
		if s.sid != modelSid {
			r.failMismatch("C18", "state ID identity", fmt.Sprintf("state ID s%d", modelSid), fmt.Sprintf("the state ID the model calls s%d", s.sid),
				"%s: the implementation returned an existing state ID where the model has a different one", r.lastLine)
		}
		if sid.Seqid > s.seq {
			s.seq = sid.Seqid
		}
		return s
	}
	if s, ok := r.bySid[modelSid]; ok {
		r.failMismatch("C18", "state ID identity", fmt.Sprintf("the state ID first returned by request %d", s.req), "a state ID never seen before",
			"%s: the implementation returned a new state ID where the model reuses s%d", r.lastLine, modelSid)
		return s
	}
	s := &stateRec{sid: modelSid, other: sid.Other, seq: sid.Seqid, c: c}
	r.states[k] = s
	r.bySid[modelSid] = s
	return s
}

// modelSidOf names a real state ID for the dump comparison.
func (r *run) modelSidOf(c *clientRec, sid nfsv4.Stateid4) string {
	if s, ok := r.states[r.stateKey(c, sid.Other)]; ok {
		return strconv.Itoa(s.sid)
	}
	return fmt.Sprintf("?%x", sid.Other)
}

// sidArg builds the state ID sent for reference x, and the model's (name, seq).
func (r *run) sidArg(x int, o opts) (nfsv4.Stateid4, int, uint32, *stateRec) {
	switch x {
	case -1:
		sid := nfsv4.Stateid4{}
		if o.ss != "" && o.ss != "z" {
			sid.Seqid = uint32(atoi(o.ss))
		}
		return sid, sidAnon, sid.Seqid, nil
	case -2:
		sid := nfsv4.Stateid4{Seqid: 0xffffffff}
		for i := range sid.Other {
			sid.Other[i] = 0xff
		}
		if o.ss != "" && o.ss != "z" {
			sid.Seqid = uint32(atoi(o.ss))
		}
		return sid, sidBypass, sid.Seqid, nil
	}
	s := r.byReq[x]
	if s == nil {
		sid := nfsv4.Stateid4{Seqid: 1}
		copy(sid.Other[:], nfsx.StateIDPrefix[:])
		sid.Other[5], sid.Other[6] = 0xEE, 0xEE
		if !r.v40() {
			sid.Other = [12]byte{0xEE, 0xEE, 0xEE}
		}
		return sid, sidForged, 1, nil
	}
	seq := s.seq
	switch {
	case o.ss == "z":
		seq = 0
	case o.ss != "":
		seq = uint32(int(seq) + atoi(o.ss))
	}
	return nfsv4.Stateid4{Seqid: seq, Other: s.other}, s.sid, seq, s
}

// ---------------------------------------------------------------------------
// clients

func (r *run) client(l, v int) *clientRec { return r.clients[[2]int{l, v}] }

func (r *run) actingClient(def *clientRec, o opts) *clientRec {
	if o.as != "" {
		p := strings.Split(o.as, ".")
		if len(p) == 2 {
			return r.client(atoi(p[0]), atoi(p[1]))
		}
	}
	return def
}

func (c *clientRec) liveSession() (*session, int) {
	for _, s := range c.sessions {
		if s.dead {
			continue
		}
		for i := range s.busy {
			if !s.busy[i] {
				return s, i
			}
		}
	}
	return nil, -1
}

func ownerName(k int) string     { return fmt.Sprintf("oo%d", k) }
func lockOwnerName(k int) string { return fmt.Sprintf("lo%d", k) }
func longName(l int) string      { return fmt.Sprintf("client%d", l) }

func keyOf(prefix, s string) string {
	if strings.HasPrefix(s, prefix) {
		return s[len(prefix):]
	}
	return "?" + s
}

// ---------------------------------------------------------------------------
// running one compound against the implementation and its segments against the model

type segPlan struct {
	pre       string
	body      []string
	post      string
	parkAt    int // number of body segments that run before the point at which the real call may be parked; -1 never
	// model lines replacing body[parkAt:] when the call did park (the PUTFH of
	// the compound has been evaluated when the request arrived)
	parkedBody []string
	atPark     string // model line evaluated when the call parks
}

func isGo(o string) bool { return o == "go" || strings.HasPrefix(o, "go ") }

// seqWrap prepares the SEQUENCE of a 4.1 compound: returns the op, the model
// lines and marks the slot busy. ok=false when the client has no usable session.
func (r *run) seqWrap(q *request, c *clientRec) (nfsv4.NfsArgop4, string, string, bool) {
	s, slot := c.liveSession()
	if s == nil {
		return nil, "", "", false
	}
	q.sess, q.slot = s, slot
	s.busy[slot] = true
	s.seq[slot]++
	tag := r.nextTag
	r.nextTag++
	q.post = fmt.Sprintf("seqEnd %d", tag)
	return nfsx.Sequence(s.id, uint32(slot), s.seq[slot], false), fmt.Sprintf("seqBegin %d %d %d", tag, c.modelID, s.k), strconv.Itoa(tag), true
}

// start issues the real compound in its own goroutine and runs to the next
// point at which every goroutine is durably blocked.
func (r *run) start(q *request, ops []nfsv4.NfsArgop4) {
	q.done = make(chan struct{})
	go func() {
		defer close(q.done)
		if traceOn {
			defer func() {
				if p := recover(); p != nil {
					q.err = fmt.Errorf("panic: %v\n%s", p, debug.Stack())
					fmt.Println(q.err)
				}
			}()
			q.res, q.err = r.p.NfsV4Nfsproc4Compound(context.Background(), &nfsv4.Compound4args{Minorversion: r.minor, Argarray: ops})
			return
		}
		q.res, q.err = nfsx.Compound(r.p, r.minor, ops...)
	}()
	synctest.Wait()
}

// drive runs a request: the real compound plus the model segments.
func (r *run) drive(q *request, ops []nfsv4.NfsArgop4, pl segPlan) {
	r.touch(q.c)
	r.touch(q.leaseOf)
	r.start(q, ops)
	parkedNow := !q.returned()
	final := ""
	stopped := false
	if pl.pre != "" {
		o := r.ask(pl.pre)
		if r.drv != nil && !r.modelDead && !strings.HasPrefix(o, "st=0") {
			final, stopped = o, true
			q.post = ""
		}
	}
	idx := 0
	if !stopped {
		final = "go"
		for idx < len(pl.body) {
			if parkedNow && idx == pl.parkAt {
				break
			}
			o := r.ask(pl.body[idx])
			final = o
			idx++
			if !isGo(o) {
				break
			}
		}
	}
	if parkedNow {
		if q.gate == nil || !q.gate.Entered() {
			r.failMonitor("C18", "", "%s: the call neither returned nor reached the leaf it was to be parked in (blocked inside the server)", r.lastLine)
			r.endStep()
			return
		}
		if r.drv != nil && !r.modelDead && !isGo(final) {
			r.failMismatch("", "correspondence Model/NfsState.lean <-> nfs4x_program.go (request reaches the leaf)", final, "parked inside the leaf",
				"%s: the model completes the request with %q, the implementation called into the leaf", r.lastLine, final)
		}
		q.parked = true
		// a request parked inside a leaf holds its client record, except 4.0 I/O
		// with a special state ID (no state, no client)
		if r.v40() && q.leaseOf != nil {
			q.c = q.leaseOf
		}
		if q.c != nil && (!r.v40() || q.kind == "open" || q.ioState != nil) {
			q.holds = true
			q.c.inflight++
		}
		q.after = pl.body[idx:]
		if pl.parkedBody != nil && isGo(final) {
			q.after = pl.parkedBody
			if pl.atPark != "" {
				if o := r.ask(pl.atPark); !r.noModel() && o != "st=0" {
					r.failMismatch("", "correspondence Model/NfsState.lean <-> nfs4x_program.go (PUTFH)", o, "st=0 (the request reached the leaf)",
						"%s: the model's PUTFH fails with %q, the implementation reached the leaf", r.lastLine, o)
				}
			}
		}
		if q.kind == "open" {
			// nfsx logs the open when the call arrives at the leaf; the real
			// VirtualOpenSelf only runs when the gate is released: account the
			// event to the step of the release
			r.withhold = q
		}
		r.parked = append(r.parked, q)
		r.reqs[q.id] = q
		r.out.flags["parked-"+q.kind] = true
		r.endStep()
		return
	}
	if q.id > 0 {
		r.reqs[q.id] = q
	}
	r.complete(q, final)
}

// complete handles the return of a request whose model body is finished.
func (r *run) complete(q *request, final string) {
	if q.gate != nil && !q.gate.Entered() {
		r.w.Disarm(q.gate)
	}
	if !q.returned() {
		r.failMonitor("C18", "", "%s: the call did not return although nothing it could wait for is outstanding (the model says it completes with %q)", r.lastLine, final)
		r.endStep()
		return
	}
	if q.post != "" {
		r.ask(q.post)
	}
	if q.sess != nil {
		q.sess.busy[q.slot] = false
	}
	if q.holds {
		// the record was held until now: its lease starts anew at this moment
		q.c.inflight--
		q.holds = false
		if !q.c.dead {
			q.c.lastTouch = r.now
		}
	}
	r.touch(q.c)
	r.touch(q.leaseOf)
	if q.err != nil {
		r.panicked = true
		sig := r.panicSig(q.err.Error())
		if strings.Contains(final, "panic") {
			// the transcribed model reaches the same panic
			r.count("panic-predicted-by-model")
		}
		r.failMonitor("C18", sig, "%s: %v (a request must never crash the server; the locks it held are released by the unwinding, the state is left half-updated)", r.lastLine, q.err)
		r.out.monitorClass = "panic/" + sig + "/" + q.err.Error()
		r.endStep()
		return
	}
	if strings.Contains(final, "panic") {
		r.failMismatch("C18", "correspondence Model/NfsState.lean <-> nfs4x_program.go (panic)", final, "no panic", "%s: the model reaches a Go panic, the implementation returned normally", r.lastLine)
	}
	q.finish(q, final)
	if q.sess != nil || q.enters {
		r.stepEntered = true
	}
	r.endStep()
}

// release continues a parked request.
func (r *run) release(q *request) {
	q.gate.Release()
	synctest.Wait()
	for i, p := range r.parked {
		if p == q {
			r.parked = append(r.parked[:i:i], r.parked[i+1:]...)
			break
		}
	}
	q.parked = false
	r.inject = q.deferred
	q.deferred = nil
	final := "go"
	for _, line := range q.after {
		o := r.ask(line)
		final = o
		if !isGo(o) {
			break
		}
	}
	r.complete(q, final)
}

// ---------------------------------------------------------------------------
// reply rendering

// mainStatus returns the status of the compound and the index of its last result.
func lastResult(res *nfsv4.Compound4res) (uint32, nfsv4.NfsResop4) {
	if res == nil || len(res.Resarray) == 0 {
		if res == nil {
			return 99999, nil
		}
		return uint32(res.Status), nil
	}
	return uint32(res.Status), res.Resarray[len(res.Resarray)-1]
}

// sequenceOK reports whether the SEQUENCE of a 4.1 reply succeeded.
func sequenceOK(res *nfsv4.Compound4res) bool {
	if res == nil || len(res.Resarray) == 0 {
		return false
	}
	s, ok := res.Resarray[0].(*nfsv4.NfsResop4_OP_SEQUENCE)
	if !ok {
		return false
	}
	_, ok = s.Opsequence.(*nfsv4.Sequence4res_NFS4_OK)
	return ok
}

func (r *run) deniedStr(d *nfsv4.Lock4denied) string {
	ty := 2
	if d.Locktype == nfsv4.READ_LT || d.Locktype == nfsv4.READW_LT {
		ty = 1
	}
	cl := "?"
	if c, ok := r.byShort[d.Owner.Clientid]; ok {
		cl = strconv.Itoa(c.modelID)
	}
	return fmt.Sprintf("den=%d:%d:%d:%s:%s", d.Offset, d.Length, ty, keyOf("lo", string(d.Owner.Owner)), cl)
}

// compare checks the model's reply line against the rendering of the real one.
func (r *run) compare(model, real string) {
	if traceOn {
		fmt.Printf("TRACE %-50s model=%q real=%q\n", r.lastLine, model, real)
	}
	if r.drv == nil || r.modelDead || r.out.mismatch != "" {
		return
	}
	if model != real {
		r.failMismatch("", "correspondence Model/NfsState.lean <-> nfs4x_program.go (reply)", model, real,
			"%s: the model answers %q, the implementation %q", r.lastLine, model, real)
	}
}

// ---------------------------------------------------------------------------
// end of step: effects, ledger monitor, abstract state

func evString(e nfsx.Event) (string, bool) {
	switch e.Kind {
	case "open":
		t := 0
		if e.Trunc {
			t = 1
		}
		return fmt.Sprintf("o:%d:%d:0:%d", e.Leaf, e.Share, t), true
	case "create":
		return fmt.Sprintf("o:%d:%d:1:0", e.Leaf, e.Share), true
	case "close":
		return fmt.Sprintf("c:%d:%d", e.Leaf, e.Share), true
	}
	return "", false
}

// canonEffects sorts every maximal run of closes.
func canonEffects(evs []string) []string {
	out := append([]string(nil), evs...)
	start := -1
	for i := 0; i <= len(out); i++ {
		if i < len(out) && strings.HasPrefix(out[i], "c:") {
			if start < 0 {
				start = i
			}
			continue
		}
		if start >= 0 {
			sort.Strings(out[start:i])
			start = -1
		}
	}
	return out
}

func (r *run) endStep() {
	// 1. effects of this step on the leaves
	log := r.w.Log()
	var real []string
	news := append([]nfsx.Event(nil), log[r.logPos:]...)
	skip := -1
	if r.inject != nil {
		if r.phantomOpen >= 0 {
			// the real VirtualOpenSelf failed after the release
			r.count("phantom-open-dropped")
			r.phantomOpen = -1
		} else {
			news = append([]nfsx.Event{*r.inject}, news...)
		}
		r.inject = nil
	}
	if r.withhold != nil {
		for i := len(news) - 1; i >= 0; i-- {
			if news[i].Kind == "open" && news[i].Leaf == r.withhold.ioLeaf {
				e := news[i]
				r.withhold.deferred = &e
				skip = i
				break
			}
		}
		r.withhold = nil
	}
	if r.phantomOpen >= 0 {
		for i := len(news) - 1; i >= 0; i-- {
			if i != skip && news[i].Kind == "open" && news[i].Leaf == r.phantomOpen {
				news = append(news[:i:i], news[i+1:]...)
				if skip > i {
					skip--
				}
				r.count("phantom-open-dropped")
				break
			}
		}
		r.phantomOpen = -1
	}
	balBefore := map[[2]int]int{}
	for k, v := range r.bal {
		balBefore[k] = v
	}
	defer func() {
		if r.stepFailed && !r.panicked {
			for k, v := range r.bal {
				if v > balBefore[k] {
					r.failMonitor("C18", "", "%s: the request failed, yet it left leaf %d open for %s access once more than before (opens - closes %d -> %d): an open made on behalf of a refused request is never closed",
						r.lastLine, k[0], bitName(k[1]), balBefore[k], v)
					break
				}
			}
		}
		r.stepFailed = false
	}()
	for i, e := range news {
		if i == skip {
			continue
		}
		s, ok := evString(e)
		if !ok {
			continue
		}
		real = append(real, s)
		// ledger monitor: running balance per (leaf, bit)
		for bit := 0; bit < 2; bit++ {
			if e.Share&(1<<bit) == 0 {
				continue
			}
			k := [2]int{e.Leaf, bit}
			if e.Kind == "close" {
				r.bal[k]--
				if r.bal[k] < 0 {
					r.failMonitor("C18", "", "%s: the server closed leaf %d for %s access more often than it opened it (balance %d): close without a matching open",
						r.lastLine, e.Leaf, bitName(bit), r.bal[k])
				}
			} else {
				r.bal[k]++
			}
		}
	}
	r.logPos = len(log)
	if traceOn {
		fmt.Printf("TRACE %-50s eff=%v model=%v bal=%v\n", r.lastLine, real, r.stepEff, r.bal)
	}
	if r.drv != nil && !r.modelDead && r.out.mismatch == "" && !r.panicked {
		a, b := strings.Join(canonEffects(r.stepEff), ","), strings.Join(canonEffects(real), ",")
		if a != b {
			r.failMismatch("C18", "correspondence Model/NfsState.lean <-> nfs4x_program.go (VirtualOpen/VirtualClose calls; theorem C18.ledger_balance)", a, b,
				"%s: the model opens/closes leaves [%s], the implementation [%s]", r.lastLine, a, b)
		}
	}
	r.stepEff = nil
	if r.panicked {
		return
	}
	// 2. monitors on the implementation's state and trace
	r.expireView()
	r.monitorState()
	// 3. abstract state
	if r.drv != nil && !r.modelDead && r.out.mismatch == "" {
		m := r.ask("dump")
		d := r.realDump()
		if !r.entered {
			// p.now is the zero time until the first enter()
			m, d = stripNow(m), stripNow(d)
		}
		if m != d {
			r.failMismatch("C18", "correspondence Model/NfsState.lean <-> nfs4x_program.go (abstract state: clients, holds, idle order, owners, share counts, lock counts, pool)", m, d,
				"%s: abstract state differs:\n model: %s\n impl:  %s", r.lastLine, diffDump(m, d), diffDump(d, m))
		}
	}
}

func stripNow(s string) string {
	if i := strings.Index(s, ";"); i > 0 && strings.HasPrefix(s, "now=") {
		return s[i+1:]
	}
	return s
}

// diffDump lists the items of a that are not in b.
func diffDump(a, b string) string {
	have := map[string]bool{}
	for _, x := range strings.Split(b, " ## ") {
		have[x] = true
	}
	var out []string
	for _, x := range strings.Split(a, " ## ") {
		if !have[x] {
			out = append(out, x)
		}
	}
	return strings.Join(out, " ## ")
}

func bitName(b int) string {
	if b == 0 {
		return "read"
	}
	return "write"
}

// realDump renders VerifDumpState + the pool in the format of the model's dump.
func (r *run) realDump() string {
	st, ok := re_nfsv4.VerifDumpState(r.p)
	if !ok {
		return "no-hook"
	}
	rel := func(ns int64) int64 { return ns/1e9 - baseUnix }
	clName := func(short uint64) string {
		if c, ok := r.byShort[short]; ok {
			return strconv.Itoa(c.modelID)
		}
		return fmt.Sprintf("?%x", short)
	}
	var idle, unused []string
	for _, s := range st.IdleOrder {
		idle = append(idle, clName(s))
	}
	for _, u := range st.UnusedOrder {
		unused = append(unused, clName(u.ShortID)+"."+keyOf("oo", u.Key))
	}
	head := fmt.Sprintf("now=%d;idle=%s;unused=%s", rel(st.NowUnixNano), strings.Join(idle, ","), strings.Join(unused, ","))
	ownerName := map[*nfsv4.LockOwner4]string{}
	var cs, os, fs, ws, ps []string
	for _, c := range st.Clients {
		rec := r.byShort[c.ShortID]
		seen := "-"
		if c.HoldCount == 0 {
			seen = strconv.FormatInt(rel(c.LastSeenUnixNano), 10)
		}
		cs = append(cs, fmt.Sprintf("C %s long=%s ver=%d conf=%d hold=%d seen=%s sess=%d", clName(c.ShortID), keyOf("client", c.LongID), c.ClientVerifier[0],
			b01(c.Confirmed), c.HoldCount, seen, c.Sessions))
		for _, lo := range c.LockOwners {
			ownerName[lo.Owner] = keyOf("lo", lo.Key) + "@" + clName(c.ShortID)
		}
		for _, lo := range c.LockOwners {
			ws = append(ws, fmt.Sprintf("W %s@%s nfiles=%d lastseq=%d resp=%d", keyOf("lo", lo.Key), clName(c.ShortID), lo.FileCount, lo.LastSeqID, b01(lo.HasLastResponse)))
		}
		for _, oo := range c.OpenOwners {
			if r.v40() {
				used := "-"
				if oo.Unused {
					used = strconv.FormatInt(rel(oo.LastUsedUnixNano), 10)
				}
				os = append(os, fmt.Sprintf("O %s %s conf=%d lastseq=%d resp=%d closed=%d tx=%d used=%s", clName(c.ShortID), keyOf("oo", oo.Key),
					b01(oo.Confirmed), oo.LastSeqID, b01(oo.HasLastResponse), b01(oo.HasClosedFile), b01(oo.TransactionInProgress), used))
			}
			for _, f := range oo.Files {
				var ls []string
				for _, l := range f.LockOwnerFiles {
					name, ok := ownerName[l.Owner]
					if !ok {
						name = "?"
					}
					ls = append(ls, fmt.Sprintf("[L %s lo=%s sh=%d cnt=%d seq=%d]", r.modelSidOf(rec, l.StateID), name, l.ShareAccess, l.LockCount, l.StateID.Seqid))
				}
				sort.Strings(ls)
				leaf := "?"
				if i, ok := r.handles[string(f.Handle)]; ok {
					leaf = strconv.Itoa(i)
				}
				fs = append(fs, fmt.Sprintf("F %s cl=%s o=%s f=%s sh=%d r=%d w=%d seq=%d%s", r.modelSidOf(rec, f.StateID), clName(c.ShortID), keyOf("oo", oo.Key), leaf,
					f.ShareAccess, f.Readers, f.Writers, f.StateID.Seqid, strings.Join(ls, "")))
			}
		}
	}
	for _, e := range r.w.Pool.VerifDump() {
		leaf := "?"
		if i, ok := r.handles[string(e.Handle)]; ok {
			leaf = strconv.Itoa(i)
		}
		var ls []string
		for _, l := range e.Locks {
			name, ok := ownerName[l.Owner]
			if !ok {
				name = "?"
			}
			ty := 0
			switch l.Type {
			case virtual.ByteRangeLockTypeLockedExclusive:
				ty = 1
			case virtual.ByteRangeLockTypeLockedShared:
				ty = 2
			}
			ls = append(ls, fmt.Sprintf("%d:%d:%s:%d", l.Start, l.End, name, ty))
		}
		ps = append(ps, fmt.Sprintf("P %s use=%d locks=%s", leaf, e.UseCount, strings.Join(ls, ",")))
	}
	sort.Strings(cs)
	sort.Strings(os)
	sort.Strings(fs)
	sort.Strings(ws)
	sort.Strings(ps)
	all := append([]string{head}, cs...)
	all = append(all, os...)
	all = append(all, fs...)
	all = append(all, ws...)
	all = append(all, ps...)
	return strings.Join(all, " ## ")
}

func b01(b bool) int {
	if b {
		return 1
	}
	return 0
}

func otherOf41(n uint64) [12]byte {
	var o [12]byte
	binary.LittleEndian.PutUint64(o[:], n)
	return o
}

var traceOn = os.Getenv("NFSSTATE_TRACE") != ""

// panicSig maps the panics of the known findings to their stable signatures.
func (r *run) panicSig(msg string) string {
	if !r.sharedLO {
		// the known findings need one lock-owner locking one file through two open-owners
		return ""
	}
	switch {
	case strings.Contains(msg, "Lock-owner file still holds one or more locks"):
		if strings.HasPrefix(r.lastLine, "free ") {
			return "" // FREE_STATEID must answer NFS4ERR_LOCKS_HELD (fixed in 4815fef)
		}
		return sigSharedLO41
	case strings.Contains(msg, "Failed to release locks"):
		return sigSharedLO40
	case strings.Contains(msg, "Negative lock count"):
		if r.v40() {
			return sigSharedLO40
		}
		return sigSharedLO41
	}
	return ""
}

// resolveFor: the model's name of the state a state ID denotes when it is
// presented by client `acting`: NFSv4.1 state IDs are per-client counters, so a
// foreign state ID may denote one of the acting client's own states.
func (r *run) resolveFor(acting *clientRec, s *stateRec, msid int) int {
	if r.v40() || s == nil || acting == nil || acting == s.c {
		return msid
	}
	if t, ok := r.states[r.stateKey(acting, s.other)]; ok {
		return t.sid
	}
	return sidForged
}

// touch: client c sent (or is named by) the request being issued.
func (r *run) touch(c *clientRec) {
	if c != nil {
		c.pendingTouch = true
	}
}

// expireView: "completely once the client's lease has expired". A record that
// is not executing any request and for which nothing was sent for more than a
// lease time is expired by the next request of anybody that enters the server;
// from then on none of its state may survive (the client view forgets it, so the
// ledger and lock monitors demand that the server did).
func (r *run) expireView() {
	var recs []*clientRec
	for _, c := range r.byShort {
		recs = append(recs, c)
	}
	sort.Slice(recs, func(i, j int) bool { return recs[i].shortID < recs[j].shortID })
	for _, c := range recs {
		if r.stepEntered && !c.dead && c.inflight == 0 && r.now-c.lastTouch > leaseSecs {
			hadState := false
			for _, s := range r.states {
				if s.c == c && !s.closed {
					hadState = true
				}
			}
			if hadState {
				r.out.flags["expired-with-state"] = true
			}
			r.clientGone(c)
		}
		if c.pendingTouch {
			c.pendingTouch = false
			if !c.dead {
				c.lastTouch = r.now
			}
		}
	}
	r.stepEntered = false
}
