package nfsstate

import (
	"fmt"
	"runtime"
	"sync"
	"sync/atomic"

	"github.com/buildbarn/go-xdr/pkg/protocols/nfsv4"

	"verifharness/internal/nfsx"
)

// raceProbe: LOCK is test-then-set on the lock table of the OpenedFile, which
// is shared by all clients; NFSv4.1 requests of different clients only share
// that table's own mutex. Two clients ask for the same exclusive range at the
// same moment, many times: at most one may be granted. (No model, no
// synctest: real goroutines; a stress test, so a miss proves nothing.)
func raceProbe(iterations int) (granted2 int, detail string) {
	w := nfsx.NewWorld(worldSeed, 1)
	p := w.NewNFS41()
	type cl struct {
		id   uint64
		sess [16]byte
		seq  uint32
		open nfsv4.Stateid4
	}
	var cs [2]*cl
	for i := range cs {
		id, _, sess, err := nfsx.Register41(p, fmt.Sprintf("race%d", i), 0)
		if err != nil {
			return 0, "setup: " + err.Error()
		}
		c := &cl{id: id, sess: sess}
		c.seq++
		r, err := nfsx.Compound(p, 1, nfsx.Sequence(sess, 0, c.seq, false), nfsx.PutFH(w.FileHandles[0]), nfsx.OpenFH(id, "oo", nfsx.AccessBoth, nfsx.NoCreate))
		if err != nil || r.Status != nfsv4.NFS4_OK {
			return 0, "setup: open failed"
		}
		c.open, _ = nfsx.OpenStateID(r)
		c.open.Seqid = 0
		cs[i] = c
	}
	for it := 0; it < iterations; it++ {
		var start atomic.Int32
		var wg sync.WaitGroup
		var res [2]*nfsv4.Compound4res
		for i := range cs {
			wg.Add(1)
			go func(i int) {
				defer wg.Done()
				c := cs[i]
				c.seq++
				ops := []nfsv4.NfsArgop4{nfsx.Sequence(c.sess, 0, c.seq, false), nfsx.PutFH(w.FileHandles[0]),
					nfsx.LockNew(nfsv4.WRITE_LT, 0, 10, 0, c.open, 0, c.id, "lo")}
				start.Add(1)
				for start.Load() < 2 {
					runtime.Gosched()
				}
				res[i], _ = nfsx.Compound(p, 1, ops...)
			}(i)
		}
		wg.Wait()
		n := 0
		for i, r := range res {
			if r == nil {
				return granted2, "a LOCK compound panicked"
			}
			if r.Status == nfsv4.NFS4_OK {
				n++
				sid, _ := nfsx.ResultStateID(r)
				sid.Seqid = 0
				c := cs[i]
				c.seq++
				nfsx.Compound(p, 1, nfsx.Sequence(c.sess, 0, c.seq, false), nfsx.PutFH(w.FileHandles[0]), nfsx.LockU(nfsv4.WRITE_LT, 0, 10, sid, 0))
			}
		}
		if n == 2 {
			granted2++
			if detail == "" {
				detail = fmt.Sprintf("iteration %d: two clients sent LOCK WRITE [0,10) on the same file concurrently and BOTH were granted", it)
			}
		}
	}
	return granted2, detail
}

// raceProbePool: the same at the level both programs share: two goroutines
// call OpenedFile.Lock for different lock-owner objects on one OpenedFile at
// the same moment.
func raceProbePool(iterations int) (granted2 int, detail string) {
	w := nfsx.NewWorld(worldSeed, 1)
	of := w.Pool.Open(w.FileHandles[0], nil)
	defer of.Close()
	owners := [2]*nfsv4.LockOwner4{{Clientid: 1, Owner: []byte("a")}, {Clientid: 2, Owner: []byte("b")}}
	var phase atomic.Int64
	var wg sync.WaitGroup
	var got [2][]bool
	for i := range owners {
		got[i] = make([]bool, iterations)
		wg.Add(1)
		go func(i int) {
			defer wg.Done()
			defer func() { recover() }()
			for it := 0; it < iterations; it++ {
				// two-phase barrier per iteration
				phase.Add(1)
				for phase.Load() < int64(4*it+2) {
				}
				_, res := of.Lock(owners[i], 0, 10, nfsv4.WRITE_LT)
				got[i][it] = res == nil
				phase.Add(1)
				for phase.Load() < int64(4*it+4) {
				}
				if res == nil {
					of.Unlock(owners[i], 0, 10)
				}
			}
		}(i)
	}
	wg.Wait()
	for it := 0; it < iterations; it++ {
		if got[0][it] && got[1][it] {
			granted2++
			if detail == "" {
				detail = fmt.Sprintf("iteration %d: OpenedFile.Lock(WRITE, [0,10)) called concurrently for two different lock-owners returned success for BOTH", it)
			}
		}
	}
	return granted2, detail
}
