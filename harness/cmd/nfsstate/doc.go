// Package nfsstate is the C18 / C20 (NFS layer) correspondence harness: NFSv4
// open and lock state is accounted for and fully reclaimed; byte-range locks
// through LOCK, LOCKT, LOCKU, CLOSE and lease expiry. See harness_test.go.
package nfsstate
