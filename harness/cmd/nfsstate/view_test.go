package nfsstate

import (
	"fmt"
	"sort"
	"strings"

	re_nfsv4 "github.com/buildbarn/bb-remote-execution/pkg/filesystem/virtual/nfsv4"
	"github.com/buildbarn/go-xdr/pkg/protocols/nfsv4"
)

// ---------------------------------------------------------------------------
// Monitors: everything in this file judges the IMPLEMENTATION's replies, its
// calls into the leaves and (for "nothing is retained") its record counts
// against the property text, using only what a client knows from the replies it
// received (the "client view"). No model involved.
// ---------------------------------------------------------------------------


// surelyLive: the server cannot have expired the record: it is executing one
// of its requests, or its lease was renewed less than a lease time ago.
func (r *run) surelyLive(c *clientRec) bool {
	if c == nil || c.dead || !c.confirmed {
		return false
	}
	return c.inflight > 0 || (c.renewed && r.now-c.lastRenew <= leaseSecs)
}

// ownerConfirmed: 4.0 open-owners have to be confirmed before their state IDs count.
func (r *run) stateUsable(s *stateRec) bool {
	if s == nil || s.closed || !r.surelyLive(s.c) {
		return false
	}
	if r.v40() {
		o := s
		if s.lock {
			o = s.parent
		}
		if o == nil || !r.confirmedOwners()[[2]int{o.c.modelID, o.key}] {
			return false
		}
	}
	return true
}

// confirmedOwners is filled by noteOwnerConfirmed.
func (r *run) confirmedOwners() map[[2]int]bool {
	if r.confOwners == nil {
		r.confOwners = map[[2]int]bool{}
	}
	return r.confOwners
}

// ---- byte-range lock oracle (RFC semantics on the representable bytes 0 … 2^64-2) ----

type ownerID struct{ cl, key int }

type iv struct {
	lo, hi uint64 // inclusive
	ty     int    // 1 shared, 2 exclusive
	via    *stateRec
}

type lockOracle struct {
	held map[ownerID][]iv
	top  map[ownerID]int // owners granted a lock that starts at byte 2^64-1 (not representable)
}

func (r *run) oracleOf(leaf int) *lockOracle {
	o := r.oracle[leaf]
	if o == nil {
		o = &lockOracle{held: map[ownerID][]iv{}, top: map[ownerID]int{}}
		r.oracle[leaf] = o
	}
	return o
}

// rfcRange: the bytes of an (offset, length) request among the representable
// ones; ok=false for requests the protocol rejects; empty=true for the request
// (2^64-1, to-EOF) whose only byte is not representable.
func rfcRange(off, length uint64) (lo, hi uint64, ok, empty bool) {
	if length == 0 {
		return 0, 0, false, false
	}
	if length == maxU64 {
		if off == maxU64 {
			return 0, 0, true, true
		}
		return off, maxU64 - 1, true, false
	}
	if length > maxU64-off {
		return 0, 0, false, false
	}
	return off, off + length - 1, true, false
}

func (o *lockOracle) remove(id ownerID, lo, hi uint64) {
	var out []iv
	for _, x := range o.held[id] {
		if x.hi < lo || x.lo > hi {
			out = append(out, x)
			continue
		}
		if x.lo < lo {
			out = append(out, iv{x.lo, lo - 1, x.ty, x.via})
		}
		if x.hi > hi {
			out = append(out, iv{hi + 1, x.hi, x.ty, x.via})
		}
	}
	if len(out) == 0 {
		delete(o.held, id)
	} else {
		o.held[id] = out
	}
}

func (o *lockOracle) dropClient(cl int) {
	for id := range o.held {
		if id.cl == cl {
			delete(o.held, id)
		}
	}
	for id := range o.top {
		if id.cl == cl {
			delete(o.top, id)
		}
	}
}

// closeOpen: CLOSE of an open state releases the locks acquired through it.
func (o *lockOracle) closeOpen(s *stateRec) {
	for id, xs := range o.held {
		var out []iv
		for _, x := range xs {
			if x.via == nil || x.via.parent != s {
				out = append(out, x)
			}
		}
		if len(out) == 0 {
			delete(o.held, id)
		} else {
			o.held[id] = out
		}
	}
	for id := range o.top {
		if id.cl == s.c.modelID {
			delete(o.top, id)
		}
	}
}

type conflict struct {
	id ownerID
	x  iv
}

func (o *lockOracle) conflicts(id ownerID, lo, hi uint64, ty int) []conflict {
	var out []conflict
	for other, xs := range o.held {
		if other == id {
			continue
		}
		for _, x := range xs {
			if x.hi >= lo && x.lo <= hi && (x.ty == 2 || ty == 2) {
				out = append(out, conflict{other, x})
			}
		}
	}
	sort.Slice(out, func(i, j int) bool {
		if out[i].id != out[j].id {
			return out[i].id.cl < out[j].id.cl || (out[i].id.cl == out[j].id.cl && out[i].id.key < out[j].id.key)
		}
		return out[i].x.lo < out[j].x.lo
	})
	return out
}

func tyOf(lt int) int {
	if lt == 1 || lt == 3 {
		return 1
	}
	return 2
}

func (r *run) ownerLive(id ownerID) bool {
	c := r.byModel[id.cl]
	return r.surelyLive(c)
}

func (r *run) lockGranted(ls *stateRec, leaf int, c *clientRec, lo, lt int, off, length uint64) {
	o := r.oracleOf(leaf)
	id := ownerID{c.modelID, lo}
	a, b, ok, empty := rfcRange(off, length)
	ty := tyOf(lt)
	if !ok {
		r.failMonitor("C20", "", "%s: LOCK granted for offset %d length %d, which is not a valid range (RFC 7530 16.10.4)", r.lastLine, off, length)
		return
	}
	if empty {
		// the request asks for byte 2^64-1 … EOF
		for other, oty := range o.top {
			if other != id && (oty == 2 || ty == 2) && r.ownerLive(other) {
				r.failMonitor("C20", "",
					"%s: owner lo%d of client record c%d and owner lo%d of c%d were both granted a lock from offset 2^64-1 to the end of the file, one of them exclusive (LOCK(2^64-1, all-ones) converted to the empty range [2^64-1, 2^64-1), which conflicts with nothing, instead of being refused with NFS4ERR_BAD_RANGE)",
					r.lastLine, other.key, other.cl, id.key, id.cl)
			}
		}
		o.top[id] = ty
		return
	}
	for _, cf := range o.conflicts(id, a, b, ty) {
		if r.ownerLive(cf.id) {
			r.failMonitor("C20", "", "%s: LOCK [%d,%d] type %d granted to owner lo%d of c%d although owner lo%d of c%d holds [%d,%d] type %d: two owners hold a common byte and one lock is exclusive",
				r.lastLine, a, b, ty, id.key, id.cl, cf.id.key, cf.id.cl, cf.x.lo, cf.x.hi, cf.x.ty)
			break
		}
	}
	o.remove(id, a, b)
	o.held[id] = append(o.held[id], iv{a, b, ty, ls})
}

func (r *run) lockReleased(leaf int, c *clientRec, lo int, off, length uint64) {
	o := r.oracleOf(leaf)
	id := ownerID{c.modelID, lo}
	a, b, ok, empty := rfcRange(off, length)
	if !ok {
		return
	}
	if empty || length == maxU64 {
		delete(o.top, id)
	}
	if !empty {
		o.remove(id, a, b)
	}
}

// locktAnswer: the answer of the latest LOCKT (for the report of monitorLockAnswer).
type locktAnswer struct {
	step        int
	c           *clientRec
	lo, leaf    int
	ty          int
	off, length uint64
	denied      bool
	line        string
}

// lockMust: judged when the LOCK is sent. The request is one the server has to
// answer with a grant or with a conflicting lock: a valid range and type, the
// current state ID of an open (new lock-owner) or lock state (existing one) of a
// client whose lease is valid, correct sequence IDs, no parked request of the
// owner, and (4.0, new_lock_owner) no lock state ID the client ever received
// for this lock-owner on this open.
func (r *run) lockMust(s *stateRec, c *clientRec, lo, ty int, off, length uint64, fresh bool, o opts) bool {
	if o.ss != "" || o.os != 0 || o.ls != 0 || o.as != "" || o.fh != "" || r.sharedLO || s == nil || !r.stateUsable(s) || ty < 1 || ty > 4 {
		return false
	}
	if _, _, ok, empty := rfcRange(off, length); !ok || empty {
		return false
	}
	if !fresh {
		return s.lock && s.parent != nil && r.stateUsable(s.parent) && (r.v40() || c == s.c)
	}
	if s.lock || c != s.c {
		return false
	}
	for _, t := range r.states {
		if t.lock && t.c == s.c && t.key == lo && t.leaf == s.leaf {
			if r.v40() && t.parent == s {
				// the lock-owner is (or was) associated with this open: open_to_lock_owner is the wrong arm
				return false
			}
			if t.parent != s && !t.closed {
				return false // would be the shared lock-owner shape (known finding)
			}
		}
	}
	return true
}

// monitorLockAnswer: "a lock test reports a conflict exactly when a lock request
// would be denied". A LOCK the server has to decide (lockMust) is answered
// NFS4_OK or NFS4ERR_DENIED, as LOCKT for the same owner, type and range is;
// lockGranted / lockDenied judge which of the two.
func (r *run) monitorLockAnswer(s *stateRec, lo, ty int, off, length uint64, st uint32) {
	r.count("lock-must")
	if st == stOK || st == stDenied {
		return
	}
	a, b, _, _ := rfcRange(off, length)
	id := ownerID{s.c.modelID, lo}
	if s.lock {
		id.key = s.key
	}
	t := tyOf(ty)
	verdict := "would report no conflict"
	live := false
	for _, cf := range r.oracleOf(s.leaf).conflicts(id, a, b, t) {
		if r.ownerLive(cf.id) {
			live = true
		}
	}
	if live {
		verdict = "would report a conflict"
	}
	if l := r.lastLockt; l != nil && l.step == r.out.steps-1 && l.c == s.c && l.lo == id.key && l.leaf == s.leaf && l.ty == t && l.off == off && l.length == length {
		verdict = "in the step before (" + l.line + ") reported no conflict"
		if l.denied {
			verdict = "in the step before (" + l.line + ") reported a conflict"
		}
	}
	r.failMonitor("C20", "", "%s: LOCK of [%d,%d] type %d by owner lo%d of c%d, sent with the current state ID and sequence IDs while the lease is valid, was answered with status %d, which is neither a grant nor a conflicting lock; LOCKT for the same owner, type and range %s: a lock test no longer tells whether a lock request would be denied",
		r.lastLine, a, b, t, id.key, id.cl, st, verdict)
}

// lockDenied: LOCK / LOCKT answered NFS4ERR_DENIED.
func (r *run) lockDenied(leaf int, c *clientRec, lo, lt int, off, length uint64, d *nfsv4.Lock4denied, what string) {
	o := r.oracleOf(leaf)
	id := ownerID{c.modelID, lo}
	a, b, ok, empty := rfcRange(off, length)
	ty := tyOf(lt)
	if !ok || empty {
		r.failMonitor("C20", "", "%s: %s denied for a range without representable bytes (offset %d length %d)", r.lastLine, what, off, length)
		return
	}
	cfs := o.conflicts(id, a, b, ty)
	if len(cfs) == 0 {
		own := ""
		for _, x := range o.held[id] {
			if x.hi >= a && x.lo <= b {
				own = fmt.Sprintf(" (the requesting owner itself holds [%d,%d] type %d: an owner's own locks must never block it)", x.lo, x.hi, x.ty)
			}
		}
		r.failMonitor("C20", "", "%s: %s of [%d,%d] type %d by owner lo%d of c%d was denied (reported conflict: offset %d length %d owner %q) although no other owner holds a conflicting lock%s",
			r.lastLine, what, a, b, ty, id.key, id.cl, d.Offset, d.Length, string(d.Owner.Owner), own)
		return
	}
	// the reported lock is a granted lock of another owner that conflicts
	rc, known := r.byShort[d.Owner.Clientid]
	rkey := keyOf("lo", string(d.Owner.Owner))
	if !known {
		r.failMonitor("C20", "", "%s: %s denied reporting a conflicting lock of an unknown client id %x", r.lastLine, what, d.Owner.Clientid)
		return
	}
	rid := ownerID{rc.modelID, atoi(rkey)}
	if rid == id {
		r.failMonitor("C20", "", "%s: %s denied reporting the requesting owner's own lock as the conflict", r.lastLine, what)
		return
	}
	da, db, dok, dempty := rfcRange(d.Offset, d.Length)
	dty := tyOf(int(d.Locktype))
	if !dok || dempty {
		r.failMonitor("C20", "", "%s: %s denied reporting an invalid range (offset %d length %d)", r.lastLine, what, d.Offset, d.Length)
		return
	}
	if db < a || da > b || (dty != 2 && ty != 2) {
		r.failMonitor("C20", "", "%s: %s of [%d,%d] type %d denied, but the reported lock [%d,%d] type %d does not conflict with it", r.lastLine, what, a, b, ty, da, db, dty)
		return
	}
	// every byte of the reported range is held by the reported owner with that type
	pos := da
	covered := true
	xs := append([]iv(nil), o.held[rid]...)
	sort.Slice(xs, func(i, j int) bool { return xs[i].lo < xs[j].lo })
	for _, x := range xs {
		if x.ty != dty || x.hi < pos {
			continue
		}
		if x.lo > pos {
			break
		}
		if x.hi >= db {
			pos = db
			covered = true
			goto done
		}
		pos = x.hi + 1
	}
	covered = false
done:
	if !covered {
		r.failMonitor("C20", "", "%s: %s denied reporting lock [%d,%d] type %d of owner lo%d of c%d, which that owner was not granted", r.lastLine, what, da, db, dty, rid.key, rid.cl)
	}
}

// locktOK: LOCKT found no conflict; LOCK must then be grantable.
func (r *run) locktOK(leaf int, c *clientRec, lo, lt int, off, length uint64) {
	o := r.oracleOf(leaf)
	id := ownerID{c.modelID, lo}
	a, b, ok, empty := rfcRange(off, length)
	if !ok {
		r.failMonitor("C20", "", "%s: LOCKT accepted the invalid range offset %d length %d", r.lastLine, off, length)
		return
	}
	if empty {
		return
	}
	for _, cf := range o.conflicts(id, a, b, tyOf(lt)) {
		if r.ownerLive(cf.id) {
			r.failMonitor("C20", "", "%s: LOCKT of [%d,%d] type %d by owner lo%d of c%d reported no conflict although owner lo%d of c%d holds [%d,%d] type %d (LOCK would be denied)",
				r.lastLine, a, b, tyOf(lt), id.key, id.cl, cf.id.key, cf.id.cl, cf.x.lo, cf.x.hi, cf.x.ty)
			return
		}
	}
}

// ---- I/O and state ID scope -------------------------------------------------------

// prepareIO decides, when the request is ISSUED, what the property demands of
// its outcome: q.ioMust (it has to succeed: a granting state ID is live) or
// q.ioMustNot (a reason why it must be refused: state IDs are honoured only for
// the file, client and sequence they were issued for).
func (r *run) prepareIO(q *request, kind string, x, f int, o opts, sentSeq uint32) {
	if x < 0 {
		return
	}
	bit := 1
	if kind != "r" {
		bit = 2
	}
	s := q.ioState
	acting := q.c
	if s == nil {
		q.ioMustNot = "a state ID the server never issued"
		return
	}
	own := r.v40() || acting == s.c
	if !own {
		// 4.1 state IDs are small per-client counters: the acting client may own one with the same value
		if t, ok := r.states[r.stateKey(acting, s.other)]; !ok || t.closed {
			q.ioMustNot = fmt.Sprintf("the state ID of request %d, which belongs to another client", s.req)
		}
		return
	}
	leaf := f
	switch {
	case o.fh == "":
	case o.fh == "-1" || strings.HasPrefix(o.fh, "d"):
		leaf = -1
	default:
		leaf = atoi(o.fh)
	}
	seqOK := sentSeq == s.seq || (!r.v40() && sentSeq == 0)
	switch {
	case s.closed:
		q.ioMustNot = fmt.Sprintf("the state ID of request %d, which the client has closed / freed / lost by re-registration", s.req)
	case leaf != s.leaf:
		q.ioMustNot = fmt.Sprintf("the state ID of request %d, issued for file %d, with another current file handle (%d)", s.req, s.leaf, leaf)
	case !seqOK:
		q.ioMustNot = fmt.Sprintf("the state ID of request %d with seqid %d (current %d)", s.req, sentSeq, s.seq)
	case s.access&bit == 0:
		q.ioMustNot = fmt.Sprintf("the state ID of request %d, which grants access %d only", s.req, s.access)
	case r.stateUsable(s):
		q.ioMust = true
	}
}

// monitorIO judges the outcome of a READ / WRITE / SETATTR.
func (r *run) monitorIO(q *request, kind string, st uint32, reached bool) {
	if !reached || (q.sess != nil && !sequenceOK(q.res)) {
		return
	}
	s := q.ioState
	if q.ioMust && st != stOK && !q.ioFaulted {
		what := map[string]string{"r": "READ", "w": "WRITE", "s": "SETATTR"}[kind]
		r.failMonitor("C18", "", "%s: %s with the state ID of request %d (access %d, client lease valid, file still open when the request was sent) was refused with status %d: the server no longer honours a state ID that still entitles the client",
			r.lastLine, what, s.req, s.access, st)
		return
	}
	if q.ioMustNot != "" && st == stOK {
		r.failMonitor("C18", "", "%s: the operation succeeded with %s (state IDs must be honoured only for the file, client and sequence they were issued for)", r.lastLine, q.ioMustNot)
	}
}

// monitorResolvable: a file that is open stays reachable through its handle.
func (r *run) monitorResolvable(f int, st uint32) {
	if st == stOK {
		return
	}
	for _, s := range r.states {
		if !s.lock && s.leaf == f && r.stateUsable(s) {
			r.failMonitor("C18", "", "%s: PUTFH of file %d failed with status %d although the state ID of request %d keeps it open (unlinked=%v)", r.lastLine, f, st, s.req, r.unlinked[f])
			return
		}
	}
}

// monitorState runs after every step.
func (r *run) monitorState() {
	// (a) entitled => opened
	var keys []string
	for k := range r.states {
		keys = append(keys, k)
	}
	sort.Strings(keys)
	for _, k := range keys {
		s := r.states[k]
		if !r.stateUsable(s) {
			continue
		}
		for bit := 0; bit < 2; bit++ {
			if s.access&(1<<bit) != 0 && r.bal[[2]int{s.leaf, bit}] < 1 {
				r.failMonitor("C18", "", "%s: leaf %d is closed for %s access (opens - closes = %d) while the state ID of request %d, which grants it, is still valid",
					r.lastLine, s.leaf, bitName(bit), r.bal[[2]int{s.leaf, bit}], s.req)
				return
			}
		}
	}
	// (b) nobody can be entitled => closed
	var bk [][2]int
	for k, v := range r.bal {
		if v > 0 {
			bk = append(bk, k)
		}
	}
	sort.Slice(bk, func(i, j int) bool { return bk[i][0] < bk[j][0] || (bk[i][0] == bk[j][0] && bk[i][1] < bk[j][1]) })
	for _, k := range bk {
		leaf, bit := k[0], k[1]
		possible := false
		for _, s := range r.states {
			if s.leaf == leaf && !s.closed && s.everAccess&(1<<bit) != 0 {
				possible = true
			}
		}
		for _, q := range r.parked {
			if q.kind == "io" && q.ioLeaf == leaf && q.ioBit == bit {
				possible = true
			}
			if q.kind == "open" {
				possible = true // an OPEN is in flight: its leaf is opened before the state exists
			}
		}
		if !possible {
			r.failMonitor("C18", "", "%s: leaf %d stays open for %s access (opens - closes = %d) although every state ID that granted it has been closed, freed or lost and no request is in flight",
				r.lastLine, leaf, bitName(bit), r.bal[k])
			return
		}
	}
	// (c) one lock-owner object per (client, owner): judged on the lock tables
	r.monitorIdentity()
}

// monitorIdentity inspects the real bookkeeping (verif hook): the owners under
// which locks are stored must be the registered lock-owner objects.
func (r *run) monitorIdentity() {
	st, ok := re_nfsv4.VerifDumpState(r.p)
	if !ok {
		return
	}
	type ck struct {
		short uint64
		key   string
	}
	objs := map[ck]map[*nfsv4.LockOwner4]bool{}
	add := func(short uint64, key string, p *nfsv4.LockOwner4) {
		k := ck{short, key}
		if objs[k] == nil {
			objs[k] = map[*nfsv4.LockOwner4]bool{}
		}
		objs[k][p] = true
	}
	for _, c := range st.Clients {
		for _, lo := range c.LockOwners {
			add(c.ShortID, lo.Key, lo.Owner)
		}
		for _, oo := range c.OpenOwners {
			for _, f := range oo.Files {
				for _, l := range f.LockOwnerFiles {
					add(c.ShortID, l.OwnerKey, l.Owner)
				}
			}
		}
	}
	var bad []string
	for k, ps := range objs {
		if len(ps) > 1 {
			bad = append(bad, fmt.Sprintf("%d live lock-owner objects for owner %q of client %x", len(ps), k.key, k.short))
		}
	}
	sort.Strings(bad)
	if len(bad) > 0 {
		r.failMismatch("C20", "C20Nfs.owner_identity (at most one live lock-owner object per client and owner)", "one object per (client, owner)", bad[0],
			"%s: %s", r.lastLine, bad[0])
	}
}

// epilogueCheck: after all leases expired and all requests ended nothing is retained.
func (r *run) epilogueCheck(trigger *clientRec) {
	for k, v := range r.bal {
		if v != 0 {
			r.failMonitor("C18", "", "after every lease expired and every request ended leaf %d is still open for %s access (opens - closes = %d)", k[0], bitName(k[1]), v)
			return
		}
	}
	st, ok := re_nfsv4.VerifDumpState(r.p)
	if !ok {
		return
	}
	files, owners, lowners, sessions := 0, 0, 0, st.Sessions
	others := 0
	for _, c := range st.Clients {
		if trigger != nil && c.ShortID == trigger.shortID {
			continue
		}
		others++
		owners += len(c.OpenOwners)
		lowners += len(c.LockOwners)
		for _, oo := range c.OpenOwners {
			files += len(oo.Files)
		}
	}
	pool := r.w.Pool.VerifDump()
	if others != 0 || files != 0 || owners != 0 || lowners != 0 || len(pool) != 0 || st.OpenOwnerFilesByOther != 0 || st.LockOwnerFilesByOther != 0 || (trigger != nil && sessions > len(trigger.sessions)) {
		r.failMonitor("C18", "", "after every lease expired and every request ended the server still retains %d client records, %d open-owners, %d open files, %d lock-owners, %d state IDs, %d pool entries, %d sessions",
			others, owners, files, lowners, st.OpenOwnerFilesByOther+st.LockOwnerFilesByOther, len(pool), sessions)
	}
}
