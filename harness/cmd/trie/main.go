// Command trie ties Model/Trie.lean (platform.Trie over bb-storage's
// InstanceNameTrie, platform.NewKey, DemultiplexingActionRouter and the
// scheduler's platformQueues/platformQueuesTrie pair) to the real code and
// decides the routing-data-structure part of C05 on the implementation's own
// traces with a brute-force map.
//
// A history is a list of driver lines (see lean/BbRe/Drivers/Trie.lean); keys
// are encoded as `<np> n1 v1 … <nc> c1 …` with interned strings (tables
// below; property strings are interned order-preservingly).  Four families:
//
//	trie    set/remove/getexact/glp/contains on the real platform.NewTrie()
//	key     newkey on platform.NewKey (sorted / unsorted / duplicate property lists)
//	router  rreset/rreg/rroute on routing.NewDemultiplexingActionRouter with recording stubs
//	sched   qreset/qregister/qsync/qtick/qexec on the real InMemoryBuildQueue
//	        (RegisterPredeclaredPlatformQueue, worker-created queues that time out,
//	        Execute), observed through VerifDumpState; the model is told which
//	        queue vanished (`qremove i`) and must reproduce the list order
package main

import (
	"context"
	"crypto/sha256"
	"encoding/hex"
	"fmt"
	"os"
	"sort"
	"strconv"
	"strings"
	"sync"
	"time"

	"cloud.google.com/go/longrunning/autogen/longrunningpb"
	remoteexecution "github.com/bazelbuild/remote-apis/build/bazel/remote/execution/v2"
	"github.com/buildbarn/bb-remote-execution/pkg/proto/remoteworker"
	"github.com/buildbarn/bb-remote-execution/pkg/scheduler"
	"github.com/buildbarn/bb-remote-execution/pkg/scheduler/initialsizeclass"
	"github.com/buildbarn/bb-remote-execution/pkg/scheduler/invocation"
	"github.com/buildbarn/bb-remote-execution/pkg/scheduler/platform"
	"github.com/buildbarn/bb-remote-execution/pkg/scheduler/routing"
	"github.com/buildbarn/bb-storage/pkg/auth"
	"github.com/buildbarn/bb-storage/pkg/blobstore"
	"github.com/buildbarn/bb-storage/pkg/blobstore/buffer"
	"github.com/buildbarn/bb-storage/pkg/clock"
	"github.com/buildbarn/bb-storage/pkg/digest"
	"github.com/buildbarn/bb-storage/pkg/util"
	"github.com/google/uuid"
	"google.golang.org/grpc"
	"google.golang.org/grpc/codes"
	"google.golang.org/grpc/status"
	"google.golang.org/protobuf/proto"
	"google.golang.org/protobuf/types/known/emptypb"

	"verifharness/internal/hx"
)

// ---- interning ----------------------------------------------------------------

var compNames = []string{"", "a", "b", "c", "ab", "bc", "d", "x"} // id 1..7
var compIDs = map[string]int{}

// property names and values; rank in the bytewise-sorted list is the id, so that
// the model's comparison of naturals is Go's comparison of the strings.
var propStrs = []string{"", "1", "10", "2", "Os", "arch", "arm64", "cpu", "linux", "os", "os2", "x86"}

func init() {
	sort.Strings(propStrs)
	for i, c := range compNames {
		if i > 0 {
			compIDs[c] = i
		}
	}
}

func propID(s string) int {
	for i, p := range propStrs {
		if p == s {
			return i
		}
	}
	panic("unknown property string " + s)
}

type rawKey struct {
	inst  []int
	props [][2]int
}

func (k rawKey) enc() string {
	parts := []string{strconv.Itoa(len(k.props))}
	for _, p := range k.props {
		parts = append(parts, strconv.Itoa(p[0]), strconv.Itoa(p[1]))
	}
	parts = append(parts, strconv.Itoa(len(k.inst)))
	for _, c := range k.inst {
		parts = append(parts, strconv.Itoa(c))
	}
	return strings.Join(parts, " ")
}

func encProps(props [][2]int) string { return rawKey{props: props}.enc() }

func encComps(cs []int) string {
	parts := []string{strconv.Itoa(len(cs))}
	for _, c := range cs {
		parts = append(parts, strconv.Itoa(c))
	}
	return strings.Join(parts, " ")
}

func parseRawKey(ws []string) (rawKey, bool) {
	var ns []int
	for _, w := range ws {
		n, err := strconv.Atoi(w)
		if err != nil || n < 0 {
			return rawKey{}, false
		}
		ns = append(ns, n)
	}
	if len(ns) < 1 {
		return rawKey{}, false
	}
	np := ns[0]
	if len(ns) < 1+2*np+1 {
		return rawKey{}, false
	}
	var k rawKey
	for i := 0; i < np; i++ {
		a, b := ns[1+2*i], ns[2+2*i]
		if a >= len(propStrs) || b >= len(propStrs) {
			return rawKey{}, false
		}
		k.props = append(k.props, [2]int{a, b})
	}
	rest := ns[1+2*np:]
	if len(rest) != 1+rest[0] {
		return rawKey{}, false
	}
	for _, c := range rest[1:] {
		if c < 1 || c >= len(compNames) {
			return rawKey{}, false
		}
		k.inst = append(k.inst, c)
	}
	return k, true
}

func instString(cs []int) string {
	parts := make([]string, len(cs))
	for i, c := range cs {
		parts[i] = compNames[c]
	}
	return strings.Join(parts, "/")
}

func instComps(s string) ([]int, bool) {
	if s == "" {
		return nil, true
	}
	var out []int
	for _, p := range strings.Split(s, "/") {
		id, ok := compIDs[p]
		if !ok {
			return nil, false
		}
		out = append(out, id)
	}
	return out, true
}

func platformMsg(props [][2]int) *remoteexecution.Platform {
	m := &remoteexecution.Platform{}
	for _, p := range props {
		m.Properties = append(m.Properties, &remoteexecution.Platform_Property{Name: propStrs[p[0]], Value: propStrs[p[1]]})
	}
	return m
}

func (k rawKey) real() (platform.Key, error) {
	return platform.NewKey(util.Must(digest.NewInstanceName(instString(k.inst))), platformMsg(k.props))
}

func isPrefix(p, s []int) bool {
	if len(p) > len(s) {
		return false
	}
	for i := range p {
		if p[i] != s[i] {
			return false
		}
	}
	return true
}

func sameInts(a, b []int) bool { return len(a) == len(b) && isPrefix(a, b) }

// strictly sorted by (name, value) on the *strings*; sorted = non-strict.
func sortedness(props [][2]int) (strict, sorted bool) {
	strict, sorted = true, true
	for i := 1; i < len(props); i++ {
		a, b := props[i-1], props[i]
		an, av, bn, bv := propStrs[a[0]], propStrs[a[1]], propStrs[b[0]], propStrs[b[1]]
		if an > bn || (an == bn && av > bv) {
			sorted, strict = false, false
		} else if an == bn && av == bv {
			strict = false
		}
	}
	return
}

// ---- universes ------------------------------------------------------------------

var instances = [][]int{{}, {1}, {1, 2}, {1, 2, 3}, {4}, {1, 5}, {1, 2, 3, 6}, {2}, {1, 7}, {4, 3}, {2, 3}}

func pp(name, value string) [2]int { return [2]int{propID(name), propID(value)} }

func validPlatforms() [][][2]int {
	return [][][2]int{
		{},
		{pp("os", "linux")},
		{pp("arch", "x86"), pp("os", "linux")},
		{pp("os", "linux"), pp("os", "x86")},
		{pp("arch", "arm64"), pp("cpu", "10"), pp("os", "linux")},
		{pp("", "")},
		{pp("os", "x86")},
	}
}

// ---- brute-force reference map (the monitor's state) -------------------------------

type refEntry struct {
	plat string
	inst []int
	val  int
}

type refMap struct{ es []refEntry }

func (m *refMap) find(k rawKey) int {
	p := encProps(k.props)
	for i, e := range m.es {
		if e.plat == p && sameInts(e.inst, k.inst) {
			return i
		}
	}
	return -1
}

func (m *refMap) set(k rawKey, v int) {
	if i := m.find(k); i >= 0 {
		m.es[i].val = v
		return
	}
	m.es = append(m.es, refEntry{plat: encProps(k.props), inst: append([]int(nil), k.inst...), val: v})
}

func (m *refMap) remove(k rawKey) bool {
	if i := m.find(k); i >= 0 {
		m.es = append(m.es[:i], m.es[i+1:]...)
		return true
	}
	return false
}

func (m *refMap) exact(k rawKey) int {
	if i := m.find(k); i >= 0 {
		return m.es[i].val
	}
	return -1
}

// longest returns the value and the prefix length of the longest registered prefix.
func (m *refMap) longest(k rawKey) (int, int) {
	p := encProps(k.props)
	best, bestLen := -1, -1
	for _, e := range m.es {
		if e.plat == p && isPrefix(e.inst, k.inst) && len(e.inst) > bestLen {
			best, bestLen = e.val, len(e.inst)
		}
	}
	return best, bestLen
}

// ---- recording action routers -----------------------------------------------------

type stubCall struct {
	id     int
	inst   string
	action *remoteexecution.Action
}

type stubRouter struct {
	id    int
	calls *[]stubCall
}

func (s stubRouter) RouteAction(ctx context.Context, digestFunction digest.Function, action *remoteexecution.Action, requestMetadata *remoteexecution.RequestMetadata) (*remoteexecution.Action, platform.Key, []invocation.Key, initialsizeclass.Selector, error) {
	*s.calls = append(*s.calls, stubCall{id: s.id, inst: digestFunction.GetInstanceName().String(), action: action})
	return action, platform.Key{}, nil, nil, nil
}

// ---- the real scheduler ------------------------------------------------------------

const epoch = 900000

type fakeTimer struct{}

func (fakeTimer) Stop() bool { return true }

type fakeClock struct {
	mu  sync.Mutex
	now int64
}

func (c *fakeClock) Now() time.Time {
	c.mu.Lock()
	defer c.mu.Unlock()
	return time.Unix(c.now, 0)
}

func (c *fakeClock) NewContextWithTimeout(p context.Context, d time.Duration) (context.Context, context.CancelFunc) {
	return context.WithCancel(p)
}

func (c *fakeClock) NewTimer(d time.Duration) (clock.Timer, <-chan time.Time) {
	return fakeTimer{}, make(chan time.Time) // never fires
}

func (c *fakeClock) NewTicker(d time.Duration) (clock.Ticker, <-chan time.Time) {
	panic("tickers are not used by the scheduler")
}

type fakeCAS struct {
	blobstore.BlobAccess
	mu      sync.Mutex
	actions map[string]*remoteexecution.Action
}

func (f *fakeCAS) Get(ctx context.Context, d digest.Digest) buffer.Buffer {
	f.mu.Lock()
	defer f.mu.Unlock()
	a, ok := f.actions[d.GetHashString()]
	if !ok {
		return buffer.NewBufferFromError(status.Error(codes.NotFound, "no such action"))
	}
	return buffer.NewProtoBufferFromProto(a, buffer.UserProvided)
}

type fixedSelector struct{}

func (fixedSelector) Select(sizeClasses []uint32) (int, time.Duration, time.Duration, initialsizeclass.Learner) {
	return 0, time.Second, time.Hour, fixedLearner{}
}
func (fixedSelector) Abandoned() {}

type fixedLearner struct{}

func (fixedLearner) Succeeded(d time.Duration, sizeClasses []uint32) (int, time.Duration, time.Duration, initialsizeclass.Learner) {
	return 0, 0, 0, nil
}
func (fixedLearner) Failed(timedOut bool) (time.Duration, time.Duration, initialsizeclass.Learner) {
	return 0, 0, nil
}
func (fixedLearner) Abandoned() {}

// keyRouter is the innermost action router of the scheduler: platform key from the
// request's instance name and the action's platform (as ActionKeyExtractor does).
type keyRouter struct{}

func (keyRouter) RouteAction(ctx context.Context, digestFunction digest.Function, action *remoteexecution.Action, requestMetadata *remoteexecution.RequestMetadata) (*remoteexecution.Action, platform.Key, []invocation.Key, initialsizeclass.Selector, error) {
	k, err := platform.ActionKeyExtractor.ExtractKey(ctx, digestFunction, action)
	if err != nil {
		return nil, platform.Key{}, nil, nil, err
	}
	return action, k, nil, fixedSelector{}, nil
}

type execStream struct {
	grpc.ServerStream
	ctx   context.Context
	first chan struct{}
	once  sync.Once
}

func (s *execStream) Context() context.Context { return s.ctx }
func (s *execStream) Send(o *longrunningpb.Operation) error {
	s.once.Do(func() { close(s.first) })
	return nil
}

const (
	pqTimeout     = 2
	workerTimeout = 3
)

type schedWorld struct {
	clk   *fakeClock
	cas   *fakeCAS
	bq    *scheduler.InMemoryBuildQueue
	execN int
	uuidN int
}

func newSchedWorld() *schedWorld {
	w := &schedWorld{clk: &fakeClock{now: epoch}, cas: &fakeCAS{actions: map[string]*remoteexecution.Action{}}}
	allow := auth.NewStaticAuthorizer(func(digest.InstanceName) bool { return true })
	gen := func() (uuid.UUID, error) {
		w.uuidN++
		var u uuid.UUID
		n := w.uuidN
		for i := 15; i >= 8; i-- {
			u[i] = byte(n)
			n >>= 8
		}
		return u, nil
	}
	// the real demultiplexing router sits in front, with nothing registered: everything
	// goes to its default entry.
	ar := routing.NewDemultiplexingActionRouter(platform.ActionKeyExtractor, keyRouter{})
	w.bq = scheduler.NewInMemoryBuildQueue(w.cas, w.clk, util.UUIDGenerator(gen), &scheduler.InMemoryBuildQueueConfiguration{
		ExecutionUpdateInterval:              1000 * time.Second,
		OperationWithNoWaitersTimeout:        1 * time.Second,
		PlatformQueueWithNoWorkersTimeout:    pqTimeout * time.Second,
		BusyWorkerSynchronizationInterval:    time.Second,
		GetIdleWorkerSynchronizationInterval: func() time.Duration { return time.Second },
		WorkerTaskRetryCount:                 1,
		WorkerWithNoSynchronizationsTimeout:  workerTimeout * time.Second,
	}, 1<<20, ar, allow, allow, allow, allow)
	return w
}

// tick advances the clock by one second and lets the scheduler run its cleanups.
func (w *schedWorld) tick() {
	w.clk.mu.Lock()
	w.clk.now++
	w.clk.mu.Unlock()
	w.bq.ListPlatformQueues(context.Background(), &emptypb.Empty{})
}

// ---- running one history -------------------------------------------------------------

type outcome struct {
	monitor  string
	mismatch string
	expected string
	actual   string
	line     string
	flags    map[string]bool
	steps    int
}

type runner struct {
	drv *hx.Driver
	out *outcome

	trie *platform.Trie
	ref  refMap

	router     *routing.DemultiplexingActionRouter
	routerDflt int
	routerRef  refMap
	calls      []stubCall

	sw      *schedWorld
	qkeys   []rawKey // the model's view of platformQueues (keys in list order), maintained from qdump
	qpredec map[string]bool
	platRev map[string]string // real platform string -> encoded property list

	sweepPlats [][][2]int
}

func (r *runner) ask(line, actual string) bool {
	if r.drv == nil {
		return true
	}
	exp, err := r.drv.Ask(line)
	if err != nil {
		exp = "driver-error " + err.Error()
	}
	if exp != actual {
		r.out.mismatch = "Trie correspondence: " + line
		r.out.expected, r.out.actual, r.out.line = exp, actual, line
		return false
	}
	return true
}

func (r *runner) fail(format string, a ...any) bool {
	r.out.monitor = fmt.Sprintf(format, a...)
	return false
}

func guarded(f func()) (panicked string) {
	defer func() {
		if x := recover(); x != nil {
			panicked = fmt.Sprint(x)
		}
	}()
	f()
	return ""
}

// trieQuery runs the three lookups of the real trie for k and checks them against the
// brute-force map.
func (r *runner) trieQuery(k rawKey, what string) (exact, longest int, contains bool, ok bool) {
	key, err := k.real()
	if err != nil {
		return 0, 0, false, r.fail("NewKey rejected the valid key %s: %v", k.enc(), err)
	}
	if p := guarded(func() {
		exact = r.trie.GetExact(key)
		longest = r.trie.GetLongestPrefix(key)
		contains = r.trie.ContainsExact(key)
	}); p != "" {
		return 0, 0, false, r.fail("%s: lookup of %s panicked: %s", what, k.enc(), p)
	}
	we := r.ref.exact(k)
	wl, wlen := r.ref.longest(k)
	if exact != we {
		return 0, 0, false, r.fail("%s: GetExact(%s) = %d, the map of registered keys says %d", what, k.enc(), exact, we)
	}
	if contains != (we >= 0) {
		return 0, 0, false, r.fail("%s: ContainsExact(%s) = %v, the map of registered keys says %v", what, k.enc(), contains, we >= 0)
	}
	if longest != wl {
		return 0, 0, false, r.fail("%s: GetLongestPrefix(%s) = %d, the longest registered prefix with this platform has value %d (prefix length %d)", what, k.enc(), longest, wl, wlen)
	}
	if wlen >= 0 && wlen < len(k.inst) {
		r.out.flags["glp-strict-prefix"] = true
	}
	if wl < 0 {
		for _, e := range r.ref.es {
			if isPrefix(e.inst, k.inst) {
				r.out.flags["glp-none-other-platform"] = true
			}
		}
	}
	return exact, longest, contains, true
}

func (r *runner) sweep(what string) bool {
	for _, p := range r.sweepPlats {
		for _, in := range instances {
			k := rawKey{inst: in, props: p}
			if _, _, _, ok := r.trieQuery(k, what); !ok {
				return false
			}
		}
	}
	return true
}

func hashLine(s string) uint64 {
	h := sha256.Sum256([]byte(s))
	var x uint64
	for i := 0; i < 8; i++ {
		x = x<<8 | uint64(h[i])
	}
	return x
}

// modelSample asks the model about a few keys of the sweep universe (chosen from the line so
// that replays and shrunk histories behave identically).
func (r *runner) modelSample(after string) bool {
	if r.drv == nil {
		return true
	}
	rng := hx.NewRand(hashLine(after))
	for i := 0; i < 3; i++ {
		k := rawKey{inst: instances[rng.Intn(len(instances))], props: r.sweepPlats[rng.Intn(len(r.sweepPlats))]}
		e, l, c, ok := r.trieQuery(k, "after "+after)
		if !ok {
			return false
		}
		if !r.ask("getexact "+k.enc(), strconv.Itoa(e)) || !r.ask("glp "+k.enc(), strconv.Itoa(l)) || !r.ask("contains "+k.enc(), strconv.FormatBool(c)) {
			return false
		}
		if i == 0 && !r.ask("spec "+k.enc(), fmt.Sprintf("%d %d", e, l)) {
			return false
		}
	}
	return true
}

func codeName(err error) string {
	switch status.Code(err) {
	case codes.OK:
		return "ok"
	case codes.InvalidArgument:
		return "invalid"
	case codes.AlreadyExists:
		return "exists"
	}
	return "code" + strconv.Itoa(int(status.Code(err)))
}

func (r *runner) schedDump(what string) (*scheduler.VerifState, []rawKey, bool) {
	var st *scheduler.VerifState
	if p := guarded(func() { st = r.sw.bq.VerifDumpState() }); p != "" {
		r.fail("%s: VerifDumpState panicked: %s", what, p)
		return nil, nil, false
	}
	var keys []rawKey
	seen := map[string]bool{}
	for _, e := range st.PlatformQueues {
		i, j := strings.Index(e, "|"), strings.LastIndex(e, "|")
		prefix, plat := e[:i], e[i+1:j]
		comps, ok := instComps(prefix)
		pe, ok2 := r.platRev[plat]
		if !ok || !ok2 {
			r.fail("%s: platform queue %q was never requested", what, e)
			return nil, nil, false
		}
		pk, _ := parseRawKey(strings.Fields(pe))
		k := rawKey{inst: comps, props: pk.props}
		if seen[k.enc()] {
			r.fail("%s: two platform queues with the same key %s", what, k.enc())
			return nil, nil, false
		}
		seen[k.enc()] = true
		keys = append(keys, k)
	}
	for _, v := range st.InvariantViolation {
		if strings.Contains(v, "registered in the trie") {
			r.fail("%s: %s", what, v)
			return nil, nil, false
		}
	}
	return st, keys, true
}

func encKeys(ks []rawKey) string {
	parts := make([]string, len(ks))
	for i, k := range ks {
		parts[i] = k.enc()
	}
	return strings.Join(parts, " | ")
}

// schedSettle tells the model which queues vanished since the last observation and compares the
// resulting list order.
func (r *runner) schedSettle(what string) bool {
	_, keys, ok := r.schedDump(what)
	if !ok {
		return false
	}
	now := map[string]bool{}
	for _, k := range keys {
		now[k.enc()] = true
	}
	var gone []int
	for i, k := range r.qkeys {
		if !now[k.enc()] {
			gone = append(gone, i)
		}
	}
	if len(gone) > 1 {
		r.out.mismatch = fmt.Sprintf("%s: %d platform queues vanished within one second; the harness cannot attribute the order", what, len(gone))
		r.out.line = what
		return false
	}
	for _, i := range gone {
		if r.qpredec[r.qkeys[i].enc()] {
			return r.fail("%s: predeclared platform queue %s was removed", what, r.qkeys[i].enc())
		}
		r.out.flags["queue-removed"] = true
		if i != len(r.qkeys)-1 {
			r.out.flags["queue-removed-not-last"] = true
		}
		if !r.ask("qremove "+strconv.Itoa(i), "ok") {
			return false
		}
	}
	if len(gone) > 0 {
		if !r.ask("qdump", encKeys(keys)) {
			return false
		}
		r.qkeys = keys
	}
	return true
}

func (r *runner) schedCompare(what string) bool {
	_, keys, ok := r.schedDump(what)
	if !ok {
		return false
	}
	if !r.ask("qdump", encKeys(keys)) {
		return false
	}
	r.qkeys = keys
	return true
}

func (r *runner) step(line string) bool {
	ws := strings.Fields(line)
	if len(ws) == 0 {
		return true
	}
	switch ws[0] {
	case "reset":
		r.trie = platform.NewTrie()
		r.ref = refMap{}
		return r.ask(line, "ok")

	case "newkey":
		k, ok := parseRawKey(ws[1:])
		if !ok {
			return true
		}
		key, err := k.real()
		strict, sorted := sortedness(k.props)
		if err == nil && !sorted {
			return r.fail("NewKey accepted the unsorted property list %s", k.enc())
		}
		if err != nil && strict {
			return r.fail("NewKey rejected the strictly sorted property list %s: %v", k.enc(), err)
		}
		if err != nil && status.Code(err) != codes.InvalidArgument {
			return r.fail("NewKey(%s) failed with code %v instead of InvalidArgument", k.enc(), status.Code(err))
		}
		if err == nil {
			r.out.flags["newkey-ok"] = true
			if key.GetInstanceNamePrefix().String() != instString(k.inst) {
				return r.fail("NewKey(%s).GetInstanceNamePrefix() = %q", k.enc(), key.GetInstanceNamePrefix().String())
			}
			if !proto.Equal(key.GetPlatformQueueName().Platform, platformMsg(k.props)) {
				return r.fail("NewKey(%s): the platform string does not decode to the given properties", k.enc())
			}
			// canonical: equal keys iff equal (instance name, property list)
			for _, other := range validPlatforms() {
				for _, in := range [][]int{k.inst, {7}} {
					ok2 := rawKey{inst: in, props: other}
					okey, _ := ok2.real()
					same := ok2.enc() == k.enc()
					if (okey == key) != same {
						return r.fail("platform.Key equality of %s and %s is %v", k.enc(), ok2.enc(), okey == key)
					}
				}
			}
		} else if sorted {
			r.out.flags["newkey-duplicate"] = true
		} else {
			r.out.flags["newkey-unsorted"] = true
		}
		return r.ask(line, codeName(err))

	case "set":
		if len(ws) < 3 {
			return true
		}
		v, err := strconv.Atoi(ws[1])
		k, ok := parseRawKey(ws[2:])
		if err != nil || !ok || r.trie == nil {
			return true
		}
		key, kerr := k.real()
		if kerr != nil {
			return true
		}
		if r.ref.find(k) >= 0 {
			r.out.flags["set-overwrite"] = true
		}
		if p := guarded(func() { r.trie.Set(key, v) }); p != "" {
			return r.fail("Set(%s, %d) panicked: %s", k.enc(), v, p)
		}
		r.ref.set(k, v)
		return r.sweep("after "+line) && r.ask(line, "ok") && r.modelSample(line)

	case "remove":
		k, ok := parseRawKey(ws[1:])
		if !ok || r.trie == nil {
			return true
		}
		key, kerr := k.real()
		if kerr != nil {
			return true
		}
		present := r.ref.find(k) >= 0
		if present {
			r.out.flags["remove-present"] = true
			for _, e := range r.ref.es {
				if e.plat == encProps(k.props) && isPrefix(k.inst, e.inst) && len(e.inst) > len(k.inst) {
					r.out.flags["remove-interior"] = true
				}
				if e.plat == encProps(k.props) && isPrefix(e.inst, k.inst) && len(e.inst) < len(k.inst) {
					r.out.flags["remove-below-registered"] = true
				}
			}
		} else {
			r.out.flags["remove-absent"] = true
		}
		p := guarded(func() { r.trie.Remove(key) })
		if p != "" && present {
			return r.fail("Remove of the registered key %s panicked: %s", k.enc(), p)
		}
		r.ref.remove(k)
		actual := "ok"
		if p != "" {
			actual = "panic"
			r.out.flags["remove-absent-panics"] = true
		}
		return r.sweep("after "+line) && r.ask(line, actual) && r.modelSample(line)

	case "getexact", "glp", "contains":
		k, ok := parseRawKey(ws[1:])
		if !ok || r.trie == nil {
			return true
		}
		if _, err := k.real(); err != nil {
			return true
		}
		e, l, c, ok := r.trieQuery(k, line)
		if !ok {
			return false
		}
		switch ws[0] {
		case "getexact":
			return r.ask(line, strconv.Itoa(e))
		case "glp":
			return r.ask(line, strconv.Itoa(l))
		}
		return r.ask(line, strconv.FormatBool(c))

	case "rreset":
		if len(ws) != 2 {
			return true
		}
		d, err := strconv.Atoi(ws[1])
		if err != nil {
			return true
		}
		r.calls = nil
		r.routerDflt = d
		r.routerRef = refMap{}
		r.router = routing.NewDemultiplexingActionRouter(platform.ActionKeyExtractor, stubRouter{id: d, calls: &r.calls})
		return r.ask(line, "ok")

	case "rreg":
		if len(ws) < 3 || r.router == nil {
			return true
		}
		id, err := strconv.Atoi(ws[1])
		k, ok := parseRawKey(ws[2:])
		if err != nil || !ok {
			return true
		}
		var rerr error
		if p := guarded(func() {
			rerr = r.router.RegisterActionRouter(util.Must(digest.NewInstanceName(instString(k.inst))), platformMsg(k.props), stubRouter{id: id, calls: &r.calls})
		}); p != "" {
			return r.fail("RegisterActionRouter(%s) panicked: %s", k.enc(), p)
		}
		strict, sorted := sortedness(k.props)
		dup := r.routerRef.find(k) >= 0
		switch {
		case rerr == nil && (!sorted || dup):
			return r.fail("RegisterActionRouter accepted %s (sorted=%v, already registered=%v)", k.enc(), sorted, dup)
		case rerr != nil && strict && !dup:
			return r.fail("RegisterActionRouter rejected the new valid key %s: %v", k.enc(), rerr)
		}
		if rerr == nil {
			r.routerRef.set(k, id)
			r.out.flags["router-registered"] = true
		} else if dup {
			r.out.flags["router-exists"] = true
		}
		return r.ask(line, codeName(rerr))

	case "rroute":
		k, ok := parseRawKey(ws[1:])
		if !ok || r.router == nil {
			return true
		}
		inst := util.Must(digest.NewInstanceName(instString(k.inst)))
		df, _ := inst.GetDigestFunction(remoteexecution.DigestFunction_SHA256, 0)
		action := &remoteexecution.Action{Platform: platformMsg(k.props)}
		before := len(r.calls)
		var rerr error
		if p := guarded(func() { _, _, _, _, rerr = r.router.RouteAction(context.Background(), df, action, nil) }); p != "" {
			return r.fail("RouteAction(%s) panicked: %s", k.enc(), p)
		}
		strict, sorted := sortedness(k.props)
		if rerr != nil {
			if strict {
				return r.fail("RouteAction(%s) failed: %v", k.enc(), rerr)
			}
			if len(r.calls) != before {
				return r.fail("RouteAction(%s) failed but an action router was called", k.enc())
			}
			return r.ask(line, codeName(rerr))
		}
		if !sorted {
			return r.fail("RouteAction accepted the unsorted platform of %s", k.enc())
		}
		if len(r.calls) != before+1 {
			return r.fail("RouteAction(%s) called %d action routers", k.enc(), len(r.calls)-before)
		}
		c := r.calls[len(r.calls)-1]
		want, wlen := r.routerRef.longest(k)
		if want < 0 {
			want = r.routerDflt
			r.out.flags["router-default"] = true
		} else if wlen < len(k.inst) {
			r.out.flags["router-strict-prefix"] = true
		}
		if c.id != want {
			return r.fail("RouteAction(%s) went to router %d; the longest registered prefix with this platform (length %d) belongs to router %d", k.enc(), c.id, wlen, want)
		}
		comps, ok := instComps(c.inst)
		if !ok || c.action != action {
			return r.fail("RouteAction(%s) passed a different action or instance name %q on", k.enc(), c.inst)
		}
		return r.ask(line, fmt.Sprintf("to %d %s", c.id, encComps(comps)))

	case "qreset":
		r.sw = newSchedWorld()
		r.qkeys = nil
		r.qpredec = map[string]bool{}
		r.platRev = map[string]string{}
		return r.ask(line, "ok")

	case "qtick":
		if r.sw == nil {
			return true
		}
		if p := guarded(r.sw.tick); p != "" {
			return r.fail("%s: cleanup panicked: %s", line, p)
		}
		return r.schedSettle(line) && r.schedCompare(line)

	case "qregister", "qsync", "qexec":
		k, ok := parseRawKey(ws[1:])
		if !ok || r.sw == nil {
			return true
		}
		if key, err := k.real(); err == nil {
			r.platRev[key.GetPlatformString()] = encProps(k.props)
		}
		strict, sorted := sortedness(k.props)
		if p := guarded(r.sw.tick); p != "" {
			return r.fail("%s: cleanup panicked: %s", line, p)
		}
		if !r.schedSettle(line) {
			return false
		}
		registered := false
		for _, q := range r.qkeys {
			registered = registered || q.enc() == k.enc()
		}
		switch ws[0] {
		case "qregister":
			var rerr error
			if p := guarded(func() {
				rerr = r.sw.bq.RegisterPredeclaredPlatformQueue(util.Must(digest.NewInstanceName(instString(k.inst))), platformMsg(k.props), nil, 0, 0, []uint32{0})
			}); p != "" {
				return r.fail("%s panicked: %s", line, p)
			}
			switch {
			case rerr == nil && (!sorted || registered):
				return r.fail("RegisterPredeclaredPlatformQueue accepted %s (sorted=%v, already registered=%v)", k.enc(), sorted, registered)
			case rerr != nil && strict && !registered:
				return r.fail("RegisterPredeclaredPlatformQueue rejected the new valid key %s: %v", k.enc(), rerr)
			}
			if rerr == nil {
				r.qpredec[k.enc()] = true
			}
			if !r.ask(line, codeName(rerr)) {
				return false
			}
		case "qsync":
			var rerr error
			if p := guarded(func() {
				_, rerr = r.sw.bq.Synchronize(context.Background(), &remoteworker.SynchronizeRequest{
					WorkerId:           map[string]string{"key": k.enc()},
					InstanceNamePrefix: instString(k.inst),
					Platform:           platformMsg(k.props),
					SizeClass:          0,
					CurrentState:       &remoteworker.CurrentState{WorkerState: &remoteworker.CurrentState_Idle{Idle: &emptypb.Empty{}}},
					PreferBeingIdle:    true,
				})
			}); p != "" {
				return r.fail("%s panicked: %s", line, p)
			}
			if !sorted {
				if rerr == nil {
					return r.fail("Synchronize accepted the unsorted platform of %s", k.enc())
				}
				return r.ask("newkey "+k.enc(), codeName(rerr))
			}
			if rerr != nil {
				if strict {
					return r.fail("Synchronize of a worker with key %s failed: %v", k.enc(), rerr)
				}
				return r.ask("newkey "+k.enc(), codeName(rerr))
			}
			// the worker must now sit in a platform queue with exactly its key
			_, keys, ok := r.schedDump(line)
			if !ok {
				return false
			}
			idx := -1
			for i, q := range keys {
				if q.enc() == k.enc() {
					idx = i
				}
			}
			if idx < 0 {
				return r.fail("after a successful Synchronize of a worker with key %s no platform queue with that key exists (queues: %s)", k.enc(), encKeys(keys))
			}
			if registered {
				r.out.flags["sync-existing"] = true
			} else {
				r.out.flags["sync-creates"] = true
			}
			if !r.ask(line, strconv.Itoa(idx)) {
				return false
			}
		case "qexec":
			if !r.schedExec(line, k, strict, sorted) {
				return false
			}
		}
		return r.schedCompare(line)
	}
	return true
}

// schedExec runs one Execute against the real scheduler and reports in which queue the task
// landed and with which instance name suffix.
func (r *runner) schedExec(line string, k rawKey, strict, sorted bool) bool {
	w := r.sw
	w.execN++
	h := sha256.Sum256([]byte("action" + strconv.Itoa(w.execN)))
	hash := hex.EncodeToString(h[:])
	w.cas.mu.Lock()
	w.cas.actions[hash] = &remoteexecution.Action{DoNotCache: true, Platform: platformMsg(k.props)}
	w.cas.mu.Unlock()
	ctx, cancel := context.WithCancel(context.Background())
	defer cancel()
	st := &execStream{ctx: ctx, first: make(chan struct{})}
	done := make(chan error, 1)
	go func() {
		var err error
		if p := guarded(func() {
			err = w.bq.Execute(&remoteexecution.ExecuteRequest{
				InstanceName: instString(k.inst),
				ActionDigest: &remoteexecution.Digest{Hash: hash, SizeBytes: 1},
			}, st)
		}); p != "" {
			err = status.Error(codes.Code(99), "panic: "+p)
		}
		done <- err
	}()
	var err error
	queued := false
	select {
	case err = <-done:
	case <-st.first:
		queued = true
	case <-time.After(hx.ScaledTimeout(20 * time.Second)):
		r.out.mismatch = line + ": Execute neither returned nor sent an update"
		return false
	}
	want, wlen := -1, -1
	for i, q := range r.qkeys {
		if encProps(q.props) == encProps(k.props) && isPrefix(q.inst, k.inst) && len(q.inst) > wlen {
			want, wlen = i, len(q.inst)
		}
	}
	if !queued {
		if status.Code(err) == codes.Code(99) {
			return r.fail("%s: %v", line, err)
		}
		if !sorted {
			return r.ask("newkey "+k.enc(), codeName(err))
		}
		if want >= 0 {
			return r.fail("Execute(%s) failed with %v although platform queue %s matches", k.enc(), status.Code(err), r.qkeys[want].enc())
		}
		if !strict {
			return r.ask("newkey "+k.enc(), codeName(err))
		}
		wantCode := codes.FailedPrecondition
		if w.clk.Now().Unix() < epoch+pqTimeout {
			wantCode = codes.Unavailable
			r.out.flags["exec-unavailable"] = true
		} else {
			r.out.flags["exec-failed-precondition"] = true
		}
		if status.Code(err) != wantCode {
			return r.fail("Execute(%s) without a matching platform queue returned %v, want %v", k.enc(), status.Code(err), wantCode)
		}
		return r.ask(line, "none")
	}
	// the task is queued: find it
	dump, _, ok := r.schedDump(line)
	cancel()
	select {
	case <-done:
	case <-time.After(hx.ScaledTimeout(20 * time.Second)):
		r.out.mismatch = line + ": cancelled Execute did not return"
		return false
	}
	if !ok {
		return false
	}
	for _, t := range dump.Tasks {
		if t.ActionDigestHash != hash {
			continue
		}
		comps, ok1 := instComps(t.InstanceNamePrefix)
		pe, ok2 := r.platRev[t.Platform]
		sfx, ok3 := instComps(t.InstanceNameSuffix)
		if !ok1 || !ok2 || !ok3 {
			return r.fail("Execute(%s): task placed in unknown queue %q %q suffix %q", k.enc(), t.InstanceNamePrefix, t.Platform, t.InstanceNameSuffix)
		}
		if want < 0 {
			return r.fail("Execute(%s) queued a task in %q %q although no platform queue matches", k.enc(), t.InstanceNamePrefix, t.Platform)
		}
		wk := r.qkeys[want]
		if pe != encProps(wk.props) || !sameInts(comps, wk.inst) {
			return r.fail("Execute(%s) queued the task in platform queue (%s | %s); the longest registered prefix with equal platform is %s", k.enc(), pe, encComps(comps), wk.enc())
		}
		if !sameInts(append(append([]int(nil), comps...), sfx...), k.inst) {
			return r.fail("Execute(%s): queue prefix %q + instance name suffix %q is not the request's instance name", k.enc(), t.InstanceNamePrefix, t.InstanceNameSuffix)
		}
		r.out.flags["exec-routed"] = true
		if wlen < len(k.inst) {
			r.out.flags["exec-strict-prefix"] = true
		}
		return r.ask(line, fmt.Sprintf("queue %d %s", want, encComps(sfx)))
	}
	return r.fail("Execute(%s) sent an update but its task is in no queue", k.enc())
}

func run(lines []string, drv *hx.Driver) (res outcome) {
	res.flags = map[string]bool{}
	r := &runner{drv: drv, out: &res, sweepPlats: validPlatforms()[:5]}
	if drv != nil {
		if _, err := drv.Ask("reset"); err != nil {
			res.mismatch = err.Error()
			return
		}
	}
	r.trie = platform.NewTrie()
	for _, l := range lines {
		res.steps++
		var ok bool
		if p := guarded(func() { ok = r.step(l) }); p != "" {
			res.mismatch = "harness panic at " + l + ": " + p
			return
		}
		if !ok {
			if res.line == "" {
				res.line = l
			}
			return
		}
	}
	return
}

// ---- generators -------------------------------------------------------------------------

func randomProps(rng *hx.Rand) [][2]int {
	names := []string{"", "Os", "arch", "cpu", "os", "os2"}
	values := []string{"", "1", "10", "2", "arm64", "linux", "x86"}
	n := rng.Pick(10, 25, 30, 25, 10)
	var ps [][2]int
	for i := 0; i < n; i++ {
		ps = append(ps, pp(names[rng.Intn(len(names))], values[rng.Intn(len(values))]))
	}
	switch rng.Pick(50, 20, 15, 15) {
	case 0: // sort strictly (drop duplicates): valid
		sort.Slice(ps, func(i, j int) bool { return ps[i][0] < ps[j][0] || (ps[i][0] == ps[j][0] && ps[i][1] < ps[j][1]) })
		var out [][2]int
		for i, p := range ps {
			if i == 0 || p != ps[i-1] {
				out = append(out, p)
			}
		}
		ps = out
	case 1: // sorted with a duplicate
		sort.Slice(ps, func(i, j int) bool { return ps[i][0] < ps[j][0] || (ps[i][0] == ps[j][0] && ps[i][1] < ps[j][1]) })
		if len(ps) > 0 {
			i := rng.Intn(len(ps))
			ps = append(ps[:i+1], ps[i:]...)
		}
	case 2: // sorted by name only, values descending
		sort.Slice(ps, func(i, j int) bool { return ps[i][0] < ps[j][0] || (ps[i][0] == ps[j][0] && ps[i][1] > ps[j][1]) })
	}
	return ps
}

func genKeyHistory(rng *hx.Rand) []string {
	var ls []string
	n := 5 + rng.Intn(30)
	for i := 0; i < n; i++ {
		k := rawKey{inst: instances[rng.Intn(len(instances))], props: randomProps(rng)}
		ls = append(ls, "newkey "+k.enc())
	}
	return ls
}

func pickPlatforms(rng *hx.Rand, n int) [][][2]int {
	all := validPlatforms()[:5]
	for i := range all {
		j := i + rng.Intn(len(all)-i)
		all[i], all[j] = all[j], all[i]
	}
	return all[:n]
}

func genTrieHistory(rng *hx.Rand, n int) []string {
	plats := pickPlatforms(rng, 3)
	// ≤ 12 registrable keys, biased to the nested chain "", a, a/b, a/b/c
	var pool []rawKey
	seen := map[string]bool{}
	size := 3 + rng.Intn(10)
	for len(pool) < size {
		in := instances[rng.Intn(7)]
		if rng.Chance(1, 2) {
			in = instances[rng.Intn(4)]
		}
		k := rawKey{inst: in, props: plats[rng.Pick(60, 30, 10)]}
		if !seen[k.enc()] {
			seen[k.enc()] = true
			pool = append(pool, k)
		}
	}
	anyKey := func() rawKey {
		p := plats[rng.Intn(3)]
		if rng.Chance(1, 10) {
			p = validPlatforms()[rng.Intn(5)]
		}
		return rawKey{inst: instances[rng.Intn(len(instances))], props: p}
	}
	present := map[string]bool{}
	ls := []string{"reset"}
	for len(ls) < n {
		switch rng.Pick(30, 22, 14, 22, 6, 6) {
		case 0:
			k := pool[rng.Intn(len(pool))]
			ls = append(ls, fmt.Sprintf("set %d %s", rng.Intn(20), k.enc()))
			present[k.enc()] = true
		case 1: // remove a registered key
			var cand []rawKey
			for _, k := range pool {
				if present[k.enc()] {
					cand = append(cand, k)
				}
			}
			if len(cand) == 0 {
				continue
			}
			k := cand[rng.Intn(len(cand))]
			ls = append(ls, "remove "+k.enc())
			delete(present, k.enc())
		case 2:
			ls = append(ls, "getexact "+anyKey().enc())
		case 3:
			ls = append(ls, "glp "+anyKey().enc())
		case 4:
			ls = append(ls, "contains "+anyKey().enc())
		case 5: // remove of a key that may be absent (panic or no-op)
			k := anyKey()
			ls = append(ls, "remove "+k.enc())
			delete(present, k.enc())
		}
	}
	return ls
}

func genRouterHistory(rng *hx.Rand, n int) []string {
	plats := pickPlatforms(rng, 3)
	ls := []string{"rreset " + strconv.Itoa(100+rng.Intn(5))}
	id := 0
	for len(ls) < n {
		switch rng.Pick(30, 60, 10) {
		case 0:
			id++
			k := rawKey{inst: instances[rng.Intn(7)], props: plats[rng.Pick(60, 30, 10)]}
			if rng.Chance(1, 8) {
				k.props = randomProps(rng)
			}
			ls = append(ls, fmt.Sprintf("rreg %d %s", id, k.enc()))
		case 1:
			k := rawKey{inst: instances[rng.Intn(len(instances))], props: plats[rng.Pick(50, 30, 20)]}
			if rng.Chance(1, 10) {
				k.props = validPlatforms()[rng.Intn(7)]
			}
			ls = append(ls, "rroute "+k.enc())
		case 2:
			k := rawKey{inst: instances[rng.Intn(len(instances))], props: randomProps(rng)}
			ls = append(ls, "rroute "+k.enc())
		}
	}
	return ls
}

func genSchedHistory(rng *hx.Rand, n int) []string {
	plats := pickPlatforms(rng, 3)
	var pool []rawKey
	seen := map[string]bool{}
	size := 3 + rng.Intn(8)
	for len(pool) < size {
		in := instances[rng.Intn(7)]
		if rng.Chance(1, 2) {
			in = instances[rng.Intn(4)]
		}
		k := rawKey{inst: in, props: plats[rng.Pick(60, 30, 10)]}
		if !seen[k.enc()] {
			seen[k.enc()] = true
			pool = append(pool, k)
		}
	}
	ls := []string{"qreset"}
	for len(ls) < n {
		switch rng.Pick(8, 38, 14, 36, 4) {
		case 0:
			ls = append(ls, "qregister "+pool[rng.Intn(len(pool))].enc())
		case 1:
			ls = append(ls, "qsync "+pool[rng.Intn(len(pool))].enc())
		case 2:
			for i := 1 + rng.Intn(4); i > 0; i-- {
				ls = append(ls, "qtick")
			}
		case 3:
			k := rawKey{inst: instances[rng.Intn(len(instances))], props: plats[rng.Pick(55, 30, 15)]}
			ls = append(ls, "qexec "+k.enc())
		case 4:
			k := rawKey{inst: instances[rng.Intn(len(instances))], props: randomProps(rng)}
			ls = append(ls, []string{"qsync ", "qexec ", "qregister "}[rng.Intn(3)]+k.enc())
		}
	}
	return ls
}

func main() {
	o := hx.ParseFlags()
	res := hx.NewResult("trie", o, "four families of histories over the nested instance names \"\", a, a/b, a/b/c, ab, a/bc, a/b/c/d, b, a/x, ab/c, b/c and 3 of 5 platforms (0-3 properties, equal names with different values): trie (Set/Remove/GetExact/GetLongestPrefix/ContainsExact on ≤ 12 keys, ≤ 200 ops, every lookup of the universe re-checked against a brute-force map after each mutation), key (NewKey on sorted/unsorted/duplicate property lists), router (RegisterActionRouter/RouteAction with recording stubs), sched (real InMemoryBuildQueue: predeclared and worker-created queues, time-outs, Execute); non-trivial = trie: a lookup answered by a strictly shorter prefix, a Remove of a registered key with a registered ancestor or descendant; key: accepted and rejected lists; router: a route to a strictly shorter registered prefix; sched: a queue that is not the last one removed and an Execute routed afterwards; distinct = hash of the op list")
	drv, err := hx.StartDriver("trie")
	if err != nil {
		fmt.Fprintln(os.Stderr, "cannot start model driver:", err)
		os.Exit(3)
	}
	defer drv.Close()

	report := func(lines []string, out outcome) {
		isMon := out.monitor != ""
		if !isMon {
			// does the implementation alone already violate the property on this history?
			if m := run(lines, nil); m.monitor != "" {
				out, isMon = m, true
				res.Count("mismatch-turned-into-failing-input")
			}
		}
		fails := func(cand []string) bool {
			if isMon {
				return run(cand, nil).monitor != ""
			}
			x := run(cand, drv)
			return x.mismatch != "" || x.monitor != ""
		}
		min := hx.Shrink(lines, fails)
		var r outcome
		if isMon {
			r = run(min, nil)
		} else {
			r = run(min, drv)
		}
		f := hx.Finding{Property: "C05", History: min}
		if r.monitor != "" {
			f.Kind, f.What, f.Name = "violation", r.monitor, "C05 routing data structure: brute-force map of registered keys vs platform.Trie / NewKey / DemultiplexingActionRouter / InMemoryBuildQueue"
		} else {
			f.Kind, f.What = "mismatch", r.mismatch
			f.Name = "correspondence Model/Trie.lean <-> pkg/scheduler/platform/{trie,key}.go, routing/demultiplexing_action_router.go, in_memory_build_queue.go (theorems C05Trie.trie_refines_map, remove_prunes, swap_with_last_consistent, key_canonical, router_longest_prefix)"
			f.Expected, f.Actual = r.expected, r.actual
		}
		f.Sig = hx.Sig("C05", "trie", strings.Join(min, ";"))
		res.Report(f)
	}

	if o.Replay != "" {
		f, err := hx.LoadReplay(o.Replay)
		if err != nil {
			fmt.Fprintln(os.Stderr, err)
			os.Exit(3)
		}
		out := run(f.History, drv)
		res.Evaluations = out.steps
		if out.monitor != "" || out.mismatch != "" {
			report(f.History, out)
		}
		res.ModelLines = drv.Lines
		res.Write(o)
		return
	}

	histories := 1300 * o.Scale
	if o.Tier == "thorough" {
		histories = 8000 * o.Scale
	}
	rng := hx.NewRand(o.Seed)
	for h := 0; h < histories && len(res.Findings) == 0; h++ {
		var lines []string
		var kind string
		switch rng.Pick(50, 10, 20, 20) {
		case 0:
			kind = "trie"
			n := 10 + rng.Intn(120)
			if rng.Chance(1, 8) {
				n = 200
			}
			lines = genTrieHistory(rng, n)
		case 1:
			kind = "key"
			lines = genKeyHistory(rng)
		case 2:
			kind = "router"
			lines = genRouterHistory(rng, 10+rng.Intn(60))
		case 3:
			kind = "sched"
			lines = genSchedHistory(rng, 15+rng.Intn(80))
		}
		out := run(lines, drv)
		res.Evaluations += out.steps
		res.TracesVsImpl++
		res.Count("history-" + kind)
		for k := range out.flags {
			res.Count("history-with-" + k)
		}
		for _, l := range lines {
			res.Count("op-" + strings.Fields(l)[0])
		}
		fl := out.flags
		nontrivial := false
		switch kind {
		case "trie":
			nontrivial = fl["glp-strict-prefix"] && (fl["remove-interior"] || fl["remove-below-registered"])
		case "key":
			nontrivial = fl["newkey-ok"] && (fl["newkey-unsorted"] || fl["newkey-duplicate"])
		case "router":
			nontrivial = fl["router-strict-prefix"]
		case "sched":
			nontrivial = fl["queue-removed-not-last"] && fl["exec-routed"]
		}
		res.History(lines, nontrivial)
		if out.monitor != "" || out.mismatch != "" {
			report(lines, out)
		}
	}
	res.ModelLines = drv.Lines
	res.Write(o)
}
