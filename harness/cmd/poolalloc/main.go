// Command poolalloc ties Model/Bitmap.lean to pkg/filesystem/pool/bitmap_sector_allocator.go
// and Model/Quota.lean to pkg/filesystem/pool/quota_enforcing_file_pool.go (C15, allocator
// and quota half), and decides the conservation part of C15 on the implementation's own
// traces:
//
//   - bitmap: no sector handed out twice, every sector within 1..sectorCount, 1 <= count <= max,
//     an allocation only fails when everything is handed out, valid frees never panic, and after
//     freeing everything the full capacity (and not more) can be allocated again;
//   - quota: after every operation, for every outcome of the scripted base pool, the remaining
//     file/byte quota measured through the public API plus what the open files hold equals the
//     configured maxima; after closing everything the full quota can be allocated again.
package main

import (
	"fmt"
	"os"
	"strings"

	"verifharness/internal/hx"
)

const (
	nameBitmap = "correspondence Model/Bitmap.lean <-> bitmap_sector_allocator.go (theorem C15Alloc.bitmap_meets_spec)"
	nameQuota  = "correspondence Model/Quota.lean <-> quota_enforcing_file_pool.go (theorem C15Alloc.quota_conservation)"
)

func isQuota(hist []string) bool {
	for _, l := range hist {
		w := strings.Fields(l)
		if len(w) > 0 {
			return w[0] == "init"
		}
	}
	return false
}

func main() {
	o := hx.ParseFlags()
	res := hx.NewResult("poolalloc", o,
		"bitmap: histories of AllocateContiguous/FreeContiguous/FreeList on devices of 0-200 sectors (sizes around 64/128/192), maxima 1-1000, fill-to-exhaustion, every-k-th-sector fragmentation, random free orders, a malformed-free stream, always ending by freeing everything and re-allocating the full capacity; non-trivial = the history reached exhaustion, freed sectors and drained (free all + full re-allocation) on a device with >= 1 sector. "+
			"quota: NewFile/Truncate/WriteAt/Close histories on a quota pool (0-5 files, 0-210 bytes or ~2^63/2^64 bytes) over a scripted base pool failing NewFile/Truncate/WriteAt(short)/Close, quota measured through the public API after every operation, always ending by closing everything and re-allocating the full quota; non-trivial = at least one base-pool failure, one quota refusal and one successful growth. distinct = hash of the op list")
	drvB, err := hx.StartDriver("bitmap")
	if err != nil {
		fmt.Fprintln(os.Stderr, "cannot start model driver:", err)
		os.Exit(3)
	}
	defer drvB.Close()
	drvQ, err := hx.StartDriver("quota")
	if err != nil {
		fmt.Fprintln(os.Stderr, "cannot start model driver:", err)
		os.Exit(3)
	}
	defer drvQ.Close()

	// run executes a history on the implementation; withModel also on the Lean model.
	// Without the model only the monitors judge (a model disagreement does not stop the run).
	run := func(hist []string, withModel bool) *outcome {
		if isQuota(hist) {
			if withModel {
				return runQuota(hist, drvQ)
			}
			return runQuota(hist, nil)
		}
		if withModel {
			return runBitmap(hist, drvB)
		}
		return runBitmap(hist, nil)
	}

	report := func(hist []string, out *outcome) {
		// A disagreement with the model is only reported as such when the monitors, run on
		// the implementation alone over the same history followed by a final drain (free /
		// close everything, re-allocate the full capacity / quota), find nothing.
		if out.monitor == "" {
			ext := append(append([]string(nil), hist...), "drain 12345")
			if r := run(ext, false); r.monitor != "" {
				hist, out = ext, r
			}
		}
		wantMonitor := out.monitor != ""
		fails := func(cand []string) bool {
			if wantMonitor {
				return run(cand, false).monitor != ""
			}
			r := run(cand, true)
			return r.mismatch != "" && r.monitor == ""
		}
		min := hx.Shrink(hist, fails)
		r := run(min, !wantMonitor)
		if !r.failed() { // should not happen; keep the original
			min, r = hist, out
		}
		quota := isQuota(min)
		f := hx.Finding{Property: "C15", History: min}
		if r.monitor != "" {
			f.Kind, f.What = "violation", r.monitor
			if quota {
				f.Name = "C15 quota conservation monitor on quotaEnforcingFilePool"
			} else {
				f.Name = "C15 sector conservation monitor on bitmapSectorAllocator"
			}
		} else {
			f.Kind, f.What = "mismatch", r.mismatch
			f.Name = nameBitmap
			if quota {
				f.Name = nameQuota
			}
			f.Expected, f.Actual = r.expected, r.actual
		}
		f.Sig = hx.Sig("C15", "poolalloc", strings.Join(min, ";"))
		res.Report(f)
	}

	if o.Replay != "" {
		f, err := hx.LoadReplay(o.Replay)
		if err != nil {
			fmt.Fprintln(os.Stderr, err)
			os.Exit(3)
		}
		out := run(f.History, true)
		if m := run(f.History, false); m.monitor != "" {
			out = m
		}
		res.Evaluations = out.steps
		res.PerProperty["C15"] = out.steps
		if out.failed() {
			report(f.History, out)
		}
		res.ModelLines = drvB.Lines + drvQ.Lines
		res.Write(o)
		return
	}

	thorough := o.Tier == "thorough"
	nb, nq := 1200*o.Scale, 1500*o.Scale
	if thorough {
		nb, nq = 6000*o.Scale, 8000*o.Scale
	}
	rng := hx.NewRand(o.Seed)
	// Generation goes on after a mere disagreement with the model (reported once per part):
	// a later history may show that the changed behaviour actually violates the property.
	var haveViolation, haveMismatch bool
	account := func(prefix string, hist []string, out *outcome, nontrivial bool) {
		res.Evaluations += out.steps
		res.TracesVsImpl++
		for k := range out.flags {
			res.Count(prefix + "history-with-" + k)
		}
		for _, l := range hist {
			if w := strings.Fields(l); len(w) > 0 {
				res.Count(prefix + "op-" + w[0])
			}
		}
		res.History(hist, nontrivial)
		if out.monitor != "" || (out.mismatch != "" && !haveMismatch) {
			before := len(res.Findings)
			report(hist, out)
			for _, f := range res.Findings[before:] {
				if f.Kind == "violation" {
					haveViolation = true
				} else {
					haveMismatch = true
				}
			}
		}
	}
	for h := 0; h < nb && !haveViolation; h++ {
		hist, out := genBitmap(rng, drvB, thorough)
		fl := out.flags
		account("bitmap:", hist, out, fl["exhausted"] && fl["free"] && fl["drain"] && !strings.HasPrefix(hist[0], "new 0"))
	}
	haveViolation, haveMismatch = false, false
	for h := 0; h < nq && !haveViolation; h++ {
		hist, out := genQuota(rng, drvQ, thorough)
		fl := out.flags
		baseFail := fl["new-base"] || fl["trunc-base"] || fl["write-base"] || fl["close-base"]
		refusal := fl["new-invalid"] || fl["trunc-invalid"] || fl["write-invalid"]
		account("quota:", hist, out, baseFail && refusal && (fl["grow-by-write"] || fl["shrink"]))
	}
	res.PerProperty["C15"] = res.Evaluations
	res.ModelLines = drvB.Lines + drvQ.Lines
	res.Write(o)
}
