package main

import (
	"fmt"
	"sort"
	"strconv"
	"strings"

	"github.com/buildbarn/bb-remote-execution/pkg/filesystem/pool"
	"google.golang.org/grpc/codes"
	"google.golang.org/grpc/status"

	"verifharness/internal/hx"
)

// outcome of running one history.
type outcome struct {
	monitor  string // non-empty: the property is violated on the implementation's own trace
	mismatch string // non-empty: model and implementation disagree
	expected string
	actual   string
	flags    map[string]bool
	steps    int
}

func (o *outcome) failed() bool { return o.monitor != "" || o.mismatch != "" }

// halted: a monitor fired; the history is not continued. (After a mere disagreement with the
// model the run goes on without the model.)
func (o *outcome) halted() bool { return o.monitor != "" }

// bmSession drives the real bitmapSectorAllocator and Model/Bitmap.lean in lock step and
// keeps the monitor's own account of which sectors are handed out.
type bmSession struct {
	drv  *hx.Driver
	sa   pool.SectorAllocator
	n    int
	held map[uint32]bool // sectors currently handed out, according to the implementation's answers
	out  *outcome
	dead bool // allocator state undefined (after a malformed free); nothing more is executed
	last uint32
}

func newBmSession(drv *hx.Driver) *bmSession {
	return &bmSession{drv: drv, out: &outcome{flags: map[string]bool{}}, held: map[uint32]bool{}}
}

func (s *bmSession) ask(line, actual string) bool {
	if s.drv == nil {
		return true
	}
	exp, err := s.drv.Ask(line)
	if err != nil {
		exp = "driver-error " + err.Error()
	}
	if exp != actual {
		// record the first disagreement, detach the model (its state has diverged) and go
		// on with the monitors alone: they decide whether this is a violation of the property
		s.out.mismatch = "bitmap correspondence: " + line
		s.out.expected, s.out.actual = exp, actual
		s.drv = nil
	}
	return true
}

func (s *bmSession) violation(format string, a ...any) {
	if s.out.monitor == "" {
		s.out.monitor = fmt.Sprintf(format, a...)
	}
}

func (s *bmSession) doNew(n int) {
	s.n = n
	s.held = map[uint32]bool{}
	s.dead = false
	s.last = 0
	func() {
		defer func() {
			if r := recover(); r != nil {
				s.violation("NewBitmapSectorAllocator(%d) panicked: %v", n, r)
			}
		}()
		s.sa = pool.NewBitmapSectorAllocator(uint32(n))
	}()
	if s.out.monitor != "" {
		return
	}
	s.ask(fmt.Sprintf("new %d", n), "ok")
}

// doAlloc performs AllocateContiguous(max); returns false when the history must stop.
func (s *bmSession) doAlloc(max int) (first uint32, count int, ok bool) {
	s.out.steps++
	var err error
	panicked := ""
	func() {
		defer func() {
			if r := recover(); r != nil {
				panicked = fmt.Sprint(r)
			}
		}()
		first, count, err = s.sa.AllocateContiguous(max)
	}()
	if panicked != "" {
		s.violation("AllocateContiguous(%d) panicked: %s", max, panicked)
		return 0, 0, false
	}
	actual := ""
	if err != nil {
		// progress: an allocation may only fail when every sector is handed out
		if len(s.held) < s.n {
			s.violation("AllocateContiguous(%d) failed (%v) although only %d of %d sectors are handed out", max, status.Code(err), len(s.held), s.n)
			return 0, 0, false
		}
		if status.Code(err) == codes.ResourceExhausted {
			actual = "exhausted"
		} else {
			actual = "err-" + status.Code(err).String()
		}
		s.out.flags["exhausted"] = true
		if !s.ask(fmt.Sprintf("alloc %d", max), actual) {
			return 0, 0, false
		}
		return 0, 0, true
	}
	// monitor: 1 <= count <= max, within the device, never handed out twice
	if count < 1 || count > max {
		s.violation("AllocateContiguous(%d) returned count %d, want 1..%d", max, count, max)
		return 0, 0, false
	}
	if first < 1 || uint64(first)+uint64(count)-1 > uint64(s.n) {
		s.violation("AllocateContiguous(%d) returned sectors %d..%d outside the device 1..%d", max, first, uint64(first)+uint64(count)-1, s.n)
		return 0, 0, false
	}
	for i := 0; i < count; i++ {
		if s.held[first+uint32(i)] {
			s.violation("AllocateContiguous(%d) returned sectors %d..%d, but sector %d is already handed out", max, first, int(first)+count-1, first+uint32(i))
			return 0, 0, false
		}
	}
	for i := 0; i < count; i++ {
		s.held[first+uint32(i)] = true
	}
	if (first-1)/64 != (first-1+uint32(count)-1)/64 {
		s.out.flags["cross-word"] = true
	}
	if first < s.last {
		s.out.flags["wrap"] = true
	}
	if count < max && len(s.held) < s.n {
		s.out.flags["short"] = true
	}
	s.last = first + uint32(count)
	if !s.ask(fmt.Sprintf("alloc %d", max), fmt.Sprintf("%d %d", first, count)) {
		return 0, 0, false
	}
	return first, count, true
}

func (s *bmSession) validRun(first uint32, count int) bool {
	if first < 1 || count < 0 || uint64(first)+uint64(count) > uint64(s.n)+1 {
		return false
	}
	for i := 0; i < count; i++ {
		if !s.held[first+uint32(i)] {
			return false
		}
	}
	return true
}

func (s *bmSession) validList(l []uint32) bool {
	seen := map[uint32]bool{}
	for _, x := range l {
		if x == 0 {
			continue
		}
		if !s.held[x] || seen[x] {
			return false
		}
		seen[x] = true
	}
	return true
}

// doFreeC performs FreeContiguous on a run that is handed out (valid) or, for
// the malformed stream, on one that is not (then only model == implementation is
// demanded and the history ends).
func (s *bmSession) doFreeC(first uint32, count int, valid bool) bool {
	s.out.steps++
	panicked := ""
	func() {
		defer func() {
			if r := recover(); r != nil {
				panicked = fmt.Sprint(r)
			}
		}()
		s.sa.FreeContiguous(first, count)
	}()
	actual := "ok"
	if panicked != "" {
		actual = "panic"
	}
	if valid {
		if panicked != "" {
			s.violation("FreeContiguous(%d, %d) of handed-out sectors panicked: %s", first, count, panicked)
			return false
		}
		for i := 0; i < count; i++ {
			delete(s.held, first+uint32(i))
		}
		s.out.flags["free"] = true
	} else {
		s.dead = true
		s.out.flags["malformed-free"] = true
	}
	return s.ask(fmt.Sprintf("freec %d %d", first, count), actual)
}

func (s *bmSession) doFreeL(l []uint32, valid bool) bool {
	s.out.steps++
	panicked := ""
	func() {
		defer func() {
			if r := recover(); r != nil {
				panicked = fmt.Sprint(r)
			}
		}()
		s.sa.FreeList(append([]uint32(nil), l...))
	}()
	actual := "ok"
	if panicked != "" {
		actual = "panic"
	}
	if valid {
		if panicked != "" {
			s.violation("FreeList(%v) of handed-out sectors panicked: %s", l, panicked)
			return false
		}
		for _, x := range l {
			delete(s.held, x)
		}
		s.out.flags["free"] = true
	} else {
		s.dead = true
		s.out.flags["malformed-free"] = true
	}
	parts := make([]string, len(l))
	for i, x := range l {
		parts[i] = strconv.FormatUint(uint64(x), 10)
	}
	return s.ask(strings.TrimSpace("freel "+strings.Join(parts, " ")), actual)
}

func (s *bmSession) heldSorted() []uint32 {
	l := make([]uint32, 0, len(s.held))
	for x := range s.held {
		l = append(l, x)
	}
	sort.Slice(l, func(i, j int) bool { return l[i] < l[j] })
	return l
}

// freeAll gives back everything that is handed out, in an order and with a mix
// of FreeContiguous / FreeList calls determined by r.
func (s *bmSession) freeAll(r *hx.Rand) bool {
	for len(s.held) > 0 {
		l := s.heldSorted()
		switch r.Intn(3) {
		case 0: // a maximal or partial contiguous run starting at a random held sector
			f := l[r.Intn(len(l))]
			c := 1
			lim := 1 + r.Intn(130)
			for c < lim && s.held[f+uint32(c)] {
				c++
			}
			if !s.doFreeC(f, c, true) {
				return false
			}
		case 1: // random subset, random order, zeros mixed in
			shuffle(r, l)
			k := 1 + r.Intn(len(l))
			sub := append([]uint32(nil), l[:k]...)
			if r.Chance(1, 2) {
				sub = append(sub, 0)
				shuffle(r, sub)
			}
			if !s.doFreeL(sub, true) {
				return false
			}
		case 2: // single sector
			f := l[r.Intn(len(l))]
			if !s.doFreeC(f, 1, true) {
				return false
			}
		}
	}
	return true
}

// exec runs one history line. Unknown or currently inapplicable lines are skipped
// (this keeps shrunk histories meaningful).
func (s *bmSession) exec(line string) {
	w := strings.Fields(line)
	if len(w) == 0 || s.out.halted() {
		return
	}
	if w[0] != "new" && (s.sa == nil || s.dead) {
		return
	}
	num := func(i int) int {
		if i >= len(w) {
			return 0
		}
		v, _ := strconv.ParseInt(w[i], 10, 64)
		return int(v)
	}
	switch w[0] {
	case "new":
		n := num(1)
		if n < 0 || n > 1<<20 {
			return
		}
		s.doNew(n)
	case "alloc":
		if m := num(1); m >= 1 {
			s.doAlloc(m)
		}
	case "freec", "xfreec":
		f, c := num(1), num(2)
		if f < 0 || f > 1<<24 || c < 0 || c > 1<<24 {
			return
		}
		valid := s.validRun(uint32(f), c)
		if valid != (w[0] == "freec") {
			s.out.flags["skipped"] = true
			return
		}
		s.doFreeC(uint32(f), c, valid)
	case "freel", "xfreel":
		var l []uint32
		for i := 1; i < len(w); i++ {
			v := num(i)
			if v < 0 || v > 1<<24 {
				return
			}
			l = append(l, uint32(v))
		}
		valid := s.validList(l)
		if valid != (w[0] == "freel") {
			s.out.flags["skipped"] = true
			return
		}
		s.doFreeL(l, valid)
	case "fill": // allocate with the given maximum until exhausted
		m := num(1)
		if m < 1 {
			return
		}
		for i := 0; i <= s.n+1; i++ {
			_, c, ok := s.doAlloc(m)
			if !ok || c == 0 {
				return
			}
		}
		s.violation("fill %d: more than %d successful allocations on a device of %d sectors", m, s.n+1, s.n)
	case "frag": // free every k-th handed-out sector (k=2 after fill: maximal fragmentation)
		k, off := num(1), num(2)
		if k < 1 {
			return
		}
		var l []uint32
		for _, x := range s.heldSorted() {
			if int(x)%k == off%k {
				l = append(l, x)
			}
		}
		if len(l) == 0 {
			return
		}
		s.out.flags["frag"] = true
		if num(3) == 1 {
			for _, x := range l {
				if !s.doFreeC(x, 1, true) {
					return
				}
			}
		} else {
			s.doFreeL(l, true)
		}
	case "drain": // free everything, then the full capacity must be allocatable again
		r := hx.NewRand(uint64(num(1)))
		if !s.freeAll(r) {
			return
		}
		s.out.flags["drain"] = true
		got := 0
		for got < s.n {
			m := 1 + r.Intn(s.n+3)
			if r.Chance(1, 4) {
				m = 1 + r.Intn(3)
			}
			before := len(s.held)
			_, c, ok := s.doAlloc(m)
			if !ok {
				if s.out.monitor != "" && before < s.n {
					s.out.monitor = fmt.Sprintf("after freeing everything only %d of %d sectors could be allocated again: %s", before, s.n, s.out.monitor)
				}
				return
			}
			if c == 0 { // cannot happen: doAlloc reports a failing allocation with free sectors as a violation
				return
			}
			got += c
		}
		// and nothing more than the capacity
		if _, c, ok := s.doAlloc(1 + r.Intn(5)); ok && c != 0 {
			s.violation("allocated %d sectors beyond the capacity %d", c, s.n)
			return
		}
		if s.out.halted() {
			return
		}
		s.freeAll(r)
	}
}

func runBitmap(lines []string, drv *hx.Driver) *outcome {
	s := newBmSession(drv)
	for _, l := range lines {
		s.exec(l)
		if s.out.halted() {
			break
		}
	}
	return s.out
}

var bmSizes = []int{0, 1, 2, 3, 31, 62, 63, 64, 65, 66, 100, 126, 127, 128, 129, 130, 190, 191, 192, 193, 199, 200}
var bmMax = []int{1, 1, 2, 3, 5, 8, 31, 62, 63, 64, 65, 66, 127, 128, 129, 130, 200, 1000}

// genBitmap generates one history while executing it (frees depend on what the
// allocator answered). Returns the history and its outcome.
func genBitmap(r *hx.Rand, drv *hx.Driver, thorough bool) ([]string, *outcome) {
	s := newBmSession(drv)
	var hist []string
	do := func(format string, a ...any) {
		line := fmt.Sprintf(format, a...)
		hist = append(hist, line)
		s.exec(line)
	}
	n := bmSizes[r.Intn(len(bmSizes))]
	if r.Chance(1, 3) {
		n = r.Intn(201)
	}
	do("new %d", n)
	nops := 5 + r.Intn(40)
	if thorough {
		nops = 5 + r.Intn(120)
	}
	pickMax := func() int {
		if r.Chance(1, 3) {
			return 1 + r.Intn(n+5)
		}
		return bmMax[r.Intn(len(bmMax))]
	}
	for i := 0; i < nops && !s.out.halted() && !s.dead; i++ {
		switch r.Pick(40, 14, 12, 6, 6, 3, 2) {
		case 0:
			do("alloc %d", pickMax())
		case 1: // free part of what is handed out, contiguously
			if len(s.held) == 0 {
				do("alloc %d", pickMax())
				continue
			}
			l := s.heldSorted()
			f := l[r.Intn(len(l))]
			c, lim := 1, 1+r.Intn(140)
			for c < lim && s.held[f+uint32(c)] {
				c++
			}
			if r.Chance(1, 20) {
				c = 0
			}
			do("freec %d %d", f, c)
		case 2: // free a random subset through FreeList
			if len(s.held) == 0 {
				do("alloc %d", pickMax())
				continue
			}
			l := s.heldSorted()
			shuffle(r, l)
			k := 1 + r.Intn(len(l))
			if r.Chance(1, 2) && k > 4 {
				k = 1 + r.Intn(4)
			}
			parts := []string{}
			for _, x := range l[:k] {
				if r.Chance(1, 6) {
					parts = append(parts, "0")
				}
				parts = append(parts, strconv.Itoa(int(x)))
			}
			do("freel %s", strings.Join(parts, " "))
		case 3:
			do("fill %d", pickMax())
		case 4:
			do("frag %d %d %d", 2+r.Intn(3)*r.Intn(2), r.Intn(4), r.Intn(2))
		case 5:
			do("drain %d", r.Intn(1<<30))
		case 6: // malformed stream: free something that is not handed out
			if r.Chance(1, 2) {
				f := 1 + r.Intn(n+2)
				c := 1 + r.Intn(70)
				if r.Chance(1, 8) {
					f = 0
				}
				if f+c > n+1 && r.Chance(2, 3) { // keep most malformed frees inside the device
					c = 1
				}
				do("xfreec %d %d", f, c)
			} else {
				parts := []string{}
				for _, x := range s.heldSorted() {
					if r.Chance(1, 3) {
						parts = append(parts, strconv.Itoa(int(x)))
					}
				}
				parts = append(parts, strconv.Itoa(1+r.Intn(n+1)))
				if r.Chance(1, 3) && len(parts) > 1 {
					parts = append(parts, parts[0])
				}
				do("xfreel %s", strings.Join(parts, " "))
			}
		}
	}
	if !s.out.halted() && !s.dead {
		do("drain %d", r.Intn(1<<30))
	}
	return hist, s.out
}

func shuffle[T any](r *hx.Rand, l []T) {
	for i := len(l) - 1; i > 0; i-- {
		j := r.Intn(i + 1)
		l[i], l[j] = l[j], l[i]
	}
}
