package main

import (
	"fmt"
	"io"
	"math"
	"sort"
	"strconv"
	"strings"

	"github.com/buildbarn/bb-remote-execution/pkg/filesystem/pool"
	"github.com/buildbarn/bb-storage/pkg/filesystem"
	"google.golang.org/grpc/codes"
	"google.golang.org/grpc/status"

	"verifharness/internal/hx"
)

// fakeBase is the scripted base FilePool: the answer of the next call into it
// (NewFile, or a method of one of its files) is set before every operation.
type fakeBase struct {
	calls int // calls received since the last arm()
	// script for the next call
	ok      bool // NewFile / Truncate succeed
	n       int  // WriteAt: bytes written
	err     bool // WriteAt / Close return an error
	lastArg string
}

var errInjected = status.Error(codes.Internal, "injected base pool failure")

func (b *fakeBase) arm(ok bool, n int, err bool) {
	b.calls, b.ok, b.n, b.err, b.lastArg = 0, ok, n, err, ""
}

func (b *fakeBase) NewFile(hs pool.HoleSource, size uint64) (filesystem.FileReadWriter, error) {
	b.calls++
	b.lastArg = fmt.Sprintf("NewFile %d", size)
	if !b.ok {
		return nil, errInjected
	}
	return &fakeFile{b: b}, nil
}

// fakeFile is a base file without contents: the quota layer never looks at data.
type fakeFile struct {
	b      *fakeBase
	closed bool
}

func (f *fakeFile) ReadAt(p []byte, off int64) (int, error) { return 0, io.EOF }
func (f *fakeFile) GetNextRegionOffset(off int64, rt filesystem.RegionType) (int64, error) {
	return 0, io.EOF
}
func (f *fakeFile) Sync() error         { return nil }
func (f *fakeFile) Len() (int64, error) { return 0, nil }
func (f *fakeFile) WriteAt(p []byte, off int64) (int, error) {
	f.b.calls++
	f.b.lastArg = fmt.Sprintf("WriteAt %d %d", len(p), off)
	n := f.b.n
	if n > len(p) {
		n = len(p)
	}
	if f.b.err {
		return n, errInjected
	}
	return n, nil
}

func (f *fakeFile) Truncate(size int64) error {
	f.b.calls++
	f.b.lastArg = fmt.Sprintf("Truncate %d", size)
	if !f.b.ok {
		return errInjected
	}
	return nil
}

func (f *fakeFile) Close() error {
	f.b.calls++
	f.b.lastArg = "Close"
	f.closed = true
	if f.b.err {
		return errInjected
	}
	return nil
}

type qFile struct {
	f    filesystem.FileReadWriter
	size uint64 // size of the file according to the results the implementation returned
}

// qSession drives the real quotaEnforcingFilePool and Model/Quota.lean in lock step.
type qSession struct {
	drv      *hx.Driver
	base     *fakeBase
	fp       pool.FilePool
	maxFiles uint64
	maxBytes uint64
	open     map[int]*qFile
	nextID   int
	out      *outcome
}

func newQSession(drv *hx.Driver) *qSession {
	return &qSession{drv: drv, out: &outcome{flags: map[string]bool{}}, open: map[int]*qFile{}}
}

func (s *qSession) violation(format string, a ...any) {
	if s.out.monitor == "" {
		s.out.monitor = fmt.Sprintf(format, a...)
	}
}

func (s *qSession) ask(line, actual string) bool {
	if s.drv == nil {
		return true
	}
	exp, err := s.drv.Ask(line)
	if err != nil {
		exp = "driver-error " + err.Error()
	}
	if exp != actual {
		// record the first disagreement, detach the model (its state has diverged) and go
		// on with the monitor alone: it decides whether this is a violation of the property
		s.out.mismatch = "quota correspondence: " + line
		s.out.expected, s.out.actual = exp, actual
		s.drv = nil
	}
	return true
}

func resOf(err error) string {
	switch {
	case err == nil:
		return "ok"
	case err == errInjected:
		return "base"
	case status.Code(err) == codes.InvalidArgument:
		return "invalid"
	default:
		return "err-" + status.Code(err).String()
	}
}

func b01(b bool) string {
	if b {
		return "1"
	}
	return "0"
}

// call runs fn against the implementation with the base armed; a panic is a violation.
func (s *qSession) call(what string, ok bool, n int, err bool, fn func()) bool {
	s.base.arm(ok, n, err)
	panicked := ""
	func() {
		defer func() {
			if r := recover(); r != nil {
				panicked = fmt.Sprint(r)
			}
		}()
		fn()
	}()
	if panicked != "" {
		s.violation("%s panicked: %s", what, panicked)
		return false
	}
	return true
}

func (s *qSession) total() (sum uint64, overflow bool) {
	for _, f := range s.open {
		if sum+f.size < sum {
			overflow = true
		}
		sum += f.size
	}
	return
}

// measure determines the remaining quota through the public API only:
// files by creating empty files until refused, bytes by bisecting the largest
// growth that is still accepted (on an open file, or on a fresh one).
// bytesKnown is false when the byte quota cannot be probed (no file and no slot,
// or more than MaxInt64 remaining with only Truncate available).
func (s *qSession) measure() (files uint64, bytes uint64, bytesKnown bool, okRun bool) {
	okRun = true
	var tmp []filesystem.FileReadWriter
	for files <= s.maxFiles+2 {
		var f filesystem.FileReadWriter
		var err error
		if !s.call("NewFile(0) [probe]", true, 0, false, func() { f, err = s.fp.NewFile(pool.ZeroHoleSource, 0) }) {
			return 0, 0, false, false
		}
		if err != nil {
			break
		}
		tmp = append(tmp, f)
		files++
	}
	closeTmp := func() bool {
		for _, f := range tmp {
			f := f
			if !s.call("Close [probe]", true, 0, false, func() { f.Close() }) {
				return false
			}
		}
		tmp = nil
		return true
	}
	if len(tmp) > 0 {
		// probe bytes with the first temporary file, through NewFile-sized requests would
		// need a free slot after closing; Truncate on an empty temp file is equivalent
		// up to MaxInt64, beyond that use NewFile(size).
		f := tmp[0]
		try := func(x uint64) (bool, bool) { // accepted?, ran?
			if x <= math.MaxInt64 {
				var err error
				if !s.call("Truncate [probe]", true, 0, false, func() { err = f.Truncate(int64(x)) }) {
					return false, false
				}
				if err != nil {
					return false, true
				}
				if !s.call("Truncate(0) [probe]", true, 0, false, func() { err = f.Truncate(0) }) {
					return false, false
				}
				if err != nil {
					s.violation("probe: shrinking a file to 0 failed: %v", err)
					return false, false
				}
				return true, true
			}
			// sizes above MaxInt64: needs a free slot; close one temp first
			return false, true
		}
		lo, hi := uint64(0), s.maxBytes // invariant: lo accepted; answer in [lo, hi]
		if hi > math.MaxInt64 {
			hi = math.MaxInt64
		}
		// allow detecting more than maxBytes being available
		if hi < math.MaxInt64-2 {
			hi += 2
		}
		for lo < hi {
			mid := lo + (hi-lo+1)/2
			acc, ran := try(mid)
			if !ran {
				return 0, 0, false, false
			}
			if acc {
				lo = mid
			} else {
				hi = mid - 1
			}
		}
		bytes, bytesKnown = lo, true
		if lo == math.MaxInt64 && s.maxBytes > math.MaxInt64 {
			bytesKnown = false
		}
		if !closeTmp() {
			return 0, 0, false, false
		}
		if !bytesKnown {
			// bisect with NewFile(size uint64): a slot is free now
			lo, hi := uint64(math.MaxInt64), s.maxBytes
			for lo < hi {
				mid := lo + (hi-lo+1)/2
				var nf filesystem.FileReadWriter
				var err error
				if !s.call("NewFile [probe]", true, 0, false, func() { nf, err = s.fp.NewFile(pool.ZeroHoleSource, mid) }) {
					return 0, 0, false, false
				}
				if err == nil {
					lo = mid
					if !s.call("Close [probe]", true, 0, false, func() { nf.Close() }) {
						return 0, 0, false, false
					}
				} else {
					hi = mid - 1
				}
			}
			bytes, bytesKnown = lo, true
		}
		return files, bytes, bytesKnown, true
	}
	// no slot left: probe through an open file (growth above its current size)
	ids := s.ids()
	if len(ids) == 0 {
		return files, 0, false, true
	}
	qf := s.open[ids[0]]
	if qf.size > math.MaxInt64 {
		return files, 0, false, true
	}
	room := uint64(math.MaxInt64) - qf.size
	lo, hi := uint64(0), s.maxBytes
	capped := false
	if hi > room {
		hi, capped = room, true
	} else if hi+2 <= room {
		hi += 2
	}
	for lo < hi {
		mid := lo + (hi-lo+1)/2
		var err error
		if !s.call("Truncate [probe]", true, 0, false, func() { err = qf.f.Truncate(int64(qf.size + mid)) }) {
			return 0, 0, false, false
		}
		if err == nil {
			lo = mid
			if !s.call("Truncate back [probe]", true, 0, false, func() { err = qf.f.Truncate(int64(qf.size)) }) {
				return 0, 0, false, false
			}
			if err != nil {
				s.violation("probe: shrinking a file back failed: %v", err)
				return 0, 0, false, false
			}
		} else {
			hi = mid - 1
		}
	}
	if capped && lo == room {
		return files, 0, false, true
	}
	return files, lo, true, true
}

func (s *qSession) ids() []int {
	ids := make([]int, 0, len(s.open))
	for id := range s.open {
		ids = append(ids, id)
	}
	sort.Ints(ids)
	return ids
}

// conservation is the monitor: judged on the implementation alone, after every
// operation: filesRemaining + #open = maxFiles and bytesRemaining + Σ size = maxBytes.
func (s *qSession) conservation(after string) bool {
	files, bytes, known, ok := s.measure()
	if !ok {
		return false
	}
	if files+uint64(len(s.open)) != s.maxFiles {
		s.violation("after %s: %d more files can be created and %d are open, but the file quota is %d", after, files, len(s.open), s.maxFiles)
		return false
	}
	sum, ovf := s.total()
	if ovf {
		s.violation("after %s: open files total more than 2^64 bytes", after)
		return false
	}
	if known && (sum > s.maxBytes || bytes != s.maxBytes-sum) {
		s.violation("after %s: %d more bytes can be allocated and open files hold %d, but the byte quota is %d", after, bytes, sum, s.maxBytes)
		return false
	}
	// same numbers according to the model
	if s.drv != nil {
		exp, err := s.drv.Ask("probe")
		if err != nil {
			exp = "driver-error " + err.Error()
		}
		var mf, mb, mo, mt uint64
		if _, e := fmt.Sscanf(exp, "files=%d bytes=%d open=%d total=%d", &mf, &mb, &mo, &mt); e != nil ||
			mf != files || (known && mb != bytes) || mo != uint64(len(s.open)) || mt != sum {
			s.out.mismatch = "quota correspondence: probe after " + after
			s.out.expected = exp
			s.out.actual = fmt.Sprintf("files=%d bytes=%d(known=%v) open=%d total=%d", files, bytes, known, len(s.open), sum)
			s.drv = nil
		}
	}
	return true
}

func (s *qSession) exec(line string) {
	w := strings.Fields(line)
	if len(w) == 0 || s.out.halted() {
		return
	}
	if w[0] != "init" && s.fp == nil {
		return
	}
	u := func(i int) (uint64, bool) {
		if i >= len(w) {
			return 0, false
		}
		v, err := strconv.ParseUint(w[i], 10, 64)
		return v, err == nil
	}
	in := func(i int) (int64, bool) {
		if i >= len(w) {
			return 0, false
		}
		v, err := strconv.ParseInt(w[i], 10, 64)
		return v, err == nil
	}
	flag := func(i int) bool { return i < len(w) && w[i] == "1" }
	switch w[0] {
	case "init":
		mf, ok1 := u(1)
		mb, ok2 := u(2)
		if !ok1 || !ok2 || mf > 64 {
			return
		}
		s.base = &fakeBase{}
		s.maxFiles, s.maxBytes = mf, mb
		s.open = map[int]*qFile{}
		s.nextID = 0
		s.fp = pool.NewQuotaEnforcingFilePool(s.base, mf, mb)
		if !s.ask(line, "ok") {
			return
		}
		s.conservation(line)
	case "new":
		size, ok1 := u(1)
		if !ok1 || len(w) != 3 {
			return
		}
		s.out.steps++
		baseOK := flag(2)
		var f filesystem.FileReadWriter
		var err error
		if !s.call("NewFile", baseOK, 0, false, func() { f, err = s.fp.NewFile(pool.ZeroHoleSource, size) }) {
			return
		}
		called := s.base.calls > 0
		if called && s.base.lastArg != fmt.Sprintf("NewFile %d", size) && s.out.mismatch == "" {
			s.out.mismatch = "quota: base pool called with " + s.base.lastArg + " for " + line
			s.drv = nil
		}
		id := "-"
		if err == nil {
			if f == nil {
				s.violation("NewFile(%d) returned neither a file nor an error", size)
				return
			}
			s.open[s.nextID] = &qFile{f: f, size: size}
			id = strconv.Itoa(s.nextID)
			s.nextID++
		} else {
			s.out.flags["new-"+resOf(err)] = true
			if resOf(err) == "base" && size > 0 {
				s.out.flags["new-base-failure-with-size"] = true
			}
		}
		if !s.ask(line, fmt.Sprintf("%s base=%s id=%s", resOf(err), b01(called), id)) {
			return
		}
		s.conservation(line)
	case "trunc":
		idv, ok1 := in(1)
		size, ok2 := in(2)
		qf := s.open[int(idv)]
		if !ok1 || !ok2 || qf == nil || len(w) != 4 {
			s.out.flags["skipped"] = true
			return
		}
		s.out.steps++
		var err error
		if !s.call("Truncate", flag(3), 0, false, func() { err = qf.f.Truncate(size) }) {
			return
		}
		called := s.base.calls > 0
		if err == nil {
			if size < 0 {
				s.violation("Truncate(%d) succeeded", size)
				return
			}
			if uint64(size) < qf.size {
				s.out.flags["shrink"] = true
			}
			qf.size = uint64(size)
		} else {
			s.out.flags["trunc-"+resOf(err)] = true
		}
		if !s.ask(line, fmt.Sprintf("%s base=%s", resOf(err), b01(called))) {
			return
		}
		s.conservation(line)
	case "write":
		idv, ok1 := in(1)
		off, ok2 := in(2)
		ln, ok3 := u(3)
		nw, ok4 := u(4)
		qf := s.open[int(idv)]
		if !ok1 || !ok2 || !ok3 || !ok4 || qf == nil || len(w) != 6 || ln > 4096 || nw > ln {
			s.out.flags["skipped"] = true
			return
		}
		if off >= 0 && uint64(off)+ln > math.MaxInt64 {
			s.out.flags["skipped"] = true
			return
		}
		s.out.steps++
		var n int
		var err error
		p := make([]byte, ln)
		if !s.call("WriteAt", true, int(nw), flag(5), func() { n, err = qf.f.WriteAt(p, off) }) {
			return
		}
		called := s.base.calls > 0
		if n < 0 || uint64(n) > ln {
			s.violation("WriteAt of %d bytes returned n=%d", ln, n)
			return
		}
		if n > 0 && off >= 0 && uint64(off)+uint64(n) > qf.size {
			qf.size = uint64(off) + uint64(n)
			s.out.flags["grow-by-write"] = true
		}
		if err != nil {
			s.out.flags["write-"+resOf(err)] = true
			if resOf(err) == "base" && uint64(n) < ln {
				s.out.flags["short-write"] = true
			}
		}
		if !s.ask(line, fmt.Sprintf("%s base=%s n=%d", resOf(err), b01(called), n)) {
			return
		}
		s.conservation(line)
	case "close":
		idv, ok1 := in(1)
		qf := s.open[int(idv)]
		if !ok1 || qf == nil || len(w) != 3 {
			s.out.flags["skipped"] = true
			return
		}
		s.out.steps++
		var err error
		if !s.call("Close", true, 0, flag(2), func() { err = qf.f.Close() }) {
			return
		}
		delete(s.open, int(idv))
		if err != nil {
			s.out.flags["close-"+resOf(err)] = true
		}
		if !s.ask(line, fmt.Sprintf("%s base=%s", resOf(err), b01(s.base.calls > 0))) {
			return
		}
		s.conservation(line)
	case "drain": // close everything; then the full quota must be allocatable again
		r := hx.NewRand(func() uint64 { v, _ := u(1); return v }())
		ids := s.ids()
		shuffle(r, ids)
		for _, id := range ids {
			s.exec(fmt.Sprintf("close %d %s", id, b01(r.Chance(1, 3))))
			if s.out.halted() {
				return
			}
		}
		s.out.flags["drain"] = true
		s.fullQuota()
	}
}

// fullQuota: with nothing open, maxFiles files holding maxBytes in total can be created.
func (s *qSession) fullQuota() {
	if len(s.open) != 0 || s.maxFiles == 0 {
		return
	}
	var files []filesystem.FileReadWriter
	for i := uint64(0); i < s.maxFiles; i++ {
		size := uint64(0)
		if i == 0 {
			size = s.maxBytes
		}
		var f filesystem.FileReadWriter
		var err error
		if !s.call("NewFile", true, 0, false, func() { f, err = s.fp.NewFile(pool.ZeroHoleSource, size) }) {
			return
		}
		if err != nil {
			s.violation("after closing all files, NewFile #%d of %d with size %d (byte quota %d) failed with %v: the full quota is not available again", i+1, s.maxFiles, size, s.maxBytes, status.Code(err))
			return
		}
		files = append(files, f)
	}
	for _, f := range files {
		f := f
		if !s.call("Close", true, 0, false, func() { f.Close() }) {
			return
		}
	}
}

func runQuota(lines []string, drv *hx.Driver) *outcome {
	s := newQSession(drv)
	for _, l := range lines {
		s.exec(l)
		if s.out.halted() {
			break
		}
	}
	return s.out
}

// genQuota generates one quota history while executing it.
func genQuota(r *hx.Rand, drv *hx.Driver, thorough bool) ([]string, *outcome) {
	s := newQSession(drv)
	var hist []string
	do := func(format string, a ...any) {
		line := fmt.Sprintf(format, a...)
		hist = append(hist, line)
		s.exec(line)
	}
	maxFiles := uint64(r.Intn(6))
	if r.Chance(1, 10) {
		maxFiles = uint64(r.Intn(2))
	}
	var maxBytes uint64
	huge := r.Chance(1, 8)
	switch {
	case huge:
		maxBytes = []uint64{math.MaxUint64, math.MaxUint64 - 1, 1 << 63, 1<<63 - 1, 1<<63 + 5, 1 << 62}[r.Intn(6)]
	case r.Chance(1, 10):
		maxBytes = uint64(r.Intn(3))
	default:
		maxBytes = uint64(10 + r.Intn(200))
	}
	do("init %d %d", maxFiles, maxBytes)
	size := func() uint64 {
		if huge && r.Chance(1, 2) {
			return []uint64{1 << 62, 1<<63 - 1, 1 << 63, maxBytes, maxBytes / 2, maxBytes - 1, 1<<62 + 7}[r.Intn(7)]
		}
		switch r.Intn(6) {
		case 0:
			return 0
		case 1:
			return maxBytes
		case 2:
			return uint64(r.Intn(int(minU(maxBytes, 1000) + 3)))
		default:
			return uint64(r.Intn(int(minU(maxBytes, 1000)/2 + 2)))
		}
	}
	nops := 4 + r.Intn(25)
	if thorough {
		nops = 4 + r.Intn(60)
	}
	for i := 0; i < nops && !s.out.halted(); i++ {
		ids := s.ids()
		pickID := func() int {
			if len(ids) == 0 || r.Chance(1, 40) {
				return r.Intn(s.nextID + 2) // malformed: unknown or closed file (skipped by exec)
			}
			return ids[r.Intn(len(ids))]
		}
		switch r.Pick(30, 22, 28, 15, 3) {
		case 0:
			do("new %d %s", size(), b01(!r.Chance(1, 4)))
		case 1:
			sz := int64(minU(size(), math.MaxInt64))
			if r.Chance(1, 25) {
				sz = -1 - int64(r.Intn(5))
			}
			if len(ids) > 0 && r.Chance(1, 6) { // same size / one off
				sz = int64(minU(s.open[ids[0]].size, math.MaxInt64-1)) + int64(r.Intn(3)) - 1
			}
			do("trunc %d %d %s", pickID(), sz, b01(!r.Chance(1, 4)))
		case 2:
			id := pickID()
			var cur uint64
			if qf := s.open[id]; qf != nil {
				cur = qf.size
			}
			ln := r.Intn(40)
			var off int64
			switch r.Intn(5) {
			case 0: // inside the file
				off = int64(r.Intn(int(minU(cur, 1000) + 1)))
			case 1: // straddling / at the end
				off = int64(minU(cur, math.MaxInt64-100)) - int64(r.Intn(ln+1))
				if off < 0 {
					off = 0
				}
			case 2: // beyond the end (sparse)
				off = int64(minU(cur, math.MaxInt64-2000)) + int64(r.Intn(60))
			case 3:
				off = int64(minU(size(), math.MaxInt64-100))
			case 4:
				off = int64(r.Intn(50))
			}
			if r.Chance(1, 30) {
				off = -1 - int64(r.Intn(3))
			}
			n, e := ln, false
			switch r.Intn(4) {
			case 0: // short write with error
				n, e = r.Intn(ln+1), true
			case 1: // nothing written, error
				n, e = 0, true
			}
			do("write %d %d %d %d %s", id, off, ln, n, b01(e))
		case 3:
			do("close %d %s", pickID(), b01(r.Chance(1, 3)))
		case 4:
			do("drain %d", r.Intn(1<<30))
		}
	}
	if !s.out.halted() {
		do("drain %d", r.Intn(1<<30))
	}
	return hist, s.out
}

func minU(a, b uint64) uint64 {
	if a < b {
		return a
	}
	return b
}
