// Command outputs ties Model/Outputs.lean to pkg/builder/output_hierarchy.go
// (property C10): the real NewOutputHierarchy / CreateParentDirectories /
// UploadOutputs run on a real build directory (InMemoryPrepopulatedDirectory
// behind virtualBuildDirectory, or a temporary local directory behind
// naiveBuildDirectory) with a fake CAS; an independent monitor judges the
// ActionResult, the uploaded Trees and the directory state; the canonicalised
// results are compared with the Lean model's.
package main

import (
	"context"
	"fmt"
	"os"
	"strings"

	remoteexecution "github.com/bazelbuild/remote-apis/build/bazel/remote/execution/v2"
	"github.com/buildbarn/bb-remote-execution/pkg/builder"
	"github.com/buildbarn/bb-storage/pkg/blobstore"

	"google.golang.org/grpc/codes"
	"google.golang.org/grpc/status"

	"verifharness/internal/hx"
)

type outcome struct {
	monitor  string
	mismatch string
	expected string
	actual   string
	flags    map[string]bool
	steps    int
}

func collectIDs(n *node, ids map[string]int) {
	if n.kind == 'f' {
		ids[blobKey(fileContent(n.content))] = n.content
	}
	for _, e := range n.entries {
		collectIDs(e, ids)
	}
}

// restoreTargets undoes the normalisation Readlink applies to symlink targets
// (the monitor has already checked that they are equivalent to the originals).
func restoreTargets(real, orig *node) {
	if real == nil || orig == nil || real.kind != 'd' || orig.kind != 'd' {
		return
	}
	for k, e := range real.entries {
		o := orig.entries[k]
		if o == nil {
			continue
		}
		if e.kind == 'l' && o.kind == 'l' && targetsEquivalent(o.target, e.target) {
			e.target = o.target
		}
		restoreTargets(e, o)
	}
}

func hasReadlinkFault(n *node) bool {
	if n.kind == 'l' && n.target == readlinkFailTarget {
		return true
	}
	for _, e := range n.entries {
		if hasReadlinkFault(e) {
			return true
		}
	}
	return false
}

func prefixSet(ds []decl) map[string]bool {
	out := map[string]bool{}
	for k := range properPrefixes(ds) {
		out[k] = true
	}
	return out
}

func buildDir(backend string, t *node, cas blobstore.BlobAccess) (builder.BuildDirectory, func(), error) {
	if backend == "naive" {
		return buildNaive(t, cas)
	}
	return buildVirtual(t, cas)
}

// run executes one case on the real code (and on the model when drv != nil).
func run(c *tcase, drv *hx.Driver) (res outcome) {
	res.flags = map[string]bool{}
	phase := "NewOutputHierarchy"
	defer func() {
		if r := recover(); r != nil {
			res.monitor = fmt.Sprintf("panic in %s: %v", phase, r)
		}
	}()
	lines := c.lines()
	ask := func(line, actual, what string) bool {
		if drv == nil {
			return true
		}
		exp, err := drv.Ask(line)
		if err != nil {
			exp = "driver-error " + err.Error()
		}
		if exp != actual {
			res.mismatch = what
			res.expected, res.actual = exp, actual
			return false
		}
		return true
	}

	// ---- NewOutputHierarchy --------------------------------------------------
	format := remoteexecution.Command_TREE_ONLY
	if c.upDirs {
		format = remoteexecution.Command_TREE_AND_DIRECTORY
		if len(c.wd)%2 == 1 {
			format = remoteexecution.Command_DIRECTORY_ONLY
		}
	}
	res.steps++
	oh, err := builder.NewOutputHierarchy(&remoteexecution.Command{
		WorkingDirectory:      c.wd,
		OutputPaths:           c.paths,
		OutputDirectoryFormat: format,
	})
	ds, valid := declared(c.wd, c.paths)
	switch {
	case !valid && err == nil:
		res.monitor = "a working directory or output path that is absolute, contains NUL or escapes the input root was accepted"
		return
	case !valid && status.Code(err) != codes.InvalidArgument:
		res.monitor = fmt.Sprintf("escaping path rejected with code %v instead of INVALID_ARGUMENT", status.Code(err))
		return
	case !valid && oh != nil:
		res.monitor = "an OutputHierarchy was returned together with an error"
		return
	case valid && err != nil:
		res.monitor = fmt.Sprintf("a command whose working directory and output paths all stay inside the input root was rejected: %v", err)
		return
	}
	actual := "ok"
	if err != nil {
		actual = "err"
		res.flags["rejected"] = true
	}
	if !ask(lines[1], actual, "correspondence NewOutputHierarchy (theorem C10.normalise)") || err != nil {
		return
	}
	locs := map[string]int{}
	for _, d := range ds {
		locs[strings.Join(d.loc, "/")]++
		if len(d.loc) == 0 {
			res.flags["root-output"] = true
		}
	}
	if len(locs) < len(ds) {
		res.flags["alias-or-duplicate"] = true
	}

	// ---- CreateParentDirectories ---------------------------------------------
	phase = "CreateParentDirectories"
	res.steps++
	ids := map[string]int{}
	collectIDs(c.t0, ids)
	scratch := newFakeCAS(false)
	bd, cleanup, err := buildDir(c.backend, c.t0, scratch)
	if err != nil {
		res.mismatch = "harness could not materialise the input root: " + err.Error()
		return
	}
	mkErr := oh.CreateParentDirectories(bd)
	real, rbErr := readBack(bd, ids)
	cleanup()
	if rbErr != nil {
		res.mismatch = "harness could not read the directory back: " + rbErr.Error()
		return
	}
	if v := checkMkParents(c.t0, real, ds, mkErr); v != "" {
		res.monitor = v
		return
	}
	restoreTargets(real, c.t0)
	actual = "ok " + real.String()
	if mkErr != nil {
		actual = "err"
		res.flags["mkparents-conflict"] = true
	}
	if len(properPrefixes(ds)) > 0 {
		res.flags["parents"] = true
	}
	if !ask(lines[2], actual, "correspondence CreateParentDirectories (theorem C10.parents_created)") {
		return
	}

	// ---- UploadOutputs -----------------------------------------------------------
	phase = "UploadOutputs"
	res.steps++
	ids = map[string]int{}
	collectIDs(c.t1, ids)
	cas := newFakeCAS(c.faults)
	bd, cleanup, err = buildDir(c.backend, c.t1, cas)
	if err != nil {
		res.mismatch = "harness could not materialise the output tree: " + err.Error()
		return
	}
	defer cleanup()
	var ud builder.UploadableDirectory = bd
	if c.faults {
		ud = faultyDir{UploadableDirectory: bd, n: c.t1, conf: &faultConfig{enterFaults: c.enterFaults, parents: prefixSet(ds)}}
	}
	ar := &remoteexecution.ActionResult{}
	upErr := oh.UploadOutputs(context.Background(), ud, cas, digestFunction, nil, ar, c.force)
	obs := uploadObs{ar: ar, err: upErr}
	if v := checkUpload(ds, c.t1, obs, cas, c.faults); v != "" {
		res.monitor = v
		return
	}
	for _, d := range ar.OutputDirectories {
		if blob, ok := cas.get(d.TreeDigest); ok {
			if _, kids, ok := splitTree(blob); ok && len(kids) >= 1 {
				res.flags["nested-tree"] = true
			}
		}
	}
	if len(ar.OutputFiles) > 0 {
		res.flags["files"] = true
	}
	if len(ar.OutputSymlinks) > 0 {
		res.flags["symlinks"] = true
	}
	if len(ar.OutputDirectories) > 0 {
		res.flags["directories"] = true
	}
	if upErr != nil {
		res.flags["upload-error"] = true
	}
	if cas.rejected > 0 {
		res.flags["cas-fault-hit"] = true
	}
	ask(lines[3], canonResult(obs, cas, ids), "correspondence UploadOutputs (theorems C10.exact_listing, C10.tree_wellformed, C10.errors_do_not_lie)")
	return
}

// shrink minimises a failing case structurally: drop output paths, prune tree
// nodes, simplify the working directory - while the failure persists.
func shrink(c *tcase, fails func(*tcase) bool) *tcase {
	cur := c
	try := func(cand *tcase) bool {
		if fails(cand) {
			cur = cand
			return true
		}
		return false
	}
	copyCase := func() *tcase {
		d := *cur
		d.paths = append([]string(nil), cur.paths...)
		d.t0, d.t1 = cur.t0.clone(), cur.t1.clone()
		return &d
	}
	for round := 0; round < 4; round++ {
		progress := false
		for i := 0; i < len(cur.paths); {
			d := copyCase()
			d.paths = append(d.paths[:i], d.paths[i+1:]...)
			if try(d) {
				progress = true
			} else {
				i++
			}
		}
		for _, which := range []int{0, 1} {
			var prune func(path []string) bool
			prune = func(path []string) bool {
				root := cur.t0
				if which == 1 {
					root = cur.t1
				}
				n := root.walk(path)
				if n == nil || n.kind != 'd' {
					return false
				}
				any := false
				for _, k := range n.names() {
					d := copyCase()
					r := d.t0
					if which == 1 {
						r = d.t1
					}
					delete(r.walk(path).entries, k)
					if try(d) {
						any = true
						continue
					}
					if prune(append(append([]string(nil), path...), k)) {
						any = true
					}
				}
				return any
			}
			if prune(nil) {
				progress = true
			}
		}
		if cur.wd != "" {
			d := copyCase()
			d.wd = ""
			if try(d) {
				progress = true
			}
		}
		for _, f := range []func(*tcase){
			func(d *tcase) { d.faults = false; d.enterFaults = false; clearFaults(d.t1) },
			func(d *tcase) { d.enterFaults = false },
			func(d *tcase) { d.force = false },
			func(d *tcase) { d.upDirs = false },
			func(d *tcase) { d.t0 = newDir() },
		} {
			d := copyCase()
			f(d)
			if strings.Join(d.lines(), "\n") != strings.Join(cur.lines(), "\n") && try(d) {
				progress = true
			}
		}
		if !progress {
			break
		}
	}
	return cur
}

func main() {
	o := hx.ParseFlags()
	res := hx.NewResult("outputs", o, "one history = a Command (working directory + 0-12 output paths from a grammar with '.', '..', '//', trailing slashes, duplicates, aliases, nested and root-resolving paths, 4-8% invalid ones), an input root, and a produced tree (deep/wide/repeated identical subdirectories, symlinks, FIFOs, missing outputs, destroyed parents; 25% with faults: CAS write failures for files at any depth, Directory and Tree blobs, ReadDir / enter failures of directories at any depth, Readlink failures) run through the real NewOutputHierarchy, CreateParentDirectories and UploadOutputs on the virtual (and naive) build directory; non-trivial = accepted command with at least two declared paths resolving to the same location and at least one listed output directory whose Tree has children; distinct = hash of the op lines")
	drv, err := hx.StartDriver("outputs")
	if err != nil {
		fmt.Fprintln(os.Stderr, "cannot start model driver:", err)
		os.Exit(3)
	}
	defer drv.Close()

	report := func(c *tcase, out outcome) {
		fails := func(cand *tcase) bool {
			r := run(cand, drv)
			if out.monitor != "" {
				return r.monitor != ""
			}
			return r.mismatch != "" && r.monitor == ""
		}
		min := shrink(c, fails)
		r := run(min, drv)
		f := hx.Finding{Property: "C10", History: min.lines()}
		if r.monitor != "" {
			f.Kind, f.What, f.Name = "violation", r.monitor, "C10 monitor on the real output hierarchy (backend "+min.backend+")"
		} else {
			f.Kind, f.What, f.Name = "mismatch", r.mismatch, r.mismatch
			f.Expected, f.Actual = r.expected, r.actual
		}
		f.Sig = hx.Sig("C10", "outputs", strings.Join(min.lines(), ";"))
		res.Report(f)
	}

	if o.Replay != "" {
		f, err := hx.LoadReplay(o.Replay)
		if err != nil {
			fmt.Fprintln(os.Stderr, err)
			os.Exit(3)
		}
		c, err := parseCase(f.History)
		if err != nil {
			fmt.Fprintln(os.Stderr, err)
			os.Exit(3)
		}
		out := run(c, drv)
		res.Evaluations = out.steps
		if out.monitor != "" || out.mismatch != "" {
			report(c, out)
		}
		res.ModelLines = drv.Lines
		res.Write(o)
		return
	}

	cases := 1500 * o.Scale
	naiveEvery := 10
	if o.Tier == "thorough" {
		cases = 4000 * o.Scale
		naiveEvery = 4
	}
	g := &generator{r: hx.NewRand(o.Seed)}
	violations := 0
	for i := 0; i < cases && violations == 0 && len(res.Findings) < 3; i++ {
		c := g.gen(o.Tier)
		if i%naiveEvery == naiveEvery-1 {
			c.backend = "naive"
		}
		out := run(c, drv)
		res.Evaluations += out.steps
		res.TracesVsImpl++
		res.Count("backend-" + c.backend)
		for k := range out.flags {
			res.Count("history-with-" + k)
		}
		if c.faults {
			res.Count("history-with-fault-injection")
			if c.enterFaults {
				res.Count("history-with-enter-fault-mode")
			}
			if hasReadlinkFault(c.t1) {
				res.Count("history-with-readlink-fault")
			}
		}
		res.History(c.lines(), out.flags["alias-or-duplicate"] && out.flags["nested-tree"])
		if out.monitor != "" || out.mismatch != "" {
			// a model/implementation disagreement does not end the search: keep
			// looking for an input on which the property itself fails
			report(c, out)
			if out.monitor != "" {
				violations++
			}
		}
	}
	res.ModelLines = drv.Lines
	res.Write(o)
}
