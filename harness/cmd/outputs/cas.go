package main

import (
	"bytes"
	"context"
	"crypto/sha256"
	"encoding/hex"
	"fmt"
	"sync"

	remoteexecution "github.com/bazelbuild/remote-apis/build/bazel/remote/execution/v2"
	"github.com/buildbarn/bb-storage/pkg/blobstore"
	"github.com/buildbarn/bb-storage/pkg/blobstore/buffer"
	"github.com/buildbarn/bb-storage/pkg/blobstore/slicing"
	"github.com/buildbarn/bb-storage/pkg/digest"

	"google.golang.org/grpc/codes"
	"google.golang.org/grpc/status"
)

// fakeCAS captures every blob that is written.  It recomputes the digest of
// what it receives with crypto/sha256 (independently of bb-storage's digest
// generator) and remembers any blob stored under a wrong key.  In failing mode
// it rejects blobs that contain the marker "PUTFAIL".
type fakeCAS struct {
	lock     sync.Mutex
	blobs    map[string][]byte // "hash-size" -> data
	failing  bool
	puts     int
	rejected int
	badKeys  []string
}

var _ blobstore.BlobAccess = (*fakeCAS)(nil)

func newFakeCAS(failing bool) *fakeCAS {
	return &fakeCAS{blobs: map[string][]byte{}, failing: failing}
}

func blobKey(data []byte) string {
	h := sha256.Sum256(data)
	return fmt.Sprintf("%s-%d", hex.EncodeToString(h[:]), len(data))
}

func protoKey(d *remoteexecution.Digest) string {
	if d == nil {
		return "nil"
	}
	return fmt.Sprintf("%s-%d", d.Hash, d.SizeBytes)
}

func (c *fakeCAS) GetCapabilities(ctx context.Context, instanceName digest.InstanceName) (*remoteexecution.ServerCapabilities, error) {
	return &remoteexecution.ServerCapabilities{CacheCapabilities: &remoteexecution.CacheCapabilities{}}, nil
}

func (c *fakeCAS) Get(ctx context.Context, d digest.Digest) buffer.Buffer {
	c.lock.Lock()
	defer c.lock.Unlock()
	if data, ok := c.blobs[protoKey(d.GetProto())]; ok {
		return buffer.NewValidatedBufferFromByteSlice(data)
	}
	return buffer.NewBufferFromError(status.Error(codes.NotFound, "blob not found"))
}

func (c *fakeCAS) GetFromComposite(ctx context.Context, parentDigest, childDigest digest.Digest, slicer slicing.BlobSlicer) buffer.Buffer {
	return buffer.NewBufferFromError(status.Error(codes.Unimplemented, "not supported by the fake CAS"))
}

func (c *fakeCAS) Put(ctx context.Context, d digest.Digest, b buffer.Buffer) error {
	data, err := b.ToByteSlice(1 << 30)
	if err != nil {
		return err
	}
	c.lock.Lock()
	defer c.lock.Unlock()
	c.puts++
	if c.failing && bytes.Contains(data, []byte(putFailMarker)) {
		c.rejected++
		return status.Error(codes.Unavailable, "fake CAS rejects this blob")
	}
	key := protoKey(d.GetProto())
	if want := blobKey(data); want != key {
		c.badKeys = append(c.badKeys, fmt.Sprintf("blob with sha256 key %s was stored under %s", want, key))
	}
	c.blobs[key] = append([]byte(nil), data...)
	return nil
}

func (c *fakeCAS) FindMissing(ctx context.Context, digests digest.Set) (digest.Set, error) {
	c.lock.Lock()
	defer c.lock.Unlock()
	sb := digest.NewSetBuilder(0)
	for _, d := range digests.Items() {
		if _, ok := c.blobs[protoKey(d.GetProto())]; !ok {
			sb.Add(d)
		}
	}
	return sb.Build(), nil
}

func (c *fakeCAS) get(d *remoteexecution.Digest) ([]byte, bool) {
	c.lock.Lock()
	defer c.lock.Unlock()
	data, ok := c.blobs[protoKey(d)]
	return data, ok
}
