// Package protostore ties lean/BbRe/Model/ProtoStore.lean to
// pkg/blobstore/blob_access_mutable_proto_store.go (C07 part (c): persistence of
// size-class statistics) and decides the property on the implementation's own
// trace.
//
// The real store runs over a fake BlobAccess whose Get/Put block until the
// harness completes them (ok / error / error-after-commit; a read of an absent
// key is NotFound). Every history is executed in a testing/synctest bubble, one
// lock-held segment at a time; after every segment the observable behaviour
// (backing calls issued and their payloads, results of Get) and the abstract
// state (VerifDump hook: map, queue membership, use counts, dirtiness; contents
// of the backing store) are compared with the Lean model.
//
// History ops (g = id of a Get call, d = digest index 0..3):
//
//	getBegin g d | readDone g ok|err | putDone g d ok|err|errApplied | release g dirty|clean
//
// The return of a Get is not an op: it happens in the implementation as soon as
// the last backing call of that Get has been completed, and the harness then
// sends `getEnd g` to the model. Ops that are not enabled (for instance after
// shrinking) are skipped on both sides. Every history ends with an implicit
// finalisation: all pending calls complete ok, all handles are released clean,
// and Gets of the otherwise unused digest 3 drain the write queue.
package protostore

import (
	"context"
	"fmt"
	"os"
	"sort"
	"strconv"
	"strings"
	"sync"
	"sync/atomic"
	"testing"
	"testing/synctest"
	"time"

	re_blobstore "github.com/buildbarn/bb-remote-execution/pkg/blobstore"
	"github.com/buildbarn/bb-storage/pkg/blobstore"
	"github.com/buildbarn/bb-storage/pkg/blobstore/buffer"
	"github.com/buildbarn/bb-storage/pkg/digest"
	"github.com/buildbarn/bb-storage/pkg/proto/iscc"
	"google.golang.org/grpc/codes"
	"google.golang.org/grpc/status"
	"google.golang.org/protobuf/proto"

	"verifharness/internal/hx"
)

const (
	numDigests    = 3 // digests used by generated histories
	drainDigest   = 3 // only used by the finalisation
	maxConcurrent = 4
	maxOps        = 60
)

type handle = re_blobstore.MutableProtoHandle[*iscc.PreviousExecutionStats]

var (
	digests   [4]digest.Digest
	digestIdx = map[string]int{}
)

func init() {
	for i := range digests {
		h := strings.Repeat(fmt.Sprintf("%02x", 0xa0+i), 32)
		digests[i] = digest.MustNewDigest("", 1, h, int64(10+i))
		digestIdx[digests[i].GetHashString()] = i
	}
}

// ---- message abstraction: the set of update ids a message contains ----

func msgIDs(m *iscc.PreviousExecutionStats) []uint32 {
	ids := make([]uint32, 0, len(m.GetSizeClasses()))
	for k := range m.GetSizeClasses() {
		ids = append(ids, k)
	}
	sort.Slice(ids, func(i, j int) bool { return ids[i] < ids[j] })
	return ids
}

func maxID(ids []uint32) uint32 {
	var m uint32
	for _, i := range ids {
		if i > m {
			m = i
		}
	}
	return m
}

func contains(ids []uint32, x uint32) bool {
	for _, i := range ids {
		if i == x {
			return true
		}
	}
	return false
}

func decode(b []byte) ([]uint32, error) {
	var m iscc.PreviousExecutionStats
	if err := proto.Unmarshal(b, &m); err != nil {
		return nil, err
	}
	return msgIDs(&m), nil
}

// ---- fake backing store ----

type gidKey struct{}

type completion struct {
	err   error  // returned to the caller
	apply bool   // Put: store the data
	data  []byte // Get: data to serve (nil = NotFound)
}

type pcall struct {
	put  bool
	g, d int
	data []byte   // Put payload
	ids  []uint32 // decoded Put payload
	done chan completion
}

type fakeStore struct {
	blobstore.BlobAccess
	mu      sync.Mutex
	data    map[int][]byte
	pending []*pcall
	bad     string // a malformed request of the implementation
}

func (f *fakeStore) register(c *pcall) {
	f.mu.Lock()
	f.pending = append(f.pending, c)
	f.mu.Unlock()
}

func (f *fakeStore) Get(ctx context.Context, d digest.Digest) buffer.Buffer {
	g, _ := ctx.Value(gidKey{}).(int)
	c := &pcall{g: g, d: digestIdx[d.GetHashString()], done: make(chan completion, 1)}
	f.register(c)
	o := <-c.done
	if o.err != nil {
		return buffer.NewBufferFromError(o.err)
	}
	if o.data == nil {
		return buffer.NewBufferFromError(status.Error(codes.NotFound, "not found"))
	}
	return buffer.NewValidatedBufferFromByteSlice(append([]byte(nil), o.data...))
}

func (f *fakeStore) Put(ctx context.Context, d digest.Digest, b buffer.Buffer) error {
	g, _ := ctx.Value(gidKey{}).(int)
	data, err := b.ToByteSlice(1 << 20)
	if err != nil {
		f.mu.Lock()
		f.bad = "Put with unreadable buffer: " + err.Error()
		f.mu.Unlock()
		return err
	}
	ids, err := decode(data)
	if err != nil {
		f.mu.Lock()
		f.bad = "Put with undecodable message"
		f.mu.Unlock()
	}
	c := &pcall{put: true, g: g, d: digestIdx[d.GetHashString()], data: data, ids: ids, done: make(chan completion, 1)}
	f.register(c)
	o := <-c.done
	if o.apply {
		f.mu.Lock()
		f.data[c.d] = data
		f.mu.Unlock()
	}
	return o.err
}

func (f *fakeStore) take(pred func(*pcall) bool) *pcall {
	f.mu.Lock()
	defer f.mu.Unlock()
	best := -1
	for i, c := range f.pending {
		if pred(c) && (best < 0 || maxID(c.ids) < maxID(f.pending[best].ids)) {
			best = i
		}
	}
	if best < 0 {
		return nil
	}
	c := f.pending[best]
	f.pending = append(f.pending[:best], f.pending[best+1:]...)
	return c
}

func (f *fakeStore) snapshotPending() []*pcall {
	f.mu.Lock()
	defer f.mu.Unlock()
	return append([]*pcall(nil), f.pending...)
}

func (f *fakeStore) stored(d int) []uint32 {
	f.mu.Lock()
	defer f.mu.Unlock()
	b, ok := f.data[d]
	if !ok {
		return nil
	}
	ids, _ := decode(b)
	return ids
}

// ---- one run ----

type getResult struct {
	h     handle
	err   error
	panic string
}

type getState struct {
	d    int
	res  chan getResult
	need uint32 // update that the result must contain (0 = none)
	read bool   // the Get read the backing store (no handle in the map when it started)
}

type outcome struct {
	monitor  string // property violated on the implementation's own trace
	mismatch string // model and implementation disagree
	expected string
	actual   string
	flags    map[string]bool
	steps    int
	executed []string // ops that were enabled and executed (without finalisation)
	fatal    bool     // the store panicked while holding its lock: nothing more can be run
}

type runner struct {
	drv    *hx.Driver // nil: implementation only
	st     re_blobstore.MutableProtoStore[*iscc.PreviousExecutionStats]
	dumper interface {
		VerifDump() []re_blobstore.VerifProtoHandleState
	}
	f                  *fakeStore
	gets               map[int]*getState
	used               map[int]bool
	held               map[int]handle // Get id -> handle it returned, not yet released
	heldD              map[int]int
	ids                map[any]int
	nextUpd            uint32
	lastRel            [4]uint32
	out                *outcome
	stopCmp            bool
	lastLine, lastDump string
}

// fatalExit is called when the store panicked inside a lock-held section: the
// mutex stays locked, no further segment (and not even the end of the synctest
// bubble) can be reached, so the finding is written and the process ends.
var fatalExit = func(*outcome) {}

var progress atomic.Int64
var currentHistory atomic.Value

func (r *runner) fail(format string, a ...any) {
	if r.out.monitor == "" {
		r.out.monitor = fmt.Sprintf(format, a...)
	}
}

func (r *runner) implDump() string {
	sts := r.dumper.VerifDump()
	type hs struct {
		id, d, use    int
		dirty, queued bool
		inMap         bool
		positions     []int
	}
	var hl []hs
	for _, s := range sts {
		id, ok := r.ids[s.Handle]
		if !ok {
			id = 1000000 // a handle that no Get ever returned
		}
		hl = append(hl, hs{id: id, d: digestIdx[s.DigestHash], use: s.UseCount,
			dirty: s.WrittenVersion != s.CurrentVersion, queued: s.HandlesToWriteIndex >= 0,
			inMap: s.InMap, positions: s.QueuePositions})
		// queue indices consistent with positions (store_inv on the implementation)
		okIdx := (s.HandlesToWriteIndex < 0 && len(s.QueuePositions) == 0) ||
			(len(s.QueuePositions) == 1 && s.QueuePositions[0] == s.HandlesToWriteIndex)
		if !okIdx && r.out.mismatch == "" {
			r.out.mismatch = fmt.Sprintf("store_inv: handle %d has handlesToWriteIndex %d but occurs in the queue at %v", id, s.HandlesToWriteIndex, s.QueuePositions)
		}
	}
	sort.Slice(hl, func(i, j int) bool { return hl[i].id < hl[j].id })
	var mapS, qS, hsS, stS []string
	byDigest := append([]hs(nil), hl...)
	sort.Slice(byDigest, func(i, j int) bool { return byDigest[i].d < byDigest[j].d })
	for _, h := range byDigest {
		if h.inMap {
			mapS = append(mapS, fmt.Sprintf("%d:%d", h.d, h.id))
		}
	}
	b2s := func(b bool) string {
		if b {
			return "1"
		}
		return "0"
	}
	for _, h := range hl {
		if len(h.positions) > 0 {
			qS = append(qS, strconv.Itoa(h.id))
		}
		hsS = append(hsS, fmt.Sprintf("%d:%d:%d:%s:%s", h.id, h.d, h.use, b2s(h.dirty), b2s(h.queued)))
	}
	for d := 0; d < 4; d++ {
		if ids := r.f.stored(d); ids != nil {
			stS = append(stS, fmt.Sprintf("%d:%d", d, maxID(ids)))
		}
	}
	return fmt.Sprintf("map=%s q=%s hs=%s store=%s panic=0", strings.Join(mapS, ","), strings.Join(qS, ","), strings.Join(hsS, ","), strings.Join(stS, ","))
}

// compare sends the op to the model and compares the result part of its
// answer; the abstract state is compared by compareState at the end of the
// implementation's segment (a Get returns in the same segment as the completion
// of its last backing call, which are two steps of the model).
func (r *runner) compare(line, actual string) {
	if r.drv == nil || r.stopCmp {
		return
	}
	exp, err := r.drv.Ask(line)
	if err != nil {
		exp = "driver-error " + err.Error()
	}
	expRes, expDump, _ := strings.Cut(exp, " | ")
	r.lastLine, r.lastDump = line, expDump
	if r.out.mismatch == "" && expRes != actual {
		r.out.mismatch = "ProtoStore correspondence (result) at `" + line + "`"
		r.out.expected, r.out.actual = expRes, actual
	}
	if r.out.mismatch != "" {
		r.stopCmp = true
	}
}

func (r *runner) compareState() {
	if r.drv == nil || r.stopCmp || r.lastLine == "" {
		return
	}
	act := r.implDump()
	if r.out.mismatch == "" && act != r.lastDump {
		r.out.mismatch = "ProtoStore correspondence (abstract state) after `" + r.lastLine + "`"
		r.out.expected, r.out.actual = r.lastDump, act
	}
	if r.out.mismatch != "" {
		r.stopCmp = true
	}
}

func showPuts(cs []*pcall) string {
	type p struct{ d, m int }
	var ps []p
	for _, c := range cs {
		ps = append(ps, p{c.d, int(maxID(c.ids))})
	}
	sort.Slice(ps, func(i, j int) bool { return ps[i].d < ps[j].d || (ps[i].d == ps[j].d && ps[i].m < ps[j].m) })
	var ss []string
	for _, x := range ps {
		ss = append(ss, fmt.Sprintf("%d:%d", x.d, x.m))
	}
	return strings.Join(ss, ",")
}

// collect handles Gets that have returned since the last op.
func (r *runner) collect() {
	var gs []int
	for g := range r.gets {
		gs = append(gs, g)
	}
	sort.Ints(gs)
	for _, g := range gs {
		gs := r.gets[g]
		select {
		case res := <-gs.res:
			delete(r.gets, g)
			r.out.steps++
			if res.panic != "" {
				r.fail("panic in Get(d%d): %s", gs.d, res.panic)
				r.stopCmp = true
				r.out.fatal = true
				continue
			}
			if res.err != nil {
				r.out.flags["get-failed"] = true
				r.compare(fmt.Sprintf("getEnd %d", g), "end err")
				continue
			}
			id, ok := r.ids[any(res.h)]
			if !ok {
				id = len(r.ids)
				r.ids[any(res.h)] = id
			} else if gs.read {
				r.out.flags["adopted-handle-of-concurrent-get"] = true
			}
			r.held[g] = res.h
			r.heldD[g] = gs.d
			ids := msgIDs(res.h.GetMutableProto())
			if gs.need != 0 && !contains(ids, gs.need) {
				r.fail("Get(d%d) (call %d) returned a message with updates %v; update %d had been released dirty before that Get started and was not in the backing store at that time (a later update was dropped in favour of an earlier state)", gs.d, g, ids, gs.need)
			}
			r.compare(fmt.Sprintf("getEnd %d", g), fmt.Sprintf("end %d %d", id, maxID(ids)))
		default:
		}
	}
}

func (r *runner) pendingFor(g int, put bool, d int) bool {
	for _, c := range r.f.snapshotPending() {
		if c.g == g && c.put == put && (!put || c.d == d) {
			return true
		}
	}
	return false
}

// apply executes one op if it is enabled; reports whether it was.
func (r *runner) apply(op string) bool {
	w := strings.Fields(op)
	if len(w) < 3 {
		return false
	}
	g, err := strconv.Atoi(w[1])
	if err != nil || g < 0 {
		return false
	}
	switch w[0] {
	case "getBegin":
		d, err := strconv.Atoi(w[2])
		if err != nil || d < 0 || d > 3 || r.used[g] || len(w) != 3 {
			return false
		}
		r.used[g] = true
		gs := &getState{d: d, res: make(chan getResult, 1)}
		if l := r.lastRel[d]; l != 0 && !contains(r.f.stored(d), l) {
			gs.need = l
		}
		r.gets[g] = gs
		before := len(r.f.snapshotPending())
		ctx := context.WithValue(context.Background(), gidKey{}, g)
		go func() {
			defer func() {
				if p := recover(); p != nil {
					gs.res <- getResult{panic: fmt.Sprint(p)}
				}
			}()
			h, err := r.st.Get(ctx, digests[d])
			gs.res <- getResult{h: h, err: err}
		}()
		synctest.Wait()
		r.out.steps++
		newCalls := r.f.snapshotPending()[before:]
		read := "0"
		var puts []*pcall
		for _, c := range newCalls {
			if c.g != g {
				r.fail("backing call issued with a context that does not derive from the caller's context")
			}
			if c.put {
				puts = append(puts, c)
				for _, hg := range sortedKeys(r.held) {
					if r.heldD[hg] == c.d {
						r.fail("Get(d%d) snapshotted and wrote the message of d%d while a client holds its handle (call %d) and may be mutating it", d, c.d, hg)
					}
				}
				for _, p := range r.f.snapshotPending()[:before] {
					if p.put && p.d == c.d {
						r.out.flags["two-puts-one-digest"] = true
					}
				}
			} else {
				read = "1"
				gs.read = true
				if c.d != d {
					r.fail("Get(d%d) read digest d%d from the backing store", d, c.d)
				}
			}
		}
		if len(puts) == 3 {
			r.out.flags["dequeue3"] = true
		}
		if read == "0" {
			for _, c := range r.f.snapshotPending() {
				if c.put && c.d == d {
					r.out.flags["get-during-write"] = true
				}
			}
		}
		r.compare(op, fmt.Sprintf("begin read=%s puts=%s", read, showPuts(puts)))
	case "readDone":
		if len(w) != 3 || (w[2] != "ok" && w[2] != "err") {
			return false
		}
		c := r.f.take(func(c *pcall) bool { return c.g == g && !c.put })
		if c == nil {
			return false
		}
		actual := "read err"
		if w[2] == "ok" {
			r.f.mu.Lock()
			data, ok := r.f.data[c.d]
			r.f.mu.Unlock()
			var ids []uint32
			if ok {
				ids, _ = decode(data)
				if data == nil {
					data = []byte{}
				}
			}
			c.done <- completion{data: data}
			actual = fmt.Sprintf("read %d", maxID(ids))
		} else {
			r.out.flags["read-err"] = true
			c.done <- completion{err: status.Error(codes.Unavailable, "injected read failure")}
		}
		synctest.Wait()
		r.out.steps++
		r.compare(op, actual)
	case "putDone":
		if len(w) != 4 {
			return false
		}
		d, err := strconv.Atoi(w[2])
		if err != nil || (w[3] != "ok" && w[3] != "err" && w[3] != "errApplied") {
			return false
		}
		c := r.f.take(func(c *pcall) bool { return c.g == g && c.put && c.d == d })
		if c == nil {
			return false
		}
		var cm completion
		if w[3] != "err" {
			cm.apply = true
			old := r.f.stored(d)
			if maxID(c.ids) < maxID(old) {
				r.fail("a Put for d%d stored a message with updates %v over one with updates %v: a later update was overwritten by an earlier one", d, c.ids, old)
			}
		}
		if w[3] != "ok" {
			r.out.flags["put-"+w[3]] = true
			cm.err = status.Error(codes.Unavailable, "injected write failure")
		} else {
			r.out.flags["put-ok"] = true
		}
		for _, hg := range sortedKeys(r.held) {
			if r.heldD[hg] == d {
				r.out.flags["write-completes-while-held"] = true
			}
		}
		c.done <- cm
		synctest.Wait()
		r.out.steps++
		r.compare(op, "put")
	case "release":
		if len(w) != 3 || (w[2] != "dirty" && w[2] != "clean") {
			return false
		}
		h, ok := r.held[g]
		if !ok {
			return false
		}
		d := r.heldD[g]
		delete(r.held, g)
		delete(r.heldD, g)
		for _, c := range r.f.snapshotPending() {
			if c.put && c.d == d {
				r.out.flags["release-during-write-"+w[2]] = true
			}
		}
		actual := "rel 0"
		func() {
			defer func() {
				if p := recover(); p != nil {
					r.fail("panic in Release: %v", p)
					r.stopCmp = true
					r.out.fatal = true
				}
			}()
			if w[2] == "dirty" {
				r.nextUpd++
				m := h.GetMutableProto()
				if m.SizeClasses == nil {
					m.SizeClasses = map[uint32]*iscc.PerSizeClassStats{}
				}
				m.SizeClasses[r.nextUpd] = &iscc.PerSizeClassStats{}
				r.lastRel[d] = r.nextUpd
				actual = fmt.Sprintf("rel %d", r.nextUpd)
				r.out.flags["dirty"] = true
				h.Release(true)
			} else {
				h.Release(false)
			}
		}()
		synctest.Wait()
		r.out.steps++
		r.compare(op, actual)
	default:
		return false
	}
	if r.f.bad != "" {
		r.fail("%s", r.f.bad)
	}
	r.collect()
	r.compareState()
	progress.Add(1)
	return true
}

func sortedKeys(m map[int]handle) []int {
	ks := make([]int, 0, len(m))
	for k := range m {
		ks = append(ks, k)
	}
	sort.Ints(ks)
	return ks
}

// finalize brings the store to quiescence and drains the write queue, then
// judges the final contents of the backing store.
func (r *runner) finalize() {
	for i := 0; i < 200; i++ {
		cs := r.f.snapshotPending()
		if len(cs) == 0 {
			break
		}
		c := cs[0]
		if c.put {
			r.apply(fmt.Sprintf("putDone %d %d ok", c.g, c.d))
		} else {
			r.apply(fmt.Sprintf("readDone %d ok", c.g))
		}
	}
	if len(r.gets) != 0 && r.out.monitor == "" {
		r.fail("%d call(s) of Get did not return although all their backing calls had completed", len(r.gets))
		return
	}
	for _, g := range sortedKeys(r.held) {
		r.apply(fmt.Sprintf("release %d clean", g))
	}
	g := 1000
	for i := 0; i < 40; i++ {
		g++
		r.apply(fmt.Sprintf("getBegin %d %d", g, drainDigest))
		puts := 0
		for j := 0; j < 10; j++ {
			cs := r.f.snapshotPending()
			if len(cs) == 0 {
				break
			}
			c := cs[0]
			if c.put {
				puts++
				r.apply(fmt.Sprintf("putDone %d %d ok", c.g, c.d))
			} else {
				r.apply(fmt.Sprintf("readDone %d ok", c.g))
			}
		}
		if _, ok := r.held[g]; !ok {
			if r.out.monitor == "" {
				r.fail("draining Get(d3) with successful backing calls did not return a handle")
			}
			return
		}
		r.apply(fmt.Sprintf("release %d clean", g))
		if puts == 0 {
			break
		}
		if i == 39 {
			r.fail("write queue not drained after 40 Gets with successful Puts")
		}
	}
	for d := 0; d < numDigests; d++ {
		if l := r.lastRel[d]; l != 0 {
			if st := r.f.stored(d); !contains(st, l) {
				r.fail("after all handles were released and the write queue was drained with successful Puts, the backing store holds updates %v for d%d; the last update released dirty was %d (statistics never written / dropped)", st, d, l)
			}
		}
	}
}

// cleanup makes every goroutine of the bubble terminate.
func (r *runner) cleanup() {
	for i := 0; i < 1000; i++ {
		cs := r.f.snapshotPending()
		if len(cs) == 0 {
			break
		}
		c := r.f.take(func(x *pcall) bool { return x == cs[0] })
		if c != nil {
			c.done <- completion{err: status.Error(codes.Canceled, "end of history")}
		}
		synctest.Wait()
	}
}

// runHistory executes ops on the real store (and on the model when drv != nil).
// gen, when not nil, is asked for the next op instead of ops.
func runHistory(t *testing.T, ops []string, drv *hx.Driver, gen func(r *runner, n int) string) (out outcome) {
	out.flags = map[string]bool{}
	currentHistory.Store(ops)
	synctest.Test(t, func(t *testing.T) {
		f := &fakeStore{data: map[int][]byte{}}
		st := re_blobstore.NewBlobAccessMutableProtoStore[iscc.PreviousExecutionStats](f, 1<<20)
		r := &runner{drv: drv, st: st, f: f, gets: map[int]*getState{}, used: map[int]bool{},
			held: map[int]handle{}, heldD: map[int]int{}, ids: map[any]int{}, out: &out}
		d, ok := st.(interface {
			VerifDump() []re_blobstore.VerifProtoHandleState
		})
		if !ok {
			out.mismatch = "the store returned by NewBlobAccessMutableProtoStore has no VerifDump hook"
			return
		}
		r.dumper = d
		if drv != nil {
			if a, err := drv.Ask("reset 0 1"); err != nil || a != "ok" {
				out.mismatch = fmt.Sprintf("driver reset: %q %v", a, err)
				return
			}
		}
		defer r.cleanup()
		if gen != nil {
			for n := 0; n < maxOps && out.monitor == ""; n++ {
				op := gen(r, n)
				if op == "" {
					break
				}
				if r.apply(op) {
					out.executed = append(out.executed, op)
					currentHistory.Store(out.executed)
				}
				if out.fatal {
					fatalExit(&out)
				}
			}
		} else {
			for _, op := range ops {
				if out.monitor != "" {
					break
				}
				if r.apply(op) {
					out.executed = append(out.executed, op)
				}
				if out.fatal {
					fatalExit(&out)
				}
			}
		}
		if out.monitor == "" {
			r.finalize()
		}
	})
	return
}

// ---- generator ----

type genParams struct {
	putErr, readErr int // percent
	hot             bool
	dirty           int // percent of releases that are dirty
	releaseBias     int
}

func makeGen(rnd *hx.Rand) func(r *runner, n int) string {
	p := genParams{putErr: []int{0, 10, 35}[rnd.Intn(3)], readErr: []int{0, 5, 25}[rnd.Intn(3)],
		hot: rnd.Chance(1, 2), dirty: []int{50, 75, 100}[rnd.Intn(3)], releaseBias: 1 + rnd.Intn(3)}
	nextG := 0
	length := 15 + rnd.Intn(maxOps-14)
	return func(r *runner, n int) string {
		if n >= length {
			return ""
		}
		type cand struct {
			w  int
			op func() string
		}
		var cs []cand
		pend := r.f.snapshotPending()
		if len(r.gets) < maxConcurrent && len(r.gets)+len(r.held) < 7 {
			cs = append(cs, cand{3, func() string {
				d := rnd.Intn(numDigests)
				if p.hot && rnd.Chance(2, 3) {
					d = 0
				}
				g := nextG
				nextG++
				return fmt.Sprintf("getBegin %d %d", g, d)
			}})
		}
		for _, c := range pend {
			c := c
			if c.put {
				cs = append(cs, cand{2, func() string {
					o := "ok"
					if x := rnd.Intn(100); x < p.putErr {
						o = "err"
						if rnd.Chance(1, 3) {
							o = "errApplied"
						}
					}
					return fmt.Sprintf("putDone %d %d %s", c.g, c.d, o)
				}})
			} else {
				cs = append(cs, cand{2, func() string {
					o := "ok"
					if rnd.Intn(100) < p.readErr {
						o = "err"
					}
					return fmt.Sprintf("readDone %d %s", c.g, o)
				}})
			}
		}
		for _, g := range sortedKeys(r.held) {
			g := g
			cs = append(cs, cand{p.releaseBias, func() string {
				o := "clean"
				if rnd.Intn(100) < p.dirty {
					o = "dirty"
				}
				return fmt.Sprintf("release %d %s", g, o)
			}})
		}
		if len(cs) == 0 {
			return ""
		}
		ws := make([]int, len(cs))
		for i, c := range cs {
			ws[i] = c.w
		}
		return cs[rnd.Pick(ws...)].op()
	}
}

// Histories that are always run first: the witnesses of the two defects that
// were found in this code (dirty / clean Release while the handle is being
// written), and the stale-read race that is allowed.
var regressionHistories = [][]string{
	// no_lost_update_counterexample_legacy
	{"getBegin 0 0", "readDone 0 ok", "release 0 dirty", "getBegin 1 1", "getBegin 2 0", "release 2 dirty", "putDone 1 0 ok", "readDone 1 ok", "release 1 clean", "getBegin 3 0", "readDone 3 ok", "putDone 3 0 ok"},
	// no_lost_update_counterexample_unguarded
	{"getBegin 0 0", "readDone 0 ok", "release 0 dirty", "getBegin 1 1", "getBegin 2 0", "release 2 clean", "putDone 1 0 ok", "readDone 1 ok", "getBegin 3 0", "getBegin 4 0", "readDone 4 ok", "putDone 3 0 ok", "readDone 3 ok", "release 4 dirty", "getBegin 5 0", "release 3 dirty", "release 5 clean"},
	// dirty release during the write, second write, completions in both orders
	{"getBegin 0 0", "readDone 0 ok", "release 0 dirty", "getBegin 1 1", "getBegin 2 0", "release 2 dirty", "getBegin 3 2", "putDone 1 0 err", "getBegin 4 2", "putDone 4 0 ok", "readDone 1 ok"},
}

const rule = "segment histories (getBegin/readDone/putDone/release, <=60 ops, <=3 digests, <=4 concurrent Gets, Put outcomes ok|err|errApplied and read outcomes ok|err injected at every backing call, per-history fault rates 0/10/35 % and 0/5/25 %) generated from the enabled set of the running implementation inside a synctest bubble, plus 3 fixed witness histories; every history ends with release-all + drain; non-trivial = the history has a dirty release, a completed Put, and a Get or Release of a digest while a Put of that digest is in flight; distinct = hash of the executed op list"

func nontrivial(o *outcome) bool {
	return o.flags["dirty"] && (o.flags["put-ok"] || o.flags["put-err"] || o.flags["put-errApplied"]) &&
		(o.flags["get-during-write"] || o.flags["release-during-write-dirty"] || o.flags["release-during-write-clean"])
}

func TestHarness(t *testing.T) {
	o := hx.ParseFlags()
	res := hx.NewResult("protostore", o, rule)
	drv, err := hx.StartDriver("protostore")
	if err != nil {
		fmt.Fprintln(os.Stderr, "cannot start model driver:", err)
		os.Exit(3)
	}
	defer drv.Close()

	// watchdog: a mutation can make the real code block on its mutex for ever,
	// which synctest cannot see; report the history instead of hanging.
	stop := make(chan struct{})
	defer close(stop)
	go func() {
		last, lastChange := progress.Load(), time.Now()
		for {
			select {
			case <-stop:
				return
			case <-time.After(2 * time.Second):
			}
			if p := progress.Load(); p != last {
				last, lastChange = p, time.Now()
			} else if time.Since(lastChange) > hx.StallLimit(60*time.Second) {
				ops, _ := currentHistory.Load().([]string)
				res.Report(hx.Finding{Kind: "violation", Property: "C07", History: ops,
					Name: "C07 monitor: every segment of the store terminates",
					What: "the implementation did not reach the end of a segment within the load-scaled stall limit (at least 240 s of real time) (blocked outside any channel wait, e.g. on its mutex)",
					Sig:  hx.Sig("C07", "protostore", "hang")})
				res.ModelLines = drv.Lines
				res.Write(o)
				os.Exit(0)
			}
		}
	}()

	// handled outside the synctest bubble (real clock, no bubbled goroutines)
	fatalCh := make(chan *outcome)
	go func() {
		out := <-fatalCh
		res.Report(hx.Finding{Kind: "violation", Property: "C07", History: out.executed,
			Name: "C07 monitor: the store never panics (store_inv: queue indices consistent)",
			What: out.monitor, Sig: hx.Sig("C07", "protostore", "panic", strings.Join(out.executed, ";"))})
		res.ModelLines = drv.Lines
		res.Write(o)
		os.Exit(0)
	}()
	fatalExit = func(out *outcome) {
		fatalCh <- out
		select {}
	}

	account := func(out *outcome) {
		res.Evaluations += out.steps
		res.TracesVsImpl++
		for k := range out.flags {
			res.Count(k)
		}
		res.History(out.executed, nontrivial(out))
	}

	report := func(ops []string, out outcome) {
		wantMonitor := out.monitor != ""
		fails := func(cand []string) bool {
			r := runHistory(t, cand, drv, nil)
			if wantMonitor {
				return r.monitor != ""
			}
			return r.monitor == "" && r.mismatch != ""
		}
		min := hx.Shrink(ops, fails)
		r := runHistory(t, min, drv, nil)
		f := hx.Finding{Property: "C07", History: min}
		if r.monitor != "" {
			f.Kind, f.What = "violation", r.monitor
			f.Name = "C07 monitor on the real store: statistics released dirty reach the backing store, no later update is overwritten or dropped in favour of an earlier one (no_lost_update, drain_writes_latest)"
			if r.mismatch != "" {
				f.Expected, f.Actual = r.expected, r.actual
			}
		} else {
			f.Kind, f.What = "mismatch", r.mismatch
			f.Name = "correspondence Model/ProtoStore.lean <-> blob_access_mutable_proto_store.go (theorems store_inv, no_lost_update, drain_writes_latest)"
			f.Expected, f.Actual = r.expected, r.actual
		}
		f.Sig = hx.Sig("C07", "protostore", strings.Join(min, ";"))
		res.Report(f)
	}

	if o.Replay != "" {
		f, err := hx.LoadReplay(o.Replay)
		if err != nil {
			fmt.Fprintln(os.Stderr, err)
			os.Exit(3)
		}
		out := runHistory(t, f.History, drv, nil)
		account(&out)
		if out.monitor != "" || out.mismatch != "" {
			report(f.History, out)
		}
		res.ModelLines = drv.Lines
		res.Write(o)
		return
	}

	// At most 2 mismatches and 3 violations are minimised and reported; after a
	// mismatch the search goes on (without the model, which has lost track on
	// that history) so that a failing input for the property itself is found.
	mismatches, violations := 0, 0
	handle := func(ops []string, out outcome) {
		switch {
		case out.monitor != "" && violations < 3:
			violations++
			report(ops, out)
		case out.monitor == "" && out.mismatch != "":
			res.Count("mismatching-history")
			if mismatches < 2 {
				mismatches++
				report(ops, out)
			}
		}
	}
	for _, h := range regressionHistories {
		out := runHistory(t, h, drv, nil)
		account(&out)
		res.Count("fixed-witness")
		handle(h, out)
	}

	n := 1500
	if o.Tier == "thorough" {
		n = 12000
	}
	n *= o.Scale
	rnd := hx.NewRand(o.Seed)
	for i := 0; i < n && violations < 3; i++ {
		out := runHistory(t, nil, drv, makeGen(rnd))
		account(&out)
		handle(out.executed, out)
	}
	res.ModelLines = drv.Lines
	res.Write(o)
}
