package protostore

import (
	"context"
	"sync"
	"testing"
	"testing/synctest"

	re_blobstore "github.com/buildbarn/bb-remote-execution/pkg/blobstore"
	"github.com/buildbarn/bb-storage/pkg/blobstore"
	"github.com/buildbarn/bb-storage/pkg/blobstore/buffer"
	"github.com/buildbarn/bb-storage/pkg/digest"
	"github.com/buildbarn/bb-storage/pkg/proto/iscc"
	"google.golang.org/grpc/codes"
	"google.golang.org/grpc/status"
	"google.golang.org/protobuf/proto"
)

type gateStore struct {
	blobstore.BlobAccess
	mu    sync.Mutex
	data  map[string][]byte
	gates map[string]chan struct{}
	rgates map[string]chan struct{}
	log   []string
}

func (g *gateStore) Get(ctx context.Context, d digest.Digest) buffer.Buffer {
	k := d.GetHashString()
	g.mu.Lock(); gate := g.rgates[k]; g.log = append(g.log, "get-start "+k[:2]); g.mu.Unlock()
	if gate != nil { <-gate }
	g.mu.Lock(); defer g.mu.Unlock()
	g.log = append(g.log, "get-done "+k[:2])
	if b, ok := g.data[k]; ok {
		return buffer.NewValidatedBufferFromByteSlice(append([]byte(nil), b...))
	}
	return buffer.NewBufferFromError(status.Error(codes.NotFound, "nf"))
}
func (g *gateStore) Put(ctx context.Context, d digest.Digest, b buffer.Buffer) error {
	k := d.GetHashString()
	data, err := b.ToByteSlice(1 << 20)
	if err != nil { return err }
	g.mu.Lock(); gate := g.gates[k]; g.log = append(g.log, "put-start "+k[:2]); g.mu.Unlock()
	if gate != nil { <-gate }
	g.mu.Lock(); g.data[k] = data; g.log = append(g.log, "put-done "+k[:2]); g.mu.Unlock()
	return nil
}

type H = re_blobstore.MutableProtoHandle[*iscc.PreviousExecutionStats]

func upd(h H, id uint32) {
	m := h.GetMutableProto()
	if m.SizeClasses == nil { m.SizeClasses = map[uint32]*iscc.PerSizeClassStats{} }
	m.SizeClasses[id] = &iscc.PerSizeClassStats{}
}
func ids(m *iscc.PreviousExecutionStats) []uint32 {
	var out []uint32
	for i := uint32(0); i < 10; i++ { if _, ok := m.SizeClasses[i]; ok { out = append(out, i) } }
	return out
}

func TestSpikeCleanRelease(t *testing.T) {
	synctest.Test(t, func(t *testing.T) {
		g := &gateStore{data: map[string][]byte{}, gates: map[string]chan struct{}{}, rgates: map[string]chan struct{}{}}
		st := re_blobstore.NewBlobAccessMutableProtoStore[iscc.PreviousExecutionStats](g, 1<<20)
		d := digest.MustNewDigest("", 1, "aa000000000000000000000000000000000000000000000000000000000000aa", 10)
		e := digest.MustNewDigest("", 1, "bb000000000000000000000000000000000000000000000000000000000000bb", 10)
		ctx := context.Background()

		h, _ := st.Get(ctx, d)
		upd(h, 1)
		h.Release(true) // queued

		gate := make(chan struct{}); g.gates[d.GetHashString()] = gate
		done := make(chan struct{})
		go func() { h2, _ := st.Get(ctx, e); h2.Release(false); close(done) }() // G1 dequeues d, Put blocks
		synctest.Wait()

		hb, _ := st.Get(ctx, d) // G2 same handle, write in flight
		t.Log("same handle:", hb == h)
		hb.Release(false) // CLEAN release -> re-queued while write in flight

		close(gate); <-done // write completes: handle deleted from map while queued
		delete(g.gates, d.GetHashString())

		// G3: Get(d) dequeues orphan h, Put blocked.
		gate3 := make(chan struct{}); g.gates[d.GetHashString()] = gate3
		r3 := make(chan H, 1)
		go func() { hc, _ := st.Get(ctx, d); r3 <- hc }()
		synctest.Wait()
		// G4: Get(d), no handle in map, reads, inserts h4
		h4, _ := st.Get(ctx, d)
		t.Log("h4 is h:", h4 == h, "h4 msg:", ids(h4.GetMutableProto()))
		close(gate3); delete(g.gates, d.GetHashString())
		h3 := <-r3
		t.Log("h3 == h4:", h3 == h4, "h3 msg:", ids(h3.GetMutableProto()))
		upd(h4, 2); h4.Release(true)
		h5, _ := st.Get(ctx, d) // started after update 2 was released
		t.Log("Get after release of update 2 returns msg:", ids(h5.GetMutableProto()), "same as h3:", h5 == h3)
		h5.Release(false)
		upd(h3, 3); h3.Release(true)
		for i := 0; i < 4; i++ { hx, _ := st.Get(ctx, e); hx.Release(false) }
		var stored iscc.PreviousExecutionStats
		proto.Unmarshal(g.data[d.GetHashString()], &stored)
		t.Log("after draining, store has:", ids(&stored))
		t.Log(g.log)
	})
}
