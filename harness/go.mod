module verifharness

go 1.26.6

require (
	cloud.google.com/go/longrunning v1.0.0
	github.com/bazelbuild/remote-apis v0.0.0-20260331222004-becdd8f9ff81
	github.com/buildbarn/bb-remote-execution v0.0.0
	github.com/buildbarn/bb-storage v0.0.0-20260805174928-33530b6bb903
	github.com/buildbarn/go-xdr v0.0.0-20240702182809-236788cf9e89
	github.com/google/uuid v1.6.0
	github.com/hanwen/go-fuse/v2 v2.10.1
	golang.org/x/sync v0.20.0
	golang.org/x/sys v0.45.0
	google.golang.org/genproto/googleapis/rpc v0.0.0-20260526163538-3dc84a4a5aaa
	google.golang.org/grpc v1.81.1
	google.golang.org/protobuf v1.36.12-0.20260120151049-f2248ac996af
)

require (
	cel.dev/expr v0.25.2 // indirect
	cloud.google.com/go v0.123.0 // indirect
	cloud.google.com/go/auth v0.20.0 // indirect
	cloud.google.com/go/auth/oauth2adapt v0.2.8 // indirect
	cloud.google.com/go/compute/metadata v0.9.0 // indirect
	cloud.google.com/go/iam v1.11.0 // indirect
	cloud.google.com/go/monitoring v1.29.0 // indirect
	cloud.google.com/go/storage v1.62.2 // indirect
	github.com/GoogleCloudPlatform/opentelemetry-operations-go/detectors/gcp v1.32.0 // indirect
	github.com/GoogleCloudPlatform/opentelemetry-operations-go/exporter/metric v0.56.0 // indirect
	github.com/GoogleCloudPlatform/opentelemetry-operations-go/internal/resourcemapping v0.56.0 // indirect
	github.com/aws/aws-sdk-go-v2 v1.41.7 // indirect
	github.com/aws/aws-sdk-go-v2/aws/protocol/eventstream v1.7.10 // indirect
	github.com/aws/aws-sdk-go-v2/config v1.32.18 // indirect
	github.com/aws/aws-sdk-go-v2/credentials v1.19.17 // indirect
	github.com/aws/aws-sdk-go-v2/feature/ec2/imds v1.18.23 // indirect
	github.com/aws/aws-sdk-go-v2/internal/configsources v1.4.23 // indirect
	github.com/aws/aws-sdk-go-v2/internal/endpoints/v2 v2.7.23 // indirect
	github.com/aws/aws-sdk-go-v2/internal/v4a v1.4.24 // indirect
	github.com/aws/aws-sdk-go-v2/service/internal/accept-encoding v1.13.9 // indirect
	github.com/aws/aws-sdk-go-v2/service/internal/checksum v1.9.15 // indirect
	github.com/aws/aws-sdk-go-v2/service/internal/presigned-url v1.13.23 // indirect
	github.com/aws/aws-sdk-go-v2/service/internal/s3shared v1.19.23 // indirect
	github.com/aws/aws-sdk-go-v2/service/s3 v1.101.0 // indirect
	github.com/aws/aws-sdk-go-v2/service/signin v1.0.11 // indirect
	github.com/aws/aws-sdk-go-v2/service/sso v1.30.17 // indirect
	github.com/aws/aws-sdk-go-v2/service/ssooidc v1.36.0 // indirect
	github.com/aws/aws-sdk-go-v2/service/sts v1.42.1 // indirect
	github.com/aws/smithy-go v1.25.1 // indirect
	github.com/beorn7/perks v1.0.1 // indirect
	github.com/buildbarn/go-sha256tree v0.0.0-20250310211320-0f70f20e855b // indirect
	github.com/cespare/xxhash/v2 v2.3.0 // indirect
	github.com/cncf/xds/go v0.0.0-20260202195803-dba9d589def2 // indirect
	github.com/envoyproxy/go-control-plane/envoy v1.37.0 // indirect
	github.com/envoyproxy/protoc-gen-validate v1.3.3 // indirect
	github.com/felixge/httpsnoop v1.0.4 // indirect
	github.com/go-jose/go-jose/v3 v3.0.5 // indirect
	github.com/go-jose/go-jose/v4 v4.1.4 // indirect
	github.com/go-logr/logr v1.4.3 // indirect
	github.com/go-logr/stdr v1.2.2 // indirect
	github.com/golang/protobuf v1.5.4 // indirect
	github.com/google/go-jsonnet v0.22.0 // indirect
	github.com/google/s2a-go v0.1.9 // indirect
	github.com/googleapis/enterprise-certificate-proxy v0.3.16 // indirect
	github.com/googleapis/gax-go/v2 v2.22.0 // indirect
	github.com/grpc-ecosystem/go-grpc-middleware v1.4.0 // indirect
	github.com/grpc-ecosystem/go-grpc-prometheus v1.2.0 // indirect
	github.com/grpc-ecosystem/grpc-gateway/v2 v2.29.0 // indirect
	github.com/jhump/protoreflect/v2 v2.0.0-beta.2 // indirect
	github.com/jmespath/go-jmespath v0.4.0 // indirect
	github.com/kballard/go-shellquote v0.0.0-20180428030007-95032a82bc51 // indirect
	github.com/klauspost/compress v1.18.6 // indirect
	github.com/klauspost/cpuid/v2 v2.3.0 // indirect
	github.com/munnerz/goautoneg v0.0.0-20191010083416-a7dc8b61c822 // indirect
	github.com/prometheus/client_golang v1.23.2 // indirect
	github.com/prometheus/client_model v0.6.2 // indirect
	github.com/prometheus/common v0.67.5 // indirect
	github.com/prometheus/procfs v0.20.1 // indirect
	github.com/spiffe/go-spiffe/v2 v2.6.0 // indirect
	github.com/zeebo/blake3 v0.2.4 // indirect
	go.opentelemetry.io/auto/sdk v1.2.1 // indirect
	go.opentelemetry.io/contrib/detectors/gcp v1.43.0 // indirect
	go.opentelemetry.io/contrib/instrumentation/google.golang.org/grpc/otelgrpc v0.68.0 // indirect
	go.opentelemetry.io/contrib/instrumentation/net/http/otelhttp v0.68.0 // indirect
	go.opentelemetry.io/otel v1.43.0 // indirect
	go.opentelemetry.io/otel/exporters/otlp/otlptrace v1.43.0 // indirect
	go.opentelemetry.io/otel/metric v1.43.0 // indirect
	go.opentelemetry.io/otel/sdk v1.43.0 // indirect
	go.opentelemetry.io/otel/sdk/metric v1.43.0 // indirect
	go.opentelemetry.io/otel/trace v1.43.0 // indirect
	go.opentelemetry.io/proto/otlp v1.10.0 // indirect
	go.yaml.in/yaml/v2 v2.4.4 // indirect
	golang.org/x/crypto v0.52.0 // indirect
	golang.org/x/net v0.55.0 // indirect
	golang.org/x/oauth2 v0.36.0 // indirect
	golang.org/x/text v0.37.0 // indirect
	golang.org/x/time v0.15.0 // indirect
	google.golang.org/api v0.281.0 // indirect
	google.golang.org/genproto v0.0.0-20260526163538-3dc84a4a5aaa // indirect
	google.golang.org/genproto/googleapis/api v0.0.0-20260526163538-3dc84a4a5aaa // indirect
	google.golang.org/grpc/security/advancedtls v1.0.0 // indirect
	sigs.k8s.io/yaml v1.6.0 // indirect
)

replace github.com/buildbarn/bb-remote-execution => /repo

replace go.uber.org/mock => go.uber.org/mock v0.4.0

replace cel.dev/expr => cel.dev/expr v0.25.1
