/-
Model of the worker's result pipeline (property C09).

Go code mirrored (bb-remote-execution):
* `pkg/blobstore/batched_store_blob_access.go`
    - `batchedStoreBlobAccess`            -> `Store` (pending map, flushError, plus the
                                             underlying CAS and two ghost fields)
    - `flushLocked`                       -> `flushLocked` (+ `issuePuts`, the errgroup)
    - `Put`                               -> `put`
    - the flusher closure returned by
      `NewBatchedStoreBlobAccess`         -> `flusher`
* `pkg/builder/build_executor.go`
    - `attachErrorToExecuteResponse`      -> `attachError` (`status.ErrorProto` -> `Status.err`)
    - `executeResponseIsSuccessful`       -> `isSuccessful`
* `pkg/builder/storage_flushing_build_executor.go`
    - `Execute` (part after base.Execute) -> `flushingPost`
* `pkg/builder/caching_build_executor.go`
    - `Execute` (part after base.Execute) -> `cachingPost`
* `cmd/bb_worker/main.go`: `NewCachingBuildExecutor(... NewStorageFlushingBuildExecutor(inner, flusher) ...)`
                                          -> `execute` (inner, then flushingPost, then cachingPost)

Digests, buffers and gRPC status codes are natural numbers (digests are injective
tokens; SHA-256 and protobuf are not modelled).  `Option Code`: `none` = OK/nil.

Environment answers are *oracles* (inputs of the step functions), so that "for
every position at which FindMissing / Put / the flush / the AC Put can fail or
be cancelled" is a universally quantified variable of the theorems:
* `FlushOracle.fm`   : result of the `FindMissing` call of one `flushLocked`;
* `FlushOracle.puts` : what the scheduling goroutine of the errgroup of that
  `flushLocked` did, in order: `.put d r` = it obtained an upload slot and the
  underlying `Put` of `d` was issued with result `r`; `.acquireFailed c` =
  `util.AcquireSemaphore(groupCtx, putSemaphore, 1)` failed with code `c`
  because the context was cancelled — by the caller (possibly while waiting for
  a slot that another worker thread holds: the semaphore is shared) or by an
  earlier failing Put.  It behaves like a failed Put: the error is recorded and
  nothing further is issued; the remaining buffers are discarded.  A missing
  blob that is neither issued nor preceded by `.acquireFailed` is treated the
  same way (Canceled), so the function is total.  (Whether a Put following a
  failed Put is still issued is a genuine race in the Go code; the theorems
  hold for every choice.)
* `FlushOracle.winner` : which of the errors of one errgroup `group.Wait()`
  reports.  errgroup keeps the error of the goroutine that reaches its
  `sync.Once` first, which need not be the Put that failed first; the model
  accepts any error that occurred in the group (`chooseErr`).
* `ExecOracle.ac`, `.hist` : result of the Action Cache Put and of the Put of
  the historical execute response.
`FindMissing` itself is truthful: a blob is reported missing iff it is not in
the CAS (trusted, DESIGN.md C09 "not covered"); the CAS never loses blobs.
-/
namespace BbRe.Pipeline

abbrev Digest := Nat
abbrev Buf := Nat
abbrev Code := Nat

/-- `codes.Canceled`. -/
def canceled : Code := 1
/-- `codes.InvalidArgument`. -/
def invalidArgument : Code := 3

/-- "first error wins": `a` unless it is nil. -/
def firstErr (a b : Option Code) : Option Code :=
  match a with
  | some c => some c
  | none => b

/-- `batchedStoreBlobAccess` together with the CAS underneath it.
`consumed` (ghost): every buffer that has been handed to the underlying `Put`
or `Discard()`ed, one entry per consumption.  `errorsRecorded` (ghost): number
of times `flushLocked` assigned `flushError`. -/
structure Store where
  batchSize : Nat
  pending : List (Digest × Buf)
  flushError : Option Code
  cas : List Digest
  consumed : List Buf
  errorsRecorded : Nat
deriving Repr, DecidableEq

def Store.init (batchSize : Nat) (cas : List Digest) : Store :=
  { batchSize := batchSize, pending := [], flushError := none, cas := cas, consumed := [], errorsRecorded := 0 }

/-- One step of the scheduling goroutine of `flushLocked`'s errgroup. -/
inductive IssueEv where
  | put (d : Digest) (r : Option Code)
  | acquireFailed (c : Code)
deriving Repr, DecidableEq

structure FlushOracle where
  fm : Option Code
  puts : List IssueEv
  winner : Option Code := none
deriving Repr, DecidableEq

/-- The oracle of a flush in which nothing fails and nothing needs uploading. -/
def FlushOracle.ok : FlushOracle := ⟨none, [], none⟩

/-- `group.Wait()`: nil if no goroutine failed, otherwise one of the errors
(the oracle's choice if it is one of them, else the first). -/
def chooseErr (errs : List Code) (winner : Option Code) : Option Code :=
  match errs with
  | [] => none
  | e :: _ =>
    match winner with
    | some c => if c ∈ errs then some c else some e
    | none => some e

/-- `pendingPutOperations[key]` lookup followed by `delete(pendingPutOperations, key)`. -/
def takeOp (d : Digest) : List (Digest × Buf) → Option (Buf × List (Digest × Buf))
  | [] => none
  | p :: ps =>
    if p.1 = d then some (p.2, ps)
    else match takeOp d ps with
      | none => none
      | some (b, rest) => some (b, p :: rest)

/-- State of the errgroup inside `flushLocked`. -/
structure Group where
  pend : List (Digest × Buf)
  cas : List Digest
  consumed : List Buf
  errs : List Code
deriving Repr, DecidableEq

/-- One iteration of the upload loop of `flushLocked` for an issued Put `e`
of a blob that FindMissing reported missing (`e.1 ∉ cas0`) and that is still
pending: delete it from the map, hand its buffer to the underlying Put, record
its error. -/
def issueOne (cas0 : List Digest) (g : Group) (e : Digest × Option Code) : Group :=
  if e.1 ∈ cas0 then g
  else match takeOp e.1 g.pend with
    | none => g
    | some (b, pend') =>
      match e.2 with
      | none => { pend := pend', cas := e.1 :: g.cas, consumed := b :: g.consumed, errs := g.errs }
      | some c => { pend := pend', cas := g.cas, consumed := b :: g.consumed, errs := g.errs ++ [c] }

/-- The upload loop (errgroup) of `flushLocked`.  A failed semaphore
acquisition ends the loop with that error (`return err` in the scheduling
goroutine). -/
def issuePuts (cas0 : List Digest) (g : Group) : List IssueEv → Group
  | [] => g
  | .put d r :: rest => issuePuts cas0 (issueOne cas0 g (d, r)) rest
  | .acquireFailed c :: _ => { g with errs := g.errs ++ [c] }

/-- `flushLocked`. -/
def flushLocked (s : Store) (o : FlushOracle) : Store :=
  match o.fm with
  | some c =>
    -- FindMissing failed: flushError := wrap(err); deferred loop discards everything
    { s with pending := [], consumed := s.pending.map (·.2) ++ s.consumed,
             flushError := some c, errorsRecorded := s.errorsRecorded + 1 }
  | none =>
    let g := issuePuts s.cas ⟨s.pending, s.cas, s.consumed, []⟩ o.puts
    -- a missing blob that was never issued: AcquireSemaphore failed
    let errs := if g.pend.any (fun p => decide (p.1 ∉ s.cas)) then g.errs ++ [canceled] else g.errs
    match chooseErr errs o.winner with
    | some c =>
      { s with pending := [], cas := g.cas, consumed := g.pend.map (·.2) ++ g.consumed,
               flushError := some c, errorsRecorded := s.errorsRecorded + 1 }
    | none =>
      { s with pending := [], cas := g.cas, consumed := g.pend.map (·.2) ++ g.consumed }

/-- "Flush the existing blobs if there are too many pending" (in `Put`). -/
def maybeFlush (s : Store) (o : FlushOracle) : Store :=
  if s.pending.length ≥ s.batchSize then flushLocked s o else s

/-- `(*batchedStoreBlobAccess).Put`. -/
def put (s : Store) (d : Digest) (b : Buf) (o : FlushOracle) : Store × Option Code :=
  if s.pending.any (fun p => p.1 == d) then
    -- discard duplicate writes
    ({ s with consumed := b :: s.consumed }, none)
  else
    let s1 := maybeFlush s o
    match s1.flushError with
    | some c => ({ s1 with consumed := b :: s1.consumed }, some c)
    | none => ({ s1 with pending := s1.pending ++ [(d, b)] }, none)

/-- The flusher closure returned by `NewBatchedStoreBlobAccess`. -/
def flusher (s : Store) (o : FlushOracle) : Store × Option Code :=
  let s1 := flushLocked s o
  ({ s1 with flushError := none }, s1.flushError)

/-- One `Put` of the inner executor through the batched store; `oracle` is used
only if this Put triggers a flush. -/
structure PutCall where
  digest : Digest
  buf : Buf
  oracle : FlushOracle
deriving Repr, DecidableEq

/-- The Puts of the inner executor, with the log (digest, returned error). -/
def runPuts (s : Store) : List PutCall → Store × List (Digest × Option Code)
  | [] => (s, [])
  | c :: cs =>
    let r := put s c.digest c.buf c.oracle
    let rs := runPuts r.1 cs
    (rs.1, (c.digest, r.2) :: rs.2)

/-- Arbitrary histories on one batched store: Puts and flusher calls in any
order.  The second component is the ghost list of digests whose `Put` returned
nil since the last flusher call; the third the buffers handed in so far. -/
inductive StoreOp where
  | put (c : PutCall)
  | flush (o : FlushOracle)
deriving Repr, DecidableEq

structure Hist where
  store : Store
  acked : List Digest
  handed : List Buf
deriving Repr, DecidableEq

def stepOp (h : Hist) : StoreOp → Hist
  | .put c =>
    let r := put h.store c.digest c.buf c.oracle
    ⟨r.1, if r.2 = none then c.digest :: h.acked else h.acked, c.buf :: h.handed⟩
  | .flush o => ⟨(flusher h.store o).1, [], h.handed⟩

def runOps (h : Hist) (ops : List StoreOp) : Hist := ops.foldl stepOp h

/-- `ExecuteResponse.Status` as a representation: the field may be unset, an
explicit `google.rpc.Status{code: OK}` (with or without a message string), or
an error with a code.  The first three all mean "no error". -/
inductive Status where
  | unset
  | ok (withMessage : Bool)
  | error (c : Code)
deriving Repr, DecidableEq

/-- `status.ErrorProto(s)`: nil for an unset status *and* for an explicit OK. -/
def Status.err : Status → Option Code
  | .error c => some c
  | _ => none

/-- The parts of `ExecuteResponse` the property talks about.  `dirs` holds
tree and root-directory digests of all output directories (flattened);
`message`: 0 none, 1 "cached result", 2 "uncached result". -/
structure Response where
  status : Status
  exitCode : Nat
  files : List Digest
  dirs : List Digest
  stdout : Option Digest
  stderr : Option Digest
  logs : List Digest
  message : Nat
deriving Repr, DecidableEq

/-- All digests referenced by `response.Result`. -/
def Response.refs (r : Response) : List Digest :=
  r.files ++ r.dirs ++ r.stdout.toList ++ r.stderr.toList

/-- `attachErrorToExecuteResponse`. -/
def attachError (r : Response) (c : Code) : Response :=
  match r.status.err with
  | none => { r with status := .error c }
  | some _ => r

/-- `executeResponseIsSuccessful`. -/
def isSuccessful (r : Response) : Bool :=
  r.status.err.isNone && r.exitCode == 0

/-- `storageFlushingBuildExecutor.Execute` after the base executor returned
`resp`: flush, attach, prune.  Returns the store, the response and the flush error. -/
def flushingPost (s : Store) (resp : Response) (o : FlushOracle) : Store × Response × Option Code :=
  let f := flusher s o
  match f.2 with
  | some c =>
    let r1 := attachError resp c
    (f.1, { r1 with files := [], dirs := [], stdout := none, stderr := none, logs := [] }, some c)
  | none => (f.1, resp, none)

structure Request where
  digestValid : Bool
  actionPresent : Bool
  doNotCache : Bool
  action : Nat
deriving Repr, DecidableEq

/-- What is stored in the Action Cache: key and the `ActionResult`. -/
structure ACEntry where
  action : Nat
  exitCode : Nat
  files : List Digest
  dirs : List Digest
  stdout : Option Digest
  stderr : Option Digest
deriving Repr, DecidableEq

def ACEntry.refs (e : ACEntry) : List Digest :=
  e.files ++ e.dirs ++ e.stdout.toList ++ e.stderr.toList

def entryOf (req : Request) (r : Response) : ACEntry :=
  ⟨req.action, r.exitCode, r.files, r.dirs, r.stdout, r.stderr⟩

/-- Worker-side storage: the batched store with the CAS, the Action Cache
(successful writes, newest first) and the historical execute responses. -/
structure World where
  store : Store
  ac : List ACEntry
  acCalls : Nat
  hist : Nat
  histCalls : Nat
deriving Repr, DecidableEq

def World.init (batchSize : Nat) (cas : List Digest) : World :=
  ⟨Store.init batchSize cas, [], 0, 0, 0⟩

/-- `cachingBuildExecutor.Execute` after the base executor returned `resp`. -/
def cachingPost (w : World) (req : Request) (resp : Response) (acO histO : Option Code) : World × Response :=
  if !req.digestValid then (w, attachError resp invalidArgument)
  else if !req.actionPresent then (w, attachError resp invalidArgument)
  else if !req.doNotCache && isSuccessful resp then
    match acO with
    | none => ({ w with ac := entryOf req resp :: w.ac, acCalls := w.acCalls + 1 }, { resp with message := 1 })
    | some c => ({ w with acCalls := w.acCalls + 1 }, attachError resp c)
  else
    match histO with
    | none => ({ w with hist := w.hist + 1, histCalls := w.histCalls + 1 }, { resp with message := 2 })
    | some c => ({ w with histCalls := w.histCalls + 1 }, attachError resp c)

/-- The inner executor is abstract: it performs Puts through the batched store
and returns an arbitrary response. -/
structure Inner where
  puts : List PutCall
  resp : Response
deriving Repr, DecidableEq

structure ExecOracle where
  flush : FlushOracle
  ac : Option Code
  hist : Option Code
deriving Repr, DecidableEq

structure ExecResult where
  world : World
  putLog : List (Digest × Option Code)
  flushErr : Option Code
  flushed : Response
  final : Response
deriving Repr, DecidableEq

/-- One execution through caching(flushing(inner)). -/
def execute (w : World) (req : Request) (i : Inner) (o : ExecOracle) : ExecResult :=
  let p := runPuts w.store i.puts
  let f := flushingPost p.1 i.resp o.flush
  let c := cachingPost { w with store := f.1 } req f.2.1 o.ac o.hist
  { world := c.1, putLog := p.2, flushErr := f.2.2, flushed := f.2.1, final := c.2 }

end BbRe.Pipeline
