import BbRe.Model.Idle
/-
Model of the build-directory decorator stack of a worker (C12, `distinct_dirs`):

  NewSharedBuildDirectoryCreator(                     pkg/builder/shared_build_directory_creator.go
    NewCleanBuildDirectoryCreator(                    pkg/builder/clean_build_directory_creator.go
      NewRootBuildDirectoryCreator(buildDirectory),   pkg/builder/root_build_directory_creator.go
      idleInvoker),
    &nextParallelActionID)

as stacked per worker thread in `cmd/bb_worker/main.go`; all threads share the
root build directory, the `IdleInvoker` and the counter.

No lock is held by these decorators: every operation on the shared root
directory (`Mkdir`, `EnterBuildDirectory`, `Remove`, `RemoveAll`) and the
`atomic.Uint64.Add` are individually atomic and may interleave arbitrarily
between threads.  One model step is one such operation:

* `begin t d`        — `cleanBuildDirectoryCreator.GetBuildDirectory`: the
  `IdleInvoker.Acquire` succeeded (see `Model/Idle.lean`) and the root creator
  returned the root; `d` = `some name` for a digest-named action
  (`GetHashString()[:16]`), `none` for an action that may run in parallel.
* `name t`           — name selection (`nextParallelActionID.Add(1)` formatted
  in decimal, or the digest prefix).
* `mkdir t fault`    — `parentDirectory.Mkdir(name, 0o777)`: exclusive create.
* `enter t fault`    — `parentDirectory.EnterBuildDirectory(name)`; on success the
  directory is handed out.
* `rmdir t fault`    — `parentDirectory.Remove(name)` after a failed enter.
* `write t f`        — the action creates something in its directory.
* `closeChild t e1`  — `sharedBuildDirectory.Close`: `d.BuildDirectory.Close()`.
* `removeAll t fault`— `d.parentDirectory.RemoveAll(d.childDirectoryName)`.
* `release t`       — `parentDirectory.Close()` = `cleanBuildDirectory.Close`:
  root `Close` (no-op), then `IdleInvoker.Release` is entered (the thread stops
  being a user; `Model/Idle.lean` step `releaseEnter`).
* `finish t relErr`  — `Release` returned (error `relErr`, possibly after a
  cleaner call) and the call (`GetBuildDirectory` or `Close`) returns.
* `clean ok`         — the build-directory cleaner (`cleaner.NewDirectoryCleaner`
  in bb_worker: remove all children of the root) ran to completion.  It is
  enabled only when no thread is between `begin` and `release` (`active = 0`);
  that this is the only time it runs is theorem `C12.exclusion` about
  `Model/Idle.lean`.

The root is an association list child name ↦ contents (opaque file ids).
Core Lean only (linked into `drv_idle`).
-/
namespace BbRe.BuildDirs

abbrev Name := String
abbrev Root := List (Name × List Nat)

def hasName : Root → Name → Bool
  | [], _ => false
  | e :: rest, n => if e.1 = n then true else hasName rest n
def lookup : Root → Name → Option (List Nat)
  | [], _ => none
  | e :: rest, n => if e.1 = n then some e.2 else lookup rest n
/-- `RemoveAll` / `Remove` of a child: every entry with that name goes. -/
def eraseName : Root → Name → Root
  | [], _ => []
  | e :: rest, n => if e.1 = n then eraseName rest n else e :: eraseName rest n
def addFile : Root → Name → Nat → Root
  | [], _, _ => []
  | e :: rest, n, f => if e.1 = n then (e.1, f :: e.2) :: addFile rest n f else e :: addFile rest n f

/-- Result codes of `GetBuildDirectory` / `Close` (never message strings). -/
inductive Res
  | ok
  | internal    -- codes.Internal set by sharedBuildDirectoryCreator (mkdir/enter/removeAll failure)
  | childErr    -- the error of the child directory's Close, passed through
  | cleanErr    -- the error of IdleInvoker.Release (cleaner failure), passed through
deriving DecidableEq, Repr, Inhabited

inductive DPC
  | idle
  | acquired (d : Option Name)
  | named (n : Name)
  | made (n : Name)
  | enterFailed (n : Name)
  | holding (n : Name)
  | closing (n : Name) (e1 : Bool)
  /-- about to call `parentDirectory.Close()`; `get` = inside GetBuildDirectory
  (result fixed: the error), otherwise inside Close with pending result `r`. -/
  | finishing (get : Bool) (r : Res)
  /-- inside `IdleInvoker.Release` (no longer a user), about to return. -/
  | releasing (get : Bool) (r : Res)
deriving DecidableEq, Repr, Inhabited

/-- The thread is a user of the invoker: between `begin` (Acquire succeeded) and
`release` (Release entered). -/
def DPC.user : DPC → Bool
  | .idle => false
  | .releasing _ _ => false
  | _ => true

/-- The thread has created `n` in the root and not yet removed it / given up. -/
def DPC.owns : DPC → Name → Prop
  | .made m, n => m = n
  | .enterFailed m, n => m = n
  | .holding m, n => m = n
  | .closing m _, n => m = n
  | _, _ => False

structure State where
  root   : Root
  next   : Nat          -- nextParallelActionID
  active : Nat          -- threads between `begin` and `release` (= IdleInvoker users)
  pc     : Nat → DPC
  issued : List Name    -- ghost: counter names issued so far, newest first

def init : State := { root := [], next := 0, active := 0, pc := fun _ => .idle, issued := [] }

def State.setPc (s : State) (t : Nat) (v : DPC) : State :=
  { s with pc := fun x => if x = t then v else s.pc x }

inductive Op
  | begin (t : Nat) (d : Option Name)
  | name (t : Nat)
  | mkdir (t : Nat) (fault : Bool)
  | enter (t : Nat) (fault : Bool)
  | rmdir (t : Nat) (fault : Bool)
  | write (t : Nat) (f : Nat)
  | closeChild (t : Nat) (e1 : Bool)
  | removeAll (t : Nat) (fault : Bool)
  | release (t : Nat)
  | finish (t : Nat) (relErr : Bool)
  | clean (ok : Bool)
deriving DecidableEq, Repr

def step (s : State) : Op → Option State
  | .begin t d =>
    match s.pc t with
    | .idle => some { (s.setPc t (.acquired d)) with active := s.active + 1 }
    | _ => none
  | .name t =>
    match s.pc t with
    | .acquired none =>
      let n := Nat.repr (s.next + 1)
      some { (s.setPc t (.named n)) with next := s.next + 1, issued := n :: s.issued }
    | .acquired (some h) => some (s.setPc t (.named h))
    | _ => none
  | .mkdir t fault =>
    match s.pc t with
    | .named n =>
      if fault || hasName s.root n then some (s.setPc t (.finishing true .internal))
      else some { (s.setPc t (.made n)) with root := (n, []) :: s.root }
    | _ => none
  | .enter t fault =>
    match s.pc t with
    | .made n =>
      if fault || !hasName s.root n then some (s.setPc t (.enterFailed n))
      else some (s.setPc t (.holding n))
    | _ => none
  | .rmdir t fault =>
    match s.pc t with
    | .enterFailed n =>
      -- Remove() only removes an empty directory; its error is only logged
      if !fault && lookup s.root n == some [] then
        some { (s.setPc t (.finishing true .internal)) with root := eraseName s.root n }
      else some (s.setPc t (.finishing true .internal))
    | _ => none
  | .write t f =>
    match s.pc t with
    | .holding n => some { s with root := addFile s.root n f }
    | _ => none
  | .closeChild t e1 =>
    match s.pc t with
    | .holding n => some (s.setPc t (.closing n e1))
    | _ => none
  | .removeAll t fault =>
    match s.pc t with
    | .closing n e1 =>
      if fault then some (s.setPc t (.finishing false (if e1 then .childErr else .internal)))
      else some { (s.setPc t (.finishing false (if e1 then .childErr else .ok))) with
                  root := eraseName s.root n }
    | _ => none
  | .release t =>
    match s.pc t with
    | .finishing g r => some { (s.setPc t (.releasing g r)) with active := s.active - 1 }
    | _ => none
  | .finish t _ =>
    match s.pc t with
    | .releasing _ _ => some (s.setPc t .idle)
    | _ => none
  | .clean ok =>
    if s.active = 0 then (if ok then some { s with root := [] } else some s) else none

/-- What `GetBuildDirectory` / `Close` returns when `finish` runs. -/
def finishResult (get : Bool) (r : Res) (relErr : Bool) : Res :=
  if get then r
  else match r with
    | .ok => if relErr then .cleanErr else .ok
    | r => r

inductive Reachable : State → Prop
  | init : Reachable init
  | step {s s' : State} (op : Op) : Reachable s → step s op = some s' → Reachable s'

end BbRe.BuildDirs

/-!
## The worker: invoker and build directories together

`Worker.Step` couples the two transition systems by the program order of
`cleanBuildDirectoryCreator.GetBuildDirectory` / `cleanBuildDirectory.Close`:
a directory thread performs `begin` only while it is a user of the invoker
(its `Acquire` returned nil), its `Release` segment is the `release` step, and
it never calls `Release` otherwise.  Other threads (runner calls, other
cleaners' users) use the invoker freely.  The build-directory cleaner's effect
(remove all children of the root) is applied when the cleaner call completes,
*unconditionally* — theorem `C12.cleaner_excludes_directory_users` shows that
this is always an enabled `BuildDirs.clean` step, i.e. that nobody is between
`begin` and `release` then.
-/
namespace BbRe.Worker
open BbRe

structure State where
  idle : Idle.State
  dirs : BuildDirs.State

def init : State := ⟨Idle.init, BuildDirs.init⟩

/-- directory operations that involve neither the invoker nor the cleaner -/
def plainDirOp : BuildDirs.Op → Bool
  | .name _ => true
  | .mkdir _ _ => true
  | .enter _ _ => true
  | .rmdir _ _ => true
  | .write _ _ => true
  | .closeChild _ _ => true
  | .removeAll _ _ => true
  | .finish _ _ => true
  | _ => false

inductive Step : State → State → Prop
  /-- a segment of the invoker, except the `Release` of a directory user and the
  completion of a cleaner call -/
  | idle (s : State) (op : Idle.Op) (i' : Idle.State) :
      Idle.step s.idle op = some i' →
      (∀ t, op = .releaseEnter t → BuildDirs.DPC.user (s.dirs.pc t) = false) →
      (∀ t ok, op ≠ .cleanDone t ok) →
      Step s ⟨i', s.dirs⟩
  /-- `GetBuildDirectory` got past `Acquire` -/
  | begin (s : State) (t : Nat) (d : Option BuildDirs.Name) (d' : BuildDirs.State) :
      s.idle.pc t = .inUse → BuildDirs.step s.dirs (.begin t d) = some d' → Step s ⟨s.idle, d'⟩
  | dir (s : State) (op : BuildDirs.Op) (d' : BuildDirs.State) :
      plainDirOp op = true → BuildDirs.step s.dirs op = some d' → Step s ⟨s.idle, d'⟩
  /-- `parentDirectory.Close()`: the `Release` segment of a directory thread -/
  | release (s : State) (t : Nat) (i' : Idle.State) (d' : BuildDirs.State) :
      Idle.step s.idle (.releaseEnter t) = some i' → BuildDirs.step s.dirs (.release t) = some d' →
      Step s ⟨i', d'⟩
  /-- a cleaner call completes; if it succeeded the root is empty now -/
  | cleanDone (s : State) (t : Nat) (ok : Bool) (i' : Idle.State) :
      Idle.step s.idle (.cleanDone t ok) = some i' →
      Step s ⟨i', if ok then { s.dirs with root := [] } else s.dirs⟩

inductive Reachable : State → Prop
  | init : Reachable init
  | step {s s' : State} : Reachable s → Step s s' → Reachable s'

end BbRe.Worker
