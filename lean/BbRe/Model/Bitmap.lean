/-!
# Model of `pkg/filesystem/pool/bitmap_sector_allocator.go`

Word-level transcription: the state is the Go struct
`bitmapSectorAllocator{freeBitmap []uint64, nextSector uint32}` as
`{bm : Array (BitVec 64), next : Nat}` (one bits = free sectors, the bitmap has
`sectorCount/64+1` words so that it always ends in permanently used bits).

| Go                                   | here                      |
|--------------------------------------|---------------------------|
| `bits.TrailingZeros64`               | `tz`                      |
| `NewBitmapSectorAllocator`           | `new`                     |
| `AllocateContiguous` (3 scans)       | `alloc` (`findNz`)        |
| `allocateAt` (+ its `for` loop)      | `allocateAt` (`fullWords`)|
| `freeWithMask`                       | `freeWithMask`            |
| `FreeContiguous` (+ its `for` loop)  | `freeContiguous` (`freeFull`) |
| `FreeList`                           | `freeList`                |

Go panics (double free, index out of range, `firstSector == 0`) are `none`.
`uint32`/`int` arithmetic is modelled in `Nat`: the theorems show every index
stays `≤ sectorCount`, so nothing wraps as long as `sectorCount + 64 < 2^32`
(`sectorCount` is a `uint32`; stated as an assumption).  The mutex is held for
the whole of every method, so each call is one atomic step.

`Inv`/`abs` at the end of the file are the representation invariant and the abstraction to
`Spec/AllocSpec.lean` used by `Properties/C15Alloc.lean` (`bitmap_meets_spec`: this very
word-level model refines the spec for every device size; there is no intermediate layer).

Core Lean only.
-/
namespace BbRe.Bitmap

abbrev Word := BitVec 64

/-- `allBits = ^uint64(0)` -/
def allBits : Word := BitVec.allOnes 64

/-- `bits.TrailingZeros64` restricted to positions `≥ i`, with `fuel` positions left. -/
def tzGo (w : Word) (i : Nat) : Nat → Nat
  | 0 => i
  | fuel + 1 => if w.getLsbD i then i else tzGo w (i + 1) fuel

/-- `bits.TrailingZeros64(w)`: index of the lowest one bit, 64 when `w = 0`. -/
def tz (w : Word) : Nat := tzGo w 0 64

structure State where
  bm : Array Word
  next : Nat
deriving Repr, Inhabited

/-- `sa.freeBitmap[i]` (reads outside the slice are never performed by the code
on states satisfying the invariant; the model reads them as 0). -/
def getW (bm : Array Word) (i : Nat) : Word := bm.getD i 0

/-- `sa.freeBitmap[i] = v` -/
def setW (bm : Array Word) (i : Nat) (v : Word) : Array Word := bm.setIfInBounds i v

/-- `NewBitmapSectorAllocator(sectorCount)` -/
def new (n : Nat) : State :=
  { bm := (Array.replicate (n / 64) allBits).push (~~~(allBits <<< (n % 64))), next := 0 }

/-- The `for maximum >= 64 && sa.freeBitmap[index] == allBits` loop of `allocateAt`.
Returns the bitmap, `index`, `maximum`, `allocated`. -/
def fullWords (bm : Array Word) (index maximum allocated : Nat) : Array Word × Nat × Nat × Nat :=
  if 64 ≤ maximum ∧ getW bm index = allBits then
    fullWords (setW bm index 0) (index + 1) (maximum - 64) (allocated + 64)
  else (bm, index, maximum, allocated)
termination_by maximum
decreasing_by omega

/-- `allocateAt(index, mask, maximum)`: new state, returned first sector (1-based), count. -/
def allocateAt (st : State) (index : Nat) (mask : Word) (maximum : Nat) : State × Nat × Nat :=
  let initialShift := tz mask
  let firstSector := index * 64 + initialShift
  let allocated := min (tz (~~~(mask >>> initialShift))) maximum
  let bm := setW st.bm index (getW st.bm index &&& ~~~(~~~(allBits <<< allocated) <<< initialShift))
  if initialShift + allocated = 64 then
    let r := fullWords bm (index + 1) (maximum - allocated) allocated
    let bm := r.1
    let index := r.2.1
    let maximum := r.2.2.1
    let allocated := r.2.2.2
    let available := min (tz (~~~(getW bm index))) maximum
    let bm := setW bm index (getW bm index &&& (allBits <<< available))
    let allocated := allocated + available
    ({ bm := bm, next := firstSector + allocated }, firstSector + 1, allocated)
  else
    ({ bm := bm, next := firstSector + allocated }, firstSector + 1, allocated)

/-- First index `j ∈ [i, i+fuel)` with `freeBitmap[j] != 0`. -/
def findNz (bm : Array Word) (i : Nat) : Nat → Option Nat
  | 0 => none
  | fuel + 1 => if getW bm i ≠ 0 then some i else findNz bm (i + 1) fuel

/-- `AllocateContiguous(maximum)`; `none` = `codes.ResourceExhausted`. -/
def alloc (st : State) (maximum : Nat) : State × Option (Nat × Nat) :=
  let split := st.next / 64
  let m := getW st.bm split &&& (allBits <<< (st.next % 64))
  if m ≠ 0 then
    let r := allocateAt st split m maximum
    (r.1, some r.2)
  else
    match findNz st.bm (split + 1) (st.bm.size - (split + 1)) with
    | some i =>
      let r := allocateAt st i (getW st.bm i) maximum
      (r.1, some r.2)
    | none =>
      match findNz st.bm 0 (split + 1) with
      | some i =>
        let r := allocateAt st i (getW st.bm i) maximum
        (r.1, some r.2)
      | none => (st, none)

/-- `freeWithMask(index, mask)`; `none` = panic (double free or index out of range). -/
def freeWithMask (bm : Array Word) (index : Nat) (mask : Word) : Option (Array Word) :=
  if index < bm.size then
    if getW bm index &&& mask ≠ 0 then none
    else some (setW bm index (getW bm index ||| mask))
  else none

/-- The `for count >= 64` loop of `FreeContiguous`. Returns bitmap, index, count. -/
def freeFull (bm : Array Word) (index count : Nat) : Option (Array Word × Nat × Nat) :=
  if 64 ≤ count then
    if index < bm.size ∧ getW bm index = 0 then
      freeFull (setW bm index allBits) (index + 1) (count - 64)
    else none
  else some (bm, index, count)
termination_by count
decreasing_by omega

/-- `FreeContiguous(firstSector, count)` -/
def freeContiguous (st : State) (firstSector count : Nat) : Option State :=
  if firstSector = 0 then none   -- uint32 wrap-around, index out of range
  else
    let fs := firstSector - 1
    let mask : Word := if count < 64 then ~~~(allBits <<< count) else allBits
    let off := fs % 64
    let index := fs / 64
    match freeWithMask st.bm index (mask <<< off) with
    | none => none
    | some bm =>
      if count > 64 - off then
        match freeFull bm (index + 1) (count - (64 - off)) with
        | none => none
        | some r =>
          match freeWithMask r.1 r.2.1 (~~~(allBits <<< r.2.2)) with
          | none => none
          | some bm => some { st with bm := bm }
      else some { st with bm := bm }

/-- Loop body of `FreeList`. -/
def freeOne (bm : Array Word) (sector : Nat) : Option (Array Word) :=
  if sector = 0 then some bm
  else
    let s := sector - 1
    let i := s / 64
    let b := s % 64
    if i < bm.size then
      if getW bm i &&& ((1 : Word) <<< b) ≠ 0 then none
      else some (setW bm i (getW bm i ||| ((1 : Word) <<< b)))
    else none

def freeListBm (bm : Array Word) : List Nat → Option (Array Word)
  | [] => some bm
  | s :: rest =>
    match freeOne bm s with
    | none => none
    | some bm => freeListBm bm rest

/-- `FreeList(sectors)` -/
def freeList (st : State) (sectors : List Nat) : Option State :=
  (freeListBm st.bm sectors).map (fun bm => { st with bm := bm })

/-! ### Observation used by the driver and by the abstraction -/

/-- Bit `i` (0-based sector index) of the bitmap: `true` = free. -/
def bit (bm : Array Word) (i : Nat) : Bool := (getW bm (i / 64)).getLsbD (i % 64)

/-- 1-based sector numbers that are free, below `n`. -/
def freeSectors (st : State) (n : Nat) : List Nat :=
  ((List.range n).filter (fun i => bit st.bm i)).map (· + 1)

/-- Representation invariant for a device of `n` sectors: the slice has `n/64+1` words,
every bit from `n` upwards is permanently "in use", and the cursor is within the device
(so `nextSector/64` indexes the slice). -/
structure Inv (n : Nat) (st : State) : Prop where
  size : st.bm.size = n / 64 + 1
  tail : ∀ i, n ≤ i → bit st.bm i = false
  next : st.next ≤ n

/-- Abstraction to `AllocSpec.Abs`: sector `s` (numbered from 1) is allocated. -/
def abs (n : Nat) (st : State) : Nat → Bool :=
  fun s => decide (1 ≤ s) && decide (s ≤ n) && !bit st.bm (s - 1)

end BbRe.Bitmap
