/-
Model of `pkg/scheduler/in_memory_build_queue.go` (InMemoryBuildQueue) at the
granularity of *lock-held segments* (DESIGN.md §2.3, §4.2).

What is modelled exactly as the code does it: platform/size-class queue
registry with longest-prefix routing, tasks, operations (one per invocation of
a task), the in-flight deduplication map, workers (current task, terminating,
parked, inside Synchronize), drains, the cleanup queue (deadline + callback
kind), `task.complete` with its three-way learner protocol, retry on the
largest size class, background learning tasks, `operation.remove`,
`removeStaleWorker`, `sizeClassQueue.remove`, `KillOperations`, `AddDrain`,
`RemoveDrain`, `TerminateWorkers`, and the wake-up discipline of
`stageChangeWakeup` (a generation counter per task: incremented exactly where
the code closes the channel).

What is abstracted: the *choice* among queued tasks (`assignNextQueuedTask`)
and among parked workers (`task.schedule`) is an oracle (`hints`): the model
accepts any queued task of the worker's size-class queue / any parked worker of
the task's size-class queue and *verifies* the implementation's observed choice
against that set.  That the choice is the fair one is `Model/Fair.lean` (C04).
Invocations are identified by their key path; the invocation tree bookkeeping
(heaps, idle worker counts) is not part of this model.
-/
namespace BbRe.Sched

/-! ## small association-list helpers -/

def alookup {α} (k : Nat) : List (Nat × α) → Option α
  | [] => none
  | (k', v) :: r => if k' = k then some v else alookup k r

def aset {α} (k : Nat) (v : α) : List (Nat × α) → List (Nat × α)
  | [] => [(k, v)]
  | (k', v') :: r => if k' = k then (k, v) :: r else (k', v') :: aset k v r

def aerase {α} (k : Nat) : List (Nat × α) → List (Nat × α)
  | [] => []
  | (k', v') :: r => if k' = k then r else (k', v') :: aerase k r

/-! ## data -/

/-- gRPC codes used by the scheduler. -/
def cOK : Nat := 0
def cCanceled : Nat := 1
def cInvalidArgument : Nat := 3
def cDeadlineExceeded : Nat := 4
def cNotFound : Nat := 5
def cResourceExhausted : Nat := 8
def cFailedPrecondition : Nat := 9
def cInternal : Nat := 13
def cUnavailable : Nat := 14

/-- Why a task completed (ghost; `worker` = response supplied by the worker). -/
inductive Cause | worker | workerDisappeared | noWaiters | killed | retryLimit | queueRemoved
deriving DecidableEq, Repr, Inhabited

structure Resp where
  code  : Nat
  exit  : Int
  tok   : Nat      -- payload identity issued by the harness (0 for scheduler-made responses)
  cause : Cause
deriving DecidableEq, Repr, Inhabited

/-- Worker identity inside a size-class queue: two attributes, so that drain
patterns can match on either, both or none. -/
structure WId where
  host : Nat
  thread : Nat
deriving DecidableEq, Repr, Inhabited

structure Pattern where
  host : Option Nat
  thread : Option Nat
deriving DecidableEq, Repr, Inhabited

def Pattern.matches (p : Pattern) (w : WId) : Bool :=
  (match p.host with | none => true | some h => h == w.host) &&
  (match p.thread with | none => true | some t => t == w.thread)

/-- size-class queue identity: platform queue id + size class. -/
structure ScqId where
  pq : Nat
  sc : Nat
deriving DecidableEq, Repr, Inhabited

structure PQ where
  id       : Nat
  comps    : List Nat      -- instance name prefix, component-wise
  platform : Nat           -- injective token of the sorted platform properties
  bgMax    : Nat           -- maximumQueuedBackgroundLearningOperations
  bgPrio   : Int
deriving Repr, Inhabited

inductive CleanupKind
  | worker (s : ScqId) (w : WId)
  | op (name : Nat)
  | scq (s : ScqId)
deriving DecidableEq, Repr, Inhabited

structure CleanupEntry where
  deadline : Nat
  kind : CleanupKind
deriving DecidableEq, Repr, Inhabited

structure Scq where
  id : ScqId
  mayBeRemoved : Bool
  drains : List Pattern
  undrainGen : Nat            -- advanced where the code closes `undrainWakeup`
deriving Repr, Inhabited

structure Worker where
  scq : ScqId
  id : WId
  task : Option Nat           -- currentTask
  terminating : Bool
  parked : Bool               -- wakeup != nil (queued as idle synchronizing worker)
  woken : Bool                -- its wakeup channel was closed and it has not run yet
  inSync : Bool               -- inside a Synchronize call (cleanup entry removed)
  drainWait : Option Nat      -- blocked on undrainWakeup with this generation snapshot
  timer : Option Nat          -- deadline of the timeout timer of a blocked Synchronize
deriving Repr, Inhabited

structure Task where
  id : Nat
  digest : Nat                -- hash/size as the worker reports it
  dkey : Nat                  -- full digest incl. instance name: key of the deduplication map
  doNotCache : Bool
  scq : ScqId
  ops : List Nat              -- operation names, one per invocation
  worker : Option (ScqId × WId)
  retry : Nat
  response : Option Resp
  gen : Nat                   -- number of times stageChangeWakeup was closed
  learner : Option Nat
  background : Bool
  queued : Bool               -- ghost: every operation is in its invocation's heap
deriving Repr, Inhabited

structure Op where
  name : Nat
  task : Nat
  inv : List Nat
  prio : Int
  waiters : Nat
  mayExistWithoutWaiters : Bool
deriving Repr, Inhabited

/-- A client call blocked in (or running) `waitExecution`. -/
structure Stream where
  client : Nat
  op : Nat
  snap : Nat                  -- generation of the task when the last message was built
  timer : Nat                 -- deadline of the update timer armed after the last message
deriving Repr, Inhabited

/-- A `TerminateWorkers` call waiting for the captured channels of executing tasks. -/
structure TermCall where
  id : Nat
  waits : List (Nat × Nat)    -- (task, generation snapshot)
deriving Repr, Inhabited

structure Cfg where
  updateInterval : Nat
  idleInterval : Nat
  noWaiterTimeout : Nat
  pqTimeout : Nat
  busyInterval : Nat
  workerTimeout : Nat
  retryCount : Nat
  hardFailTime : Nat
deriving Repr, Inhabited

/-- Observable events of a segment, grouped per entity by the driver. -/
inductive Event
  | msg (client op stage : Nat) (done : Bool) (code : Nat) (tok : Nat)
  | ret (client code : Nat)
  | syncExecute (s : ScqId) (w : WId) (digest next : Nat)
  | syncIdle (s : ScqId) (w : WId) (next : Nat)
  | syncNoChange (s : ScqId) (w : WId) (next : Nat)
  | syncErr (s : ScqId) (w : WId) (code : Nat)
  | termRet (id code : Nat)
  | selAbandoned
  | selSelect (learner : Nat)
  | learnerSucceeded (l : Nat) (bg : Option Nat)
  | learnerFailed (l : Nat) (timedOut : Bool) (next : Option Nat)
  | learnerAbandoned (l : Nat)
  | opErr (code : Nat)          -- unary operator RPC failed
  | opOk
deriving Repr, Inhabited

structure State where
  cfg : Cfg
  now : Nat
  pqs : List PQ
  scqs : List Scq
  workers : List Worker
  tasks : List (Nat × Task)
  ops : List (Nat × Op)
  dedup : List (Nat × Nat)        -- digest ↦ task id
  cleanup : List CleanupEntry     -- the cleanup heap as a bag
  streams : List Stream
  terms : List TermCall
  nextTask : Nat
  nextOp : Nat
  nextLearner : Nat
  events : List Event             -- events of the current segment (reversed)
  /-- ghost log of every assignment `(worker, task)` ever made to a real worker -/
  assigned : List (ScqId × WId × Nat)
deriving Repr, Inhabited

def State.init (cfg : Cfg) : State :=
  { cfg := cfg, now := 0, pqs := [], scqs := [], workers := [], tasks := [], ops := [],
    dedup := [], cleanup := [], streams := [], terms := [], nextTask := 1, nextOp := 1,
    nextLearner := 1, events := [], assigned := [] }

/-- Oracle answers for one segment (see file header). -/
structure Hints where
  /-- observed assignments of this segment: (worker, lowest operation name of the task) -/
  assign : List (ScqId × WId × Nat)
  /-- scripted analyzer answers: size-class index for `Select`, background index for
  `Succeeded` (none = no background run), whether `Failed` asks for a retry. -/
  sel : Nat
  bg : Option Nat
  retry : Bool
deriving Repr, Inhabited

abbrev M := Except String

def emit (s : State) (e : Event) : State := { s with events := e :: s.events }

/-! ## lookups -/

def State.task? (s : State) (t : Nat) : Option Task := alookup t s.tasks
def State.op? (s : State) (o : Nat) : Option Op := alookup o s.ops
def State.setTask (s : State) (t : Task) : State := { s with tasks := aset t.id t s.tasks }
def State.setOp (s : State) (o : Op) : State := { s with ops := aset o.name o s.ops }
def State.scq? (s : State) (i : ScqId) : Option Scq := s.scqs.find? (fun q => q.id = i)
def State.pq? (s : State) (i : Nat) : Option PQ := s.pqs.find? (fun q => q.id = i)
def State.worker? (s : State) (i : ScqId) (w : WId) : Option Worker :=
  s.workers.find? (fun x => x.scq = i ∧ x.id = w)
def State.setWorker (s : State) (w : Worker) : State :=
  { s with workers := s.workers.map (fun x => if x.scq = w.scq ∧ x.id = w.id then w else x) }
def State.setScq (s : State) (q : Scq) : State :=
  { s with scqs := s.scqs.map (fun x => if x.id = q.id then q else x) }

/-- size classes of a platform queue, sorted ascending (as `pq.sizeClasses`). -/
def insertSorted (x : Nat) : List Nat → List Nat
  | [] => [x]
  | y :: r => if y < x then y :: insertSorted x r else x :: y :: r

def State.sizes (s : State) (pq : Nat) : List Nat :=
  (s.scqs.filter (fun q => q.id.pq = pq)).foldl (fun acc q => insertSorted q.id.sc acc) []

def Task.stage (t : Task) : Nat :=
  if t.response.isSome then 4 else if t.worker.isSome then 3 else 2   -- REv2 enum: QUEUED=2 EXECUTING=3 COMPLETED=4

def lowestOp (t : Task) : Nat := t.ops.foldl (fun a b => if a = 0 ∨ b < a then b else a) 0

/-! ## cleanup queue -/

def State.addCleanup (s : State) (deadline : Nat) (k : CleanupKind) : State :=
  { s with cleanup := ⟨deadline, k⟩ :: s.cleanup }
def State.removeCleanup (s : State) (k : CleanupKind) : State :=
  { s with cleanup := s.cleanup.filter (fun e => e.kind ≠ k) }
def State.hasCleanup (s : State) (k : CleanupKind) : Bool := s.cleanup.any (fun e => e.kind = k)

/-- `operation.maybeStartCleanup`. -/
def maybeStartCleanup (s : State) (o : Nat) : State :=
  match s.op? o with
  | some op =>
    if op.waiters = 0 ∧ !op.mayExistWithoutWaiters ∧ !s.hasCleanup (.op o)
    then s.addCleanup (s.now + s.cfg.noWaiterTimeout) (.op o) else s
  | none => s

/-! ## drains -/

def isDrained (q : Scq) (w : Worker) : Bool :=
  w.terminating || q.drains.any (fun p => p.matches w.id)

/-- `worker.wakeUp`: close the channel and dequeue. -/
def wakeWorker (s : State) (w : Worker) : State :=
  s.setWorker { w with parked := false, woken := true }

/-! ## scheduling a task (`task.schedule`) -/

/-- Find the parked worker the implementation handed task `t` to, if any. -/
def hintedWorker (h : Hints) (s : State) (t : Task) : Option Worker :=
  match h.assign.find? (fun a => a.2.2 = lowestOp t ∧ a.1 = t.scq) with
  | some a => s.worker? a.1 a.2.1
  | none => none

def anyParked (s : State) (q : ScqId) : Bool := s.workers.any (fun w => w.scq = q ∧ w.parked)

/-- `assignUnqueuedTask` for a real worker. -/
def assignTo (s : State) (w : Worker) (t : Task) : M State := do
  if w.task.isSome then throw "Worker is already associated with a task"
  if t.worker.isSome then throw "Task is already associated with a worker"
  let s := s.setWorker { w with task := some t.id }
  let s := s.setTask { t with worker := some (w.scq, w.id), retry := 0, queued := false }
  return { s with assigned := (w.scq, w.id, t.id) :: s.assigned }

/-- `task.schedule`: direct hand-off to a parked worker when one exists in the
task's size-class queue (the hint says which; it must be parked there),
otherwise enqueue all operations. -/
def schedule (h : Hints) (s : State) (tid : Nat) : M State := do
  let some t := s.task? tid | throw "schedule: no task"
  if anyParked s t.scq then
    let some w := hintedWorker h s t | throw "mismatch: parked worker exists but task was not handed to one"
    if !w.parked then throw "mismatch: task handed to a worker that was not parked"
    -- assignUnqueuedTaskAndWakeUp: wake first, then assign
    let s := wakeWorker s w
    let some w := s.worker? w.scq w.id | throw "schedule: worker vanished"
    assignTo s w t
  else
    -- nobody is parked: the operations are enqueued (the same segment may still hand the
    -- task to the synchronizing worker itself through `assignNextQueuedTask`)
    return s.setTask { t with queued := true }

/-! ## completing a task (`task.complete`) -/

def bumpGen (t : Task) : Task := { t with gen := t.gen + 1 }

/-- largest size class queue of the platform queue of `q`. -/
def largestScq (s : State) (q : ScqId) : ScqId :=
  match (s.sizes q.pq).getLast? with
  | some sc => ⟨q.pq, sc⟩
  | none => q

def countQueuedBackground (s : State) (q : ScqId) : Nat :=
  (s.tasks.filter (fun p => p.2.background ∧ p.2.queued ∧ p.2.scq = q)).length

/-- `task.complete(executeResponse, completedByWorker)`. -/
def complete (h : Hints) (s : State) (tid : Nat) (r : Resp) (byWorker : Bool) : M State := do
  let some t := s.task? tid | throw "complete: no task"
  if t.response.isSome then return s            -- COMPLETED: nothing to do
  -- QUEUED: assigned to a temporary worker (dequeues all operations, reports a
  -- non-final stage change); EXECUTING: detach from the real worker.
  let t := if t.worker.isNone then bumpGen { t with queued := false, retry := 0 } else t
  let s := match t.worker with
    | some (q, w) => match s.worker? q w with
      | some wk => s.setWorker { wk with task := none }
      | none => s
    | none => s
  let t := { t with worker := none }
  let some learner := t.learner | throw "complete: task without learner"
  -- three-way split on the response
  if r.code = cOK ∧ r.exit = 0 then
    let s := emit s (.learnerSucceeded learner (if h.bg.isSome then some s.nextLearner else none))
    let t := { t with learner := none }
    -- final completion of t
    let s := if alookup t.dkey s.dedup = some t.id then { s with dedup := aerase t.dkey s.dedup } else s
    let t := bumpGen { t with response := some r }
    let s := s.setTask t
    let s := finishOps s t.ops
    match h.bg with
    | none => return s
    | some bgIdx =>
      let bl := s.nextLearner
      let s := { s with nextLearner := bl + 1 }
      let some pq := s.pq? t.scq.pq | throw "complete: no platform queue"
      if pq.bgMax = 0 then return emit s (.learnerAbandoned bl)
      let sizes := s.sizes t.scq.pq
      let some bsc := sizes[min bgIdx (sizes.length - 1)]? | throw "platform queue without size classes"
      let bq : ScqId := ⟨t.scq.pq, bsc⟩
      if countQueuedBackground s bq ≥ pq.bgMax then return emit s (.learnerAbandoned bl)
      -- create the background task with one operation that may exist without waiters
      let opn := s.nextOp
      let bt : Task := { id := s.nextTask, digest := t.digest, dkey := t.dkey, doNotCache := true, scq := bq, ops := [opn], worker := none, retry := 0, response := none, gen := 0, learner := some bl, background := true, queued := false }
      let bo : Op := { name := opn, task := bt.id, inv := [0], prio := pq.bgPrio, waiters := 0, mayExistWithoutWaiters := true }
      let s := { s with nextTask := s.nextTask + 1, nextOp := opn + 1 }
      let s := (s.setTask bt).setOp bo
      schedule h s bt.id
  else if byWorker then
    let timedOut := r.code = cDeadlineExceeded
    if h.retry then
      let nl := s.nextLearner
      let s := emit { s with nextLearner := nl + 1 } (.learnerFailed learner timedOut (some nl))
      -- re-execution on the largest size class: transplant and reschedule
      let t := { t with learner := some nl, scq := largestScq s t.scq }
      let s := s.setTask t
      let s ← schedule h s t.id
      let some t := s.task? t.id | throw "complete: task vanished"
      return s.setTask (bumpGen t)
    else
      let s := emit s (.learnerFailed learner timedOut none)
      finalize s { t with learner := none } r
  else
    let s := emit s (.learnerAbandoned learner)
    finalize s { t with learner := none } r
where
  /-- background operations of a completed task go through the regular cleanup -/
  finishOps (s : State) (ops : List Nat) : State :=
    ops.foldl (fun s o => match s.op? o with
      | some op => if op.mayExistWithoutWaiters
          then maybeStartCleanup (s.setOp { op with mayExistWithoutWaiters := false }) o else s
      | none => s) s
  finalize (s : State) (t : Task) (r : Resp) : M State := do
    let s := if alookup t.dkey s.dedup = some t.id then { s with dedup := aerase t.dkey s.dedup } else s
    let t := bumpGen { t with response := some r }
    let s := s.setTask t
    return finishOps s t.ops

/-! ## removing operations, workers, queues -/

/-- `operation.remove` (cleanup callback). -/
def removeOp (h : Hints) (s : State) (o : Nat) : M State := do
  let some op := s.op? o | return s
  let s := { s with ops := aerase o s.ops }
  let some t := s.task? op.task | throw "removeOp: no task"
  let s ← if t.ops.length = 1 then
      complete h s t.id ⟨cCanceled, 0, 0, .noWaiters⟩ false
    else pure s
  let some t := s.task? op.task | throw "removeOp: no task"
  let t := { t with ops := t.ops.filter (· ≠ o) }
  -- a task without operations is unreachable: drop it
  if t.ops.isEmpty then return { s with tasks := aerase t.id s.tasks }
  return s.setTask t

/-- `rootInvocation.cancelAllQueuedOperations`: complete every queued task of the queue. -/
def cancelAllQueued (h : Hints) (s : State) (q : ScqId) (r : Resp) : M State := do
  let ids := (s.tasks.filter (fun p => p.2.scq = q ∧ p.2.queued ∧ p.2.response.isNone ∧ p.2.worker.isNone)).map (·.1)
  ids.foldlM (fun s t => complete h s t r false) s

/-- `sizeClassQueue.remove` (cleanup callback). -/
def removeScq (h : Hints) (s : State) (q : ScqId) : M State := do
  let s ← cancelAllQueued h s q ⟨cUnavailable, 0, 0, .queueRemoved⟩
  let s := { s with scqs := s.scqs.filter (fun x => x.id ≠ q) }
  -- the platform queue disappears with its last size class
  if s.scqs.any (fun x => x.id.pq = q.pq) then return s
  return { s with pqs := s.pqs.filter (fun p => p.id ≠ q.pq) }

/-- `sizeClassQueue.removeStaleWorker` (cleanup callback). -/
def removeStaleWorker (h : Hints) (s : State) (q : ScqId) (w : WId) (removalTime : Nat) : M State := do
  let some wk := s.worker? q w | return s
  let s ← match wk.task with
    | some t => complete h s t ⟨cUnavailable, 0, 0, .workerDisappeared⟩ false
    | none => pure s
  let s := { s with workers := s.workers.filter (fun x => ¬ (x.scq = q ∧ x.id = w)) }
  match s.scq? q with
  | some sq =>
    if !s.workers.any (fun x => x.scq = q) ∧ sq.mayBeRemoved
    then return s.addCleanup (removalTime + s.cfg.pqTimeout) (.scq q) else return s
  | none => return s

/-- earliest entry with `deadline ≤ now`; ties are reported so the harness can
discard histories whose outcome depends on heap layout. -/
def popDue (now : Nat) (cs : List CleanupEntry) : Option (CleanupEntry × List CleanupEntry) :=
  match cs.foldl (fun (best : Option CleanupEntry) e =>
      if e.deadline ≤ now then
        match best with
        | none => some e
        | some b => if e.deadline < b.deadline then some e else some b
      else best) none with
  | none => none
  | some e => some (e, cs.filter (fun x => x ≠ e))

/-- two due entries with the same deadline: their order depends on heap layout. -/
def CleanupKind.isOp : CleanupKind → Bool
  | .op _ => true
  | _ => false

/-- Callbacks of the same kind commute; an operation removal and a worker or queue
removal that are due at the same instant do not (whichever runs first decides the
status the task completes with). -/
def dueTie (now : Nat) (cs : List CleanupEntry) : Bool :=
  let due := cs.filter (fun e => e.deadline ≤ now)
  due.any (fun e => due.any (fun x => x.deadline = e.deadline ∧ x.kind.isOp ≠ e.kind.isOp))

/-- `cleanupQueue.run(now)`; `fuel` bounds the number of callbacks. -/
def runCleanup (h : Hints) : Nat → State → M State
  | 0, s => pure s
  | fuel + 1, s =>
    match popDue s.now s.cleanup with
    | none => pure s
    | some (e, rest) => do
      let s := { s with cleanup := rest }
      let s ← match e.kind with
        | .worker q w => removeStaleWorker h s q w e.deadline
        | .op o => removeOp h s o
        | .scq q => removeScq h s q
      runCleanup h fuel s

def cleanupFuel (s : State) : Nat := 2 * s.workers.length + s.ops.length + s.scqs.length + s.cleanup.length + 1

/-- `bq.enter(t)`. -/
def enter (h : Hints) (s : State) (t : Nat) : M State :=
  if t > s.now then runCleanup h (cleanupFuel s) { s with now := t } else pure s

/-! ## client streams (`operation.waitExecution`) -/

/-- Build and send the next message of a stream; if it is final the call returns
(waiters--, maybeStartCleanup), otherwise the stream parks with a fresh snapshot. -/
def streamSend (s : State) (c : Nat) (o : Nat) : M State := do
  let some op := s.op? o | throw "streamSend: no operation"
  let some t := s.task? op.task | throw "streamSend: no task"
  let s := { s with streams := s.streams.filter (fun x => x.client ≠ c) }
  match t.response with
  | some r =>
    let s := emit s (.msg c o t.stage true r.code r.tok)
    let s := emit s (.ret c cOK)
    if op.waiters = 0 then throw "Invalid waiters count on operation"
    let s := s.setOp { op with waiters := op.waiters - 1 }
    return maybeStartCleanup s o
  | none =>
    let s := emit s (.msg c o t.stage false 0 0)
    return { s with streams := ⟨c, o, t.gen, s.now + s.cfg.updateInterval⟩ :: s.streams }

/-- entry of `waitExecution`: cancel a pending cleanup, count the waiter, send. -/
def streamAttach (s : State) (c : Nat) (o : Nat) : M State := do
  let some op := s.op? o | throw "streamAttach: no operation"
  let s := s.removeCleanup (.op o)
  let s := s.setOp { op with waiters := op.waiters + 1 }
  streamSend s c o

/-- a parked stream whose client cancelled / whose Send failed: return without message. -/
def streamLeave (s : State) (c : Nat) (code : Nat) : M State := do
  let some st := s.streams.find? (fun x => x.client = c) | throw "mismatch: no such parked stream"
  let some op := s.op? st.op | throw "streamLeave: no operation"
  if op.waiters = 0 then throw "Invalid waiters count on operation"
  let s := { s with streams := s.streams.filter (fun x => x.client ≠ c) }
  let s := s.setOp { op with waiters := op.waiters - 1 }
  return emit (maybeStartCleanup s st.op) (.ret c code)

/-! ## routing -/

def isPrefixOf' : List Nat → List Nat → Bool
  | [], _ => true
  | _ :: _, [] => false
  | a :: r, b :: r' => a == b && isPrefixOf' r r'

/-- `platformQueuesTrie.GetLongestPrefix`. -/
def route (s : State) (comps : List Nat) (platform : Nat) : Option PQ :=
  (s.pqs.filter (fun p => p.platform = platform ∧ isPrefixOf' p.comps comps)).foldl
    (fun best p => match best with
      | none => some p
      | some b => if p.comps.length > b.comps.length then some p else some b) none

/-! ## RPC segments -/

/-- `Execute`, from `bq.enter` to the first park (or return). -/
def execArrive (h : Hints) (s : State) (now c digest dkey : Nat) (dnc : Bool) (comps : List Nat)
    (platform : Nat) (inv : List Nat) (prio : Int) : M State := do
  let s ← enter h s now
  match alookup dkey s.dedup with
  | some tid =>
    let some t := s.task? tid | throw "dedup map points to a missing task"
    let s := emit s .selAbandoned
    -- same invocation: wait on the existing operation
    match t.ops.find? (fun o => match s.op? o with | some op => op.inv = inv | none => false) with
    | some o => streamAttach s c o
    | none =>
      if t.response.isSome then throw "Task in unexpected stage"
      let opn := s.nextOp
      let s := { s with nextOp := opn + 1 }
      let s := s.setOp { name := opn, task := tid, inv := inv, prio := prio, waiters := 0, mayExistWithoutWaiters := false }
      let s := s.setTask { t with ops := t.ops ++ [opn] }
      streamAttach s c opn
  | none =>
    match route s comps platform with
    | none =>
      let s := emit s .selAbandoned
      return emit s (.ret c (if s.now < s.cfg.hardFailTime then cUnavailable else cFailedPrecondition))
    | some pq =>
      let sizes := s.sizes pq.id
      -- the scripted selector clamps its answer to the size classes it is shown
      let some sc := sizes[min h.sel (sizes.length - 1)]? | throw "platform queue without size classes"
      let l := s.nextLearner
      let s := emit { s with nextLearner := l + 1 } (.selSelect l)
      let tid := s.nextTask
      let opn := s.nextOp
      let t : Task := { id := tid, digest := digest, dkey := dkey, doNotCache := dnc, scq := ⟨pq.id, sc⟩, ops := [opn], worker := none, retry := 0, response := none, gen := 0, learner := some l, background := false, queued := false }
      let s := { s with nextTask := tid + 1, nextOp := opn + 1 }
      let s := if dnc then s else { s with dedup := aset dkey tid s.dedup }
      let s := (s.setTask t).setOp { name := opn, task := tid, inv := inv, prio := prio, waiters := 0, mayExistWithoutWaiters := false }
      let s ← schedule h s tid
      streamAttach s c opn

/-- `WaitExecution` by name (authorisation always succeeds, so lookup and attach
are adjacent segments; modelled as one). -/
def waitArrive (h : Hints) (s : State) (now c name : Nat) : M State := do
  let s ← enter h s now
  match s.op? name with
  | none => return emit s (.ret c cNotFound)
  | some _ => streamAttach s c name

/-- a parked stream continues: `reason` 0 = stage change wake-up, 1 = update timer,
2 = context cancelled. -/
def streamWake (h : Hints) (s : State) (now c reason : Nat) : M State := do
  let s ← enter h s now
  let some st := s.streams.find? (fun x => x.client = c) | throw "mismatch: no such parked stream"
  if reason = 2 then streamLeave s c cCanceled
  else
    if reason = 0 then
      let some op := s.op? st.op | throw "streamWake: no operation"
      let some t := s.task? op.task | throw "streamWake: no task"
      if t.gen = st.snap then throw "mismatch: stream woke up without a stage change"
    streamSend s c st.op

/-- queued tasks of a size-class queue. -/
def queuedTasks (s : State) (q : ScqId) : List Task :=
  (s.tasks.filter (fun p => p.2.scq = q ∧ p.2.queued ∧ p.2.worker.isNone ∧ p.2.response.isNone)).map (·.2)

/-- `assignNextQueuedTask`: the observed pick must be a queued task of this queue;
if nothing was picked nothing may be queued. -/
def assignNext (h : Hints) (s : State) (w : Worker) : M (State × Bool) := do
  match h.assign.find? (fun a => a.1 = w.scq ∧ a.2.1 = w.id) with
  | some a =>
    let some t := (queuedTasks s w.scq).find? (fun t => lowestOp t = a.2.2)
      | throw "mismatch: worker was given a task that is not queued in its size-class queue"
    -- assignQueuedTask: assign, dequeue every operation, report a non-final stage change
    let s ← assignTo s w t
    let some t := s.task? t.id | throw "assignNext: task vanished"
    return (s.setTask (bumpGen t), true)
  | none =>
    if (queuedTasks s w.scq).isEmpty then return (s, false)
    throw "mismatch: tasks are queued but the worker was not given one"

def execResponse (s : State) (w : Worker) : M State := do
  let some tid := w.task | throw "execResponse: no task"
  let some t := s.task? tid | throw "execResponse: task missing"
  return emit s (.syncExecute w.scq w.id t.digest (s.now + s.cfg.busyInterval))

/-- the deferred re-arming of the worker cleanup at the end of `Synchronize`. -/
def syncReturn (s : State) (q : ScqId) (w : WId) : State :=
  match s.worker? q w with
  | some wk =>
    (s.setWorker { wk with inSync := false, parked := false, woken := false, drainWait := none, timer := none }).addCleanup
      (s.now + s.cfg.workerTimeout) (.worker q w)
  | none => s

/-- `getNextTask`, up to the point where the call returns or blocks.  `block` is
false when the code passes a nil context. -/
def getNextTask (h : Hints) (s : State) (q : ScqId) (w : WId) (preferIdle block : Bool) : M State := do
  let some wk := s.worker? q w | throw "getNextTask: no worker"
  let some sq := s.scq? q | throw "getNextTask: no queue"
  if preferIdle then return syncReturn (emit s (.syncIdle q w s.now)) q w
  let drained := isDrained sq wk
  if !drained then
    let (s, got) ← assignNext h s wk
    if got then
      let some wk := s.worker? q w | throw "getNextTask: worker vanished"
      return syncReturn (← execResponse s wk) q w
    if !block then return syncReturn (emit s (.syncIdle q w s.now)) q w
    -- park as idle synchronizing worker
    let some wk := s.worker? q w | throw "getNextTask: worker vanished"
    if wk.parked then throw "Worker is already queued"
    return s.setWorker { wk with parked := true, woken := false, timer := some (wk.timer.getD (s.now + s.cfg.idleInterval)) }
  else
    if !block then return syncReturn (emit s (.syncIdle q w s.now)) q w
    return s.setWorker { wk with drainWait := some sq.undrainGen, timer := some (wk.timer.getD (s.now + s.cfg.idleInterval)) }

/-- `getCurrentOrNextTask`. -/
def getCurrentOrNext (h : Hints) (s : State) (q : ScqId) (w : WId) (preferIdle block : Bool) : M State := do
  let some wk := s.worker? q w | throw "getCurrentOrNext: no worker"
  match wk.task with
  | some tid =>
    let some t := s.task? tid | throw "worker points to a missing task"
    if t.retry < s.cfg.retryCount then
      let s := s.setTask { t with retry := t.retry + 1 }
      return syncReturn (emit s (.syncExecute q w t.digest (s.now + s.cfg.busyInterval))) q w
    let s ← complete h s tid ⟨cInternal, 0, 0, .retryLimit⟩ false
    getNextTask h s q w preferIdle block
  | none => getNextTask h s q w preferIdle block

/-- what the worker reports: 0 idle, 1 executing `digest`, 2 completed `digest` with response. -/
inductive Report
  | idle
  | executing (digest : Nat)
  | completed (digest : Nat) (r : Resp)
  | malformed
deriving Repr, Inhabited

/-- first part of `Synchronize`: find or create the size-class queue.
`inl` = the call returns early with that state. -/
def syncQueue (s : State) (q : ScqId) (comps : List Nat) (platform : Nat) (w : WId) : M (State ⊕ State) :=
  match s.scq? q with
  | some _ => pure (.inr (s.removeCleanup (.scq q)))
  | none =>
    match s.pq? q.pq with
    | some _ =>
      let sizes := s.sizes q.pq
      match sizes.getLast? with
      | none => throw "platform queue without size classes"
      | some maxSc =>
        match s.scq? ⟨q.pq, maxSc⟩ with
        | none => throw "platform queue without size class queue"
        | some maxQ =>
          if maxQ.mayBeRemoved then pure (.inl (emit s (.syncErr q w cInvalidArgument)))
          else if q.sc > maxSc then pure (.inl (emit s (.syncErr q w cInvalidArgument)))
          else if maxSc > 0 ∧ q.sc < 1 then pure (.inl (emit s (.syncErr q w cInvalidArgument)))
          else pure (.inr { s with scqs := s.scqs ++ [{ id := q, mayBeRemoved := true, drains := [], undrainGen := 0 }] })
    | none =>
      pure (.inr { s with pqs := s.pqs ++ [{ id := q.pq, comps := comps, platform := platform, bgMax := 0, bgPrio := 0 }],
                          scqs := s.scqs ++ [{ id := q, mayBeRemoved := true, drains := [], undrainGen := 0 }] })

/-- second part: find or create the worker. -/
def syncWorker (s : State) (q : ScqId) (w : WId) : State ⊕ State :=
  match s.worker? q w with
  | some wk =>
    if wk.inSync then .inl (emit s (.syncErr q w cResourceExhausted))
    else .inr ((s.removeCleanup (.worker q w)).setWorker { wk with inSync := true })
  | none =>
    .inr { s with workers := s.workers ++ [{ scq := q, id := w, task := none, terminating := false, parked := false, woken := false, inSync := true, drainWait := none, timer := none }] }

/-- `Synchronize`, from `bq.enter` to the first park (or return). -/
def syncArrive (h : Hints) (s : State) (now : Nat) (q : ScqId) (comps : List Nat) (platform : Nat)
    (w : WId) (rep : Report) (preferIdle : Bool) : M State := do
  let s ← enter h s now
  match ← syncQueue s q comps platform w with
  | .inl s => return s
  | .inr s =>
  match syncWorker s q w with
  | .inl s => return s
  | .inr s =>
  let some wk := s.worker? q w | throw "syncArrive: worker vanished"
  let runningCorrect (d : Nat) : Bool :=
    match wk.task with
    | some tid => match s.task? tid with | some t => t.digest = d | none => false
    | none => false
  match rep with
  | .malformed => return syncReturn (emit s (.syncErr q w cInvalidArgument)) q w
  | .idle => getCurrentOrNext h s q w preferIdle true
  | .executing d =>
    if runningCorrect d then return syncReturn (emit s (.syncNoChange q w (s.now + s.cfg.busyInterval))) q w
    else getCurrentOrNext h s q w preferIdle false
  | .completed d r =>
    if runningCorrect d then
      let some tid := wk.task | throw "syncArrive: no task"
      let s ← complete h s tid r true
      getNextTask h s q w preferIdle true
    else getCurrentOrNext h s q w preferIdle true

/-- a blocked `Synchronize` continues: `reason` 0 = its wakeup channel was closed,
1 = timeout timer, 2 = context cancelled, 3 = undrain wake-up. -/
def syncWake (h : Hints) (s : State) (now : Nat) (q : ScqId) (w : WId) (reason : Nat) : M State := do
  let s ← enter h s now
  let some wk := s.worker? q w | throw "mismatch: no such worker"
  if !wk.inSync then throw "mismatch: worker is not inside Synchronize"
  match reason with
  | 1 =>  -- timeout: maybeDequeue; execute if a task was assigned meanwhile
    let s := s.setWorker { wk with parked := false, woken := false, drainWait := none }
    if wk.task.isSome then return syncReturn (← execResponse s wk) q w
    return syncReturn (emit s (.syncIdle q w s.now)) q w
  | 2 =>
    let s := s.setWorker { wk with parked := false, woken := false, drainWait := none }
    return syncReturn (emit s (.syncErr q w cCanceled)) q w
  | 0 =>
    if !wk.woken then throw "mismatch: worker woke up although its wakeup channel is open"
    let s := s.setWorker { wk with woken := false }
    if wk.task.isSome then return syncReturn (← execResponse s wk) q w
    -- drained (or terminating): loop around
    getNextTask h s q w false true
  | 3 =>
    let some sq := s.scq? q | throw "syncWake: no queue"
    match wk.drainWait with
    | some g =>
      if g = sq.undrainGen then throw "mismatch: worker woke up without an undrain"
      let s := s.setWorker { wk with drainWait := none }
      getNextTask h s q w false true
    | none => throw "mismatch: worker is not waiting for an undrain"
  | _ => throw "bad-op"

/-- `KillOperations` by operation name (lookup and apply adjacent; one segment). -/
def killOp (h : Hints) (s : State) (now name code : Nat) : M State := do
  let s ← enter h s now
  match s.op? name with
  | none => return emit s (.opErr cNotFound)
  | some op =>
    let s ← complete h s op.task ⟨code, 0, 0, .killed⟩ false
    return emit s .opOk

/-- `KillOperations` for a size-class queue without workers. -/
def killQueue (h : Hints) (s : State) (now : Nat) (q : ScqId) (code : Nat) : M State := do
  let s ← enter h s now
  match s.scq? q with
  | none => return emit s (.opErr cNotFound)
  | some _ =>
    if s.workers.any (fun w => w.scq = q) then return emit s (.opErr cFailedPrecondition)
    let s ← cancelAllQueued h s q ⟨code, 0, 0, .killed⟩
    return emit s .opOk

def addDrain (h : Hints) (s : State) (now : Nat) (q : ScqId) (p : Pattern) : M State := do
  let s ← enter h s now
  match s.scq? q with
  | none => return emit s (.opErr cNotFound)
  | some sq =>
    let s := s.setScq { sq with drains := if sq.drains.contains p then sq.drains else sq.drains ++ [p] }
    let s := s.workers.foldl (fun s w => if w.scq = q ∧ w.parked ∧ p.matches w.id then wakeWorker s w else s) s
    return emit s .opOk

def removeDrain (h : Hints) (s : State) (now : Nat) (q : ScqId) (p : Pattern) : M State := do
  let s ← enter h s now
  match s.scq? q with
  | none => return emit s (.opErr cNotFound)
  | some sq =>
    let s := s.setScq { sq with drains := sq.drains.filter (· ≠ p), undrainGen := sq.undrainGen + 1 }
    return emit s .opOk

/-- `TerminateWorkers`, first segment: mark, collect channels, wake parked workers. -/
def terminate (h : Hints) (s : State) (now id : Nat) (p : Pattern) : M State := do
  let s ← enter h s now
  let matching := s.workers.filter (fun w => p.matches w.id)
  let s := matching.foldl (fun s w =>
    match s.worker? w.scq w.id with
    | some w =>
      let s := s.setWorker { w with terminating := true }
      if w.task.isNone ∧ w.parked then
        match s.worker? w.scq w.id with | some w' => wakeWorker s w' | none => s
      else s
    | none => s) s
  let waits := matching.filterMap (fun w => match w.task with
    | some t => match s.task? t with | some tk => some (t, tk.gen) | none => none
    | none => none)
  if waits.isEmpty then return emit s (.termRet id cOK)
  return { s with terms := ⟨id, waits⟩ :: s.terms }

/-- a blocked `TerminateWorkers` continues: reason 0 = all captured channels closed, 2 = cancelled. -/
def termWake (s : State) (id reason : Nat) : M State := do
  let some tc := s.terms.find? (fun t => t.id = id) | throw "mismatch: no such TerminateWorkers call"
  let s := { s with terms := s.terms.filter (fun t => t.id ≠ id) }
  if reason = 2 then return emit s (.termRet id cCanceled)
  let stale := tc.waits.all (fun (t, g) => match s.task? t with | some tk => tk.gen > g | none => true)
  if !stale then throw "mismatch: TerminateWorkers returned while a captured task is still executing"
  return emit s (.termRet id cOK)

/-- `RegisterPredeclaredPlatformQueue`. -/
def registerPQ (s : State) (id : Nat) (comps : List Nat) (platform : Nat) (sizes : List Nat) (bgMax : Nat) (bgPrio : Int) : State :=
  { s with pqs := s.pqs ++ [{ id := id, comps := comps, platform := platform, bgMax := bgMax, bgPrio := bgPrio }],
           scqs := s.scqs ++ sizes.map (fun sc => { id := ⟨id, sc⟩, mayBeRemoved := false, drains := [], undrainGen := 0 }) }

/-- any RPC that only enters and leaves (List*, GetOperation): runs the cleanup. -/
def touch (h : Hints) (s : State) (now : Nat) : M State := enter h s now

end BbRe.Sched
