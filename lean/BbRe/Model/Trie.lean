/-
Model of the routing data structure behind C05, *as implemented* (core Lean only).

Go sources mirrored (bb-remote-execution /repo, bb-storage = its dependency):

* bb-storage `pkg/digest/instance_name_trie.go`
    `instanceNameTrieNode{children map[string]*node; value int}`  ↦ `Node` (`kids` is an
        association list standing for the Go map: keys distinct, order irrelevant)
    `NewInstanceNameTrie`  ↦ `Node.empty`            `Set`   ↦ `Node.setPath`
    `GetExact`             ↦ `Node.getExact` (+ `getExactLoop`)
    `ContainsExact`        ↦ `Node.containsExact`
    `GetLongestPrefix`     ↦ `Node.getLongestPrefix` (+ `glpLoop`, `lastValue` is the accumulator)
    `Remove`               ↦ `Node.remove` (+ `removeWalk`: the loop with its `mapDelete` /
        `componentDelete` cut point; a dereference of a nil node — `Remove` of a path that
        leaves the trie — is `none`)
  The Go functions scan the instance name string for '/'; for the values `digest.InstanceName`
  admits (no leading/trailing/double slash) that is iteration over the component list, which
  is what the model iterates over ("last component" = `idx < 0`).
* `/repo/pkg/scheduler/platform/trie.go`  `Trie{platforms map[string]*InstanceNameTrie}` ↦ `Trie`
    `ContainsExact/GetExact/GetLongestPrefix/Set/Remove` ↦ `Trie.*` (`Remove` on a platform
    that is not in the map calls a method on a nil `*InstanceNameTrie`: `none`).
* `/repo/pkg/scheduler/platform/key.go`  `NewKey` ↦ `newKey` (`propsOK` is the sortedness loop),
    `GetPlatformString` ↦ `platformString` (the jsonpb output as a token list).
* `/repo/pkg/scheduler/routing/demultiplexing_action_router.go` ↦ `Router` (`register`, `route`).
* `/repo/pkg/scheduler/in_memory_build_queue.go`: `addPlatformQueue`, the tail of
    `sizeClassQueue.remove` (swap-with-last), the lookups of `RegisterPredeclaredPlatformQueue`,
    `Synchronize` (exact) and `Execute` (longest prefix + `instanceNamePatcher`) ↦ `PQIndex.*`.
* bb-storage `pkg/digest/instance_name_patcher.go` ↦ `patchSuffix` (component level, used by
    `PQIndex.execute`) and `patchString` (the byte-string code; `Lemmas/TriePatch.lean` shows the two
    agree on joined component lists).
-/
import BbRe.Spec.PrefixMap
namespace BbRe.Model.Trie
open BbRe.Spec.PrefixMap (Comp Prop' Plat Key)

/-! ## Go maps as association lists -/

def aget {κ α : Type} [DecidableEq κ] (k : κ) : List (κ × α) → Option α
  | [] => none
  | (k', v) :: r => if k' = k then some v else aget k r

/-- `m[k] = v`: replace in place or append. -/
def aput {κ α : Type} [DecidableEq κ] (k : κ) (v : α) : List (κ × α) → List (κ × α)
  | [] => [(k, v)]
  | (k', v') :: r => if k' = k then (k, v) :: r else (k', v') :: aput k v r

/-- `delete(m, k)`. -/
def adel {κ α : Type} [DecidableEq κ] (k : κ) : List (κ × α) → List (κ × α)
  | [] => []
  | (k', v') :: r => if k' = k then adel k r else (k', v') :: adel k r

/-! ## bb-storage `InstanceNameTrie` -/

inductive Node where
  | mk (value : Int) (kids : List (Comp × Node))
deriving Inhabited

namespace Node

def value : Node → Int | mk v _ => v
def kids : Node → List (Comp × Node) | mk _ k => k

/-- `NewInstanceNameTrie()` / a freshly created `instanceNameTrieNode`. -/
def empty : Node := .mk (-1) []

/-- `n.children[c]`. -/
def child? (n : Node) (c : Comp) : Option Node := aget c n.kids

/-- `Set`: walk down, creating missing nodes, then assign the value. -/
def setPath : Node → List Comp → Int → Node
  | n, [], v => .mk v n.kids
  | n, c :: cs, v =>
    let ch := (n.child? c).getD empty
    .mk n.value (aput c (setPath ch cs v) n.kids)

/-- loop of `GetExact` (`c` is the first remaining component, `cs` the rest). -/
def getExactLoop : Node → Comp → List Comp → Int
  | n, c, [] =>
    -- last component in the instance name
    match n.child? c with
    | some nFinal => if nFinal.value ≥ 0 then nFinal.value else -1
    | none => -1
  | n, c, d :: ds =>
    -- more components follow
    match n.child? c with
    | none => -1
    | some nNext => getExactLoop nNext d ds

def getExact (root : Node) : List Comp → Int
  | [] => root.value            -- special case: empty instance name
  | c :: cs => getExactLoop root c cs

def containsExact (root : Node) (p : List Comp) : Bool := decide (getExact root p ≥ 0)

/-- loop of `GetLongestPrefix`; `last` is `lastValue`. -/
def glpLoop : Node → Comp → List Comp → Int → Int
  | n, c, [], last =>
    match n.child? c with
    | some nFinal => if nFinal.value ≥ 0 then nFinal.value else last
    | none => last
  | n, c, d :: ds, last =>
    match n.child? c with
    | none => last
    | some nNext => glpLoop nNext d ds (if nNext.value ≥ 0 then nNext.value else last)

def getLongestPrefix (root : Node) : List Comp → Int
  | [] => root.value
  | c :: cs => glpLoop root c cs root.value

/-- `n.value >= 0 || len(n.children) > 1` of `Remove`. -/
def qual (n : Node) : Bool := decide (n.value ≥ 0) || decide (n.kids.length > 1)

/-- loop of `Remove`.  `cut` is the depth of the node whose `children` map is `mapDelete`
(`none` = `mapDelete == nil`); `componentDelete` is then the path component at that depth.
Result: the final cut depth and `len(n.children) == 0` of the last node; `none` when
`n = n.children[component]` yielded nil (the next dereference panics). -/
def removeWalk : Node → Comp → List Comp → Nat → Option Nat → Option (Nat × Bool)
  | n, c, cs, depth, cut =>
    let cut' : Nat := match cut with
      | none => depth
      | some x => if qual n then depth else x
    match n.child? c with
    | none => none
    | some ch =>
      match cs with
      | [] => some (cut', ch.kids.isEmpty)
      | d :: ds => removeWalk ch d ds (depth + 1) (some cut')

/-- apply `f` to the node at `p` (pointer mutation of a node reached through the maps). -/
def modifyAt : Node → List Comp → (Node → Node) → Node
  | n, [], f => f n
  | n, c :: cs, f =>
    match n.child? c with
    | none => n
    | some ch => .mk n.value (aput c (modifyAt ch cs f) n.kids)

/-- `delete(mapDelete, componentDelete)` where `mapDelete` is the `children` of the node at `p`. -/
def delEdge (n : Node) (p : List Comp) (c : Comp) : Node :=
  modifyAt n p (fun m => .mk m.value (adel c m.kids))

/-- `n.value = v` for the node at `p`. -/
def setValueAt (n : Node) (p : List Comp) (v : Int) : Node :=
  modifyAt n p (fun m => .mk v m.kids)

def isEmptyTrie (root : Node) : Bool := decide (root.value < 0) && root.kids.isEmpty

/-- `Remove`: the new trie and "the trie is now empty"; `none` = nil dereference. -/
def remove (root : Node) : List Comp → Option (Node × Bool)
  | [] =>
    let r := Node.mk (-1) root.kids
    some (r, r.kids.isEmpty)
  | c :: cs =>
    match removeWalk root c cs 0 none with
    | none => none
    | some (cut, true) =>
      -- no further children underneath: cut off a part of the trie
      let r := delEdge root ((c :: cs).take cut) ((c :: cs).getD cut 0)
      some (r, isEmptyTrie r)
    | some (_, false) =>
      -- more children underneath
      let r := setValueAt root (c :: cs) (-1)
      some (r, isEmptyTrie r)

end Node

/-! ## `platform.Trie` -/

structure Trie where
  platforms : List (Plat × Node)
deriving Inhabited

namespace Trie

def empty : Trie := ⟨[]⟩

def containsExact (t : Trie) (k : Key) : Bool :=
  match aget k.plat t.platforms with
  | some pt => pt.containsExact k.inst
  | none => false

def getExact (t : Trie) (k : Key) : Int :=
  match aget k.plat t.platforms with
  | some pt => pt.getExact k.inst
  | none => -1

def getLongestPrefix (t : Trie) (k : Key) : Int :=
  match aget k.plat t.platforms with
  | some pt => pt.getLongestPrefix k.inst
  | none => -1

def set (t : Trie) (k : Key) (v : Int) : Trie :=
  let pt := (aget k.plat t.platforms).getD Node.empty
  ⟨aput k.plat (pt.setPath k.inst v) t.platforms⟩

def remove (t : Trie) (k : Key) : Option Trie :=
  match aget k.plat t.platforms with
  | none => none      -- method call on a nil *InstanceNameTrie
  | some pt =>
    match pt.remove k.inst with
    | none => none
    | some (_, true) => some ⟨adel k.plat t.platforms⟩
    | some (pt', false) => some ⟨aput k.plat pt' t.platforms⟩

/-- a history of `Set`/`Remove`; `none` as soon as a `Remove` panics. -/
def applyOp (t : Trie) : BbRe.Spec.PrefixMap.Op → Option Trie
  | .set k v => some (t.set k (v : Int))
  | .remove k => t.remove k

def run (t : Trie) : List BbRe.Spec.PrefixMap.Op → Option Trie
  | [] => some t
  | op :: ops => match applyOp t op with
    | none => none
    | some t' => run t' ops

end Trie

/-! ## `platform.NewKey` -/

/-- the loop of `NewKey`: reject iff some adjacent pair has
`prev.Name > cur.Name || (prev.Name == cur.Name && prev.Value >= cur.Value)`. -/
def propsOK : List Prop' → Bool
  | [] => true
  | [_] => true
  | a :: b :: r =>
    !(decide (a.1 > b.1) || (decide (a.1 = b.1) && decide (a.2 ≥ b.2))) && propsOK (b :: r)

/-- tokens of the canonical JSON `{"properties":[{"name":n,"value":v},…]}`. -/
inductive Tok
  | lbrace | name (n : Nat) | value (v : Nat) | rbrace
deriving DecidableEq, Repr

def platformString (ps : Plat) : List Tok :=
  match ps with
  | [] => []
  | p :: r => [.lbrace, .name p.1, .value p.2, .rbrace] ++ platformString r

/-- `NewKey`: `none` = InvalidArgument. -/
def newKey (inst : List Comp) (props : List Prop') : Option Key :=
  if propsOK props then some ⟨inst, props⟩ else none

/-! ## `DemultiplexingActionRouter` -/

inductive Status
  | ok | invalidArgument | alreadyExists
deriving DecidableEq, Repr

structure Router where
  trie : Trie
  entries : List Nat        -- ids of the action routers; `entries[0]` is the default
deriving Inhabited

namespace Router

def new (dflt : Nat) : Router := ⟨Trie.empty, [dflt]⟩

def register (r : Router) (inst : List Comp) (props : List Prop') (id : Nat) : Router × Status :=
  match newKey inst props with
  | none => (r, .invalidArgument)
  | some key =>
    if r.trie.containsExact key then (r, .alreadyExists)
    else (⟨r.trie.set key ((r.entries.length : Int) - 1), r.entries ++ [id]⟩, .ok)

inductive Routed
  | extractFailed                           -- the KeyExtractor returned an error
  | to (id : Nat) (inst : List Comp)        -- forwarded to router `id` with this instance name
  | panic                                   -- index out of range
deriving DecidableEq, Repr

/-- `RouteAction` with a key extractor that calls `NewKey(digestFunction.GetInstanceName(), platform)`.
The demultiplexing router forwards `digestFunction` and `action` unchanged. -/
def route (r : Router) (inst : List Comp) (props : List Prop') : Routed :=
  match newKey inst props with
  | none => .extractFailed
  | some key =>
    let i := r.trie.getLongestPrefix key + 1
    if i < 0 then .panic else
    match r.entries[i.toNat]? with
    | some id => .to id inst
    | none => .panic

end Router

/-! ## the scheduler's `platformQueues` / `platformQueuesTrie` pair -/

/-- `pq.instanceNamePatcher.PatchInstanceName(instanceName)` with the patcher
`NewInstanceNamePatcher(prefix, EmptyInstanceName)`: strips `len(prefix + "/")` bytes, i.e. the
prefix's components. -/
def patchSuffix (pfx inst : List Comp) : List Comp := inst.drop pfx.length

/-! ### the same patcher on strings (bb-storage `instance_name_patcher.go`) -/

/-- an instance name as a byte string. -/
abbrev Str := List Nat
def slash : Nat := 47

/-- `strings.Join(components, "/")`. -/
def joinName : List Str → Str
  | [] => []
  | [c] => c
  | c :: d :: r => c ++ slash :: joinName (d :: r)

/-- `NewInstanceNamePatcher(oldPrefix, EmptyInstanceName).PatchInstanceName(i)` on strings:
the no-op patcher when `oldPrefix == newPrefix`, else
`if len(i) > len(oldPrefixWithSlash) { newPrefixWithSlash + i[len(oldPrefixWithSlash):] } else
{ newPrefixWithoutSlash }` with both new prefixes empty. -/
def patchString (oldPrefix i : Str) : Str :=
  if oldPrefix = [] then i
  else
    let oldPrefixWithSlashLength := oldPrefix.length + 1
    if i.length > oldPrefixWithSlashLength then i.drop oldPrefixWithSlashLength else []

structure PQIndex where
  queues : List Key         -- `bq.platformQueues[i].platformKey`
  trie : Trie               -- `bq.platformQueuesTrie`
deriving Inhabited

namespace PQIndex

def empty : PQIndex := ⟨[], Trie.empty⟩

/-- `addPlatformQueue`. -/
def addPlatformQueue (s : PQIndex) (k : Key) : PQIndex :=
  ⟨s.queues ++ [k], s.trie.set k (s.queues.length : Int)⟩

/-- `RegisterPredeclaredPlatformQueue` (the part that concerns the index). -/
def register (s : PQIndex) (inst : List Comp) (props : List Prop') : PQIndex × Status :=
  match newKey inst props with
  | none => (s, .invalidArgument)
  | some key =>
    if s.trie.containsExact key then (s, .alreadyExists) else (s.addPlatformQueue key, .ok)

/-- `Synchronize` for a size-class key not seen before: exact lookup, else a new queue.
Returns the index of the platform queue the worker joins. -/
def synchronize (s : PQIndex) (key : Key) : PQIndex × Int :=
  let i := s.trie.getExact key
  if i ≥ 0 then (s, i) else (s.addPlatformQueue key, (s.queues.length : Int))

/-- tail of `sizeClassQueue.remove` for the platform queue stored at position `i`
(`pq` is reached through a pointer; `none` = a Go panic). -/
def removeQueue (s : PQIndex) (i : Nat) : Option PQIndex :=
  match s.queues[i]? with
  | none => none
  | some pqKey =>
    let index := s.trie.getExact pqKey
    let newLength := s.queues.length - 1
    match s.queues[newLength]? with
    | none => none
    | some lastKey =>
      if index < 0 ∨ index.toNat ≥ s.queues.length then none else
      let qs := (s.queues.set index.toNat lastKey).take newLength
      let t1 := s.trie.set lastKey index
      match t1.remove pqKey with
      | none => none
      | some t2 => some ⟨qs, t2⟩

/-- `Execute`: the queue index and `InstanceNameSuffix`; `none` = no queue (Unavailable /
FailedPrecondition); a dangling index is `some (i, none)`. -/
def execute (s : PQIndex) (key : Key) : Option (Int × Option (List Comp)) :=
  let i := s.trie.getLongestPrefix key
  if i < 0 then none else
  some (i, (s.queues[i.toNat]?).map (fun pk => patchSuffix pk.inst key.inst))

end PQIndex

end BbRe.Model.Trie
