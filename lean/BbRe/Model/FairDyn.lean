import BbRe.Model.Fair
import BbRe.Model.GoHeap
/-
Dynamic part of the C04 model: the functions of `pkg/scheduler/in_memory_build_queue.go` that
*change* the heaps of the invocation tree, on the snapshot type `Fair.Inv` of `Model/Fair.lean`,
with Go's `container/heap` (`Model/GoHeap.lean`) at exactly the call sites of the code:

* `operation.enqueue`                         ↦ `enqueue`      (`heap.Push`, `updateFirstOperationPriority`, `heapPushOrFix`)
* `operation.removeQueuedFromInvocation`      ↦ `removeQueued` (`heap.Remove`, `updateFirstOperationPriority`, `heapRemoveOrFix`)
* `invocation.incrementExecutingWorkersCount` ↦ `incrementExecutingWorkersCount` (`heapMaybeFix`, `updateFirstOperationPriority`, `heapMaybeFix`)
* `invocation.decrementExecutingWorkersCount` ↦ `decrementExecutingWorkersCount` (the same)
  (both are instances of `rekey`: any change of the keys `executingWorkers`, `lastOperationStarted`,
  `lastOperationCompletion` of the invocations on a path, bottom-up, each followed by the two fixes
  in the parent)
* parking in `worker.getNextTask`             ↦ `park`         (`idleSynchronizingWorkers.enqueue`, `heapPushOrFix`)
* `worker.dequeue`                            ↦ `unpark`       (`idleSynchronizingWorkersList.dequeue`, `heapRemoveOrFix`)
* `sizeClassQueue.getOrCreateInvocation` (one level) ↦ `createInvocation`; `invocation.removeIfEmpty` ↦ `removeInvocation`
  (invocations that are in no heap)

All of them walk from one invocation (given by its path of keys from the root) up to the root;
`updatePath leaf up` is that walk: `leaf` is applied to the invocation at the path, `up P c'` to
every ancestor `P` with its already updated child `c'` (the body of the `for i.parent != nil` loop,
seen from the parent).  The heaps hold *references* (keys of children, `queued` / `parkedKids`)
and are ordered by comparisons that read the children's current fields (`qLess`, `iLess`), as the
Go heaps of `*invocation` are; the index fields (`queuedChildrenIndex`, …) are positions in those
lists (`refIndex`, `none` = -1).
-/
namespace BbRe.Fair
open BbRe.GoHeap

namespace Inv
def setOps (i : Inv) (v : List Op) : Inv := match i with | mk k _ q p e s pk pkk c kids => mk k v q p e s pk pkk c kids
def setQueued (i : Inv) (v : List Nat) : Inv := match i with | mk k o _ p e s pk pkk c kids => mk k o v p e s pk pkk c kids
def setPrio (i : Inv) (v : Int) : Inv := match i with | mk k o q _ e s pk pkk c kids => mk k o q v e s pk pkk c kids
def setExec (i : Inv) (v : Nat) : Inv := match i with | mk k o q p _ s pk pkk c kids => mk k o q p v s pk pkk c kids
def setStarted (i : Inv) (v : Nat) : Inv := match i with | mk k o q p e _ pk pkk c kids => mk k o q p e v pk pkk c kids
def setParked (i : Inv) (v : List Nat) : Inv := match i with | mk k o q p e s _ pkk c kids => mk k o q p e s v pkk c kids
def setParkedKids (i : Inv) (v : List Nat) : Inv := match i with | mk k o q p e s pk _ c kids => mk k o q p e s pk v c kids
def setCompleted (i : Inv) (v : Nat) : Inv := match i with | mk k o q p e s pk pkk _ kids => mk k o q p e s pk pkk v kids
def setKids (i : Inv) (v : List Inv) : Inv := match i with | mk k o q p e s pk pkk c _ => mk k o q p e s pk pkk c v
end Inv
/-- `i.children[k]` for a reference held by a heap (the default value stands for a dangling
pointer, which well-formed trees do not contain). -/
def kidOr (kids : List Inv) (k : Nat) : Inv := (kids.find? fun c => c.key == k).getD default

/-- The children after the child with the key of `c'` has been mutated into `c'`. -/
def replaceKid (kids : List Inv) (c' : Inv) : List Inv := kids.map fun c => if c.key = c'.key then c' else c

def storeKid (P c' : Inv) : Inv := P.setKids (replaceKid P.kids c')

/-- Position of a reference in a heap: the index field the Go code stores in the child. -/
def refIndex : List Nat → Nat → Option Nat
  | [], _ => none
  | x :: xs, k => if x = k then some 0 else (refIndex xs k).map (· + 1)

/-- `queuedChildrenHeap.Less` on references. -/
def qLess (kids : List Inv) (x y : Nat) : Bool := childLess (kidOr kids x) (kidOr kids y)

/-- `idleSynchronizingWorkersChildrenHeap.Less` on references. -/
def iLess (kids : List Inv) (x y : Nat) : Bool := idleLess (kidOr kids x) (kidOr kids y)

/-- `invocation.updateFirstOperationPriority` (lines 2062-2071). -/
def updateFirstOperationPriority (i : Inv) : Inv :=
  match i.ops with
  | o :: _ => i.setPrio o.prio
  | [] =>
    match i.queued with
    | b :: _ => i.setPrio (kidOr i.kids b).prio
    | [] => i

/-- The walk from the invocation at `path` up to the root. -/
def updatePath (leaf : Inv → Inv) (up : Inv → Inv → Inv) : List Nat → Inv → Inv
  | [], i => leaf i
  | k :: p, i =>
    match i.child k with
    | none => i
    | some c => up i (updatePath leaf up p c)

/-! ### `operation.enqueue` (lines 2264-2274) -/

def upEnqueue (P c' : Inv) : Inv :=
  let c'' := updateFirstOperationPriority c'
  let P' := storeKid P c''
  P'.setQueued (pushOrFix (qLess P'.kids) P.queued.toArray (refIndex P.queued c''.key) c''.key).toList

def enqueue (path : List Nat) (o : Op) : Inv → Inv :=
  updatePath (fun i => i.setOps (push opLess i.ops.toArray o).toList) upEnqueue path

/-! ### `operation.removeQueuedFromInvocation` (lines 2248-2258); `idx` = `o.queueIndex` -/

def upRemove (P c' : Inv) : Inv :=
  let c'' := updateFirstOperationPriority c'
  let P' := storeKid P c''
  match refIndex P.queued c''.key with
  | none => P'
  | some idx =>
    P'.setQueued (removeOrFix (qLess P'.kids) P.queued.toArray idx (c''.queued.length + c''.ops.length)).toList

def removeQueued (path : List Nat) (idx : Nat) : Inv → Inv :=
  updatePath (fun i => i.setOps (remove opLess i.ops.toArray idx).1.toList) upRemove path

/-! ### `increment/decrementExecutingWorkersCount` (lines 1940-1975) -/

/-- One iteration seen from the parent: the child's keys have changed (`c'`), the parent's
`queuedChildren` heap is fixed, the parent's cached priority is refreshed (fix ca91fdf; skipped
with `legacyNoRefresh`, the code before that fix), the parent's `idleSynchronizingWorkersChildren`
heap is fixed, then the parent's own keys change (`g`). -/
def upRekey (legacyNoRefresh : Bool) (g : Inv → Inv) (P c' : Inv) : Inv :=
  let P' := storeKid P c'
  let P1 := P'.setQueued (maybeFix (qLess P'.kids) P.queued.toArray (refIndex P.queued c'.key)).toList
  let P2 := if legacyNoRefresh then P1 else updateFirstOperationPriority P1
  g (P2.setParkedKids (maybeFix (iLess P'.kids) P.parkedKids.toArray (refIndex P.parkedKids c'.key)).toList)

def rekey (legacyNoRefresh : Bool) (g : Inv → Inv) (path : List Nat) : Inv → Inv :=
  updatePath g (upRekey legacyNoRefresh g) path

/-- `executingWorkers[w]++; lastOperationStarted = now`; `fresh i` = the worker was not yet in
`i.executingWorkers` (a task may have operations in several invocations with common ancestors). -/
def incrementExecutingWorkersCount (legacyNoRefresh : Bool) (now : Nat) (fresh : Inv → Bool) : List Nat → Inv → Inv :=
  rekey legacyNoRefresh fun i => (i.setExec (i.exec + if fresh i then 1 else 0)).setStarted now

/-- `executingWorkers[w]--` (entry deleted at zero: `last i`); `lastOperationCompletion = now`. -/
def decrementExecutingWorkersCount (legacyNoRefresh : Bool) (now : Nat) (last : Inv → Bool) : List Nat → Inv → Inv :=
  rekey legacyNoRefresh fun i => (i.setExec (i.exec - if last i then 1 else 0)).setCompleted now

/-! ### parking (lines 3022-3035) and `worker.dequeue` (lines 2768-2780) -/

def upPark (P c' : Inv) : Inv :=
  let P' := storeKid P c'
  P'.setParkedKids (pushOrFix (iLess P'.kids) P.parkedKids.toArray (refIndex P.parkedKids c'.key) c'.key).toList

def park (w : Nat) : List Nat → Inv → Inv :=
  updatePath (fun i => i.setParked (i.parked ++ [w])) upPark

/-- `idleSynchronizingWorkersList.dequeue(listIndex)`: the last entry moves into the gap. -/
def swapRemove (l : List Nat) (idx : Nat) : List Nat :=
  match l.getLast? with
  | none => l
  | some x => (l.set idx x).dropLast

def upUnpark (P c' : Inv) : Inv :=
  let P' := storeKid P c'
  match refIndex P.parkedKids c'.key with
  | none => P'
  | some idx =>
    P'.setParkedKids (removeOrFix (iLess P'.kids) P.parkedKids.toArray idx (c'.parked.length + c'.parkedKids.length)).toList

def unpark (listIndex : Nat) : List Nat → Inv → Inv :=
  updatePath (fun i => i.setParked (swapRemove i.parked listIndex)) upUnpark

/-! ### invocations come and go -/

/-- A new invocation (lines 1625-1636): in no heap, `lastOperationStarted = lastOperationCompletion = now`. -/
def emptyInv (k now : Nat) : Inv := .mk k [] [] 0 0 now [] [] now []

/-- One level of `sizeClassQueue.getOrCreateInvocation` (lines 1620-1643): the invocation at `path`
gets a child with key `k` unless it has one. -/
def createInvocation (k now : Nat) : List Nat → Inv → Inv :=
  updatePath (fun i => if (i.child k).isSome then i else i.setKids (i.kids ++ [emptyInv k now])) storeKid

/-- `invocation.removeIfEmpty` (lines 1885-1897) for the child `k` of the invocation at `path`: it
is dropped from `children` when it is not active and no idle worker is associated with it — in
this model: nothing queued, nothing executing, no parked worker, no children. -/
def removeInvocation (k : Nat) : List Nat → Inv → Inv :=
  updatePath (fun i => i.setKids (i.kids.filter fun c =>
    !(c.key == k && !c.isQueued && c.exec == 0 && !c.hasParked && c.kids.isEmpty))) storeKid

/-! ### all updates -/

/-- The heap-changing functions of the scheduler, each with the path of the invocation it
starts from. -/
inductive Update where
  | enqueue (path : List Nat) (o : Op)
  | removeQueued (path : List Nat) (queueIndex : Nat)
  | increment (path : List Nat) (now : Nat) (fresh : Inv → Bool)
  | decrement (path : List Nat) (now : Nat) (last : Inv → Bool)
  | park (path : List Nat) (worker : Nat)
  | unpark (path : List Nat) (listIndex : Nat)
  | create (path : List Nat) (key now : Nat)
  | removeIfEmpty (path : List Nat) (key : Nat)

def Update.apply : Update → Inv → Inv
  | .enqueue path o, t => Fair.enqueue path o t
  | .removeQueued path idx, t => Fair.removeQueued path idx t
  | .increment path now fresh, t => incrementExecutingWorkersCount false now fresh path t
  | .decrement path now last, t => decrementExecutingWorkersCount false now last path t
  | .park path w, t => Fair.park w path t
  | .unpark path idx, t => Fair.unpark idx path t
  | .create path k now, t => createInvocation k now path t
  | .removeIfEmpty path k, t => removeInvocation k path t

/-- What the callers guarantee (the Go code would dereference nil or index out of range
otherwise): the invocation exists; a removed operation is in the heap at `queueIndex`; a dequeued
worker is in the list at `listIndex`. -/
def Update.enabled : Update → Inv → Prop
  | .enqueue path _, t => (nodeAt t path).isSome = true
  | .removeQueued path idx, t => ∃ n, nodeAt t path = some n ∧ idx < n.ops.length
  | .increment _ _ _, _ => True
  | .decrement _ _ _, _ => True
  | .park path _, t => (nodeAt t path).isSome = true
  | .unpark path idx, t => ∃ n, nodeAt t path = some n ∧ idx < n.parked.length
  | .create _ _ _, _ => True
  | .removeIfEmpty _ _, _ => True

def applyAll : List Update → Inv → Inv
  | [], t => t
  | u :: us, t => applyAll us (u.apply t)

/-- All updates of a list are enabled when their turn comes. -/
def enabledAll : List Update → Inv → Prop
  | [], _ => True
  | u :: us, t => u.enabled t ∧ enabledAll us (u.apply t)

end BbRe.Fair
