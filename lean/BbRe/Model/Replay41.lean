/-
Model of the NFSv4.1 replay layer of `pkg/filesystem/virtual/nfsv4/nfs41_program.go`.

What is transcribed (decision logic only, line by line):
* `opSequence` (l. 686-1128): session / slot lookup, the `switch args.SaSequenceid`
  with its three arms -- replay of `slot.lastSequenceID` (shape check, then
  `slot.lastResult`), start of `slot.lastSequenceID + 1` (join the in-flight
  original through `slot.currentSequenceWaiters`, or forget the cache, refuse
  `TOO_MANY_OPS`, or mark the slot busy, hold the incarnation and run), default
  `SEQ_MISORDERED` --, the reply-caching rule at the end of the compound
  (`SaCachethis || len(resArray) < 2 || ...`, RFC 8881 2.10.6.1.3) and the code
  that stores `lastSequenceID / lastResult`, clears the waiter list and
  broadcasts the result.
* `opCreateSession` (l. 269-362): the one-entry CREATE_SESSION cache of a client
  incarnation (`lastSequenceID`, `lastCreateSessionResponse`), replacing another
  confirmed incarnation (`NFS4ERR_DELAY` while it is held, else
  `emptyAndRemove`), allocation of the slots.
* `opExchangeID` (l. 607-661), `opDestroySession` (l. 379-389).

What is abstract: the operations of a compound.  A compound that is executed
is two steps, `arrive` (lock held, decides) and `finish` (lock re-taken at the
end); everything the operations did in between reaches the model as the INPUT
`x : XRes` of `finish` (status, result op numbers, an id `b` standing for the
reply bytes).  The theorems therefore hold for every executor, atomic or not.
`legacy = true` is the code before commit 90324f7 (the waiter channel of a
duplicate was not appended to `currentSequenceWaiters`); `legacyJoin = true` is
the code before commit 5fcf292 (a request that joined an in-flight compound
was handed its result without `hasSameShapeAs`).

Sequence ids are `uint32`: `lastSequenceID + 1` wraps, modelled as `% M`.
-/
namespace BbRe.Replay41

/-- 2^32: `nfsv4.Sequenceid4` is a `uint32`. -/
def M : Nat := 4294967296

def errBadSession : Nat := 10052
def errBadSlot : Nat := 10053
def errSeqMisordered : Nat := 10063
def errSeqFalseRetry : Nat := 10076
def errTooManyOps : Nat := 10070
def errRetryUncachedRep : Nat := 10068
def errStaleClientid : Nat := 10022
def errDelay : Nat := 10008
def opIllegal : Nat := 10044

/-- What the bytes of a `compoundResult` are. -/
inductive Body
  | seqErr (code : Nat)   -- `newSequenceCompoundResultForError(code)`
  | full (b : Nat)        -- the complete result of execution `b`
  | uncached (b : Nat)    -- [SEQUENCE result of execution b, first op with RETRY_UNCACHED_REP]
deriving DecidableEq, Repr, Inhabited

/-- `compoundResult`: `status`, the op numbers of `resArray[1:]`, the bytes. -/
structure CRes where
  status : Nat
  resops : List Nat
  body   : Body
deriving DecidableEq, Repr, Inhabited

def seqErr (code : Nat) : CRes := ⟨code, [], .seqErr code⟩

/-- A COMPOUND starting with SEQUENCE. `ops` = op numbers of `argArray` (after
SEQUENCE); `cid` is a ghost content id which the server logic never reads. -/
structure Req where
  sess  : Nat
  slot  : Nat
  seq   : Nat
  ops   : List Nat
  cache : Bool
  cid   : Nat
deriving DecidableEq, Repr, Inhabited

/-- Result of executing the operations of a compound (input of `finish`). -/
structure XRes where
  status : Nat
  resops : List Nat
  b      : Nat
deriving DecidableEq, Repr, Inhabited

def fullRes (x : XRes) : CRes := ⟨x.status, x.resops, .full x.b⟩

/-- Reply caching rule at the end of `opSequence` (`len(result.resArray)` is
`1 + x.resops.length`). -/
def cachedRes (cacheThis : Bool) (x : XRes) : CRes :=
  if cacheThis || decide (x.resops.length < 1) || (decide (x.resops.length = 1) && decide (x.status ≠ 0)) then
    fullRes x
  else
    ⟨errRetryUncachedRep, x.resops.take 1, .uncached x.b⟩

/-- The `for i, res := range cachedResults` loop of the replay arm. -/
def matchOps : List Nat → List Nat → Bool
  | [], _ => true
  | r :: rs, o :: os => (r == o || r == opIllegal) && matchOps rs os
  | _ :: _, [] => false

/-- Shape check of the replay arm: `false` = `NFS4ERR_SEQ_FALSE_RETRY`. -/
def shapeOK (cached : CRes) (ops : List Nat) : Bool :=
  !(decide (cached.resops.length > ops.length) ||
      (decide (cached.status = 0) && decide (cached.resops.length ≠ ops.length)))
    && matchOps cached.resops ops

/-- The goroutine executing the compound of a busy slot together with
`slot.currentSequenceWaiters` (non-nil exactly while that goroutine runs). -/
structure Busy where
  call    : Nat
  req     : Req
  waiters : List (Nat × List Nat)   -- parked calls (channel) with their own `argArray` op numbers
deriving DecidableEq, Repr, Inhabited

/-- `slotState` (+ ghost counters used only by the theorems). -/
structure Slot where
  lastSeq    : Nat := 0
  lastResult : CRes := seqErr errSeqMisordered
  busy       : Option Busy := none
  nExec      : Nat := 0                       -- ghost: executions started on this slot
  lastDone   : Option (Req × XRes) := none    -- ghost: the last finished execution
deriving Repr, Inhabited

/-- `sessionState`. `alive = false`: removed from `sessionsBySessionID`; a
goroutine that is still executing keeps using its slots. -/
structure Session where
  inc    : Nat
  alive  : Bool
  nslots : Nat
  slot   : Nat → Slot

/-- `clientIncarnationState` (CREATE_SESSION cache part). `csResp = none` is
`initialLastCreateSessionResponse` (SEQ_MISORDERED), `some k` the OK response
that created session `k`. -/
structure Inc where
  client : Nat
  ver    : Nat
  alive  : Bool
  csLast : Nat
  csResp : Option Nat
deriving Repr, Inhabited

structure State where
  maxOps    : Nat := 12
  nslots    : Nat := 3
  legacy    : Bool := false
  legacyJoin : Bool := false
  nsess     : Nat := 0
  sess      : Nat → Option Session := fun _ => none
  ninc      : Nat := 0
  inc       : Nat → Inc := fun _ => ⟨0, 0, false, 0, none⟩
  confirmed : Nat → Option Nat := fun _ => none      -- client ↦ confirmedIncarnation
  execs     : List (Nat × Req) := []                 -- ghost: executions started, in order
  parked    : List (Nat × Nat × Nat) := []           -- ghost: calls blocked in `<-ch` (call, session, slot)

def init (maxOps nslots : Nat) (legacy : Bool) (legacyJoin : Bool := false) : State :=
  { maxOps := maxOps, nslots := nslots, legacy := legacy, legacyJoin := legacyJoin }

def setSlot (s : State) (sid slot : Nat) (sl : Slot) : State :=
  { s with sess := fun k =>
      if k = sid then (s.sess k).map (fun se => { se with slot := fun j => if j = slot then sl else se.slot j })
      else s.sess k }

def getSlot (s : State) (sid slot : Nat) : Option Slot :=
  (s.sess sid).map (fun se => se.slot slot)

inductive ArriveOut
  | reply (r : CRes)   -- the call returns at once
  | started            -- the call executes the operations (lock dropped)
  | parked             -- the call waits for the in-flight original
deriving DecidableEq, Repr, Inhabited

/-- `opSequence` up to the point where it returns or drops the lock. -/
def arrive (s : State) (call : Nat) (r : Req) : State × ArriveOut :=
  match s.sess r.sess with
  | none => (s, .reply (seqErr errBadSession))
  | some se =>
    if !se.alive then (s, .reply (seqErr errBadSession))
    else if r.slot ≥ se.nslots then (s, .reply (seqErr errBadSlot))
    else
      let sl := se.slot r.slot
      if r.seq = sl.lastSeq then
        (s, .reply (if shapeOK sl.lastResult r.ops then sl.lastResult else seqErr errSeqFalseRetry))
      else if r.seq = (sl.lastSeq + 1) % M then
        match sl.busy with
        | some b =>
          let b' := if s.legacy then b else { b with waiters := b.waiters ++ [(call, r.ops)] }
          ({ setSlot s r.sess r.slot { sl with busy := some b' } with
              parked := s.parked ++ [(call, r.sess, r.slot)] }, .parked)
        | none =>
          let sl1 := { sl with lastResult := seqErr errSeqMisordered, lastDone := none }
          if 1 + r.ops.length > s.maxOps then
            (setSlot s r.sess r.slot sl1, .reply (seqErr errTooManyOps))
          else
            ({ setSlot s r.sess r.slot { sl1 with busy := some ⟨call, r, []⟩, nExec := sl.nExec + 1 } with
                execs := s.execs ++ [(call, r)] }, .started)
      else (s, .reply (seqErr errSeqMisordered))

/-- What a parked call returns once it has received `result` from its channel:
`hasSameShapeAs(argArray)` or `SEQ_FALSE_RETRY` (commit 5fcf292). -/
def waiterReply (legacyJoin : Bool) (x : XRes) (ops : List Nat) : CRes :=
  if legacyJoin || shapeOK (fullRes x) ops then fullRes x else seqErr errSeqFalseRetry

/-- End of the compound of the call executing on (sid, slot): store the
(possibly reduced) result, free the slot, hand the FULL result to the original
and to every registered waiter.  Returns the replies delivered. -/
def finish (s : State) (sid slot : Nat) (x : XRes) : State × List (Nat × CRes) :=
  match getSlot s sid slot with
  | none => (s, [])
  | some sl =>
    match sl.busy with
    | none => (s, [])
    | some b =>
      let sl' := { sl with lastSeq := b.req.seq, lastResult := cachedRes b.req.cache x, busy := none,
                           lastDone := some (b.req, x) }
      ({ setSlot s sid slot sl' with parked := s.parked.filter (fun p => !((b.waiters.map (·.1)).contains p.1)) },
       (b.call, fullRes x) :: b.waiters.map (fun w => (w.1, waiterReply s.legacyJoin x w.2)))

/-- `holdCount` of an incarnation = SEQUENCE compounds in flight on its sessions
(also on sessions that were destroyed meanwhile). -/
def holdCount (s : State) (inc : Nat) : Nat :=
  ((List.range s.nsess).map (fun k =>
    match s.sess k with
    | none => 0
    | some se => if se.inc = inc then ((List.range se.nslots).filter (fun j => (se.slot j).busy.isSome)).length else 0)).sum

inductive CsOut
  | created (sid : Nat)            -- new session
  | cached (resp : Option Nat)     -- replay: the cached response (none = the initial SEQ_MISORDERED one)
  | misordered
  | stale
  | delay
deriving DecidableEq, Repr, Inhabited

/-- `emptyAndRemove` as far as sessions are concerned. -/
def removeInc (s : State) (k : Nat) : State :=
  { s with
    sess := fun i => (s.sess i).map (fun se => if se.inc = k then { se with alive := false } else se)
    inc := fun i => if i = k then { s.inc i with alive := false } else s.inc i
    confirmed := fun c => if s.confirmed c = some k then none else s.confirmed c }

/-- Allocation of a new session for incarnation `k` of `client` (second half of
`opCreateSession`). -/
def newSession (s0 : State) (k client seq : Nat) : State × CsOut :=
  ({ s0 with
      nsess := s0.nsess + 1
      sess := fun i => if i = s0.nsess then some ⟨k, true, s0.nslots, fun _ => {}⟩ else s0.sess i
      inc := fun i => if i = k then { s0.inc i with csLast := seq, csResp := some s0.nsess } else s0.inc i
      confirmed := fun c => if c = client then some k else s0.confirmed c }, .created s0.nsess)

/-- `opCreateSession`. -/
def createSession (s : State) (k : Nat) (seq : Nat) : State × CsOut :=
  if k ≥ s.ninc || !(s.inc k).alive then (s, .stale)
  else if seq = (s.inc k).csLast then (s, .cached (s.inc k).csResp)
  else if seq = ((s.inc k).csLast + 1) % M then
    match s.confirmed (s.inc k).client with
    | some old =>
      if old = k then newSession s k (s.inc k).client seq
      else if holdCount s old > 0 then (s, .delay)
      else newSession (removeInc s old) k (s.inc k).client seq
    | none => newSession s k (s.inc k).client seq
  else (s, .misordered)

/-- First alive incarnation of (client, verifier). -/
def findInc (s : State) (client ver : Nat) : Option Nat :=
  (List.range s.ninc).find? (fun k => (s.inc k).alive && (s.inc k).client == client && (s.inc k).ver == ver)

/-- `opExchangeID`: returns (incarnation, CONFIRMED flag, eir_sequenceid). `obs`
is the random initial `lastSequenceID` of a NEW incarnation (the harness reads
it off the reply: eir_sequenceid - 1). -/
def exchangeId (s : State) (client ver obs : Nat) : State × (Nat × Bool × Nat) :=
  match findInc s client ver with
  | some k =>
    let conf := s.confirmed client == some k
    (s, (k, conf, if conf then 0 else ((s.inc k).csLast + 1) % M))
  | none =>
    let k := s.ninc
    ({ s with ninc := k + 1, inc := fun i => if i = k then ⟨client, ver, true, obs, none⟩ else s.inc i },
     (k, false, (obs + 1) % M))

/-- `opDestroySession`: true = NFS4_OK, false = BADSESSION. -/
def destroySession (s : State) (sid : Nat) : State × Bool :=
  match s.sess sid with
  | none => (s, false)
  | some se =>
    if se.alive then
      ({ s with sess := fun i => if i = sid then some { se with alive := false } else s.sess i }, true)
    else (s, false)

/-- Steps of a run. -/
inductive Op
  | exchangeId (client ver obs : Nat)
  | createSession (inc seq : Nat)
  | destroySession (sid : Nat)
  | arrive (call : Nat) (r : Req)
  | finish (sid slot : Nat) (x : XRes)
deriving Repr, Inhabited

/-- One step; the second component lists the SEQUENCE replies delivered by it. -/
def step (s : State) : Op → State × List (Nat × CRes)
  | .exchangeId c v o => ((exchangeId s c v o).1, [])
  | .createSession k q => ((createSession s k q).1, [])
  | .destroySession sid => ((destroySession s sid).1, [])
  | .arrive c r =>
    match arrive s c r with
    | (s', .reply rep) => (s', [(c, rep)])
    | (s', _) => (s', [])
  | .finish sid slot x => finish s sid slot x

/-- A whole run: final state and all deliveries in order. -/
def run (s : State) : List Op → State × List (Nat × CRes)
  | [] => (s, [])
  | o :: os =>
    let r := step s o
    let r' := run r.1 os
    (r'.1, r.2 ++ r'.2)

inductive Reachable (s0 : State) : State → Prop
  | init : Reachable s0 s0
  | step {s : State} (o : Op) : Reachable s0 s → Reachable s0 (step s o).1

end BbRe.Replay41
