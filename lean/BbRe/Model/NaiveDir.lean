import BbRe.Model.InputRoot
/-!
Model of the eager build directory of non-virtual workers (property C17, second half).

Go code mirrored (all in /repo):

* `pkg/builder/naive_build_directory.go`
  `naiveBuildDirectory.mergeDirectoryContents` ↦ `mergeDir` (one call = `GetDirectory`
  (`getDirectory`), then the three loops `fileStep`/`dirStep`/`symStep` run by `loop` in the
  order of the Go code: **files, directories, symlinks**; the first error of the walking
  goroutine aborts it), `MergeDirectoryContents` ↦ `merge` (`group.Wait()`: the call
  returns nil iff the walker returned nil and no download goroutine returned an error).
* `pkg/cas/blob_access_file_fetcher.go` `GetFile` ↦ `getFile`
  (`OpenAppend(CreateExcl)`, `Get(...).IntoWriter`, `Chtimes`; every failure after the
  creation removes the file again: "no traces are left behind").
* bb-storage `pkg/filesystem` `localDirectory.Mkdir/EnterDirectory/Symlink` ↦ the abstract
  file system: a directory is `InputRoot.Children` (names ↦ `Node.file d exec none` |
  `Node.sym target` | `Node.dir children`), the same tree type the lazy half of C17 uses.
  All calls of the Go code go through directory *handles* (`EnterDirectory` of the
  directory just made), so the walk is a function of the contents of the target directory.
  `mergeAt` places it at a path of a surrounding file system.

Faults: `Oracle.cas` = digests whose storage read fails during the call (Directory or
file blob), `Oracle.fs` = file system calls (kind, path relative to the target directory)
that fail. Every call the Go code issues asks the oracle.

Concurrency. The file downloads run in goroutines of an `errgroup` bounded by a semaphore;
everything else is issued by one goroutine in program order. Observable consequences
modelled: (1) a failing download does not stop the walker at once: `failed` is set, the walker
goes on and may see the cancelled context at a later `AcquireSemaphore` (`Oracle.stop`: at
which file launches it does; only consulted when a download has failed) or never; so the
set of calls issued is a prefix (in walker order) of the calls of the fault-free walk,
and which prefix is the oracle's choice; (2) the call returns an error iff the walker
failed or some download failed; *which* error `group.Wait()` reports is only determined
when no download failed (`Outcome.error none` otherwise). A download takes effect at its
launch position: a name collision between a file and a later directory/symlink of the
same Directory message is an error in every interleaving, reported here by the later
`Mkdir`/`Symlink` (`NErr.exist true`; which error the real run reports is timing dependent).

Not modelled: `Close` of a directory handle is assumed not to fail (if it did, both
`util.StatusWrapf(err, …)` calls on the `errClose` paths are given a nil `err`).
`UploadFile`/`Lstat` wrappers are not part of the input root.
-/
namespace BbRe.NaiveDir
open BbRe.InputRoot

/-- File system calls the merge issues (the path is that of the entry concerned). -/
inductive FsCall | mkdir | enter | symlink | create | chtimes
deriving DecidableEq, Repr, Inhabited

structure Oracle where
  cas : List Dig
  fs : List (FsCall × Path)
  stop : List Path
deriving Repr, Inhabited

def Oracle.fails (O : Oracle) (k : FsCall) (q : Path) : Bool := O.fs.contains (k, q)

inductive NErr
  /-- `GetDirectory` failed / invalid name / malformed digest / unusable symlink target -/
  | decode (e : Err)
  /-- a file system call failed (injected) -/
  | fs
  /-- `Mkdir`/`Symlink` found the name taken (`EEXIST`); `byFile`: by a downloaded file -/
  | exist (byFile : Bool)
  /-- `AcquireSemaphore` saw the cancelled context -/
  | canceled
  /-- nesting deeper than the fuel (impossible for a content addressed DAG) -/
  | fuel
deriving DecidableEq, Repr, Inhabited

/-- `DirectoryFetcher.GetDirectory`. -/
def getDirectory (c : CAS) (F : List Dig) (d : Dig) : Except Err DirMsg :=
  if F.contains d then .error .unavailable
  else match assoc c.dirs d with
  | none => .error .notFound
  | some none => .error .invalidArgument
  | some (some m) => .ok m

/-- `blobAccessFileFetcher.GetFile` into the directory with contents `ch`: `none` = error
(and nothing left behind). -/
def getFile (c : CAS) (O : Oracle) (q : Path) (d : Dig) (exec : Bool) (name : Name)
    (ch : Children) : Option Children :=
  if hasName ch name || O.fails .create q then none
  else if O.cas.contains d then none
  else match assoc c.blobs d with
    | none => none
    | some _ => if O.fails .chtimes q then none else some (ch ++ [(name, .file d exec none)])

/-- State of the walker in one directory: its contents so far, "a download has failed",
the walker's own error. -/
structure R where
  ch : Children
  failed : Bool
  err : Option NErr
deriving Inhabited

inductive StepR
  | stop (ch : Children) (failed : Bool) (e : NErr)
  | next (ch : Children) (failed : Bool)

/-- One `for` loop of `mergeDirectoryContents`. -/
def loop {α : Type} (step : α → Children → Bool → StepR) : List α → Children → Bool → R
  | [], ch, bad => ⟨ch, bad, none⟩
  | e :: rest, ch, bad =>
    match step e ch bad with
    | .stop ch' bad' err => ⟨ch', bad', some err⟩
    | .next ch' bad' => loop step rest ch' bad'

def isFile : Node → Bool
  | .file _ _ _ => true
  | _ => false

/-- Body of `for _, file := range directory.Files`. -/
def fileStep (c : CAS) (O : Oracle) (p : Path) (e : FileNode) (ch : Children) (bad : Bool) : StepR :=
  if !validName e.name then .stop ch bad (.decode .invalidArgument)
  else match parseDigest c.hashLen e.digest with
    | none => .stop ch bad (.decode .invalidArgument)
    | some d =>
      if bad && O.stop.contains (p ++ [e.name]) then .stop ch bad .canceled
      else match getFile c O (p ++ [e.name]) d e.exec e.name ch with
        | some ch' => .next ch' bad
        | none => .next ch true

/-- Body of `for _, directory := range directory.Directories`; `rec` is the recursive call
on the entered (empty) directory. -/
def dirStep (c : CAS) (O : Oracle) (rec : Dig → Path → Bool → R) (p : Path) (e : DirNode)
    (ch : Children) (bad : Bool) : StepR :=
  if !validName e.name then .stop ch bad (.decode .invalidArgument)
  else match parseDigest c.hashLen e.digest with
    | none => .stop ch bad (.decode .invalidArgument)
    | some d =>
      match lookup ch e.name with
      | some v => .stop ch bad (.exist (isFile v))
      | none =>
        if O.fails .mkdir (p ++ [e.name]) then .stop ch bad .fs
        else if O.fails .enter (p ++ [e.name]) then .stop (ch ++ [(e.name, .dir [])]) bad .fs
        else
          let r := rec d (p ++ [e.name]) bad
          match r.err with
          | some err => .stop (ch ++ [(e.name, .dir r.ch)]) (bad || r.failed) err
          | none => .next (ch ++ [(e.name, .dir r.ch)]) (bad || r.failed)

/-- Body of `for _, symlink := range directory.Symlinks` (`localDirectory.Symlink` resolves
the target first: `targetOk`). -/
def symStep (O : Oracle) (p : Path) (e : SymNode) (ch : Children) (bad : Bool) : StepR :=
  if !validName e.name then .stop ch bad (.decode .invalidArgument)
  else if !targetOk e.target then .stop ch bad (.decode .invalidArgument)
  else match lookup ch e.name with
    | some v => .stop ch bad (.exist (isFile v))
    | none =>
      if O.fails .symlink (p ++ [e.name]) then .stop ch bad .fs
      else .next (ch ++ [(e.name, .sym e.target)]) bad

/-- `mergeDirectoryContents(digest, inputDirectory, pathTrace)` on a directory that has
the contents `ch`; `bad`: a download launched earlier has failed. -/
def mergeDirIn (c : CAS) (O : Oracle) : Nat → Dig → Path → Children → Bool → R
  | 0, _, _, ch, bad => ⟨ch, bad, some .fuel⟩
  | f + 1, d, p, ch, bad =>
    match getDirectory c O.cas d with
    | .error e => ⟨ch, bad, some (.decode e)⟩
    | .ok m =>
      let r1 := loop (fileStep c O p) m.files ch bad
      match r1.err with
      | some _ => r1
      | none =>
        let r2 := loop (dirStep c O (fun d' q b => mergeDirIn c O f d' q [] b) p) m.dirs r1.ch r1.failed
        match r2.err with
        | some _ => r2
        | none => loop (symStep O p) m.syms r2.ch r2.failed

/-- The recursive call: always on a directory that was just created. -/
def mergeDir (c : CAS) (O : Oracle) (f : Nat) (d : Dig) (p : Path) (bad : Bool) : R :=
  mergeDirIn c O f d p [] bad

inductive Outcome
  | ok
  /-- `none`: some download failed, the code reported is timing dependent -/
  | error (e : Option NErr)
deriving DecidableEq, Repr, Inhabited

/-- Is the reported error code determined? Not if a download failed or a file is in the way
of a `Mkdir`/`Symlink` (the download may lose that race instead). -/
def outcomeOf (r : R) : Outcome :=
  if r.failed then .error none
  else match r.err with
    | none => .ok
    | some (.exist true) => .error none
    | some e => .error (some e)

/-- `naiveBuildDirectory.MergeDirectoryContents(digest)` on a build directory with contents
`ch`: contents afterwards and what `group.Wait()` returns. -/
def merge (c : CAS) (O : Oracle) (fuel : Nat) (d : Dig) (ch : Children) : Children × Outcome :=
  let r := mergeDirIn c O fuel d [] ch false
  (r.ch, outcomeOf r)

/-- Fuel that suffices for every acyclic store. -/
def fuelFor (c : CAS) : Nat := c.dirs.length + 1

/-! ## the build directory inside a file system -/

/-- Apply `g` to the contents of the directory at `tp` (nothing happens if there is none). -/
def updAt (g : Children → Children) : Path → Node → Node
  | [], .dir ch => .dir (g ch)
  | x :: rest, .dir ch =>
    match lookup ch x with
    | some v => .dir (replaceFirst ch x (updAt g rest v))
    | none => .dir ch
  | _, n => n

/-- `MergeDirectoryContents` of the build directory at `tp` of the file system `fs`. -/
def mergeAt (c : CAS) (O : Oracle) (fuel : Nat) (d : Dig) (tp : Path) (fs : Node) : Node × Outcome :=
  match rawAt fs tp with
  | some (.dir ch) =>
    let r := merge c O fuel d ch
    (updAt (fun _ => r.1) tp fs, r.2)
  | _ => (fs, .error (some .fs))

/-! ## the same walk with a state-passing file fetcher: `hardlinkingFileFetcher`

`cmd/bb_worker` wraps the file fetcher of a naive build directory in
`cas.NewHardlinkingFileFetcher` (`InputRoot.HardLink`, the cache directory and its
bookkeeping are the state threaded through the walk; downloads are taken in launch order,
as `InputRoot.HardLink` assumes). `key` stands for the cache file name (digest + "+x"/"-x"),
`unkey` says which file a cache file with the contents of a key is. The base fetcher is
`getFile` above: it can deliver (`casHas`) iff none of its calls fails. -/

structure HLParams where
  key : Dig → Bool → Nat
  unkey : Nat → Dig × Bool

/-- `hardlinkingFileFetcher.GetFile` into the directory with contents `ch` (a name that is
taken makes `link(2)` / `CreateExcl` fail with `EEXIST`). The file that appears is the one whose
contents the fetcher delivered (`HardLink.Result.ok cont`). -/
def getFileHL (c : CAS) (O : Oracle) (K : HLParams) (s : HardLink.State) (q : Path) (d : Dig)
    (exec : Bool) (name : Name) (ch : Children) : HardLink.State × Option Children :=
  if hasName ch name then ((HardLink.tryLink s (K.key d exec)).1, none)
  else
    let casHas := !(O.fails .create q) && !(O.cas.contains d) && (assoc c.blobs d).isSome &&
      !(O.fails .chtimes q)
    match HardLink.getFile s (K.key d exec) d.size casHas with
    | (s', .ok cont) => (s', some (ch ++ [(name, .file (K.unkey cont).1 (K.unkey cont).2 none)]))
    | (s', _) => (s', none)

structure RS where
  st : HardLink.State
  r : R

def loopS {α : Type} (step : α → HardLink.State → Children → Bool → HardLink.State × StepR) :
    List α → HardLink.State → Children → Bool → RS
  | [], s, ch, bad => ⟨s, ⟨ch, bad, none⟩⟩
  | e :: rest, s, ch, bad =>
    match step e s ch bad with
    | (s', .stop ch' bad' err) => ⟨s', ⟨ch', bad', some err⟩⟩
    | (s', .next ch' bad') => loopS step rest s' ch' bad'

def fileStepHL (c : CAS) (O : Oracle) (K : HLParams) (p : Path) (e : FileNode)
    (s : HardLink.State) (ch : Children) (bad : Bool) : HardLink.State × StepR :=
  if !validName e.name then (s, .stop ch bad (.decode .invalidArgument))
  else match parseDigest c.hashLen e.digest with
    | none => (s, .stop ch bad (.decode .invalidArgument))
    | some d =>
      if bad && O.stop.contains (p ++ [e.name]) then (s, .stop ch bad .canceled)
      else match getFileHL c O K s (p ++ [e.name]) d e.exec e.name ch with
        | (s', some ch') => (s', .next ch' bad)
        | (s', none) => (s', .next ch true)

def dirStepHL (c : CAS) (O : Oracle) (rec : Dig → Path → Bool → HardLink.State → RS) (p : Path)
    (e : DirNode) (s : HardLink.State) (ch : Children) (bad : Bool) : HardLink.State × StepR :=
  if !validName e.name then (s, .stop ch bad (.decode .invalidArgument))
  else match parseDigest c.hashLen e.digest with
    | none => (s, .stop ch bad (.decode .invalidArgument))
    | some d =>
      match lookup ch e.name with
      | some v => (s, .stop ch bad (.exist (isFile v)))
      | none =>
        if O.fails .mkdir (p ++ [e.name]) then (s, .stop ch bad .fs)
        else if O.fails .enter (p ++ [e.name]) then (s, .stop (ch ++ [(e.name, .dir [])]) bad .fs)
        else
          let rs := rec d (p ++ [e.name]) bad s
          match rs.r.err with
          | some err => (rs.st, .stop (ch ++ [(e.name, .dir rs.r.ch)]) (bad || rs.r.failed) err)
          | none => (rs.st, .next (ch ++ [(e.name, .dir rs.r.ch)]) (bad || rs.r.failed))

/-- `mergeDirectoryContents` with the hard-linking fetcher. -/
def mergeDirInHL (c : CAS) (O : Oracle) (K : HLParams) :
    Nat → Dig → Path → Children → Bool → HardLink.State → RS
  | 0, _, _, ch, bad, s => ⟨s, ⟨ch, bad, some .fuel⟩⟩
  | f + 1, d, p, ch, bad, s =>
    match getDirectory c O.cas d with
    | .error e => ⟨s, ⟨ch, bad, some (.decode e)⟩⟩
    | .ok m =>
      let r1 := loopS (fileStepHL c O K p) m.files s ch bad
      match r1.r.err with
      | some _ => r1
      | none =>
        let r2 := loopS (dirStepHL c O (fun d' q b s' => mergeDirInHL c O K f d' q [] b s') p) m.dirs
          r1.st r1.r.ch r1.r.failed
        match r2.r.err with
        | some _ => r2
        | none => loopS (fun e s' ch' b => (s', symStep O p e ch' b)) m.syms r2.st r2.r.ch r2.r.failed

/-- `MergeDirectoryContents` of a naive build directory whose file fetcher is the hard-linking one. -/
def mergeHL (c : CAS) (O : Oracle) (K : HLParams) (fuel : Nat) (d : Dig) (ch : Children)
    (s : HardLink.State) : HardLink.State × Children × Outcome :=
  let rs := mergeDirInHL c O K fuel d [] ch false s
  (rs.st, rs.r.ch, outcomeOf rs.r)

end BbRe.NaiveDir
