/-!
# Model of `pkg/filesystem/pool/quota_enforcing_file_pool.go`

State: the two `quotaMetric` counters (`filesRemaining`, `bytesRemaining`) and,
per open `quotaEnforcingFile`, its `size` field.  Every call into the base
`FilePool` / base file is an *environment answer* given as a step input:

* `NewFile`   : `baseOk`
* `Truncate`  : `baseOk`
* `WriteAt`   : `n` bytes written (`n ≤ len p`) and `baseErr`
* `Close`     : `baseErr` (resources are released regardless)

so the theorems quantify over every outcome of the base pool.  The model is of
the code after fix commit ab88045 (`NewFile` releases `size` bytes when the
base pool fails).

`quotaMetric.allocate` is a CAS loop and `release` an atomic add; each is one
atomic step here (calls on one pool are sequential in this model; contention is
not covered).  Counters are `uint64` in Go and `Nat` here: the conservation
theorem shows `remaining ≤ maximum`, so `release` never wraps; `allocate`
checks `remaining < v` first, so it never wraps either.

Core Lean only.
-/
namespace BbRe.Quota

structure State where
  maxFiles : Nat
  maxBytes : Nat
  filesRemaining : Nat
  bytesRemaining : Nat
  /-- open files: `(id, quotaEnforcingFile.size)` -/
  files : List (Nat × Nat)
  nextId : Nat
deriving Repr, Inhabited, DecidableEq

/-- `NewQuotaEnforcingFilePool(base, maximumFileCount, maximumTotalSize)` -/
def init (maxFiles maxBytes : Nat) : State :=
  { maxFiles, maxBytes, filesRemaining := maxFiles, bytesRemaining := maxBytes, files := [], nextId := 0 }

/-- What a call returns.  `invalid` = `codes.InvalidArgument` produced by the
quota layer itself (quota reached, negative argument); `base` = the base pool's
error passed through. -/
inductive Res | ok | invalid | base
deriving DecidableEq, Repr, Inhabited

inductive Op
  /-- `NewFile(holeSource, size)`; `baseOk` = `base.NewFile` succeeds (if called). -/
  | newFile (size : Nat) (baseOk : Bool)
  /-- `f.Truncate(size)`; `baseOk` = base `Truncate` succeeds (if called). -/
  | truncate (id : Nat) (size : Int) (baseOk : Bool)
  /-- `f.WriteAt(p, off)` with `len p = len`; the base (if called) writes `n` bytes and
  returns an error iff `baseErr`. -/
  | writeAt (id : Nat) (off : Int) (len : Nat) (n : Nat) (baseErr : Bool)
  /-- `f.Close()`; `baseErr` = the base `Close` returns an error. -/
  | close (id : Nat) (baseErr : Bool)
deriving Repr, Inhabited

/-- Output of a step: result, whether the base was called, bytes written, id of a new file. -/
structure Out where
  res : Res
  baseCalled : Bool
  n : Nat := 0
  newId : Option Nat := none
deriving Repr, Inhabited

def lookup (files : List (Nat × Nat)) (id : Nat) : Option Nat :=
  match files with
  | [] => none
  | (i, s) :: rest => if i = id then some s else lookup rest id

def setSize (files : List (Nat × Nat)) (id : Nat) (size : Nat) : List (Nat × Nat) :=
  match files with
  | [] => []
  | (i, s) :: rest => if i = id then (i, size) :: rest else (i, s) :: setSize rest id size

def remove (files : List (Nat × Nat)) (id : Nat) : List (Nat × Nat) :=
  match files with
  | [] => []
  | (i, s) :: rest => if i = id then rest else (i, s) :: remove rest id

/-- Sum of the `size` fields of all open files. -/
def totalSize (files : List (Nat × Nat)) : Nat :=
  match files with
  | [] => 0
  | (_, s) :: rest => s + totalSize rest

/-- `(*quotaEnforcingFilePool).NewFile` -/
def newFile (st : State) (size : Nat) (baseOk : Bool) : State × Out :=
  -- if !fp.filesRemaining.allocate(1)
  if st.filesRemaining < 1 then (st, { res := .invalid, baseCalled := false })
  else
    let st := { st with filesRemaining := st.filesRemaining - 1 }
    -- if size > 0 && !fp.bytesRemaining.allocate(size)
    if size > 0 ∧ st.bytesRemaining < size then
      ({ st with filesRemaining := st.filesRemaining + 1 }, { res := .invalid, baseCalled := false })
    else
      let st := if size > 0 then { st with bytesRemaining := st.bytesRemaining - size } else st
      if baseOk then
        ({ st with files := st.files ++ [(st.nextId, size)], nextId := st.nextId + 1 },
         { res := .ok, baseCalled := true, newId := some st.nextId })
      else
        -- fp.filesRemaining.release(1); fp.bytesRemaining.release(size)
        ({ st with filesRemaining := st.filesRemaining + 1, bytesRemaining := st.bytesRemaining + size },
         { res := .base, baseCalled := true })

/-- `(*quotaEnforcingFile).Truncate`; `fsize` is `f.size`. -/
def truncate (st : State) (id : Nat) (fsize : Nat) (size : Int) (baseOk : Bool) : State × Out :=
  if size < 0 then (st, { res := .invalid, baseCalled := false })
  else
    let sz := size.toNat
    if sz < fsize then
      -- shrinking: base first, release on success
      if baseOk then
        ({ st with bytesRemaining := st.bytesRemaining + (fsize - sz), files := setSize st.files id sz },
         { res := .ok, baseCalled := true })
      else (st, { res := .base, baseCalled := true })
    else if sz > fsize then
      let additional := sz - fsize
      if st.bytesRemaining < additional then (st, { res := .invalid, baseCalled := false })
      else if baseOk then
        ({ st with bytesRemaining := st.bytesRemaining - additional, files := setSize st.files id sz },
         { res := .ok, baseCalled := true })
      else
        -- allocate, base fails, release: net nothing
        (st, { res := .base, baseCalled := true })
    else (st, { res := .ok, baseCalled := false })

/-- `(*quotaEnforcingFile).WriteAt` -/
def writeAt (st : State) (id : Nat) (fsize : Nat) (off : Int) (len n : Nat) (baseErr : Bool) : State × Out :=
  if off < 0 then (st, { res := .invalid, baseCalled := false })
  else
    let o := off.toNat
    let desired := o + len
    let r : Res := if baseErr then .base else .ok
    if desired ≤ fsize then (st, { res := r, baseCalled := true, n := n })
    else if st.bytesRemaining < desired - fsize then (st, { res := .invalid, baseCalled := false })
    else
      let rem := st.bytesRemaining - (desired - fsize)
      let actual0 := if n > 0 then o + n else 0
      let actual := if actual0 < fsize then fsize else actual0
      let rem := if actual < desired then rem + (desired - actual) else rem
      ({ st with bytesRemaining := rem, files := setSize st.files id actual },
       { res := r, baseCalled := true, n := n })

/-- `(*quotaEnforcingFile).Close` -/
def close (st : State) (id : Nat) (fsize : Nat) (baseErr : Bool) : State × Out :=
  ({ st with filesRemaining := st.filesRemaining + 1, bytesRemaining := st.bytesRemaining + fsize,
             files := remove st.files id },
   { res := if baseErr then .base else .ok, baseCalled := true })

/-- An operation is admissible in a state: it names an open file, and the base
never reports more bytes written than it was given. -/
def Op.admissible (st : State) : Op → Bool
  | .newFile _ _ => true
  | .truncate id _ _ => (lookup st.files id).isSome
  | .writeAt id _ len n _ => (lookup st.files id).isSome && decide (n ≤ len)
  | .close id _ => (lookup st.files id).isSome

/-- One step; `none` when the operation is not admissible (unknown file, `n > len`). -/
def step (st : State) (op : Op) : Option (State × Out) :=
  match op with
  | .newFile size baseOk => some (newFile st size baseOk)
  | .truncate id size baseOk =>
    match lookup st.files id with
    | some fsize => some (truncate st id fsize size baseOk)
    | none => none
  | .writeAt id off len n baseErr =>
    match lookup st.files id with
    | some fsize => if n ≤ len then some (writeAt st id fsize off len n baseErr) else none
    | none => none
  | .close id baseErr =>
    match lookup st.files id with
    | some fsize => some (close st id fsize baseErr)
    | none => none

/-- Run a history, skipping inadmissible operations. -/
def run (st : State) : List Op → State
  | [] => st
  | op :: rest =>
    match step st op with
    | some r => run r.1 rest
    | none => run st rest

/-- Close every open file (with arbitrary base outcomes `errs`). -/
def closeAll (st : State) (errs : Nat → Bool) : State :=
  run st (st.files.map (fun f => Op.close f.1 (errs f.1)))

end BbRe.Quota
