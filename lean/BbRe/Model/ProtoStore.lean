/-
Model of `pkg/blobstore/blob_access_mutable_proto_store.go` (C07 part (c):
persistence of size-class statistics), at *segment* level: one model step per
lock-held section of the Go code.

Go                                               model
------------------------------------------------ ---------------------------------
`Get`, first `ss.lock` section (lookup,          `Op.getBegin g d`
  `increaseUseCount`, dequeue ≤ 3 handles)
completion of `initialSizeClassCache.Get`        `Op.readDone g ok`
  (no lock; `proto.Merge` into the private        (`ok` = served from the backing
  new handle; NotFound = empty message)            store, absent = empty message)
completion of one `initialSizeClassCache.Put`    `Op.putDone g h outcome`
  + its `ss.lock` section
`group.Wait()` returned + last lock section      `Op.getEnd g`
`Release(isDirty)`                               `Op.release h dirty`

State (struct of arrays; handle objects are numbered in the order in which they
are inserted into `ss.handles`):
`map` = `ss.handles` (digest ↦ handle), `queue` = `ss.handlesToWrite` (same
order as the Go slice, dequeued from the end), per handle `useCount`,
`written`/`current` (= `writtenVersion`/`currentVersion`), `idx` =
`handlesToWriteIndex` (`none` = -1), `wg` = `writeInFlight` (plus, as a ghost,
which Get performs the write), `msg` = the handle's message abstracted to the id
of the latest update it contains (0 = empty message; update ids are handed out
by `release … dirty`, strictly increasing).  `gets` = the in-flight calls of
`Get` with their local variables (`hasExistingHandle`/`handleToReturn`, the
message read, the `handlesToWrite` slice with snapshots and `writingVersion`s,
whether the errgroup has failed).  `store` = the backing Initial Size Class
Cache (digest ↦ latest update id contained, 0 = absent).
Ghosts: `held` (handles returned by `Get` and not yet released, per handle),
`latest` (per digest the last update released dirty), `nextUpd`.

`Config.legacyVersioning` restores the rule before commit 1d6ae12
(`currentVersion = writtenVersion + 1`); `Config.writeGuard = false` removes the
`writeInFlight` guard of commit 6072c9e.  `repoConfig` mirrors the tree.
A Go `panic` ("Handle has bad write index", index out of range) sets `panicked`.
-/
namespace BbRe.ProtoStore

structure Config where
  legacyVersioning : Bool := false
  writeGuard : Bool := true
deriving DecidableEq, Repr

/-- The code as it is in /repo. -/
def repoConfig : Config := {}

/-- One element of the local `handlesToWrite` slice of `Get`. -/
structure Write where
  h : Nat      -- handle
  msg : Nat    -- proto.Clone snapshot
  ver : Nat    -- writingVersion
deriving DecidableEq, Repr

structure GetRec where
  digest : Nat
  existing : Option Nat   -- hasExistingHandle / handleToReturn found in the first section
  readPending : Bool
  readMsg : Nat           -- message of the private new handle
  writes : List Write     -- Puts still in flight
  failed : Bool           -- errgroup has an error
  need : Nat := 0         -- ghost: the latest update of the digest if the store lacked it when Get started
deriving DecidableEq, Repr

inductive PutOutcome
  | ok          -- stored, nil returned
  | err         -- not stored, error returned
  | errApplied  -- stored, but an error was returned (e.g. deadline after commit)
deriving DecidableEq, Repr

inductive Op
  | getBegin (g d : Nat)
  | readDone (g : Nat) (ok : Bool)
  | putDone (g h : Nat) (r : PutOutcome)
  | getEnd (g : Nat)
  | release (h : Nat) (dirty : Bool)
deriving DecidableEq, Repr

structure State where
  map : Nat → Option Nat
  hdigest : Nat → Nat
  useCount : Nat → Nat
  written : Nat → Nat
  current : Nat → Nat
  idx : Nat → Option Nat
  msg : Nat → Nat
  wg : Nat → Option Nat
  nextH : Nat
  queue : List Nat
  gets : List (Nat × GetRec)
  store : Nat → Nat
  held : Nat → Nat
  latest : Nat → Nat
  nextUpd : Nat
  panicked : Bool

def init : State where
  map := fun _ => none
  hdigest := fun _ => 0
  useCount := fun _ => 0
  written := fun _ => 0
  current := fun _ => 0
  idx := fun _ => none
  msg := fun _ => 0
  wg := fun _ => none
  nextH := 0
  queue := []
  gets := []
  store := fun _ => 0
  held := fun _ => 0
  latest := fun _ => 0
  nextUpd := 1
  panicked := false

/-- Pointwise update. -/
def upd {α : Type} (f : Nat → α) (k : Nat) (v : α) : Nat → α := fun x => if x = k then v else f x

/-! ### in-flight Gets: association list, first match -/

def lookupG : List (Nat × GetRec) → Nat → Option GetRec
  | [], _ => none
  | (k, r) :: rest, g => if k = g then some r else lookupG rest g

def setG : List (Nat × GetRec) → Nat → GetRec → List (Nat × GetRec)
  | [], g, r => [(g, r)]
  | (k, r0) :: rest, g, r => if k = g then (g, r) :: rest else (k, r0) :: setG rest g r

def eraseG : List (Nat × GetRec) → Nat → List (Nat × GetRec)
  | [], _ => []
  | (k, r0) :: rest, g => if k = g then rest else (k, r0) :: eraseG rest g

/-- Number of in-flight Gets that found handle `h` in the map (`hasExistingHandle`). -/
def refs : List (Nat × GetRec) → Nat → Nat
  | [], _ => 0
  | (_, r) :: rest, h => (if r.existing = some h then 1 else 0) + refs rest h

/-! ### handle methods -/

/-- `increaseUseCount`: bump the count; if queued, remove from the queue by
moving the last element into its slot. -/
def increaseUseCount (s : State) (h : Nat) : State :=
  let s := { s with useCount := upd s.useCount h (s.useCount h + 1) }
  match s.idx h with
  | none => s
  | some i =>
    let newLength := s.queue.length - 1
    match s.queue.getLast? with
    | none => { s with panicked := true }
    | some last =>
      let bad := i ≥ s.queue.length ∨ s.idx last ≠ some newLength
      { s with
        queue := (s.queue.set i last).dropLast
        idx := upd (upd s.idx last (some i)) h none
        panicked := s.panicked || decide bad }

/-- `removeOrQueueForWriteLocked`. -/
def removeOrQueue (cfg : Config) (s : State) (h : Nat) : State :=
  if s.useCount h = 0 ∧ ¬ (cfg.writeGuard = true ∧ s.wg h ≠ none) then
    if s.written h = s.current h then
      { s with map := upd s.map (s.hdigest h) none }
    else if s.idx h = none then
      { s with idx := upd s.idx h (some s.queue.length), queue := s.queue ++ [h] }
    else s
  else s

/-- `decreaseUseCount`. -/
def decreaseUseCount (cfg : Config) (s : State) (h : Nat) : State :=
  removeOrQueue cfg { s with useCount := upd s.useCount h (s.useCount h - 1) } h

/-- One iteration of the dequeue loop of `Get` (for the Get with id `g`, whose
record already exists): pop the last queued handle, snapshot it. -/
def dequeueOne (s : State) (g : Nat) : State :=
  match s.queue.getLast?, lookupG s.gets g with
  | some h, some r =>
    let newLength := s.queue.length - 1
    { s with
      queue := s.queue.dropLast
      idx := upd s.idx h none
      wg := upd s.wg h (some g)
      gets := setG s.gets g { r with writes := r.writes ++ [⟨h, s.msg h, s.current h⟩] }
      panicked := s.panicked || decide (s.idx h ≠ some newLength) }
  | _, _ => s

def writesPerRead : Nat := 3

def dequeueN (s : State) (g : Nat) : Nat → State
  | 0 => s
  | n + 1 => dequeueN (dequeueOne s g) g n

def getBegin (s : State) (g d : Nat) : State :=
  match lookupG s.gets g with
  | some _ => s
  | none =>
    let ex := s.map d
    let need := if s.store d = s.latest d then 0 else s.latest d
    let s := match ex with
      | some h => increaseUseCount s h
      | none => s
    let r : GetRec :=
      { digest := d, existing := ex, readPending := ex.isNone, readMsg := 0, writes := [], failed := false,
        need := need }
    let s := { s with gets := setG s.gets g r }
    dequeueN s g writesPerRead

def readDone (s : State) (g : Nat) (ok : Bool) : State :=
  match lookupG s.gets g with
  | some r =>
    if r.readPending then
      let r' : GetRec := { r with
        readPending := false
        readMsg := if ok then s.store r.digest else r.readMsg
        failed := r.failed || !ok }
      { s with gets := setG s.gets g r' }
    else s
  | none => s

def findWrite (ws : List Write) (h : Nat) : Option Write := ws.find? (fun w => w.h == h)

def putDone (cfg : Config) (s : State) (g h : Nat) (o : PutOutcome) : State :=
  match lookupG s.gets g with
  | some r =>
    match findWrite r.writes h with
    | some w =>
      let r' : GetRec := { r with writes := r.writes.filter (fun w' => w'.h != h), failed := r.failed || decide (o ≠ .ok) }
      -- the store applies the Put (unless it failed without effect); then, under the lock:
      -- `writeInFlight = false`, on success `writtenVersion = writingVersion`, `removeOrQueueForWriteLocked`
      let s := { s with
        gets := setG s.gets g r'
        store := if o = .err then s.store else upd s.store (s.hdigest h) w.msg
        wg := upd s.wg h none
        written := if o = .ok then upd s.written h w.ver else s.written }
      removeOrQueue cfg s h
    | none => s
  | none => s

def getEnd (cfg : Config) (s : State) (g : Nat) : State :=
  match lookupG s.gets g with
  | some r =>
    if r.readPending = true ∨ r.writes ≠ [] then s else
    let s := { s with gets := eraseG s.gets g }
    if r.failed then
      match r.existing with
      | some h => decreaseUseCount cfg s h
      | none => s
    else
      match r.existing with
      | some h => { s with held := upd s.held h (s.held h + 1) }
      | none =>
        match s.map r.digest with
        | some e =>
          let s := increaseUseCount s e
          { s with held := upd s.held e (s.held e + 1) }
        | none =>
          let n := s.nextH
          { s with
            map := upd s.map r.digest (some n)
            hdigest := upd s.hdigest n r.digest
            useCount := upd s.useCount n 1
            written := upd s.written n 0
            current := upd s.current n 0
            idx := upd s.idx n none
            msg := upd s.msg n r.readMsg
            wg := upd s.wg n none
            held := upd s.held n 1
            nextH := n + 1 }
  | none => s

/-- The handle a successful `getEnd` returns (`handleToReturn`). -/
def getEndHandle (s : State) (r : GetRec) : Nat :=
  match r.existing with
  | some h => h
  | none =>
    match s.map r.digest with
    | some e => e
    | none => s.nextH

def release (cfg : Config) (s : State) (h : Nat) (dirty : Bool) : State :=
  if s.held h = 0 then s else
  let s := { s with
    held := upd s.held h (s.held h - 1)
    current := if dirty then
        upd s.current h (if cfg.legacyVersioning then s.written h + 1 else s.current h + 1)
      else s.current
    msg := if dirty then upd s.msg h s.nextUpd else s.msg
    latest := if dirty then upd s.latest (s.hdigest h) s.nextUpd else s.latest
    nextUpd := if dirty then s.nextUpd + 1 else s.nextUpd }
  decreaseUseCount cfg s h

def step (cfg : Config) (s : State) : Op → State
  | .getBegin g d => getBegin s g d
  | .readDone g ok => readDone s g ok
  | .putDone g h o => putDone cfg s g h o
  | .getEnd g => getEnd cfg s g
  | .release h dirty => release cfg s h dirty

def run (cfg : Config) (ops : List Op) : State := ops.foldl (step cfg) init

/-! ### Draining (composite of the steps above; used to state "eventually written") -/

/-- All Puts of `Get` `g` succeed, one after the other. -/
def putAllOk (cfg : Config) (g : Nat) : State → List Write → State
  | s, [] => s
  | s, w :: ws => putAllOk cfg g (putDone cfg s g w.h .ok) ws

/-- All clients have released their handles and no `Get` is in flight. -/
def quiescent (s : State) : Prop := s.gets = [] ∧ ∀ h, s.held h = 0

/-- A whole `Get(e)` whose backing calls all succeed, run without interference,
followed by a clean `Release` of the handle it returned. -/
def fullGetRelease (cfg : Config) (s : State) (g e : Nat) : State :=
  let s := getBegin s g e
  let s := readDone s g true
  let s := match lookupG s.gets g with
    | some r => putAllOk cfg g s r.writes
    | none => s
  match lookupG s.gets g with
  | some r => release cfg (getEnd cfg s g) (getEndHandle s r) false
  | none => s

/-- `drain cfg e s gs`: one `fullGetRelease` per `Get` id in `gs`. -/
def drain (cfg : Config) (e : Nat) : State → List Nat → State
  | s, [] => s
  | s, g :: gs => drain cfg e (fullGetRelease cfg s g e) gs

end BbRe.ProtoStore
