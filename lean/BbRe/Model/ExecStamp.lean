import BbRe.Model.SusClock
/-!
# The rest of the timeout path (property C11): stamping and the ways a run stage ends

Core Lean only (linked into `drv_execstamp`).

## (a) `pkg/builder/timestamped_build_executor.go`, `(*timestampedBuildExecutor).Execute`

| definition     | mirrors                                                                          |
|----------------|----------------------------------------------------------------------------------|
| `Ts`           | `timestamppb.Timestamp` (`seconds`, `nanos`); `Ts.ofNs` = `timestamppb.New(time.Unix(0,n))`, `Ts.ns` = `AsTime()` in ns |
| `Meta`         | the timing fields of `remoteexecution.ExecutedActionMetadata`                    |
| `W`            | the locals `metadata` and `completedTimestamp` (`cur` = which field the pointer designates, `none` = nil) |
| `W.start`      | `metadata := {QueuedTimestamp: request.QueuedTimestamp, WorkerStartTimestamp: now}` |
| `W.complete`   | `if completedTimestamp != nil { *completedTimestamp = now }`                     |
| `W.update`     | `case update := <-baseUpdates` (complete the previous stage, start the next one by the *type* of `update.ExecutionState`; any other type, incl. nil: `completedTimestamp = nil`) |
| `mergeTs`, `merge` | `proto.Merge(baseMetadata, &metadata)`: a message field that is nil in the source keeps the destination; one that is nil in the destination is copied; when both are set the *scalar fields* of the Timestamp are merged one by one, and a proto3 scalar that is zero in the source is not populated, i.e. keeps the destination's value |
| `fallback`     | `if VirtualExecutionDuration == nil && ExecutionStartTimestamp != nil && ExecutionCompletedTimestamp != nil { … = Completed.AsTime().Sub(Start.AsTime()) }` |
| `W.finish`     | `case response := <-baseCompletion`                                              |
| `stamp`        | the whole call: the values `be.clock.Now()` returned at entry, at the receipt of every update and at the receipt of the completion are inputs |

`now` is read when the wrapper *receives* an update, before it forwards it on
the unbuffered `executionStateUpdates` channel; while the forward blocks the
inner executor blocks in its next send, so the next reading is taken when the
consumer has taken the previous update (the harness exercises that).
`time.Time.Sub` saturates at ±2^63 ns; not modelled (`Int`).

## (b), (c) `localBuildExecutor.Execute`, run stage, every way it can end

```go
ctxWithIOError, cancelIOError := context.WithCancel(ctx)
ioErrorCapturer := capturingErrorLogger{cancel: cancelIOError}      // Log(err): first error stored, cancelIOError()
…
ctxWithTimeout, cancelTimeout := be.clock.NewContextWithTimeout(ctxWithIOError, executionTimeout)
runResponse, runErr := be.runner.Run(ctxWithTimeout, …)
cancelTimeout(); <-ctxWithTimeout.Done()
if err := ioErrorCapturer.GetError(); err != nil { attachErrorToExecuteResponse(response, StatusWrap(err, …)) }   // first error wins
if runErr == nil { ExitCode = … } else { attachErrorToExecuteResponse(response, StatusWrap(runErr, …)) }
if d, ok := ctxWithTimeout.Value(UnsuspendedDurationKey{}).(time.Duration); ok { VirtualExecutionDuration = d }
```
`Ender` is what ends the run stage if the timeout does not: the command ends
(`exit`), the runner fails with an error of its own (`failed code`), the context
handed to `Execute` is done (`outer err`: `ctx.Err()`), an I/O error is logged on
the build directory (`ioError code`).  All four cancel the base context of the
`SuspendableClock` context (the last three through the parent chain
`ctx → ctxWithIOError → base context`, the first through `cancelTimeout()`), so
the clock sees one `Cancel` at the instant of the first of them; what differs
is the status.  `suspendableContext.Err()` is `baseContext.Err()` = the
parent's error for a cancellation and `context.DeadlineExceeded` for the
timeout and for the cap; the runner client returns
`status.FromContextError(ctx.Err())` (`ctxErrCode`).  gRPC codes are numbers
(`OK` 0, `CANCELLED` 1, `UNKNOWN` 2, `DEADLINE_EXCEEDED` 4, `INTERNAL` 13).
-/
namespace BbRe.ExecStamp
open BbRe.SusClock

/-! ## (a) stamping -/

structure Ts where
  sec   : Nat
  nanos : Nat
deriving Repr, DecidableEq, Inhabited

def Ts.ofNs (n : Nat) : Ts := ⟨n / 1000000000, n % 1000000000⟩

def Ts.ns (t : Ts) : Nat := t.sec * 1000000000 + t.nanos

structure Meta where
  queued      : Option Ts := none
  workerStart : Option Ts := none
  workerDone  : Option Ts := none
  fetchStart  : Option Ts := none
  fetchDone   : Option Ts := none
  execStart   : Option Ts := none
  execDone    : Option Ts := none
  uploadStart : Option Ts := none
  uploadDone  : Option Ts := none
  virt        : Option Int := none   -- virtual_execution_duration in ns
deriving Repr, DecidableEq, Inhabited

/-- Type of `update.ExecutionState`. -/
inductive Stage where
  | fetching | running | uploading | other
deriving Repr, DecidableEq

/-- Which `…CompletedTimestamp` field `completedTimestamp` points to. -/
inductive Slot where
  | fetch | exec | upload
deriving Repr, DecidableEq

structure W where
  md   : Meta
  cur  : Option Slot
deriving Repr, DecidableEq

def W.start (queued : Option Ts) (now : Ts) : W :=
  ⟨{ queued := queued, workerStart := some now }, none⟩

def W.complete (w : W) (now : Ts) : Meta :=
  match w.cur with
  | none => w.md
  | some .fetch => { w.md with fetchDone := some now }
  | some .exec => { w.md with execDone := some now }
  | some .upload => { w.md with uploadDone := some now }

def W.update (w : W) (st : Stage) (now : Ts) : W :=
  let m := w.complete now
  match st with
  | .fetching => ⟨{ m with fetchStart := some now }, some .fetch⟩
  | .running => ⟨{ m with execStart := some now }, some .exec⟩
  | .uploading => ⟨{ m with uploadStart := some now }, some .upload⟩
  | .other => ⟨m, none⟩

/-- `proto.Merge` on one Timestamp-typed field. -/
def mergeTs (dst src : Option Ts) : Option Ts :=
  match src, dst with
  | none, d => d
  | some s, none => some s
  | some s, some d => some ⟨if s.sec = 0 then d.sec else s.sec, if s.nanos = 0 then d.nanos else s.nanos⟩

/-- `proto.Merge(baseMetadata, &metadata)`; the wrapper's `metadata` never has a virtual duration. -/
def merge (dst src : Meta) : Meta :=
  { queued := mergeTs dst.queued src.queued
    workerStart := mergeTs dst.workerStart src.workerStart
    workerDone := mergeTs dst.workerDone src.workerDone
    fetchStart := mergeTs dst.fetchStart src.fetchStart
    fetchDone := mergeTs dst.fetchDone src.fetchDone
    execStart := mergeTs dst.execStart src.execStart
    execDone := mergeTs dst.execDone src.execDone
    uploadStart := mergeTs dst.uploadStart src.uploadStart
    uploadDone := mergeTs dst.uploadDone src.uploadDone
    virt := match src.virt with | none => dst.virt | some v => some v }

/-- The wall-time fallback. -/
def fallback (m : Meta) : Meta :=
  match m.virt, m.execStart, m.execDone with
  | none, some s, some c => { m with virt := some ((c.ns : Int) - (s.ns : Int)) }
  | _, _, _ => m

def W.finish (w : W) (now : Ts) (base : Meta) : Meta :=
  fallback (merge base { w.complete now with workerDone := some now })

/-- The wrapper's state after the updates `ups` (stage, reading of the clock at receipt). -/
def W.run (w : W) (ups : List (Stage × Ts)) : W := ups.foldl (fun w u => w.update u.1 u.2) w

/-- `Execute`: reading `t0` at entry, `ups`, reading `tEnd` at the receipt of the inner
executor's response whose metadata is `base`. -/
def stamp (queued : Option Ts) (t0 : Ts) (ups : List (Stage × Ts)) (tEnd : Ts) (base : Meta) : Meta :=
  ((W.start queued t0).run ups).finish tEnd base

/-- Readings of a monotone clock, starting at `lo` (in ns). -/
def readingsFrom (lo : Nat) : List (Stage × Ts) → Nat → Bool
  | [], hi => decide (lo ≤ hi)
  | u :: rest, hi => decide (lo ≤ u.2.ns) && readingsFrom u.2.ns rest hi

/-- The inner executor set none of the stamps the wrapper writes (`NewDefaultExecuteResponse`
and `localBuildExecutor` never do). -/
def Meta.noStamps (m : Meta) : Prop :=
  m.workerStart = none ∧ m.workerDone = none ∧ m.fetchStart = none ∧ m.fetchDone = none ∧
  m.execStart = none ∧ m.execDone = none ∧ m.uploadStart = none ∧ m.uploadDone = none

/-! ## (b), (c) how the run stage ends -/

/-- `ctx.Err()` of the context handed to `Execute`. -/
inductive CtxErr where
  | canceled | deadlineExceeded
deriving Repr, DecidableEq

/-- `status.FromContextError`. -/
def ctxErrCode : CtxErr → Nat
  | .canceled => 1
  | .deadlineExceeded => 4

inductive Ender where
  | exit (code : Nat)      -- `runner.Run` returns a `RunResponse`
  | failed (code : Nat)    -- `runner.Run` returns an error of its own with this gRPC code
  | outer (e : CtxErr)     -- the context handed to `Execute` is done
  | ioError (code : Nat)   -- `ioErrorCapturer.Log(err)`, `status.Convert(err).Code()`
deriving Repr, DecidableEq

/-- The first thing other than the timeout that ends the run stage (`pre`: it wins a tie
against a timer expiry at the same instant). -/
structure End where
  t    : Nat
  pre  : Bool
  what : Ender
deriving Repr, DecidableEq

/-- Code of `ExecuteResponse.status` when `e` ended the run stage: the I/O error is attached
first, then `runErr` (only the first error sticks). -/
def enderCode : Ender → Nat
  | .exit _ => 0
  | .failed c => c
  | .outer e => ctxErrCode e
  | .ioError c => c

def enderExit : Ender → Option Nat
  | .exit c => some c
  | _ => none

structure XResult where
  status   : Nat          -- gRPC code of `ExecuteResponse.status`
  exitCode : Option Nat   -- `ActionResult.exit_code`, when the runner returned a response
  virt     : Nat          -- `virtual_execution_duration`
  instant  : Nat          -- when the run stage is over
  killed   : Bool         -- the timeout or the cap ended it (the clock context's `Err()` is `DeadlineExceeded`)
deriving Repr, DecidableEq

/-- The run stage of an action with timeout `d` whose command starts at `t0`. -/
def execRunX (P : Params) (tl : List Ev) (t0 d : Nat) (en : Option End) : Option XResult :=
  match fire P tl (en.map fun e => ⟨e.t, e.pre⟩) t0 d with
  | .done r =>
    match r.reason, en with
    | .cancelled, some e => some ⟨enderCode e.what, enderExit e.what, r.dur, r.instant, false⟩
    | _, _ => some ⟨4, none, r.dur, r.instant, true⟩
  | _ => none

/-- The timing part of what `timestampedBuildExecutor(localBuildExecutor)` reports for an action
whose stages are taken by the consumer without a hold: readings `a0` (entry), `a1` (FetchingInputs),
`a2` (Running), `a3` (UploadingOutputs), `a4` (response) of the base clock, the command starting at
`t0` on the suspendable clock over the same base clock. -/
def stampedRun (P : Params) (tl : List Ev) (t0 d : Nat) (en : Option End) (q : Option Ts)
    (a0 a1 a2 a3 a4 : Nat) : Option (XResult × Meta) :=
  (execRunX P tl t0 d en).map fun o =>
    (o, stamp q (Ts.ofNs a0) [(.fetching, Ts.ofNs a1), (.running, Ts.ofNs a2), (.uploading, Ts.ofNs a3)]
      (Ts.ofNs a4) { virt := some (o.virt : Int) })

end BbRe.ExecStamp
