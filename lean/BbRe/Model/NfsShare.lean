/-
Share-reservation algebra of the NFSv4 servers (C18).

Mirrors `pkg/filesystem/virtual/nfsv4/nfs40_program.go`:

* `Mask`            – `virtual.ShareMask` (bit `r` = `ShareMaskRead`, bit `w` = `ShareMaskWrite`)
* `ShareCount`      – `type shareCount struct { readers, writers referenceCount }` (l. 2358)
* `upgrade`         – `func (sc *shareCount) upgrade(shareAccess *ShareMask, newShareAccess ShareMask) ShareMask` (l. 2366)
* `downgrade`       – `func (sc *shareCount) downgrade(shareAccess *ShareMask, newShareAccess ShareMask) ShareMask` (l. 2391)
* `clone`           – `func (sc *shareCount) clone(shareAccess ShareMask) ShareMask` (l. 2405)

`referenceCount.increase` / `.decrease` panic when the counter is `<= 0`
("Attempted to increase/decrease zero reference count"); the functions that
use them return `none` for a panic.  `upgrade` increments with a plain `++`
(no check), exactly as the Go code does.  Both programs (4.0 and 4.1) use the
same `shareCount` type.

Every function is defined bit by bit (`upBit`, `downBit`, `cloneBit`): the Go
code is two copies of the same statement, one for `readers` and one for
`writers`.  Core Lean only.
-/
namespace BbRe.NfsShare

/-- `virtual.ShareMask`. -/
structure Mask where
  r : Bool
  w : Bool
deriving DecidableEq, Repr, Inhabited

namespace Mask

def none : Mask := ⟨false, false⟩
def read : Mask := ⟨true, false⟩
def write : Mask := ⟨false, true⟩
def both : Mask := ⟨true, true⟩

/-- `ShareMaskRead = 1`, `ShareMaskWrite = 2`. -/
def ofNat (n : Nat) : Mask := ⟨n % 2 == 1, (n / 2) % 2 == 1⟩
def toNat (m : Mask) : Nat := (if m.r then 1 else 0) + (if m.w then 2 else 0)

/-- `a | b` -/
def union (a b : Mask) : Mask := ⟨a.r || b.r, a.w || b.w⟩
/-- `a &^ b` -/
def diff (a b : Mask) : Mask := ⟨a.r && !b.r, a.w && !b.w⟩
/-- `m == 0` -/
def isNone (m : Mask) : Bool := !m.r && !m.w
/-- `a &^ b == 0` -/
def subset (a b : Mask) : Bool := (a.diff b).isNone

/-- Bit selector: `false` = read bit, `true` = write bit. -/
def get (m : Mask) (bit : Bool) : Bool := if bit then m.w else m.r

end Mask

/-- `shareCount`. -/
structure ShareCount where
  readers : Nat
  writers : Nat
deriving DecidableEq, Repr, Inhabited

namespace ShareCount
def zero : ShareCount := ⟨0, 0⟩
def get (sc : ShareCount) (bit : Bool) : Nat := if bit then sc.writers else sc.readers
def isZero (sc : ShareCount) : Bool := sc.readers == 0 && sc.writers == 0
end ShareCount

/-- One bit of `upgrade`: `(new counter, overlap bit)`.
```
if newShareAccess&bit != 0 {
    if sc.counter > 0 { overlap |= bit }
    if *shareAccess&bit == 0 { sc.counter++ }
}
``` -/
def upBit (cnt : Nat) (cur new : Bool) : Nat × Bool :=
  (if new && !cur then cnt + 1 else cnt, new && decide (0 < cnt))

/-- One bit of `downgrade`: `none` = `decrease` panics; else `(new counter, becameZero bit)`.
```
if cleared&bit != 0 && sc.counter.decrease() { becameZero |= bit }
``` -/
def downBit (cnt : Nat) (cur new : Bool) : Option (Nat × Bool) :=
  if cur && !new then
    if cnt = 0 then none else some (cnt - 1, decide (cnt - 1 = 0))
  else some (cnt, false)

/-- One bit of `clone`: `none` = `increase` panics.
```
if shareAccess&bit != 0 { sc.counter.increase() }
``` -/
def cloneBit (cnt : Nat) (b : Bool) : Option Nat :=
  if b then (if cnt = 0 then none else some (cnt + 1)) else some cnt

/-- `upgrade`: returns the new counters, the new `*shareAccess` and the overlap
(the bits that were opened redundantly and have to be closed again). -/
def upgrade (sc : ShareCount) (cur new : Mask) : ShareCount × Mask × Mask :=
  let r := upBit sc.readers cur.r new.r
  let w := upBit sc.writers cur.w new.w
  (⟨r.1, w.1⟩, cur.union new, ⟨r.2, w.2⟩)

/-- `downgrade`: `none` = panic; else the new counters and `becameZero` (the bits
nobody holds any more: the leaf has to be closed for them).  `*shareAccess`
becomes `new`. -/
def downgrade (sc : ShareCount) (cur new : Mask) : Option (ShareCount × Mask) :=
  match downBit sc.readers cur.r new.r, downBit sc.writers cur.w new.w with
  | some r, some w => some (⟨r.1, w.1⟩, ⟨r.2, w.2⟩)
  | _, _ => none

/-- `clone`: `none` = panic; else the new counters (the returned mask is the
argument). -/
def clone (sc : ShareCount) (m : Mask) : Option ShareCount :=
  match cloneBit sc.readers m.r, cloneBit sc.writers m.w with
  | some r, some w => some ⟨r, w⟩
  | _, _ => none

end BbRe.NfsShare
