import BbRe.Model.FilePool
import BbRe.Model.Bitmap
import BbRe.Model.Quota
/-!
# The composed file pool: quota pool over block-device pool over bitmap allocator

`pool.NewQuotaEnforcingFilePool(pool.NewBlockDeviceBackedFilePool(dev, pool.NewBitmapSectorAllocator(n), ss), maxFiles, maxBytes)`
as ONE transition system, built from the three existing models without changing them:

* `Model/FilePool.lean` takes the `SectorAllocator`'s answers as an oracle list.  Here the list is
  *computed*: `answers` replays the file layer's `WriteAt` and, each time it runs out of answers,
  asks `Bitmap.alloc` (the word-level model of `bitmap_sector_allocator.go`) with the `maximum` the
  file layer requests at that point (`nextMax`, the argument `writeToNewSectors` passes to
  `AllocateContiguous`), and appends what the bitmap returned.  (Only `WriteAt` allocates; within one
  `WriteAt` no free precedes an allocation: every error path that frees also returns.)
* what the file layer gives back (`FreeContiguous` on the error paths of `writeToNewSectors`,
  `FreeList` in `truncateSectors` / `Close`) is applied to the bitmap after the call (`syncFree`):
  exactly the sectors that were held before or handed out during the call and are not held after it.
  The two Go entry points differ only in how they walk the bitmap; both clear the same bits and leave
  `nextSector` alone, and the harness's recording allocator forwards them sector by sector anyway.
  A free that makes the bitmap model panic (double free), or a file layer that holds a sector it was
  never handed, sets the sticky flag `broken` (compared with the real stack after every operation:
  never set there).
* `Model/Quota.lean` takes the base pool's results as step inputs.  Here they are the results of the
  file layer: `step` first asks the quota model whether the base is called at all (quota reached,
  negative argument, `Truncate` to the current size), runs the base, and feeds its outcome
  (`n`, error or not) to `Quota.step`.  `blockDeviceBackedFilePool.NewFile` cannot fail, so
  `NewFile` is `Quota.newFile … true`.  `ReadAt` / `GetNextRegionOffset` / `Len` go straight to the
  embedded base file.

File ids: the quota model numbers successful `NewFile`s, the file model appends one entry per
`NewFile` it sees, and it only sees the successful ones — the same numbers.

Fault inputs of a step (`Inputs`): the fault plan of `Model/FilePool.lean` for the device and the hole
source, plus `ax`: the `k`-th `AllocateContiguous` of the call is refused by the environment without
reaching the bitmap (the harness's injected `ENOSPC`); a full bitmap refuses by itself.

Core Lean only.
-/
namespace BbRe.PoolStack
open BbRe BbRe.FilePool

structure State where
  fp : FilePool.State
  bm : Bitmap.State
  q : Quota.State
  /-- sticky: the bitmap model panicked (double free / out of range), or the base reported more
  bytes than it was given -/
  broken : Bool
deriving Inhabited

/-- the three constructors, stacked -/
def init (c : Cfg) (maxFiles maxBytes : Nat) : State :=
  { fp := FilePool.init c, bm := Bitmap.new c.nsec, q := Quota.init maxFiles maxBytes, broken := false }

structure Inputs where
  faults : Faults := {}
  ax : Option Nat := none
deriving Inhabited

/-- the sectors handed out by a list of allocator answers -/
def ansSectors : List AllocAns → List Nat
  | [] => []
  | .range first count :: rest => List.range' first count ++ ansSectors rest
  | .fail :: rest => ansSectors rest

/-- The `maximum` of the next `AllocateContiguous` call of `WriteAt(p, o)` on a file that was `f0`
when the call started and is `fcur` after `done` bytes have been written: the argument
`writeToSectors` / `writeToNewSectors` compute (`(ow + len(p) + ss - 1) / ss`, with `p` limited to
the run of holes when the position is inside the sector list). -/
def nextMax (c : Cfg) (f0 fcur : File) (p : List Byte) (o done : Nat) : Nat :=
  let pos := o + done
  let idx := pos / c.ss
  let ow := pos % c.ss
  let rest := p.drop done
  let endIdx := min ((o + p.length + c.ss - 1) / c.ss) f0.sectors.length
  if idx ≥ fcur.sectors.length then (ow + rest.length + c.ss - 1) / c.ss
  else
    let sc := contig fcur.sectors idx endIdx
    (ow + (rest.take (sc.2 * c.ss - ow)).length + c.ss - 1) / c.ss

/-- The allocator answers of one `WriteAt`, produced by the bitmap model: replay the file layer with
the answers found so far; when it stops for want of an answer, issue the request to the bitmap. -/
def answers (c : Cfg) (f : File) (e0 : Env) (p : List Byte) (off : Int) (ax : Option Nat) :
    Nat → Bitmap.State → List AllocAns → Bitmap.State × List AllocAns
  | 0, bm, as => (bm, as)
  | fuel + 1, bm, as =>
    let r := writeAt c f { e0 with answers := as } p off
    if r.2.2.2 = some .oracle ∧ r.2.1.answers.isEmpty then
      if ax = some as.length then (bm, as ++ [.fail])
      else
        let m := nextMax c f r.1 p off.toNat r.2.2.1
        if m = 0 then (bm, as)
        else
          match Bitmap.alloc bm m with
          | (bm', some (first, count)) => answers c f e0 p off ax fuel bm' (as ++ [.range first count])
          | (bm', none) => (bm', as ++ [.fail])
    else (bm, as)

/-- give back to the bitmap what the file layer no longer holds (`held`: what it held before the call
plus what it was handed during the call).  The flag is raised when the bitmap model panics, or when
the file layer claims a sector it neither held nor was handed. -/
def syncFree (bm : Bitmap.State) (held after : List Nat) : Bitmap.State × Bool :=
  if after.all (fun s => held.contains s) then
    match Bitmap.freeList bm (held.filter fun s => !after.contains s) with
    | some bm' => (bm', false)
    | none => (bm, true)
  else (bm, true)

/-- the allocator answers for one call of the file layer -/
def answersFor (st : State) (op : Op) (inp : Inputs) : Bitmap.State × List AllocAns :=
  match op with
  | .write i off p =>
    match st.fp.file? i with
    | some f =>
      answers st.fp.cfg f (st.fp.env { answers := [], faults := inp.faults }) p off inp.ax (p.length + 2) st.bm []
    | none => (st.bm, [])
  | _ => (st.bm, [])

/-- One call into the block-device-backed pool on top of the bitmap allocator:
new state, the file layer's output, the allocator answers that were produced. -/
def base (st : State) (op : Op) (inp : Inputs) : State × Out × List AllocAns :=
  let a := answersFor st op inp
  let r := FilePool.step st.fp op { answers := a.2, faults := inp.faults }
  let s := syncFree a.1 (ansSectors a.2 ++ st.fp.allocd) r.1.allocd
  ({ st with fp := r.1, bm := s.1, broken := st.broken || s.2 }, r.2, a.2)

inductive SOut
  /-- the base file / base pool was called; its result is passed on -/
  | out (o : Out)
  /-- `codes.InvalidArgument` from the quota layer (quota reached, negative argument) -/
  | quota
  /-- `Truncate` to the current size: success without a base call -/
  | okNoBase
  | noFile
deriving Inhabited

def SOut.isOk : SOut → Bool
  | .out (.created _) => true
  | .out (.wrote _ none) => true
  | .out (.done none) => true
  | .okNoBase => true
  | _ => false

/-- feed the base's outcome to the quota model -/
def settle (r : State × Out × List AllocAns) (q : Quota.State) (qop : Quota.Op) : State × SOut × List AllocAns :=
  match Quota.step q qop with
  | some qr => ({ r.1 with q := qr.1 }, .out r.2.1, r.2.2)
  | none => ({ r.1 with broken := true }, .out r.2.1, r.2.2)

def step (st : State) (op : Op) (inp : Inputs) : State × SOut × List AllocAns :=
  match op with
  | .new _ size =>
    let pre := Quota.newFile st.q size true
    if pre.2.res = .ok then
      let r := base st op inp
      ({ r.1 with q := pre.1 }, .out r.2.1, r.2.2)
    else (st, .quota, [])
  | .read i _ _ | .seek i _ _ | .len i =>
    match Quota.lookup st.q.files i with
    | some _ =>
      let r := base st op inp
      (r.1, .out r.2.1, r.2.2)
    | none => (st, .noFile, [])
  | .write i off p =>
    match Quota.lookup st.q.files i with
    | some fsize =>
      if (Quota.writeAt st.q i fsize off p.length 0 false).2.baseCalled then
        let r := base st op inp
        match r.2.1 with
        | .wrote n err => settle r st.q (.writeAt i off p.length n err.isSome)
        | _ => (r.1, .out r.2.1, r.2.2)
      else (st, .quota, [])
    | none => (st, .noFile, [])
  | .trunc i size =>
    match Quota.lookup st.q.files i with
    | some fsize =>
      let pre := Quota.truncate st.q i fsize size true
      if pre.2.baseCalled then
        let r := base st op inp
        match r.2.1 with
        | .done err => settle r st.q (.truncate i size err.isNone)
        | _ => (r.1, .out r.2.1, r.2.2)
      else (st, if pre.2.res = .ok then .okNoBase else .quota, [])
    | none => (st, .noFile, [])
  | .close i =>
    match Quota.lookup st.q.files i with
    | some _ =>
      let r := base st op inp
      match r.2.1 with
      | .done err => settle r st.q (.close i err.isSome)
      | _ => (r.1, .out r.2.1, r.2.2)
    | none => (st, .noFile, [])

def run (st : State) : List (Op × Inputs) → State
  | [] => st
  | (op, inp) :: rest => run (step st op inp).1 rest

/-- number of free sectors the bitmap reports for a device of `n` sectors -/
def freeSectorCount (st : State) : Nat := (Bitmap.freeSectors st.bm st.fp.cfg.nsec).length

end BbRe.PoolStack
