/-
Lock skeletons (property C14, part a).

`tools/lockskel` translates every function of the anchored Go files into a
`Stmt` (everything that is not a lock operation, a call to another translated
function, or control flow is erased) and writes `BbRe/Generated/LockSkel.lean`.
This file gives

* the IR `Stmt`,
* its path semantics `sem` / `fnSem` / `Exec` (the set of finite event traces
  `acq l` / `rel l` of every terminating, non-panicking path of a function,
  calls executing the callee's body),
* the executable checker `consistent` (an exhaustive symbolic execution over
  (held multiset, flag valuation, lock piles) with a loop-invariance rule and
  per-function summaries `Σ f = (req, post)`).

`BbRe/Properties/C14.lean` proves `checker_sound`:
`consistent Σ prog = true → Exec prog f tr → run (req f) tr = some h' ∧ h' ~ post f`.

How Go constructs are rendered (done by the translator, see tools/lockskel):
* `x.Lock()` / `x.Unlock()` on a `sync.Mutex`/`sync.RWMutex`  ↦ `acq l` / `rel l`, where
  `l` is the number of the canonical text of `x` (`i.lock`, `bq.lock`, …);
  `x.RLock()` / `x.RUnlock()` ↦ `acq l'` / `rel l'` with `l'` the number of `x#R`.
* `lp.Lock(a, b)` / `lp.Unlock(a)` / `lp.UnlockAll()` on a `re_sync.LockPile`
  ↦ `pileLock p a; pileLock p b` / `pileUnlock p a` / `pileUnlockAll p`.
* `defer X; rest` ↦ `fin rest X` (X runs when `rest` completes or returns).
* `if`/`switch`/`select` ↦ `choice` (nondeterministic), `for` ↦ `loop`,
  a `switch`/`select` containing `break` ↦ `block`, an inlined function body or
  an immediately invoked / deferred closure ↦ `scope`.
* a local `bool` only ever assigned constants and tested by `if v`/`if !v`
  (`isLocked` in `txOpen`) ↦ `setFlag` / `ifFlag`.
* a call to a translated function ↦ `call g ren` where `ren` renames the callee's
  lock names (over its receiver/parameters) to the caller's expressions.
Core Lean only.
-/
namespace BbRe.LockSkel

/-- Lock skeleton of a Go function body. Numbers are indices into the generated
name tables; `tag`s are Go source line numbers and have no semantic meaning. -/
inductive Stmt where
  | skip
  | acq (l : Nat)
  | rel (l : Nat)
  | pileLock (p l : Nat)
  | pileUnlock (p l : Nat)
  | pileUnlockAll (p : Nat)
  | call (g : Nat) (ren : List (Nat × Nat))
  | seq (a b : Stmt)
  | choice (tag : Nat) (a b : Stmt)
  | loop (canExit : Bool) (body : Stmt)
  | fin (body d : Stmt)
  | scope (s : Stmt)
  | block (s : Stmt)
  | setFlag (v : Nat) (b : Bool)
  | ifFlag (v : Nat) (a b : Stmt)
  | ret (tag : Nat)
  | brk
  | cont
  | panic
  | unsupported (why : Nat)
  | need (cs : List Nat)
  | mark (kind c : Nat)
deriving DecidableEq, Repr, Inhabited

/-- How a statement ends. -/
inductive Out | norm | ret | brk | cont | pnc
deriving DecidableEq, Repr, Inhabited

/-- Events of a trace. `pacq p l` / `prel p l`: lock `l` is acquired / released through
`LockPile` `p` (the held multiset changes like for `acq l` / `rel l`; the pile is recorded
because `LockPile.Lock` does not block while holding other locks of the same pile). -/
inductive Ev where
  | acq (l : Nat)
  | rel (l : Nat)
  | need (cs : List Nat)
  | pacq (p l : Nat)
  | prel (p l : Nat)
deriving DecidableEq, Repr, Inhabited

/-! ## Lock identifiers carry their guard class

A lock identifier is `1000 * c + k`: `c` is the *guard class* of the lock (the
`package.Type.field` it is an instance of, with the read mode of an `RWMutex` as a class
of its own) and `k < 999` a serial number. `1000 * c + 999` is the *ghost* lock of class
`c`: it never occurs in a lock operation; in the entry requirement of a helper function it
stands for "some lock of class `c`, held by my caller" (e.g. the scheduler lock for the
methods of `task`, `invocation`, `operation`, which have no path to `bq.lock`). -/

def gcls (l : Nat) : Nat := l / 1000
def isGhost (l : Nat) : Bool := l % 1000 == 999
def ghost (c : Nat) : Nat := 1000 * c + 999

/-- Some lock of one of the classes `cs` is held. -/
def holdsClass (h : List Nat) (cs : List Nat) : Bool := h.any (fun l => cs.contains (gcls l))

/-! ## Small finite maps and multisets (shared by the semantics and the checker) -/

/-- Insert into a sorted list (multiset union with a singleton; canonical form). -/
def insertS (l : Nat) : List Nat → List Nat
  | [] => [l]
  | x :: xs => if l ≤ x then l :: x :: xs else x :: insertS l xs

def sortS (xs : List Nat) : List Nat := xs.foldr insertS []

/-- Flag valuation: sorted association list; absent = `false` (Go zero value). -/
def getF : List (Nat × Bool) → Nat → Bool
  | [], _ => false
  | (k, x) :: r, v => if v = k then x else getF r v

def setF : List (Nat × Bool) → Nat → Bool → List (Nat × Bool)
  | [], v, b => [(v, b)]
  | (k, x) :: r, v, b =>
    if v < k then (v, b) :: (k, x) :: r
    else if v = k then (v, b) :: r
    else (k, x) :: setF r v b

/-- Lock piles: sorted association list pile ↦ sorted list of locks; absent = empty. -/
def getP : List (Nat × List Nat) → Nat → List Nat
  | [], _ => []
  | (k, x) :: r, p => if p = k then x else getP r p

def setP : List (Nat × List Nat) → Nat → List Nat → List (Nat × List Nat)
  | [], p, xs => if xs.isEmpty then [] else [(p, xs)]
  | (k, x) :: r, p, xs =>
    if p < k then (if xs.isEmpty then (k, x) :: r else (p, xs) :: (k, x) :: r)
    else if p = k then (if xs.isEmpty then r else (p, xs) :: r)
    else (k, x) :: setP r p xs

/-- The part of a thread's state that control flow can depend on. -/
structure CS where
  flags : List (Nat × Bool)
  piles : List (Nat × List Nat)
deriving DecidableEq, Repr, Inhabited

def CS.init : CS := ⟨[], []⟩

def rn (ren : List (Nat × Nat)) (l : Nat) : Nat :=
  match ren.lookup l with
  | some l' => l'
  | none => l

def rnEv (ren : List (Nat × Nat)) : Ev → Ev
  | .acq l => .acq (rn ren l)
  | .rel l => .rel (rn ren l)
  | .need cs => .need cs
  | .pacq p l => .pacq p (rn ren l)
  | .prel p l => .prel p (rn ren l)

/-! ## Path semantics -/

/-- `scope`: a `return` inside an inlined body / closure ends that body only. -/
def unscope : Out → Out
  | .ret => .norm
  | o => o

/-- `block`: a `break` inside a `switch`/`select` ends that statement only. -/
def unblock : Out → Out
  | .brk => .norm
  | o => o

/-- `n` iterations of a loop whose body has semantics `B`. `ce` says whether the
loop has a condition that can become false (`for {}` has none). -/
def iter (B : CS → List Ev → Out → CS → Prop) (ce : Bool) :
    Nat → CS → List Ev → Out → CS → Prop
  | 0, c, tr, o, c' => ce = true ∧ tr = [] ∧ o = .norm ∧ c' = c
  | n + 1, c, tr, o, c' => ∃ t1 o1 c1, B c t1 o1 c1 ∧
      (((o1 = .norm ∨ o1 = .cont) ∧ ∃ t2, iter B ce n c1 t2 o c' ∧ tr = t1 ++ t2)
       ∨ (o1 = .brk ∧ tr = t1 ∧ o = .norm ∧ c' = c1)
       ∨ ((o1 = .ret ∨ o1 = .pnc) ∧ tr = t1 ∧ o = o1 ∧ c' = c1))

/-- `sem C s c tr o c'`: statement `s`, started in control state `c`, can run to
completion emitting the events `tr`, ending as `o` in control state `c'`.
`C g t` says that callee `g` has a returning run with trace `t`.
Paths that end in a panic (`pnc`) skip deferred statements: nothing is claimed
about them. -/
def sem (C : Nat → List Ev → Prop) : Stmt → CS → List Ev → Out → CS → Prop
  | .skip, c, tr, o, c' => tr = [] ∧ o = .norm ∧ c' = c
  | .acq l, c, tr, o, c' => tr = [.acq l] ∧ o = .norm ∧ c' = c
  | .rel l, c, tr, o, c' => tr = [.rel l] ∧ o = .norm ∧ c' = c
  | .pileLock p l, c, tr, o, c' =>
      tr = [.pacq p l] ∧ o = .norm ∧ c' = { c with piles := setP c.piles p (insertS l (getP c.piles p)) }
  | .pileUnlock p l, c, tr, o, c' =>
      if (getP c.piles p).contains l then
        tr = [.prel p l] ∧ o = .norm ∧ c' = { c with piles := setP c.piles p ((getP c.piles p).erase l) }
      else
        -- `LockPile.Unlock` of a lock that is not in the pile indexes out of range
        tr = [] ∧ o = .pnc ∧ c' = c
  | .pileUnlockAll p, c, tr, o, c' =>
      tr = (getP c.piles p).map (Ev.prel p) ∧ o = .norm ∧ c' = { c with piles := setP c.piles p [] }
  | .call g ren, c, tr, o, c' => ∃ t, C g t ∧ tr = t.map (rnEv ren) ∧ o = .norm ∧ c' = c
  | .seq a b, c, tr, o, c' =>
      (∃ c1 t1 t2, sem C a c t1 .norm c1 ∧ sem C b c1 t2 o c' ∧ tr = t1 ++ t2)
      ∨ (o ≠ .norm ∧ sem C a c tr o c')
  | .choice _ a b, c, tr, o, c' => sem C a c tr o c' ∨ sem C b c tr o c'
  | .loop ce body, c, tr, o, c' => ∃ n, iter (sem C body) ce n c tr o c'
  | .fin body d, c, tr, o, c' => ∃ c1 t1 o1, sem C body c t1 o1 c1 ∧
      ((o1 = .pnc ∧ tr = t1 ∧ o = .pnc ∧ c' = c1)
       ∨ (o1 ≠ .pnc ∧ ∃ t2 o2, sem C d c1 t2 o2 c' ∧ tr = t1 ++ t2 ∧
            o = (if o2 = .pnc then .pnc else o1)))
  | .scope s, c, tr, o, c' => ∃ o1, sem C s c tr o1 c' ∧ o = unscope o1
  | .block s, c, tr, o, c' => ∃ o1, sem C s c tr o1 c' ∧ o = unblock o1
  | .setFlag v b, c, tr, o, c' => tr = [] ∧ o = .norm ∧ c' = { c with flags := setF c.flags v b }
  | .ifFlag v a b, c, tr, o, c' =>
      if getF c.flags v then sem C a c tr o c' else sem C b c tr o c'
  | .ret _, c, tr, o, c' => tr = [] ∧ o = .ret ∧ c' = c
  | .brk, c, tr, o, c' => tr = [] ∧ o = .brk ∧ c' = c
  | .cont, c, tr, o, c' => tr = [] ∧ o = .cont ∧ c' = c
  | .panic, c, tr, o, c' => tr = [] ∧ o = .pnc ∧ c' = c
  | .unsupported _, _, _, _, _ => True   -- anything may happen; the checker rejects it
  | .need cs, c, tr, o, c' => tr = [.need cs] ∧ o = .norm ∧ c' = c
  | .mark _ _, c, tr, o, c' => tr = [] ∧ o = .norm ∧ c' = c

abbrev Prog := List (Nat × Stmt)

def Prog.body (prog : Prog) (f : Nat) : Option Stmt := prog.lookup f

/-- Returning runs of function `f` with call depth `< n`. -/
def fnSem (prog : Prog) : Nat → Nat → List Ev → Prop
  | 0, _, _ => False
  | n + 1, f, tr => ∃ body, prog.body f = some body ∧
      ∃ o c', sem (fnSem prog n) body CS.init tr o c' ∧ (o = .norm ∨ o = .ret)

/-- `Exec prog f tr`: some call of `f` runs to a normal return emitting `tr`
(events of callees included, renamed to the caller's lock names). -/
def Exec (prog : Prog) (f : Nat) (tr : List Ev) : Prop := ∃ n, fnSem prog n f tr

/-! ## Replaying a trace against a held multiset -/

def stepH (h : List Nat) : Ev → Option (List Nat)
  | .acq l => some (l :: h)
  | .rel l => if h.contains l then some (h.erase l) else none
  | .need cs => if holdsClass h cs then some h else none
  | .pacq _ l => some (l :: h)
  | .prel _ l => if h.contains l then some (h.erase l) else none

/-- `run h tr = some h'`: starting with the multiset `h` held, the trace never
releases a lock that is not held, every `need cs` event (a mutation of state guarded by
a lock of one of the classes `cs`) happens while such a lock is held, and the trace ends
holding `h'`. -/
def run : List Nat → List Ev → Option (List Nat)
  | h, [] => some h
  | h, e :: t => match stepH h e with
    | some h1 => run h1 t
    | none => none

/-! ## The checker -/

/-- Abstract state of the checker: held multiset (sorted list) and the exact control state. -/
structure AS where
  held : List Nat
  c : CS
deriving DecidableEq, Repr, Inhabited

inductive Err where
  | underflow (l : Nat)            -- release of a lock that is not held
  | pileMissing (p l : Nat)        -- LockPile.Unlock of a lock not in the pile
  | callReq (g : Nat)              -- callee's entry requirement not held
  | noSig (g : Nat)
  | loopVariant                    -- state at the end of a loop body differs from its start
  | unsupported (why : Nat)
  | unguarded (cs : List Nat)      -- guarded state touched without a lock of one of these classes
  | ghostOp (l : Nat)              -- lock operation on a ghost lock
  | badRen (g : Nat)               -- a call renames a lock to one of another class / a ghost
deriving DecidableEq, Repr, Inhabited

abbrev Outs := List (Out × AS)
abbrev Res := Except Err Outs

def insertNew (x : Out × AS) (l : Outs) : Outs := if l.contains x then l else x :: l

/-- Union without duplicates. -/
def union (a b : Outs) : Outs := a.foldr insertNew b

/-- Continue every outcome of `r` with `k`. -/
def bindAll : Outs → (Out → AS → Res) → Res
  | [], _ => .ok []
  | (o, s) :: rest, k =>
    match k o s with
    | .error e => .error e
    | .ok r1 =>
      match bindAll rest k with
      | .error e => .error e
      | .ok r2 => .ok (union r1 r2)

def removeAll : List Nat → List Nat → Option (List Nat)
  | h, [] => some h
  | h, x :: xs => if h.contains x then removeAll (h.erase x) xs else none

def addAll (h : List Nat) (xs : List Nat) : List Nat := xs.foldr insertS h

/-- Summary table: function ↦ (locks required on entry, locks held on return in their place). -/
abbrev Sig := List (Nat × (List Nat × List Nat))

def Sig.get (sig : Sig) (g : Nat) : Option (List Nat × List Nat) := sig.lookup g

/-- A renaming is admissible if it keeps the guard class of every lock and involves no ghost. -/
def renOk (ren : List (Nat × Nat)) : Bool :=
  ren.all (fun ab => gcls ab.1 == gcls ab.2 && !isGhost ab.1 && !isGhost ab.2)

/-- Effect of `call g ren` on the held multiset: the callee's real entry requirement
(renamed) is taken out of `held`, which leaves the caller's *frame*; every ghost of the
requirement must be covered by a lock of the same class in the frame; the callee's real
post-locks (renamed) are added. Returns (frame, new held). -/
def callA (sig : Sig) (g : Nat) (ren : List (Nat × Nat)) (held : List Nat) :
    Except Err (List Nat × List Nat) :=
  match sig.get g with
  | none => .error (.noSig g)
  | some (req, post) =>
    if !renOk ren then .error (.badRen g)
    else
      match removeAll held ((req.filter (fun l => !isGhost l)).map (rn ren)) with
      | none => .error (.callReq g)
      | some frame =>
        if (req.filter isGhost).all (fun gh => holdsClass frame [gcls gh]) then
          .ok (frame, addAll frame ((post.filter (fun l => !isGhost l)).map (rn ren)))
        else .error (.callReq g)

/-- Outcome of a loop given the outcomes `r` of one run of its body from state `s`. -/
def loopOuts (ce : Bool) (s : AS) (r : Outs) : Res :=
  if r.all (fun x => (x.1 != .norm && x.1 != .cont) || x.2 == s) then
    .ok (union (if ce then [(.norm, s)] else [])
      (r.filterMap (fun x =>
        match x.1 with
        | .brk => some (.norm, x.2)
        | .ret => some (.ret, x.2)
        | .pnc => some (.pnc, x.2)
        | _ => none)))
  else .error .loopVariant

/-- Symbolic execution of a statement from an abstract state: all possible
(outcome, state) pairs, or the first error. -/
def execA (sig : Sig) : Stmt → AS → Res
  | .skip, s => .ok [(.norm, s)]
  | .acq l, s =>
      if isGhost l then .error (.ghostOp l)
      else .ok [(.norm, { s with held := insertS l s.held })]
  | .rel l, s =>
      if isGhost l then .error (.ghostOp l)
      else if s.held.contains l then .ok [(.norm, { s with held := s.held.erase l })]
      else .error (.underflow l)
  | .pileLock p l, s =>
      if isGhost l then .error (.ghostOp l)
      else .ok [(.norm, ⟨insertS l s.held, { s.c with piles := setP s.c.piles p (insertS l (getP s.c.piles p)) }⟩)]
  | .pileUnlock p l, s =>
      if isGhost l then .error (.ghostOp l)
      else if (getP s.c.piles p).contains l then
        if s.held.contains l then
          .ok [(.norm, ⟨s.held.erase l, { s.c with piles := setP s.c.piles p ((getP s.c.piles p).erase l) }⟩)]
        else .error (.underflow l)
      else .error (.pileMissing p l)
  | .pileUnlockAll p, s =>
      match removeAll s.held (getP s.c.piles p) with
      | some h => .ok [(.norm, ⟨h, { s.c with piles := setP s.c.piles p [] }⟩)]
      | none => .error (.underflow p)
  | .call g ren, s =>
      match callA sig g ren s.held with
      | .error e => .error e
      | .ok (_, h) => .ok [(.norm, { s with held := h })]
  | .need cs, s => if holdsClass s.held cs then .ok [(.norm, s)] else .error (.unguarded cs)
  | .mark _ _, s => .ok [(.norm, s)]
  | .seq a b, s =>
      match execA sig a s with
      | .error e => .error e
      | .ok r => bindAll r (fun o s1 => if o = .norm then execA sig b s1 else .ok [(o, s1)])
  | .choice _ a b, s =>
      match execA sig a s with
      | .error e => .error e
      | .ok r1 =>
        match execA sig b s with
        | .error e => .error e
        | .ok r2 => .ok (union r1 r2)
  | .loop ce body, s =>
      match execA sig body s with
      | .error e => .error e
      | .ok r => loopOuts ce s r
  | .fin body d, s =>
      match execA sig body s with
      | .error e => .error e
      | .ok r => bindAll r (fun o s1 =>
          if o = .pnc then .ok [(.pnc, s1)]
          else match execA sig d s1 with
            | .error e => .error e
            | .ok r2 => .ok (r2.map (fun x => (if x.1 = .pnc then Out.pnc else o, x.2))))
  | .scope b, s =>
      match execA sig b s with
      | .error e => .error e
      | .ok r => .ok (r.map (fun x => (unscope x.1, x.2)))
  | .block b, s =>
      match execA sig b s with
      | .error e => .error e
      | .ok r => .ok (r.map (fun x => (unblock x.1, x.2)))
  | .setFlag v b, s => .ok [(.norm, { s with c := { s.c with flags := setF s.c.flags v b } })]
  | .ifFlag v a b, s => if getF s.c.flags v then execA sig a s else execA sig b s
  | .ret _, s => .ok [(.ret, s)]
  | .brk, s => .ok [(.brk, s)]
  | .cont, s => .ok [(.cont, s)]
  | .panic, s => .ok [(.pnc, s)]
  | .unsupported w, _ => .error (.unsupported w)

/-- Does an outcome of a whole function body meet the summary? -/
def okFinal (post : List Nat) (x : Out × AS) : Bool :=
  x.1 == .pnc || ((x.1 == .norm || x.1 == .ret) && x.2.held == sortS post)

/-- Function `f` with body `body` meets its summary `sig f = (req, post)`: started with
exactly `req` held, no path underflows and every returning path ends holding `post`. -/
def checkFn (sig : Sig) (f : Nat) (body : Stmt) : Bool :=
  match sig.get f with
  | none => false
  | some (req, post) =>
    match execA sig body ⟨sortS req, CS.init⟩ with
    | .error _ => false
    | .ok r => r.all (okFinal post)

def consistent (sig : Sig) (prog : Prog) : Bool := prog.all (fun fb => checkFn sig fb.1 fb.2)

/-- Every listed entry point is balanced and needs nothing on entry. -/
def entriesBalanced (sig : Sig) (entries : List Nat) : Bool :=
  entries.all (fun f => sig.get f == some ([], []))

/-! ## Lock classes: the acquired-while-holding relation (C14 part b)

Every lock has a class (`package.Type.field`; table `cls`: guard class ↦ edge class).
`edgesProg` collects, with the same symbolic execution as `execA`, every pair
(class of a held lock, class of a lock being acquired by a possibly blocking
operation):
* `acq l` while holding `h`                      ↦ (cls h, cls l);
* `pileLock p l` while holding `h` *outside* pile `p` ↦ (cls h, cls l) — locks of
  the same pile are released before `LockPile.Lock` blocks (`pile_no_hold_and_wait`);
* `call g` while holding `h` beyond what `g` requires ↦ (cls h, c) for every class
  `c` that `g` may acquire (`tbl g`, a table emitted by the translator and
  verified to be closed under the call graph by `acqClosed`).
The generated obligation is that a rank function computed from these edges is
strictly increasing along every edge: the relation is acyclic, a lock of some
class is never awaited while holding one of the same class except through a
`LockPile`, and `rank ∘ cls` is a lock order as needed by `C14.no_deadlock`. -/

/-- Edge class of a lock: `cls` maps guard classes to edge classes (the read mode of an
`RWMutex` is merged with its write mode). -/
def clsOf (cls : List Nat) (l : Nat) : Nat := cls.getD (gcls l) 0

/-- Serial 998: not a mutex but "exclusive ownership of an object created in this call and
not yet published" (the translator brackets calls on such objects with it, so that helpers
that expect their caller to hold the object's lock can be called). Taking it never blocks,
so it contributes no acquired-while-holding pair. -/
def isOwn (l : Nat) : Bool := l % 1000 == 998

abbrev Edges := List (Nat × Nat)

def addEdge (e : Nat × Nat) (es : Edges) : Edges := if es.contains e then es else e :: es

def addEdges (hs : List Nat) (c : Nat) (es : Edges) : Edges :=
  hs.foldl (fun acc h => addEdge (h, c) acc) es

/-- Table: function ↦ classes it may acquire (directly or through calls). -/
abbrev AcqTbl := List (Nat × List Nat)

def AcqTbl.get (t : AcqTbl) (g : Nat) : List Nat := (t.lookup g).getD []

/-- Classes acquired directly by a statement. -/
def stmtAcq (cls : List Nat) : Stmt → List Nat
  | .acq l => if isOwn l then [] else [clsOf cls l]
  | .pileLock _ l => [clsOf cls l]
  | .seq a b => stmtAcq cls a ++ stmtAcq cls b
  | .choice _ a b => stmtAcq cls a ++ stmtAcq cls b
  | .loop _ b => stmtAcq cls b
  | .fin a b => stmtAcq cls a ++ stmtAcq cls b
  | .scope a => stmtAcq cls a
  | .block a => stmtAcq cls a
  | .ifFlag _ a b => stmtAcq cls a ++ stmtAcq cls b
  | _ => []

/-- Functions called by a statement. -/
def stmtCalls : Stmt → List Nat
  | .call g _ => [g]
  | .seq a b => stmtCalls a ++ stmtCalls b
  | .choice _ a b => stmtCalls a ++ stmtCalls b
  | .loop _ b => stmtCalls b
  | .fin a b => stmtCalls a ++ stmtCalls b
  | .scope a => stmtCalls a
  | .block a => stmtCalls a
  | .ifFlag _ a b => stmtCalls a ++ stmtCalls b
  | _ => []

/-- `tbl` over-approximates what every function may acquire: it contains the direct
acquisitions and is closed under calls. -/
def acqClosed (cls : List Nat) (tbl : AcqTbl) (prog : Prog) : Bool :=
  prog.all (fun fb =>
    (stmtAcq cls fb.2).all (fun c => (tbl.get fb.1).contains c) &&
    (stmtCalls fb.2).all (fun g => (tbl.get g).all (fun c => (tbl.get fb.1).contains c)))

abbrev ResE := Except Err (Outs × Edges)

def bindE : Outs → Edges → (Out → AS → Edges → ResE) → ResE
  | [], es, _ => .ok ([], es)
  | (o, s) :: rest, es, k =>
    match k o s es with
    | .error e => .error e
    | .ok (r1, es1) =>
      match bindE rest es1 k with
      | .error e => .error e
      | .ok (r2, es2) => .ok (union r1 r2, es2)

/-- `execA` that also accumulates the acquired-while-holding class pairs. -/
def edgesS (cls : List Nat) (tbl : AcqTbl) (sig : Sig) : Stmt → AS → Edges → ResE
  | .skip, s, es => .ok ([(.norm, s)], es)
  | .acq l, s, es =>
      .ok ([(.norm, { s with held := insertS l s.held })],
           if isOwn l then es else addEdges (s.held.map (clsOf cls)) (clsOf cls l) es)
  | .rel l, s, es =>
      if s.held.contains l then .ok ([(.norm, { s with held := s.held.erase l })], es)
      else .error (.underflow l)
  | .pileLock p l, s, es =>
      -- locks held through the same pile are released before blocking
      match removeAll s.held (getP s.c.piles p) with
      | none => .error (.underflow p)
      | some outside =>
        .ok ([(.norm, ⟨insertS l s.held, { s.c with piles := setP s.c.piles p (insertS l (getP s.c.piles p)) }⟩)],
             addEdges (outside.map (clsOf cls)) (clsOf cls l) es)
  | .pileUnlock p l, s, es =>
      if (getP s.c.piles p).contains l then
        if s.held.contains l then
          .ok ([(.norm, ⟨s.held.erase l, { s.c with piles := setP s.c.piles p ((getP s.c.piles p).erase l) }⟩)], es)
        else .error (.underflow l)
      else .error (.pileMissing p l)
  | .pileUnlockAll p, s, es =>
      match removeAll s.held (getP s.c.piles p) with
      | some h => .ok ([(.norm, ⟨h, { s.c with piles := setP s.c.piles p [] }⟩)], es)
      | none => .error (.underflow p)
  | .call g ren, s, es =>
      match callA sig g ren s.held with
      | .error e => .error e
      | .ok (frame, h) =>
        .ok ([(.norm, { s with held := h })],
             (tbl.get g).foldl (fun acc c => addEdges (frame.map (clsOf cls)) c acc) es)
  | .need cs, s, es => if holdsClass s.held cs then .ok ([(.norm, s)], es) else .error (.unguarded cs)
  | .mark _ _, s, es => .ok ([(.norm, s)], es)
  | .seq a b, s, es =>
      match edgesS cls tbl sig a s es with
      | .error e => .error e
      | .ok (r, es1) => bindE r es1 (fun o s1 es2 =>
          if o = .norm then edgesS cls tbl sig b s1 es2 else .ok ([(o, s1)], es2))
  | .choice _ a b, s, es =>
      match edgesS cls tbl sig a s es with
      | .error e => .error e
      | .ok (r1, es1) =>
        match edgesS cls tbl sig b s es1 with
        | .error e => .error e
        | .ok (r2, es2) => .ok (union r1 r2, es2)
  | .loop ce body, s, es =>
      match edgesS cls tbl sig body s es with
      | .error e => .error e
      | .ok (r, es1) =>
        match loopOuts ce s r with
        | .error e => .error e
        | .ok r' => .ok (r', es1)
  | .fin body d, s, es =>
      match edgesS cls tbl sig body s es with
      | .error e => .error e
      | .ok (r, es1) => bindE r es1 (fun o s1 es2 =>
          if o = .pnc then .ok ([(.pnc, s1)], es2)
          else match edgesS cls tbl sig d s1 es2 with
            | .error e => .error e
            | .ok (r2, es3) => .ok (r2.map (fun x => (if x.1 = .pnc then Out.pnc else o, x.2)), es3))
  | .scope b, s, es =>
      match edgesS cls tbl sig b s es with
      | .error e => .error e
      | .ok (r, es1) => .ok (r.map (fun x => (unscope x.1, x.2)), es1)
  | .block b, s, es =>
      match edgesS cls tbl sig b s es with
      | .error e => .error e
      | .ok (r, es1) => .ok (r.map (fun x => (unblock x.1, x.2)), es1)
  | .setFlag v b, s, es => .ok ([(.norm, { s with c := { s.c with flags := setF s.c.flags v b } })], es)
  | .ifFlag v a b, s, es =>
      if getF s.c.flags v then edgesS cls tbl sig a s es else edgesS cls tbl sig b s es
  | .ret _, s, es => .ok ([(.ret, s)], es)
  | .brk, s, es => .ok ([(.brk, s)], es)
  | .cont, s, es => .ok ([(.cont, s)], es)
  | .panic, s, es => .ok ([(.pnc, s)], es)
  | .unsupported w, _, _ => .error (.unsupported w)

/-- All acquired-while-holding class pairs of a program (`none`: some function fails). -/
def edgesProg (cls : List Nat) (tbl : AcqTbl) (sig : Sig) : Prog → Edges → Option Edges
  | [], es => some es
  | (f, body) :: rest, es =>
    match sig.get f with
    | none => none
    | some (req, _) =>
      match edgesS cls tbl sig body ⟨sortS req, CS.init⟩ es with
      | .error _ => none
      | .ok (_, es1) => edgesProg cls tbl sig rest es1

/-- Kahn's algorithm in rounds: a class gets rank `r` when all its predecessors got a
smaller rank. (Classes on a cycle keep the last rank, which makes `ranksOk` fail.) -/
def kahn : Nat → Nat → List Nat → Edges → List (Nat × Nat) → List (Nat × Nat)
  | 0, r, nodes, _, acc => acc ++ nodes.map (fun v => (v, r))
  | k + 1, r, nodes, es, acc =>
    let ready := nodes.filter (fun v => !(es.any (fun e => e.2 == v && nodes.contains e.1)))
    if ready.isEmpty then acc ++ nodes.map (fun v => (v, r))
    else kahn k (r + 1) (nodes.filter (fun v => !ready.contains v)) es (acc ++ ready.map (fun v => (v, r)))

def rankTable (nClasses : Nat) (es : Edges) : List (Nat × Nat) :=
  kahn nClasses 0 (List.range nClasses) es []

def rankOf (tbl : List (Nat × Nat)) (c : Nat) : Nat := (tbl.lookup c).getD 0

/-- The rank is strictly increasing along every edge. -/
def ranksOk (tbl : List (Nat × Nat)) (es : Edges) : Bool :=
  es.all (fun e => rankOf tbl e.1 < rankOf tbl e.2)

/-! ## Transactions: check-then-act on guarded state within one critical section

`mark 0 c` = a *check* (e.g. `ByteRangeLockSet.Test`) and `mark 1 c` = an *act*
(`ByteRangeLockSet.Set`) on state guarded by a lock whose base class is `c` (pairs
declared in tools/lockskel/guards.json). Obligation `txOk`: on no path of a function is
an act reached after a check of the same class when the guarding lock was released in
between (the check is stale), unless the check was repeated in the new critical section.
This is a may-analysis over the skeleton (a "stale" set that only grows along a path and
is joined at merges); it is executable and decided by the kernel, but — unlike lock
balance — not connected to the path semantics by a theorem. `base` maps a guard class to
its base class (read mode ↦ the mutex), `relT g` lists the base classes `g` may release. -/

structure TxSt where
  pending : List Nat
  stale : List Nat
deriving DecidableEq, Repr, Inhabited

def addN (x : Nat) (l : List Nat) : List Nat := if l.contains x then l else x :: l
def unionN (a b : List Nat) : List Nat := a.foldr addN b

def TxSt.join (a b : TxSt) : TxSt := ⟨unionN a.pending b.pending, unionN a.stale b.stale⟩

def joinO : Option TxSt → Option TxSt → Option TxSt
  | none, b => b
  | a, none => a
  | some a, some b => some (a.join b)

def TxSt.release (s : TxSt) (b : Nat) : TxSt :=
  if s.pending.contains b then ⟨s.pending.erase b, addN b s.stale⟩ else s

def baseOf (base : List Nat) (l : Nat) : Nat := base.getD (gcls l) (gcls l)

/-- Iterate a monotone transfer function a bounded number of times (the lattice is finite). -/
def iterTx (f : TxSt → Option TxSt × Bool) : Nat → TxSt → Bool → TxSt × Bool
  | 0, s, v => (s, v)
  | n + 1, s, v =>
    let r := f s
    match r.1 with
    | none => (s, v || r.2)
    | some s1 => let s2 := s.join s1; if s2 == s then (s, v || r.2) else iterTx f n s2 (v || r.2)

/-- Returns (state on normal continuation, `none` if the statement never completes
normally; was a stale act found?). `inScope`: inside an inlined body `ret` only ends that body. -/
def txS (base : List Nat) (relT : AcqTbl) (inScope : Bool) : Stmt → TxSt → Option TxSt × Bool
  | .mark 0 c, s => (some ⟨addN c s.pending, s.stale.erase c⟩, false)
  | .mark _ c, s => (some s, s.stale.contains c)
  | .rel l, s => (some (s.release (baseOf base l)), false)
  | .pileUnlock _ l, s => (some (s.release (baseOf base l)), false)
  | .pileUnlockAll _, s => (some ⟨[], unionN s.pending s.stale⟩, false)
  | .call g _, s => (some ((relT.get g).foldl TxSt.release s), false)
  | .seq a b, s =>
    let ra := txS base relT inScope a s
    match ra.1 with
    | none => (none, ra.2)
    | some s1 => let rb := txS base relT inScope b s1; (rb.1, ra.2 || rb.2)
  | .choice _ a b, s =>
    let ra := txS base relT inScope a s
    let rb := txS base relT inScope b s
    (joinO ra.1 rb.1, ra.2 || rb.2)
  | .loop _ body, s =>
    let r := iterTx (txS base relT inScope body) 8 s false
    (some r.1, r.2)
  | .fin body d, s =>
    -- the deferred statement runs after the body, whichever way the body ends
    let ra := txS base relT true body s
    let s1 := (ra.1.getD s).join s
    let rb := txS base relT inScope d s1
    (if ra.1.isNone then none else rb.1, ra.2 || rb.2)
  | .scope b, s => let r := txS base relT true b s; (some (r.1.getD s), r.2)
  | .block b, s => let r := txS base relT inScope b s; (some (r.1.getD s), r.2)
  | .ifFlag _ a b, s =>
    let ra := txS base relT inScope a s
    let rb := txS base relT inScope b s
    (joinO ra.1 rb.1, ra.2 || rb.2)
  | .ret _, s => (if inScope then some s else none, false)
  | .panic, _ => (none, false)
  | _, s => (some s, false)

/-- No function of the program acts on a stale check. -/
def txOk (base : List Nat) (relT : AcqTbl) (prog : Prog) : Bool :=
  prog.all (fun fb => !(txS base relT false fb.2 ⟨[], []⟩).2)

end BbRe.LockSkel
