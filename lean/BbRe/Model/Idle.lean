/-
Model of `pkg/cleaner/idle_invoker.go` (C12) and of the two thin callers
`pkg/runner/clean_runner.go` / `pkg/builder/clean_build_directory_creator.go`.

`IdleInvoker` protects `useCount` and `wakeup` with one mutex that is dropped
only (a) in the wait loop of `Acquire` (`select { <-wakeup | <-ctx.Done() }`) and
(b) around the call of the cleaner in `clean`.  Every call therefore consists of
lock-held *segments*; one model step is one segment:

* `acquireEnter t` — `Acquire` from `i.lock.Lock()` to the first point where the
  lock is dropped: either parked on the current `wakeup` channel, or inside
  `clean` (lock dropped around `i.f(ctx)`), or returned after `useCount++`.
* `wake t`         — a parked `Acquire` whose channel was closed re-takes the lock
  and re-runs the loop test and the rest of `Acquire` (same body as above).
* `cancel t`       — a parked `Acquire` takes the `<-ctx.Done()` branch and
  returns `util.StatusFromContext(ctx)` without touching the state.
* `cleanDone t ok` — the cleaner function returned; second half of `clean`
  (`i.lock.Lock(); close(wakeup); i.wakeup = nil`) and the rest of the caller
  (`Acquire`: `useCount++` only if `ok`; `Release`: just return the error).
* `releaseEnter t` — `Release` from `i.lock.Lock()` to either the return
  (`useCount > 0` after the decrement) or the lock drop inside `clean`.

Channels are numbered in creation order (`gen` = number of `make(chan)` so
far); `wakeup = some c` is the Go field `i.wakeup`, `closed` is the set of
channels on which `close` was called.  Thread ids are arbitrary `Nat`s; a thread
never mentioned is `out`.  The two Go `panic`s are modelled by `panicked`.
Core Lean only (linked into `drv_idle`).
-/
namespace BbRe.Idle

/-- Where a thread is with respect to the invoker. -/
inductive PC
  | out                    -- not inside Acquire/Release, not a user
  | waiting (c : Nat)      -- parked in Acquire's select on channel `c`
  | cleanAcq               -- inside the cleaner called by Acquire (lock dropped)
  | inUse                  -- Acquire returned nil, Release not yet called
  | cleanRel               -- inside the cleaner called by Release (lock dropped)
deriving DecidableEq, Repr, Inhabited

def PC.cleaning : PC → Bool
  | .cleanAcq => true
  | .cleanRel => true
  | _ => false

structure State where
  useCount : Nat
  wakeup   : Option Nat
  gen      : Nat
  closed   : List Nat
  pc       : Nat → PC
  panicked : Bool

def init : State :=
  { useCount := 0, wakeup := none, gen := 0, closed := [], pc := fun _ => .out, panicked := false }

def State.setPc (s : State) (t : Nat) (v : PC) : State :=
  { s with pc := fun x => if x = t then v else s.pc x }

/-- First half of `clean` (called with the lock held): panic if a cleaning is in
progress, otherwise publish a fresh channel and drop the lock; the thread is
then inside the cleaner (`v` says on whose behalf). -/
def startClean (s : State) (t : Nat) (v : PC) : State :=
  match s.wakeup with
  | some _ => { s with panicked := true }
  | none => { (s.setPc t v) with wakeup := some s.gen, gen := s.gen + 1 }

/-- `Acquire` with the lock held, starting at the loop test `for i.wakeup != nil`. -/
def acquireBody (s : State) (t : Nat) : State :=
  match s.wakeup with
  | some c => s.setPc t (.waiting c)
  | none =>
    if s.useCount = 0 then startClean s t .cleanAcq
    else { (s.setPc t .inUse) with useCount := s.useCount + 1 }

inductive Op
  | acquireEnter (t : Nat)
  | wake (t : Nat)
  | cancel (t : Nat)
  | cleanDone (t : Nat) (ok : Bool)
  | releaseEnter (t : Nat)
deriving DecidableEq, Repr

/-- One lock-held segment.  `none` = the step is not enabled in `s`. -/
def step (s : State) : Op → Option State
  | .acquireEnter t =>
    if s.panicked then none else
    match s.pc t with
    | .out => some (acquireBody s t)
    | _ => none
  | .wake t =>
    if s.panicked then none else
    match s.pc t with
    | .waiting c => if c ∈ s.closed then some (acquireBody s t) else none
    | _ => none
  | .cancel t =>
    if s.panicked then none else
    match s.pc t with
    | .waiting _ => some (s.setPc t .out)
    | _ => none
  | .cleanDone t ok =>
    if s.panicked then none else
    match s.wakeup with
    | none => none
    | some c =>
      let s1 : State := { s with closed := c :: s.closed, wakeup := none }
      match s.pc t with
      | .cleanAcq =>
        if ok then some { (s1.setPc t .inUse) with useCount := s1.useCount + 1 }
        else some (s1.setPc t .out)
      | .cleanRel => some (s1.setPc t .out)
      | _ => none
  | .releaseEnter t =>
    if s.panicked then none else
    match s.pc t with
    | .inUse =>
      if s.useCount = 0 then some { s with panicked := true }
      else
        let s1 : State := { s with useCount := s.useCount - 1 }
        if s1.useCount > 0 then some (s1.setPc t .out)
        else some (startClean s1 t .cleanRel)
    | _ => none

/-- What a call returns to its caller. -/
inductive Res | ok | err | cancelled
deriving DecidableEq, Repr

/-- The thread whose call (Acquire or Release) returns in this step, and what it returns. -/
def ret (s : State) : Op → Option (Nat × Res)
  | .acquireEnter t =>
    match s.pc t, s.wakeup with
    | .out, none => if s.useCount = 0 then none else some (t, .ok)
    | _, _ => none
  | .wake t =>
    match s.pc t, s.wakeup with
    | .waiting _, none => if s.useCount = 0 then none else some (t, .ok)
    | _, _ => none
  | .cancel t =>
    match s.pc t with
    | .waiting _ => some (t, .cancelled)
    | _ => none
  | .cleanDone t ok =>
    match s.pc t with
    | .cleanAcq => some (t, if ok then .ok else .err)
    | .cleanRel => some (t, if ok then .ok else .err)
    | _ => none
  | .releaseEnter t =>
    match s.pc t with
    | .inUse => if s.useCount > 1 then some (t, .ok) else none
    | _ => none

/-- States reachable from `init` by enabled steps: all interleavings of any
number of threads. -/
inductive Reachable : State → Prop
  | init : Reachable init
  | step {s s' : State} (op : Op) : Reachable s → step s op = some s' → Reachable s'

/-- Run a list of ops, skipping the ones that are not enabled. -/
def run (s : State) : List Op → State
  | [] => s
  | op :: rest =>
    match step s op with
    | some s' => run s' rest
    | none => run s rest

/-- `cleanRunner.Run` / `CheckReadiness`: result given whether the base call and
the `Release` failed (`err1` wins; otherwise `err2`).  0 = ok, 1 = base error,
2 = error of the cleaner. -/
def cleanRunnerResult (err1 err2 : Bool) : Nat :=
  if err1 then 1 else if err2 then 2 else 0

/-!
### `pkg/cleaner/chained_cleaner.go`

`NewChainedCleaner(cleaners)` is the `Cleaner` that `cmd/bb_runner` hands to the
`IdleInvoker` of `CleanRunner` (process table, temporary directories, cleaning
command).  Transcription of its loop: every cleaner is invoked, in order, also
after a failure; `chainedErr` keeps the first non-nil error.  An outcome is a
`Nat`: `0` = nil, anything else identifies the error.
-/

/-- the loop `for _, cleaner := range cleaners { if err := cleaner(ctx); chainedErr == nil { chainedErr = err } }`
started with `chainedErr = err`; result = (returned error, number of cleaners invoked so far `n`). -/
def chainedFrom (err n : Nat) : List Nat → Nat × Nat
  | [] => (err, n)
  | o :: rest => chainedFrom (if err = 0 then o else err) (n + 1) rest

/-- `NewChainedCleaner(cleaners)(ctx)` when the cleaners answer `outs`. -/
def chained (outs : List Nat) : Nat × Nat := chainedFrom 0 0 outs

end BbRe.Idle
