import BbRe.Model.SchedStep
import BbRe.Model.Fair
/-!
# Refinement layer of the scheduler model: the invocation tree as *state*

`Model/Sched.lean` models the task / worker / operation / cleanup bookkeeping of
`pkg/scheduler/in_memory_build_queue.go` and takes the two hand-out decisions as oracle
answers (`Hints.assign`).  This file adds, per size-class queue, the tree of `invocation`
objects exactly as the Go code maintains it, and *computes* from that tree the set of
admissible answers (with the definitions of `Model/Fair.lean`); the observed choice is
accepted iff it is in that set.  Projection to `Sched.State` gives back `Sched.step`
(`Properties/C04Tree.lean`, `refines_sched`).

Representation.  The tree of one size-class queue is a flat list of `Node`s, a node being
identified by `(scq, path)` with `path` = `invocation.invocationKeys`; the root has path
`[]`; `i.parent` is `path.dropLast`, `i.children[k]` is the node at `path ++ [k]`.  The three
heaps of an invocation are kept as *lists without heap layout* (`qops`, `qkids`, `ikids`):
which element is the heap root is recomputed from the order (`Fair.isPreferred`,
`Fair.opLess`) where the code reads it.  `executingWorkers` is a multiset `worker ↦ count`
(key `none` = the temporary worker `task.complete` creates for a QUEUED task).

Go function ↦ definition here
* `invocation` struct                       ↦ `Node`
* `sizeClassQueue.getOrCreateInvocation`    ↦ `getOrCreate`
* `invocation.removeIfEmpty`                ↦ `Node.isEmptyInv`, `pruneP` (all levels of a path), `pruneChain`
                                               (the `for i.removeIfEmpty() { i = i.parent }` loop of `operation.remove`)
* `invocation.incrementExecutingWorkersCount` / `decrementExecutingWorkersCount` ↦ `incExecR` / `decExecR`
* `invocation.updateFirstOperationPriority` ↦ `updPrio`
* `operation.enqueue` / `removeQueuedFromInvocation` ↦ `enqueueOp` / `removeQueuedOp`
* `worker.setLastInvocation` / `clearLastInvocation` ↦ `setLastN` / `clearLastN`
* park in `getNextTask` (`idleSynchronizingWorkers.enqueue` + `heapPushOrFix` loop) ↦ `parkW`
* `worker.dequeue` (`idleSynchronizingWorkersList.dequeue` + `heapRemoveOrFix` loop)  ↦ `dequeueW`
* `worker.assignUnqueuedTask` (incl. `stickinessStartingTimes`) ↦ `tAssignTo`
* `worker.assignNextQueuedTask`             ↦ `tAssignNext` (admissible set: `Fair.specPick` on `toInv`)
* `task.schedule`                           ↦ `tSchedule` (admissible set: `handoffAdm`)
* `task.complete` (temporary worker, lowest common ancestor, background task, retry transplant) ↦ `tComplete`
* `operation.remove`                        ↦ `tRemoveOp`
* `invocation.cancelAllQueuedOperations`    ↦ `tCancelAllQueued`
* `sizeClassQueue.remove` / `removeStaleWorker` ↦ `tRemoveScq` / `tRemoveStaleWorker`
* every RPC segment of `Model/Sched.lean`   ↦ the `t…` function of the same name; `tstep`.

Nondeterminism that the flat representation removes and how it is resolved:
* order of `range t.operations`: the effects commute; the model uses `Task.ops` order;
* which of several `queuedChildren` that tie in `(score, lastOperationStarted)` is the heap
  root when `updateFirstOperationPriority` reads `queuedChildren[0]`: the model takes the first
  minimal one in list order (the harness' priorities exclude score ties between different
  priorities, as for C04);
* which child is `idleSynchronizingWorkersChildren[0]` in `task.schedule`: `handoffAdm` admits the
  descent through *any* child with parked workers below it (that heap's `Less` is not a strict
  weak order, `C04.idleLess_not_strictWeak`, so nothing sharper holds for every layout), and any
  worker parked at the invocation reached (see `descendAny`).
-/
namespace BbRe.SchedTree
open BbRe.Sched

/-! ## multisets `worker ↦ count` -/

/-- key of `executingWorkers`: a real worker of the node's size-class queue, or `none` for the
temporary worker of `task.complete`. -/
abbrev WKey := Option WId

def mget (k : WKey) : List (WKey × Nat) → Nat
  | [] => 0
  | (k', c) :: r => if k' = k then c else mget k r

/-- `m[k]++` -/
def minc (k : WKey) : List (WKey × Nat) → List (WKey × Nat)
  | [] => [(k, 1)]
  | (k', c) :: r => if k' = k then (k', c + 1) :: r else (k', c) :: minc k r

/-- `m[k]--; if m[k] == 0 { delete(m, k) }` -/
def mdec (k : WKey) : List (WKey × Nat) → List (WKey × Nat)
  | [] => []
  | (k', c) :: r => if k' = k then (if c ≤ 1 then r else (k', c - 1) :: r) else (k', c) :: mdec k r

/-! ## nodes -/

structure Node where
  scq : ScqId
  path : List Nat                 -- invocationKeys
  qops : List Nat                 -- queuedOperations (operation names)
  qkids : List Nat                -- queuedChildren (last key of each child)
  ikids : List Nat                -- idleSynchronizingWorkersChildren (last key of each child)
  prio : Int                      -- firstQueuedOperationPriority
  exec : List (WKey × Nat)        -- executingWorkers
  started : Nat                   -- lastOperationStarted
  completed : Nat                 -- lastOperationCompletion
  idle : Nat                      -- idleWorkersCount
  parked : List WId               -- idleSynchronizingWorkers, in list order
deriving Repr, Inhabited

def mkNode (q : ScqId) (p : List Nat) (now : Nat) : Node :=
  { scq := q, path := p, qops := [], qkids := [], ikids := [], prio := 0, exec := [],
    started := now, completed := now, idle := 0, parked := [] }

/-- `invocation.isQueued` -/
def Node.isQueued (n : Node) : Bool := !n.qops.isEmpty || !n.qkids.isEmpty
/-- `invocation.isActive` -/
def Node.isActive (n : Node) : Bool := n.isQueued || !n.exec.isEmpty
/-- the condition of `removeIfEmpty` (without `i.parent != nil`) -/
def Node.isEmptyInv (n : Node) : Bool := !n.isActive && n.idle == 0
/-- `len(i.idleSynchronizingWorkers) > 0 || i.idleSynchronizingWorkersChildren.Len() > 0` -/
def Node.hasParked (n : Node) : Bool := !n.parked.isEmpty || !n.ikids.isEmpty

def Node.isAt (n : Node) (q : ScqId) (p : List Nat) : Bool := decide (n.scq = q ∧ n.path = p)
/-- `n` is the invocation at `p` or one of its ancestors -/
def Node.onPath (n : Node) (q : ScqId) (p : List Nat) : Bool := decide (n.scq = q) && n.path.isPrefixOf p

def node? (ns : List Node) (q : ScqId) (p : List Nat) : Option Node := ns.find? (fun n => n.isAt q p)

def updNode (ns : List Node) (q : ScqId) (p : List Nat) (f : Node → Node) : List Node :=
  ns.map (fun n => if n.isAt q p then f n else n)

/-- apply `f` to the invocation at `p` and all its ancestors -/
def updPath (ns : List Node) (q : ScqId) (p : List Nat) (f : Node → Node) : List Node :=
  ns.map (fun n => if n.onPath q p then f n else n)

/-- the non-empty prefixes of a path, shortest first -/
def prefixes : List Nat → List (List Nat)
  | [] => []
  | k :: r => [k] :: (prefixes r).map (k :: ·)

/-- the non-root invocations from `p` up to the child of the root (`for i.parent != nil { …; i = i.parent }`) -/
def ups (p : List Nat) : List (List Nat) := (prefixes p).reverse

def lastKey (p : List Nat) : Nat := p.getLast?.getD 0

def insk (k : Nat) (l : List Nat) : List Nat := if k ∈ l then l else l ++ [k]

/-- `sizeClassQueue.getOrCreateInvocation` -/
def getOrCreate (ns : List Node) (q : ScqId) (p : List Nat) (now : Nat) : List Node :=
  (prefixes p).foldl (fun ns pi => if (node? ns q pi).isSome then ns else ns ++ [mkNode q pi now]) ns

/-- `i.removeIfEmpty()` for the invocation at `p` and each of its ancestors -/
def pruneP (ns : List Node) (q : ScqId) (p : List Nat) : List Node :=
  ns.filter (fun n => !(n.onPath q p && !n.path.isEmpty && n.isEmptyInv))

/-- `for i.removeIfEmpty() { i = i.parent }` over the given bottom-up list of paths -/
def pruneChain (ns : List Node) (q : ScqId) : List (List Nat) → List Node
  | [] => ns
  | pi :: rest =>
    match node? ns q pi with
    | some i => if i.isEmptyInv then pruneChain (ns.filter (fun n => !n.isAt q pi)) q rest else ns
    | none => ns

/-- the counter part of `invocation.incrementExecutingWorkersCount` (see `incExecR`) -/
def incExec (ns : List Node) (q : ScqId) (p : List Nat) (w : WKey) (now : Nat) : List Node :=
  updPath ns q p (fun n => { n with exec := minc w n.exec, started := now })

/-- the counter part of `invocation.decrementExecutingWorkersCount` (see `decExecR`; the per-level
`removeIfEmpty` only reads the level's own fields, so pruning after the loop is the same) -/
def decExec (ns : List Node) (q : ScqId) (p : List Nat) (w : WKey) (now : Nat) : List Node :=
  pruneP (updPath ns q p (fun n => { n with exec := mdec w n.exec, completed := now })) q p

/-- the `idleWorkersCount++` loop of `worker.setLastInvocation` -/
def setLastN (ns : List Node) (q : ScqId) (p : List Nat) : List Node :=
  updPath ns q p (fun n => { n with idle := n.idle + 1 })

/-- the loop of `worker.clearLastInvocation` -/
def clearLastN (ns : List Node) (q : ScqId) (p : List Nat) : List Node :=
  pruneP (updPath ns q p (fun n => { n with idle := n.idle - 1 })) q p

/-! ### `updateFirstOperationPriority`, `enqueue`, `removeQueuedFromInvocation` -/

def minPrio : List Int → Int
  | [] => 0
  | [a] => a
  | a :: r => min a (minPrio r)

/-- `queuedChildrenHeap.Less` -/
def childLess (a b : Node) : Bool :=
  Fair.isPreferred a.exec.length a.prio b.exec.length b.prio (decide (a.started < b.started))

def kidsOf (ns : List Node) (n : Node) : List Node :=
  n.qkids.filterMap (fun k => node? ns n.scq (n.path ++ [k]))

/-- a possible `queuedChildren[0]`: no other queued child is `Less` -/
def bestKid (ns : List Node) (n : Node) : Option Node :=
  let ks := kidsOf ns n
  match ks.find? (fun c => ks.all (fun c' => !childLess c' c)) with
  | some c => some c
  | none => ks.head?

/-- `invocation.updateFirstOperationPriority`; `queuedOperations[0].priority` is the least priority
of the directly queued operations (`queuedOperationsHeap.Less` compares priorities first). -/
def updPrio (prioOf : Nat → Int) (ns : List Node) (n : Node) : Node :=
  if !n.qops.isEmpty then { n with prio := minPrio (n.qops.map prioOf) }
  else match bestKid ns n with
    | some c => { n with prio := c.prio }
    | none => n

/-- `i.parent.updateFirstOperationPriority()` for the invocation `i` at `pi` (the root's cache is refreshed
here too, unlike in `enqueue` / `removeQueuedFromInvocation`) -/
def refreshStep (prioOf : Nat → Int) (q : ScqId) (ns : List Node) (pi : List Nat) : List Node :=
  match node? ns q pi.dropLast with
  | none => ns
  | some P => updNode ns q pi.dropLast (fun _ => updPrio prioOf ns P)

/-- the refreshes of one `increment/decrementExecutingWorkersCount` loop, bottom-up.  In the code they are
interleaved with the counter updates of the same loop; a refresh reads the counters and caches of the
CHILDREN of the refreshed invocation only, and of those the loop has already updated the one on the path,
so running them after all counter updates is the same. -/
def refreshUp (prioOf : Nat → Int) (ns : List Node) (q : ScqId) (p : List Nat) : List Node :=
  (ups p).foldl (refreshStep prioOf q) ns

/-- `invocation.incrementExecutingWorkersCount`.  `legacy = true`: the code before the fix of
notes/findings/C04-stale-first-priority.md, which re-sorted `parent.queuedChildren` without refreshing
`parent.firstQueuedOperationPriority`. -/
def incExecR (legacy : Bool) (prioOf : Nat → Int) (ns : List Node) (q : ScqId) (p : List Nat) (w : WKey) (now : Nat) :
    List Node :=
  if legacy then incExec ns q p w now else refreshUp prioOf (incExec ns q p w now) q p

/-- `invocation.decrementExecutingWorkersCount` (`legacy` as for `incExecR`) -/
def decExecR (legacy : Bool) (prioOf : Nat → Int) (ns : List Node) (q : ScqId) (p : List Nat) (w : WKey) (now : Nat) :
    List Node :=
  if legacy then decExec ns q p w now else refreshUp prioOf (decExec ns q p w now) q p

/-- one iteration of the loop of `operation.enqueue` at the non-root invocation `pi` -/
def enqStep (prioOf : Nat → Int) (q : ScqId) (ns : List Node) (pi : List Nat) : List Node :=
  match node? ns q pi with
  | none => ns
  | some i =>
    let i' := updPrio prioOf ns i
    let ns := updNode ns q pi (fun _ => i')
    updNode ns q pi.dropLast (fun P => { P with qkids := insk (lastKey pi) P.qkids })

/-- `operation.enqueue` -/
def enqueueOp (prioOf : Nat → Int) (ns : List Node) (q : ScqId) (p : List Nat) (o : Nat) : List Node :=
  (ups p).foldl (enqStep prioOf q) (updNode ns q p (fun n => { n with qops := n.qops ++ [o] }))

/-- one iteration of the loop of `removeQueuedFromInvocation` -/
def deqStep (prioOf : Nat → Int) (q : ScqId) (ns : List Node) (pi : List Nat) : List Node :=
  match node? ns q pi with
  | none => ns
  | some i =>
    let i' := updPrio prioOf ns i
    let ns := updNode ns q pi (fun _ => i')
    if i'.qkids.isEmpty && i'.qops.isEmpty then
      updNode ns q pi.dropLast (fun P => { P with qkids := P.qkids.erase (lastKey pi) })
    else ns

/-- `operation.removeQueuedFromInvocation` -/
def removeQueuedOp (prioOf : Nat → Int) (ns : List Node) (q : ScqId) (p : List Nat) (o : Nat) : List Node :=
  (ups p).foldl (deqStep prioOf q) (updNode ns q p (fun n => { n with qops := n.qops.erase o }))

/-! ### parking -/

def parkStep (q : ScqId) (ns : List Node) (pi : List Nat) : List Node :=
  updNode ns q pi.dropLast (fun P => { P with ikids := insk (lastKey pi) P.ikids })

/-- `idleSynchronizingWorkers.enqueue` and the `heapPushOrFix` loop in `getNextTask` -/
def parkW (ns : List Node) (q : ScqId) (p : List Nat) (w : WId) : List Node :=
  (ups p).foldl (parkStep q) (updNode ns q p (fun n => { n with parked := n.parked ++ [w] }))

/-- `idleSynchronizingWorkersList.dequeue`: the last entry takes the place of the removed one -/
def swapRemove (w : WId) (l : List WId) : List WId :=
  if w ∈ l then
    match l.getLast? with
    | none => []
    | some last => if last = w then l.dropLast else l.dropLast.map (fun x => if x = w then last else x)
  else l

def unparkStep (q : ScqId) (ns : List Node) (pi : List Nat) : List Node :=
  match node? ns q pi with
  | none => ns
  | some i =>
    if i.parked.isEmpty && i.ikids.isEmpty then
      updNode ns q pi.dropLast (fun P => { P with ikids := P.ikids.erase (lastKey pi) })
    else ns

/-- `worker.dequeue` -/
def dequeueW (ns : List Node) (q : ScqId) (p : List Nat) (w : WId) : List Node :=
  (ups p).foldl (unparkStep q) (updNode ns q p (fun n => { n with parked := swapRemove w n.parked }))

/-! ## the admissible sets -/

def maxDepth (ns : List Node) (q : ScqId) : Nat :=
  ns.foldl (fun d n => if n.scq = q then max d n.path.length else d) 0

/-- keys of `i.children` for the invocation at `p` -/
def childKeys (ns : List Node) (q : ScqId) (p : List Nat) : List Nat :=
  (ns.filter (fun n => decide (n.scq = q) && decide (n.path.length = p.length + 1) && p.isPrefixOf n.path)).map
    (fun n => lastKey n.path)

/-- Snapshot of the subtree at `p` in the format of `Model/Fair.lean`.  `opOf` supplies priority,
expected duration and queued timestamp of an operation, `enc` numbers the workers. -/
def toInv (opOf : Nat → Fair.Op) (enc : WId → Nat) (ns : List Node) (q : ScqId) : Nat → List Nat → Fair.Inv
  | 0, p =>
    match node? ns q p with
    | some n => .mk (lastKey p) (n.qops.map opOf) n.qkids n.prio n.exec.length n.started (n.parked.map enc) n.ikids n.completed []
    | none => .mk (lastKey p) [] [] 0 0 0 [] [] 0 []
  | fuel + 1, p =>
    match node? ns q p with
    | some n =>
      .mk (lastKey p) (n.qops.map opOf) n.qkids n.prio n.exec.length n.started (n.parked.map enc) n.ikids n.completed
        ((childKeys ns q p).map (fun k => toInv opOf enc ns q fuel (p ++ [k])))
    | none => .mk (lastKey p) [] [] 0 0 0 [] [] 0 []

def encW (w : WId) : Nat := w.host * 65536 + w.thread

/-- the tree of queue `q` as a `Fair.Inv` -/
def snapshot (opOf : Nat → Fair.Op) (ns : List Node) (q : ScqId) : Fair.Inv :=
  toInv opOf encW ns q (maxDepth ns q + 1) []

/-- `for len(i.idleSynchronizingWorkers) == 0 { i = i.idleSynchronizingWorkersChildren[0] }` over every
possible heap layout and list order: the parked workers of any invocation reached through children that
have parked workers below them.  (The order of `idleSynchronizingWorkers` is not determined by the
segments either: when several Synchronize calls of one invocation are woken in one segment — timers due
together, `AddDrain`/`TerminateWorkers` ranging over the `scq.workers` map — the order in which they
dequeue themselves (swap-remove) is the Go scheduler's / the map's choice.  `i.idleSynchronizingWorkers[0]`
on the real order is judged by `Model/Fair.lean` on snapshots.) -/
def descendAny (ns : List Node) (q : ScqId) : Nat → List Nat → List WId
  | 0, _ => []
  | fuel + 1, p =>
    match node? ns q p with
    | none => []
    | some n =>
      match n.parked with
      | w :: r => w :: r
      | [] => n.ikids.flatMap (fun k => descendAny ns q fuel (p ++ [k]))

/-- invocations examined in round `r` of `task.schedule` (cf. `Fair.roundNodes`) -/
def roundPaths (invs : List (List Nat)) (r : Nat) : List (List Nat) :=
  invs.filterMap fun p => if r ≤ p.length then some (p.take (p.length - r)) else none

/-- the loop of `task.schedule` (cf. `Fair.handoffAux`) -/
def handoffLoop (ns : List Node) (q : ScqId) (invs : List (List Nat)) (depth : Nat) : Nat → Nat → List WId
  | 0, _ => []
  | fuel + 1, r =>
    let hits := (roundPaths invs r).filter (fun p => match node? ns q p with | some n => n.hasParked | none => false)
    if hits.isEmpty then
      if invs.any (fun p => p.length ≤ r) then [] else handoffLoop ns q invs depth fuel (r + 1)
    else hits.flatMap (descendAny ns q depth)

/-- workers a task with invocations `invs` may be handed to; `[]` = the task is queued -/
def handoffAdm (ns : List Node) (q : ScqId) (invs : List (List Nat)) : List WId :=
  handoffLoop ns q invs (maxDepth ns q + 1) (Fair.maxLen invs + 1) 0

/-! ## state of the tree layer -/

/-- per worker: `lastInvocation` (path; `none` = nil, while executing), `stickinessStartingTimes`, and
whether the worker is enqueued in `lastInvocation.idleSynchronizingWorkers` (`listIndex != -1`) -/
structure WX where
  scq : ScqId
  id : WId
  last : Option (List Nat)
  sticks : List Nat
  parked : Bool := false
deriving Repr, Inhabited

/-- per operation, as `task.operations` holds it (outlives `operationsNameMap`'s entry inside
`operation.remove`) -/
structure OX where
  inv : List Nat
  prio : Int
deriving Repr, Inhabited

/-- per task: `expectedDuration`, `desiredState.QueuedTimestamp` -/
structure TX where
  dur : Nat
  qts : Nat
deriving Repr, Inhabited

/-- ghost record of one hand-out decision: the tree of that moment and what was chosen -/
inductive Decision
  | pick (q : ScqId) (w : WId) (task : Nat) (tree : Fair.Inv) (view : Fair.WView) (op : Fair.Op) (retained : Nat)
  | handoff (q : ScqId) (w : WId) (task : Nat) (nodes : List Node) (invs : List (List Nat))
deriving Repr, Inhabited

structure TState where
  s : State
  nodes : List Node
  wx : List WX
  ox : List (Nat × OX)
  tx : List (Nat × TX)
  limits : List (Nat × List Nat)      -- platform queue ↦ workerInvocationStickinessLimits
  decisions : List Decision           -- ghost, parallel to `s.assigned`
  /-- `true`: the scheduler before the fix of notes/findings/C04-stale-first-priority.md (no state reachable
  from `TState.init` has it; kept for the counterexample `C04Tree.legacy_stale_priority_counterexample`) -/
  legacyPrio : Bool := false
deriving Repr, Inhabited

def TState.init (cfg : Cfg) : TState :=
  { s := State.init cfg, nodes := [], wx := [], ox := [], tx := [], limits := [], decisions := [] }

/-- Answers of the environment that `Sched.Hints` does not carry because `Model/Sched.lean` has no use
for them. -/
structure Extras where
  stick : List Nat := []       -- `RegisterPredeclaredPlatformQueue`: workerInvocationStickinessLimits
  selDur : List Nat := []      -- expected duration answered by `Select`, per size-class index
  bgDur : Nat := 0             -- … by `Succeeded` for the background task
  retryDur : Nat := 0          -- … by `Failed`
  ret : Option Nat := none     -- observed `stickinessRetained` (only consulted when two operations of the
                               -- task handed out are admissible with different values)
deriving Repr, Inhabited

def TState.invOf (ts : TState) (o : Nat) : List Nat :=
  match alookup o ts.ox with | some x => x.inv | none => []
def TState.prioOf (ts : TState) (o : Nat) : Int :=
  match alookup o ts.ox with | some x => x.prio | none => 0
def TState.wx? (ts : TState) (q : ScqId) (w : WId) : Option WX := ts.wx.find? (fun x => x.scq = q ∧ x.id = w)
def setWX (l : List WX) (q : ScqId) (w : WId) (f : WX → WX) : List WX :=
  l.map (fun x => if x.scq = q ∧ x.id = w then f x else x)
def TState.lastOf (ts : TState) (q : ScqId) (w : WId) : Option (List Nat) :=
  match ts.wx? q w with | some x => x.last | none => none
def TState.limitsOf (ts : TState) (pq : Nat) : List Nat := (alookup pq ts.limits).getD []

def TState.opOf (ts : TState) (o : Nat) : Fair.Op :=
  let (dur, qts) := match ts.s.op? o with
    | some op => (match alookup op.task ts.tx with | some x => (x.dur, x.qts) | none => (0, 0))
    | none => (0, 0)
  { id := o, prio := ts.prioOf o, dur := dur, ts := qts }

/-- `stickinessStartingTimes[i] = bq.now` for `i ≥ stickinessRetained` -/
def restick : Nat → Nat → List Nat → List Nat
  | _, _, [] => []
  | 0, now, _ :: l => now :: restick 0 now l
  | r + 1, now, v :: l => v :: restick r now l

/-- longest common prefix of two paths / of a list of paths (lowest common ancestor) -/
def lcp2 : List Nat → List Nat → List Nat
  | a :: p, b :: q => if a = b then a :: lcp2 p q else []
  | _, _ => []
def lcp : List (List Nat) → List Nat
  | [] => []
  | [p] => p
  | p :: ps => lcp2 p (lcp ps)

/-! ## tree-only updates of the state (the `Sched` component is untouched)

Every `t…` function below is a sequence of (a) calls of `Model/Sched.lean` functions on the `s`
component and (b) these updates; `Lemmas/SchedTreeRefine.lean` needs nothing but `(upd ts).s = ts.s`. -/

def TState.setS (ts : TState) (s : State) : TState := { ts with s := s }

/-- tree part of `worker.dequeue` -/
def TState.unparkTree (ts : TState) (q : ScqId) (w : WId) : TState :=
  { ts with nodes := (match ts.lastOf q w with
              | some p => dequeueW ts.nodes q p w
              | none => ts.nodes),
            wx := setWX ts.wx q w (fun y => { y with parked := false }) }

/-- tree part of parking in `getNextTask` -/
def TState.parkTree (ts : TState) (q : ScqId) (w : WId) : TState :=
  { ts with nodes := (match ts.lastOf q w with
              | some p => parkW ts.nodes q p w
              | none => ts.nodes),
            wx := setWX ts.wx q w (fun y => { y with parked := true }) }

/-- `for i := range t.operations { i.incrementExecutingWorkersCount(bq, w) }` -/
def TState.incOps (ts : TState) (t : Task) (key : WKey) : TState :=
  { ts with nodes := t.ops.foldl (fun ns o => incExecR ts.legacyPrio ts.prioOf ns t.scq (ts.invOf o) key ts.s.now) ts.nodes }

/-- `for i := range t.operations { i.decrementExecutingWorkersCount(bq, w) }` -/
def TState.decOps (ts : TState) (t : Task) (key : WKey) : TState :=
  { ts with nodes := t.ops.foldl (fun ns o => decExecR ts.legacyPrio ts.prioOf ns t.scq (ts.invOf o) key ts.s.now) ts.nodes }

/-- `for _, o := range t.operations { o.enqueue() }` -/
def TState.enqOps (ts : TState) (t : Task) : TState :=
  { ts with nodes := t.ops.foldl (fun ns o => enqueueOp ts.prioOf ns t.scq (ts.invOf o) o) ts.nodes }

/-- `for _, o := range t.operations { o.removeQueuedFromInvocation() }` -/
def TState.deqOps (ts : TState) (t : Task) : TState :=
  { ts with nodes := t.ops.foldl (fun ns o => removeQueuedOp ts.prioOf ns t.scq (ts.invOf o) o) ts.nodes }

/-- `worker.clearLastInvocation` -/
def TState.clearLast (ts : TState) (q : ScqId) (w : WId) : TState :=
  { ts with nodes := (match ts.lastOf q w with
              | some p => clearLastN ts.nodes q p
              | none => ts.nodes),
            wx := setWX ts.wx q w (fun y => { y with last := none }) }

/-- `worker.setLastInvocation(i)` for the invocation at `p` of queue `tq` -/
def TState.setLast (ts : TState) (tq : ScqId) (q : ScqId) (w : WId) (p : List Nat) : TState :=
  { ts with nodes := setLastN ts.nodes tq p, wx := setWX ts.wx q w (fun y => { y with last := some p }) }

/-- `stickinessStartingTimes[i] = bq.now` for `i ≥ stickinessRetained` -/
def TState.setSticks (ts : TState) (q : ScqId) (w : WId) (retained : Nat) : TState :=
  { ts with wx := setWX ts.wx q w (fun y => { y with sticks := restick retained ts.s.now y.sticks }) }

/-- `getOrCreateInvocation` for the invocation of every operation of `t` (in `t`'s queue) -/
def TState.createOps (ts : TState) (t : Task) : TState :=
  { ts with nodes := t.ops.foldl (fun ns o => getOrCreate ns t.scq (ts.invOf o) ts.s.now) ts.nodes }

def TState.create (ts : TState) (q : ScqId) (p : List Nat) : TState :=
  { ts with nodes := getOrCreate ts.nodes q p ts.s.now }

def TState.setOX (ts : TState) (o : Nat) (y : OX) : TState := { ts with ox := aset o y ts.ox }
def TState.dropOX (ts : TState) (o : Nat) : TState := { ts with ox := aerase o ts.ox }
def TState.setTX (ts : TState) (t : Nat) (y : TX) : TState := { ts with tx := aset t y ts.tx }
def TState.dropTX (ts : TState) (t : Nat) : TState := { ts with tx := aerase t ts.tx }
def TState.qtsOf (ts : TState) (t : Nat) : Nat := match alookup t ts.tx with | some y => y.qts | none => 0
def TState.log (ts : TState) (d : Decision) : TState := { ts with decisions := d :: ts.decisions }

/-! ## `worker.wakeUp`, `assignUnqueuedTask` -/

/-- `worker.wakeUp`: close the channel (`Sched.wakeWorker`) and dequeue -/
def tWake (ts : TState) (w : Worker) : TState := (ts.unparkTree w.scq w.id).setS (wakeWorker ts.s w)

/-- tree part of `worker.assignUnqueuedTask` for a real worker: increment, `clearLastInvocation`,
stickiness starting times -/
def TState.assignTree (ts : TState) (w : Worker) (t : Task) (retained : Nat) : TState :=
  (((ts.incOps t (some w.id)).clearLast w.scq w.id).setSticks w.scq w.id retained)

/-- `worker.assignUnqueuedTask` for a real worker -/
def tAssignTo (ts : TState) (w : Worker) (t : Task) (retained : Nat) : M TState := do
  let s ← assignTo ts.s w t
  return (ts.assignTree w t retained).setS s

/-! ## `task.schedule` -/

/-- `task.schedule`: the set of parked workers the task may be handed to is computed from the tree;
the observed hand-off (`hintedWorker`) must be in it. -/
def tSchedule (h : Hints) (ts : TState) (tid : Nat) : M TState := do
  let some t := ts.s.task? tid | throw "schedule: no task"
  if anyParked ts.s t.scq then
    let some w := hintedWorker h ts.s t | throw "mismatch: parked worker exists but task was not handed to one"
    if !w.parked then throw "mismatch: task handed to a worker that was not parked"
    if !(handoffAdm ts.nodes t.scq (t.ops.map ts.invOf)).contains w.id then
      throw "mismatch: task handed to a parked worker outside the admissible set (C04)"
    -- assignUnqueuedTaskAndWakeUp: wake first, then assign
    let ts := tWake (ts.log (.handoff w.scq w.id t.id ts.nodes (t.ops.map ts.invOf))) w
    let some w := ts.s.worker? w.scq w.id | throw "schedule: worker vanished"
    tAssignTo ts w t 0
  else
    if !(handoffAdm ts.nodes t.scq (t.ops.map ts.invOf)).isEmpty then
      throw "tree: a worker is parked in the invocation tree but not in the worker table"
    return (ts.enqOps t).setS (ts.s.setTask { t with queued := true })

/-! ## `task.complete` -/

def queuedHere (ns : List Node) (q : ScqId) (p : List Nat) : Nat :=
  match node? ns q p with | some n => n.qops.length | none => 0

/-- the task after the "assigned to a temporary worker / detached from the real worker" prefix of
`Sched.complete` -/
def detachT (t : Task) : Task :=
  { (if t.worker.isNone then bumpGen { t with queued := false, retry := 0 } else t) with worker := none }

/-- the state after clearing the worker's `currentTask` in `Sched.complete` -/
def detachW (s : State) (t : Task) : State :=
  match t.worker with
  | some (q, w) => match s.worker? q w with
    | some wk => s.setWorker { wk with task := none }
    | none => s
  | none => s

/-- tree part of the stage switch of `task.complete`.  QUEUED: a temporary worker is assigned the task
(`assignQueuedTask`: increment, dequeue every operation); EXECUTING: `setLastInvocation` (lowest common
ancestor of the task's invocations when completed by the worker, else the root).  Then
`for i := range t.operations { i.decrementExecutingWorkersCount(bq, t.currentWorker) }`. -/
def TState.detachTree (ts : TState) (t : Task) (byWorker : Bool) : TState :=
  match t.worker with
  | none => (((ts.incOps t none).deqOps t).decOps t none)
  | some (q, w) =>
    (ts.setLast t.scq q w (if byWorker then lcp (t.ops.map ts.invOf) else [])).decOps t (some w)

/-- success branch of `task.complete` (`ts.s`, `t` = detached state / task) -/
def tCompleteSucc (h : Hints) (x : Extras) (ts : TState) (t : Task) (learner : Nat) (r : Resp) : M TState := do
  let s := emit ts.s (.learnerSucceeded learner (if h.bg.isSome then some ts.s.nextLearner else none))
  let t := { t with learner := none }
  let s ← complete.finalize s t r
  match h.bg with
  | none => return ts.setS s
  | some bgIdx =>
    let bl := s.nextLearner
    let s := { s with nextLearner := bl + 1 }
    let some pq := s.pq? t.scq.pq | throw "complete: no platform queue"
    if pq.bgMax = 0 then return ts.setS (emit s (.learnerAbandoned bl))
    let sizes := s.sizes t.scq.pq
    let some bsc := sizes[min bgIdx (sizes.length - 1)]? | throw "platform queue without size classes"
    -- `backgroundSCQ.getOrCreateInvocation(bq, BackgroundLearningKeys)`
    let ts := ts.create ⟨t.scq.pq, bsc⟩ [0]
    if decide (countQueuedBackground s ⟨t.scq.pq, bsc⟩ ≥ pq.bgMax) ≠ decide (queuedHere ts.nodes ⟨t.scq.pq, bsc⟩ [0] ≥ pq.bgMax) then
      throw "tree: queued operations of the background learning invocation differ from the queued background tasks"
    if countQueuedBackground s ⟨t.scq.pq, bsc⟩ ≥ pq.bgMax then return ts.setS (emit s (.learnerAbandoned bl))
    let opn := s.nextOp
    let bt : Task := { id := s.nextTask, digest := t.digest, dkey := t.dkey, doNotCache := true, scq := ⟨t.scq.pq, bsc⟩, ops := [opn], worker := none, retry := 0, response := none, gen := 0, learner := some bl, background := true, queued := false }
    let bo : Op := { name := opn, task := bt.id, inv := [0], prio := pq.bgPrio, waiters := 0, mayExistWithoutWaiters := true }
    let s := { s with nextTask := s.nextTask + 1, nextOp := opn + 1 }
    let s := (s.setTask bt).setOp bo
    tSchedule h (((ts.setOX opn ⟨[0], pq.bgPrio⟩).setTX bt.id ⟨x.bgDur, ts.qtsOf t.id⟩).setS s) bt.id

/-- retry branch of `task.complete`: transplant every operation to the largest size class
(`getOrCreateInvocation` with the same keys) and reschedule -/
def tCompleteRetry (h : Hints) (x : Extras) (ts : TState) (t : Task) (learner : Nat) (r : Resp) : M TState := do
  let s := ts.s
  let nl := s.nextLearner
  let s := emit { s with nextLearner := nl + 1 } (.learnerFailed learner (r.code = cDeadlineExceeded) (some nl))
  let t := { t with learner := some nl, scq := largestScq s t.scq }
  let s := s.setTask t
  let ts ← tSchedule h (((ts.setTX t.id ⟨x.retryDur, ts.qtsOf t.id⟩).setS s).createOps t) t.id
  let some t := ts.s.task? t.id | throw "complete: task vanished"
  return ts.setS (ts.s.setTask (bumpGen t))

/-- `task.complete(executeResponse, completedByWorker)`. -/
def tComplete (h : Hints) (x : Extras) (ts : TState) (tid : Nat) (r : Resp) (byWorker : Bool) : M TState := do
  let some t := ts.s.task? tid | throw "complete: no task"
  if t.response.isSome then return ts            -- COMPLETED: nothing to do
  let some learner := t.learner | throw "complete: task without learner"
  let ts := (ts.detachTree t byWorker).setS (detachW ts.s t)
  let t := detachT t
  if r.code = cOK ∧ r.exit = 0 then tCompleteSucc h x ts t learner r
  else if byWorker then
    if h.retry then tCompleteRetry h x ts t learner r
    else
      return ts.setS (← complete.finalize (emit ts.s (.learnerFailed learner (r.code = cDeadlineExceeded) none)) { t with learner := none } r)
  else
    return ts.setS (← complete.finalize (emit ts.s (.learnerAbandoned learner)) { t with learner := none } r)

/-! ## removing operations, workers, queues -/

/-- tree part of `operation.remove` for an operation of a task that has other operations -/
def TState.removeOpTree (ts : TState) (t : Task) (o : Nat) : TState :=
  match t.response, t.worker with
  | some _, _ => ts
  | none, some (_, w) => { ts with nodes := decExecR ts.legacyPrio ts.prioOf ts.nodes t.scq (ts.invOf o) (some w) ts.s.now }
  | none, none =>
    { ts with nodes := pruneChain (removeQueuedOp ts.prioOf ts.nodes t.scq (ts.invOf o) o) t.scq (ups (ts.invOf o)) }

/-- `operation.remove` (cleanup callback). -/
def tRemoveOp (h : Hints) (x : Extras) (ts : TState) (o : Nat) : M TState := do
  let some op := ts.s.op? o | return ts
  let ts := ts.setS { ts.s with ops := aerase o ts.s.ops }
  let some t := ts.s.task? op.task | throw "removeOp: no task"
  let ts ← if t.ops.length = 1 then
      tComplete h x ts t.id ⟨cCanceled, 0, 0, .noWaiters⟩ false
    else pure (ts.removeOpTree t o)
  let some t := ts.s.task? op.task | throw "removeOp: no task"
  let t := { t with ops := t.ops.filter (· ≠ o) }
  -- `delete(t.operations, o.invocation)`
  if t.ops.isEmpty then return ((ts.dropOX o).dropTX t.id).setS { ts.s with tasks := aerase t.id ts.s.tasks }
  return (ts.dropOX o).setS (ts.s.setTask t)

/-- `rootInvocation.cancelAllQueuedOperations` -/
def tCancelAllQueued (h : Hints) (x : Extras) (ts : TState) (q : ScqId) (r : Resp) : M TState := do
  let ids := (ts.s.tasks.filter (fun p => p.2.scq = q ∧ p.2.queued ∧ p.2.response.isNone ∧ p.2.worker.isNone)).map (·.1)
  ids.foldlM (fun ts t => tComplete h x ts t r false) ts

/-- the tree of a removed queue goes with it -/
def TState.dropScqTree (ts : TState) (q : ScqId) : TState :=
  { ts with nodes := ts.nodes.filter (fun n => n.scq ≠ q) }
def TState.dropLimits (ts : TState) (pq : Nat) : TState := { ts with limits := aerase pq ts.limits }

/-- `sizeClassQueue.remove` (cleanup callback). -/
def tRemoveScq (h : Hints) (x : Extras) (ts : TState) (q : ScqId) : M TState := do
  let ts ← tCancelAllQueued h x ts q ⟨cUnavailable, 0, 0, .queueRemoved⟩
  -- cross-check: the removal of a queue is only scheduled while it has no workers, and the entry is
  -- withdrawn when a worker appears (`Sched.lean` does not rely on this, the tree layer does)
  if ts.s.workers.any (fun y => y.scq = q) then throw "tree: a size-class queue that still has workers is removed"
  let s := { ts.s with scqs := ts.s.scqs.filter (fun y => y.id ≠ q) }
  if s.scqs.any (fun y => y.id.pq = q.pq) then return (ts.dropScqTree q).setS s
  return ((ts.dropScqTree q).dropLimits q.pq).setS { s with pqs := s.pqs.filter (fun p => p.id ≠ q.pq) }

/-- `w.clearLastInvocation(); delete(scq.workers, workerKey)` -/
def TState.dropWorkerTree (ts : TState) (q : ScqId) (w : WId) : TState :=
  let ts := ts.clearLast q w
  { ts with wx := ts.wx.filter (fun y => ¬ (y.scq = q ∧ y.id = w)) }

/-- `sizeClassQueue.removeStaleWorker` (cleanup callback). -/
def tRemoveStaleWorker (h : Hints) (x : Extras) (ts : TState) (q : ScqId) (w : WId) (removalTime : Nat) : M TState := do
  let some wk := ts.s.worker? q w | return ts
  -- cross-check: the removal of a worker is only scheduled while it is outside `Synchronize`
  -- (`Sched.lean` does not rely on this, the tree layer does: the worker is in no `idleSynchronizingWorkers`)
  if wk.parked then throw "tree: a worker that is parked inside Synchronize is removed"
  let ts ← match wk.task with
    | some t => tComplete h x ts t ⟨cUnavailable, 0, 0, .workerDisappeared⟩ false
    | none => pure ts
  let s := { ts.s with workers := ts.s.workers.filter (fun y => ¬ (y.scq = q ∧ y.id = w)) }
  let ts := (ts.dropWorkerTree q w).setS s
  match s.scq? q with
  | some sq =>
    if !s.workers.any (fun y => y.scq = q) ∧ sq.mayBeRemoved
    then return ts.setS (s.addCleanup (removalTime + s.cfg.pqTimeout) (.scq q)) else return ts
  | none => return ts

/-- `cleanupQueue.run(now)` -/
def tRunCleanup (h : Hints) (x : Extras) : Nat → TState → M TState
  | 0, ts => pure ts
  | fuel + 1, ts =>
    match popDue ts.s.now ts.s.cleanup with
    | none => pure ts
    | some (e, rest) => do
      let ts := ts.setS { ts.s with cleanup := rest }
      let ts ← match e.kind with
        | .worker q w => tRemoveStaleWorker h x ts q w e.deadline
        | .op o => tRemoveOp h x ts o
        | .scq q => tRemoveScq h x ts q
      tRunCleanup h x fuel ts

/-- `bq.enter(t)` -/
def tEnter (h : Hints) (x : Extras) (ts : TState) (t : Nat) : M TState :=
  if t > ts.s.now then tRunCleanup h x (cleanupFuel ts.s) (ts.setS { ts.s with now := t }) else pure ts

/-! ## RPC segments -/

/-- `Execute` after `bq.enter`: the request is deduplicated against task `t`. -/
def tExecDedup (ts : TState) (c : Nat) (tid : Nat) (t : Task) (inv : List Nat) (prio : Int) : M TState := do
  let s := emit ts.s .selAbandoned
  -- `scq.getOrCreateInvocation(bq, invocationKeys)`
  let ts := ts.create t.scq inv
  match t.ops.find? (fun o => match s.op? o with | some op => op.inv = inv | none => false) with
  | some o => return ts.setS (← streamAttach s c o)
  | none =>
    if t.response.isSome then throw "Task in unexpected stage"
    let opn := s.nextOp
    let s := { s with nextOp := opn + 1 }
    let s := s.setOp { name := opn, task := tid, inv := inv, prio := prio, waiters := 0, mayExistWithoutWaiters := false }
    let s := s.setTask { t with ops := t.ops ++ [opn] }
    let ts := ts.setOX opn ⟨inv, prio⟩
    -- QUEUED: `o.enqueue()`; EXECUTING: `i.incrementExecutingWorkersCount(bq, t.currentWorker)`
    let ts := match t.worker with
      | some (_, w) => { ts with nodes := incExecR ts.legacyPrio ts.prioOf ts.nodes t.scq inv (some w) ts.s.now }
      | none => { ts with nodes := enqueueOp ts.prioOf ts.nodes t.scq inv opn }
    return ts.setS (← streamAttach s c opn)

/-- `Execute`, from `bq.enter` to the first park (or return). -/
def tExecArrive (h : Hints) (x : Extras) (ts : TState) (now c digest dkey : Nat) (dnc : Bool) (comps : List Nat)
    (platform : Nat) (inv : List Nat) (prio : Int) : M TState := do
  let ts ← tEnter h x ts now
  let s := ts.s
  match alookup dkey s.dedup with
  | some tid =>
    let some t := s.task? tid | throw "dedup map points to a missing task"
    tExecDedup ts c tid t inv prio
  | none =>
    match route s comps platform with
    | none =>
      let s := emit s .selAbandoned
      return ts.setS (emit s (.ret c (if s.now < s.cfg.hardFailTime then cUnavailable else cFailedPrecondition)))
    | some pq =>
      let sizes := s.sizes pq.id
      let some sc := sizes[min h.sel (sizes.length - 1)]? | throw "platform queue without size classes"
      let l := s.nextLearner
      let s := emit { s with nextLearner := l + 1 } (.selSelect l)
      let tid := s.nextTask
      let opn := s.nextOp
      let t : Task := { id := tid, digest := digest, dkey := dkey, doNotCache := dnc, scq := ⟨pq.id, sc⟩, ops := [opn], worker := none, retry := 0, response := none, gen := 0, learner := some l, background := false, queued := false }
      let s := { s with nextTask := tid + 1, nextOp := opn + 1 }
      let s := if dnc then s else { s with dedup := aset dkey tid s.dedup }
      let s := (s.setTask t).setOp { name := opn, task := tid, inv := inv, prio := prio, waiters := 0, mayExistWithoutWaiters := false }
      let ts := (((ts.setOX opn ⟨inv, prio⟩).setTX tid ⟨x.selDur.getD (min h.sel (sizes.length - 1)) 0, s.now⟩).setS s).create ⟨pq.id, sc⟩ inv
      let ts ← tSchedule h ts tid
      return ts.setS (← streamAttach ts.s c opn)

/-- `WaitExecution` by name. -/
def tWaitArrive (h : Hints) (x : Extras) (ts : TState) (now c name : Nat) : M TState := do
  let ts ← tEnter h x ts now
  match ts.s.op? name with
  | none => return ts.setS (emit ts.s (.ret c cNotFound))
  | some _ => return ts.setS (← streamAttach ts.s c name)

/-- a parked stream continues. -/
def tStreamWake (h : Hints) (x : Extras) (ts : TState) (now c reason : Nat) : M TState := do
  let ts ← tEnter h x ts now
  let s := ts.s
  let some st := s.streams.find? (fun y => y.client = c) | throw "mismatch: no such parked stream"
  if reason = 2 then return ts.setS (← streamLeave s c cCanceled)
  else
    if reason = 0 then
      let some op := s.op? st.op | throw "streamWake: no operation"
      let some t := s.task? op.task | throw "streamWake: no task"
      if t.gen = st.snap then throw "mismatch: stream woke up without a stage change"
    return ts.setS (← streamSend s c st.op)

/-- what `worker.assignNextQueuedTask` is given by the worker -/
def TState.view (ts : TState) (w : Worker) : Fair.WView :=
  { lastKeys := (ts.lastOf w.scq w.id).getD [],
    limits := ts.limitsOf w.scq.pq,
    starts := match ts.wx? w.scq w.id with | some y => y.sticks | none => [],
    now := ts.s.now }

/-- the documented admissible set (`Fair.specPick`) on the tree as it is now -/
def TState.admPick (ts : TState) (w : Worker) : List (Fair.Op × Nat) :=
  Fair.specPick (snapshot ts.opOf ts.nodes w.scq) (ts.view w)

/-- the member of the admissible set that hands out task `t` (with the observed `stickinessRetained`
when two operations of the task are admissible with different values) -/
def choosePick (x : Extras) (adm : List (Fair.Op × Nat)) (t : Task) : Option (Fair.Op × Nat) :=
  let mine := adm.filter (fun c => t.ops.contains c.1.id)
  match x.ret with
  | some r => (match mine.find? (fun c => c.2 = r) with | some c => some c | none => mine.head?)
  | none => mine.head?

/-- `worker.assignNextQueuedTask`: the observed pick must be in the admissible set. -/
def tAssignNext (h : Hints) (x : Extras) (ts : TState) (w : Worker) : M (TState × Bool) := do
  match h.assign.find? (fun a => a.1 = w.scq ∧ a.2.1 = w.id) with
  | some a =>
    let some t := (queuedTasks ts.s w.scq).find? (fun t => lowestOp t = a.2.2)
      | throw "mismatch: worker was given a task that is not queued in its size-class queue"
    let some c := choosePick x (ts.admPick w) t
      | throw "mismatch: worker was given a queued task outside the admissible set (C04)"
    let ts := ts.log (.pick w.scq w.id t.id (snapshot ts.opOf ts.nodes w.scq) (ts.view w) c.1 c.2)
    -- assignQueuedTask: assign, dequeue every operation, report a non-final stage change
    let ts ← tAssignTo ts w t c.2
    let ts := ts.deqOps t
    let some t := ts.s.task? t.id | throw "assignNext: task vanished"
    return (ts.setS (ts.s.setTask (bumpGen t)), true)
  | none =>
    if (queuedTasks ts.s w.scq).isEmpty then
      if !(ts.admPick w).isEmpty then throw "tree: operations are queued in the invocation tree but no task is queued"
      return (ts, false)
    throw "mismatch: tasks are queued but the worker was not given one"

/-- `getNextTask`, up to the point where the call returns or blocks. -/
def tGetNextTask (h : Hints) (x : Extras) (ts : TState) (q : ScqId) (w : WId) (preferIdle block : Bool) : M TState := do
  let some wk := ts.s.worker? q w | throw "getNextTask: no worker"
  let some sq := ts.s.scq? q | throw "getNextTask: no queue"
  if preferIdle then return ts.setS (syncReturn (emit ts.s (.syncIdle q w ts.s.now)) q w)
  let drained := isDrained sq wk
  if !drained then
    let (ts, got) ← tAssignNext h x ts wk
    let s := ts.s
    if got then
      let some wk := s.worker? q w | throw "getNextTask: worker vanished"
      return ts.setS (syncReturn (← execResponse s wk) q w)
    if !block then return ts.setS (syncReturn (emit s (.syncIdle q w s.now)) q w)
    -- park as idle synchronizing worker of the last invocation
    let some wk := s.worker? q w | throw "getNextTask: worker vanished"
    if wk.parked then throw "Worker is already queued"
    return (ts.parkTree q w).setS (s.setWorker { wk with parked := true, woken := false, timer := some (wk.timer.getD (s.now + s.cfg.idleInterval)) })
  else
    if !block then return ts.setS (syncReturn (emit ts.s (.syncIdle q w ts.s.now)) q w)
    return ts.setS (ts.s.setWorker { wk with drainWait := some sq.undrainGen, timer := some (wk.timer.getD (ts.s.now + ts.s.cfg.idleInterval)) })

/-- `getCurrentOrNextTask`. -/
def tGetCurrentOrNext (h : Hints) (x : Extras) (ts : TState) (q : ScqId) (w : WId) (preferIdle block : Bool) : M TState := do
  let s := ts.s
  let some wk := s.worker? q w | throw "getCurrentOrNext: no worker"
  match wk.task with
  | some tid =>
    let some t := s.task? tid | throw "worker points to a missing task"
    if t.retry < s.cfg.retryCount then
      let s := s.setTask { t with retry := t.retry + 1 }
      return ts.setS (syncReturn (emit s (.syncExecute q w t.digest (s.now + s.cfg.busyInterval))) q w)
    let ts ← tComplete h x ts tid ⟨cInternal, 0, 0, .retryLimit⟩ false
    tGetNextTask h x ts q w preferIdle block
  | none => tGetNextTask h x ts q w preferIdle block

/-- `addSizeClassQueue` (and `addPlatformQueue(platformKey, nil, 0, 0)` for an unknown platform): the new
queue starts with its root invocation -/
def TState.addScqTree (ts : TState) (q : ScqId) : TState :=
  { ts with nodes := ts.nodes ++ [mkNode q [] 0],
            limits := if (ts.s.pq? q.pq).isSome then ts.limits else aset q.pq [] ts.limits }

/-- first part of `Synchronize`: find or create the size-class queue (with its root invocation). -/
def tSyncQueue (ts : TState) (q : ScqId) (comps : List Nat) (platform : Nat) (w : WId) : M (TState ⊕ TState) := do
  match ← syncQueue ts.s q comps platform w with
  | .inl s => return .inl (ts.setS s)
  | .inr s =>
    if (ts.s.scq? q).isSome then return .inr (ts.setS s)
    return .inr ((ts.addScqTree q).setS s)

/-- a new worker: `lastInvocation = &scq.rootInvocation`, `idleWorkersCount++`,
`stickinessStartingTimes = make([]time.Time, len(limits))` -/
def TState.addWorkerTree (ts : TState) (q : ScqId) (w : WId) : TState :=
  { ts with nodes := setLastN ts.nodes q [],
            wx := ts.wx ++ [{ scq := q, id := w, last := some [], sticks := List.replicate (ts.limitsOf q.pq).length 0 }] }

/-- second part: find or create the worker. -/
def tSyncWorker (ts : TState) (q : ScqId) (w : WId) : TState ⊕ TState :=
  match syncWorker ts.s q w with
  | .inl s => .inl (ts.setS s)
  | .inr s =>
    if (ts.s.worker? q w).isSome then .inr (ts.setS s)
    else .inr ((ts.addWorkerTree q w).setS s)

/-- `Synchronize`, from `bq.enter` to the first park (or return). -/
def tSyncArrive (h : Hints) (x : Extras) (ts : TState) (now : Nat) (q : ScqId) (comps : List Nat) (platform : Nat)
    (w : WId) (rep : Report) (preferIdle : Bool) : M TState := do
  let ts ← tEnter h x ts now
  match ← tSyncQueue ts q comps platform w with
  | .inl ts => return ts
  | .inr ts =>
  match tSyncWorker ts q w with
  | .inl ts => return ts
  | .inr ts =>
  let s := ts.s
  let some wk := s.worker? q w | throw "syncArrive: worker vanished"
  match rep with
  | .malformed => return ts.setS (syncReturn (emit s (.syncErr q w cInvalidArgument)) q w)
  | .idle => tGetCurrentOrNext h x ts q w preferIdle true
  | .executing d =>
    -- `isRunningCorrectTask`
    match wk.task with
    | some tid =>
      match s.task? tid with
      | some t =>
        if t.digest = d then return ts.setS (syncReturn (emit s (.syncNoChange q w (s.now + s.cfg.busyInterval))) q w)
        else tGetCurrentOrNext h x ts q w preferIdle false
      | none => tGetCurrentOrNext h x ts q w preferIdle false
    | none => tGetCurrentOrNext h x ts q w preferIdle false
  | .completed d r =>
    match wk.task with
    | some tid =>
      match s.task? tid with
      | some t =>
        if t.digest = d then do
          let ts ← tComplete h x ts tid r true
          tGetNextTask h x ts q w preferIdle true
        else tGetCurrentOrNext h x ts q w preferIdle true
      | none => tGetCurrentOrNext h x ts q w preferIdle true
    | none => tGetCurrentOrNext h x ts q w preferIdle true

/-- `worker.maybeDequeue` (tree part) -/
def TState.maybeDequeue (ts : TState) (wk : Worker) : TState :=
  if wk.parked then ts.unparkTree wk.scq wk.id else ts

/-- a blocked `Synchronize` continues. -/
def tSyncWake (h : Hints) (x : Extras) (ts : TState) (now : Nat) (q : ScqId) (w : WId) (reason : Nat) : M TState := do
  let ts ← tEnter h x ts now
  let s := ts.s
  let some wk := s.worker? q w | throw "mismatch: no such worker"
  if !wk.inSync then throw "mismatch: worker is not inside Synchronize"
  match reason with
  | 1 =>
    let s := s.setWorker { wk with parked := false, woken := false, drainWait := none }
    if wk.task.isSome then return (ts.maybeDequeue wk).setS (syncReturn (← execResponse s wk) q w)
    return (ts.maybeDequeue wk).setS (syncReturn (emit s (.syncIdle q w s.now)) q w)
  | 2 =>
    let s := s.setWorker { wk with parked := false, woken := false, drainWait := none }
    return (ts.maybeDequeue wk).setS (syncReturn (emit s (.syncErr q w cCanceled)) q w)
  | 0 =>
    if !wk.woken then throw "mismatch: worker woke up although its wakeup channel is open"
    let s := s.setWorker { wk with woken := false }
    if wk.task.isSome then return ts.setS (syncReturn (← execResponse s wk) q w)
    tGetNextTask h x (ts.setS s) q w false true
  | 3 =>
    let some sq := s.scq? q | throw "syncWake: no queue"
    match wk.drainWait with
    | some g =>
      if g = sq.undrainGen then throw "mismatch: worker woke up without an undrain"
      let s := s.setWorker { wk with drainWait := none }
      tGetNextTask h x (ts.setS s) q w false true
    | none => throw "mismatch: worker is not waiting for an undrain"
  | _ => throw "bad-op"

def tKillOp (h : Hints) (x : Extras) (ts : TState) (now name code : Nat) : M TState := do
  let ts ← tEnter h x ts now
  match ts.s.op? name with
  | none => return ts.setS (emit ts.s (.opErr cNotFound))
  | some op =>
    let ts ← tComplete h x ts op.task ⟨code, 0, 0, .killed⟩ false
    return ts.setS (emit ts.s .opOk)

def tKillQueue (h : Hints) (x : Extras) (ts : TState) (now : Nat) (q : ScqId) (code : Nat) : M TState := do
  let ts ← tEnter h x ts now
  match ts.s.scq? q with
  | none => return ts.setS (emit ts.s (.opErr cNotFound))
  | some _ =>
    if ts.s.workers.any (fun w => w.scq = q) then return ts.setS (emit ts.s (.opErr cFailedPrecondition))
    let ts ← tCancelAllQueued h x ts q ⟨code, 0, 0, .killed⟩
    return ts.setS (emit ts.s .opOk)

def tAddDrain (h : Hints) (x : Extras) (ts : TState) (now : Nat) (q : ScqId) (p : Pattern) : M TState := do
  let ts ← tEnter h x ts now
  match ts.s.scq? q with
  | none => return ts.setS (emit ts.s (.opErr cNotFound))
  | some sq =>
    let ts := ts.setS (ts.s.setScq { sq with drains := if sq.drains.contains p then sq.drains else sq.drains ++ [p] })
    let ts := ts.s.workers.foldl (fun ts w => if w.scq = q ∧ w.parked ∧ p.matches w.id then tWake ts w else ts) ts
    return ts.setS (emit ts.s .opOk)

def tRemoveDrain (h : Hints) (x : Extras) (ts : TState) (now : Nat) (q : ScqId) (p : Pattern) : M TState := do
  let ts ← tEnter h x ts now
  match ts.s.scq? q with
  | none => return ts.setS (emit ts.s (.opErr cNotFound))
  | some sq =>
    let s := ts.s.setScq { sq with drains := sq.drains.filter (· ≠ p), undrainGen := sq.undrainGen + 1 }
    return ts.setS (emit s .opOk)

/-- one iteration of the loop of `TerminateWorkers` -/
def tTerminateOne (ts : TState) (w : Worker) : TState :=
  match ts.s.worker? w.scq w.id with
  | some w =>
    let ts := ts.setS (ts.s.setWorker { w with terminating := true })
    if w.task.isNone ∧ w.parked then
      match ts.s.worker? w.scq w.id with | some w' => tWake ts w' | none => ts
    else ts
  | none => ts

def tTerminate (h : Hints) (x : Extras) (ts : TState) (now id : Nat) (p : Pattern) : M TState := do
  let ts ← tEnter h x ts now
  let matching := ts.s.workers.filter (fun w => p.matches w.id)
  let ts := matching.foldl tTerminateOne ts
  let s := ts.s
  let waits := matching.filterMap (fun w => match w.task with
    | some t => match s.task? t with | some tk => some (t, tk.gen) | none => none
    | none => none)
  if waits.isEmpty then return ts.setS (emit s (.termRet id cOK))
  return ts.setS { s with terms := ⟨id, waits⟩ :: s.terms }

def tTermWake (ts : TState) (id reason : Nat) : M TState := do
  return ts.setS (← termWake ts.s id reason)

/-- `RegisterPredeclaredPlatformQueue`: every size-class queue starts with its root invocation. -/
def tRegisterPQ (x : Extras) (ts : TState) (id : Nat) (comps : List Nat) (platform : Nat) (sizes : List Nat) (bgMax : Nat)
    (bgPrio : Int) : TState :=
  { ts with s := registerPQ ts.s id comps platform sizes bgMax bgPrio,
            nodes := ts.nodes ++ sizes.map (fun sc => mkNode ⟨id, sc⟩ [] 0),
            limits := aset id x.stick ts.limits }

/-- `RegisterPredeclaredPlatformQueue` rejects a platform key that already exists (`AlreadyExists`) and
size-class lists that are not strictly increasing (`InvalidArgument`; only distinctness matters here).
`Model/Sched.lean` leaves this to its environment. -/
def registerOK (ts : TState) (id : Nat) (sizes : List Nat) : Bool :=
  ts.s.scqs.all (fun sq => decide (sq.id.pq ≠ id)) && decide sizes.Nodup

/-! ## steps and runs -/

/-- a segment of the tree layer: a `Sched.Seg` plus the answers `Sched.lean` has no use for -/
structure TSeg where
  seg : Seg
  x : Extras := {}

def tstep (ts : TState) (g : TSeg) : M TState :=
  match g.seg with
  | .register id comps platform sizes bgMax bgPrio =>
    if registerOK ts id sizes then pure (tRegisterPQ g.x ts id comps platform sizes bgMax bgPrio)
    else throw "register: the platform queue exists already or the size classes are not distinct"
  | .exec h now c d dk dnc comps platform inv prio => tExecArrive h g.x ts now c d dk dnc comps platform inv prio
  | .wait h now c name => tWaitArrive h g.x ts now c name
  | .streamWake h now c reason => tStreamWake h g.x ts now c reason
  | .sync h now q comps platform w rep pi => tSyncArrive h g.x ts now q comps platform w rep pi
  | .syncWake h now q w reason => tSyncWake h g.x ts now q w reason
  | .killOp h now name code => tKillOp h g.x ts now name code
  | .killQueue h now q code => tKillQueue h g.x ts now q code
  | .addDrain h now q p => tAddDrain h g.x ts now q p
  | .removeDrain h now q p => tRemoveDrain h g.x ts now q p
  | .terminate h now id p => tTerminate h g.x ts now id p
  | .termWake id reason => tTermWake ts id reason
  | .touch h now => tEnter h g.x ts now

def trun (ts : TState) : List TSeg → TState
  | [] => ts
  | g :: rest =>
    match tstep ts g with
    | .ok ts' => trun ts' rest
    | .error _ => trun ts rest

inductive TReachable : TState → Prop
  | init (cfg : Cfg) : TReachable (TState.init cfg)
  | step {ts ts' : TState} (g : TSeg) : TReachable ts → tstep ts g = .ok ts' → TReachable ts'

theorem treachable_run {ts : TState} (hs : TReachable ts) (gs : List TSeg) : TReachable (trun ts gs) := by
  induction gs generalizing ts with
  | nil => exact hs
  | cons g rest ih =>
    unfold trun
    split
    · rename_i ts' h; exact ih (TReachable.step g hs h)
    · exact ih hs

end BbRe.SchedTree
